#!/usr/bin/env python3
"""regenerate MANIFEST.json from the table below (run from /verif)"""
import json
from pathlib import Path

V = Path(__file__).resolve().parent.parent
ALL = [json.loads(l)["id"] for l in (V / "properties.jsonl").read_text().splitlines() if l.strip()]

NOTE = ("Trusted: Lean 4.33 kernel + axioms propext/Classical.choice/Quot.sound (audited per theorem on every run, no "
        "native_decide/bv_decide/sorry); the hand-written model is tied to /repo only by this run's correspondence "
        "(real code vs compiled model on the same cases); CPython/stdlib semantics re-expressed in the model. ")

CHECKS = {
    "C07": dict(
        text="Theorem C07_rmslice_spec (all WF testcases, all integer/None bounds with clamp a <= clamp b): rmslice removes exactly the reducible atoms of rank [a',b'), keeps everything else, length drops by b'-a'; C07_clamp, C07_len_counts. Tied to testcases.py by exhaustive differential execution of copy()+rmslice() vs the model over all layouts <= 7/8 and all index pairs around the range, plus an independent monitor as failing-input search.",
        note=NOTE + "The aliasing clause ('a copy is independent') rests on the monitor only.",
        technique="Lean 4 proof (induction over lists, index translation lemma) + exhaustive model/code correspondence",
        ref="§4 C07"),
}

NA_REASON = {}


def main():
    checks = []
    for pid in ALL:
        if pid not in CHECKS:
            continue
        c = CHECKS[pid]
        checks.append(dict(
            property_id=pid,
            quick_cmd=f"./check {pid} --tier quick",
            thorough_cmd=f"./check {pid} --tier thorough",
            evidence_file=f"evidence/{pid}.json",
            replay_cmd_template="./check replay {path}",
            engine="lean-model+correspondence",
            level_claimed=dict(category="proof", text=c["text"], design_ref=c["ref"]),
            level_note=c["note"],
            technique=c["technique"],
        ))
    na = [dict(property_id=p, reason=NA_REASON.get(p, "check not built yet in this round; planned in DESIGN.md §4 (not claimed until its theorems and correspondence exist)"))
          for p in ALL if p not in CHECKS]
    hooks = json.loads((V / "tools" / "hooks.json").read_text()) if (V / "tools" / "hooks.json").exists() else {}
    m = dict(
        version=1,
        setup_cmd="cd lean && lake build",
        hooks=dict(guard="LITHIUM_VERIF", enable="no source hooks are needed: every observation point is reachable from outside (scripted interestingness modules, subclassing, patching inside the harness process); LITHIUM_VERIF is reserved and unused",
                   baseline_off_cmd="cd /repo && /venv/bin/python -m pytest -ra -q -p no:cacheprovider --timeout=900 --continue-on-collection-errors",
                   source_commits=[], add_only=True),
        engines=[dict(name="lean-model+correspondence", path="lean/ harness/ check",
                      serves_properties=[c["property_id"] for c in checks],
                      kind_free_text="Lean 4 model + theorems (lake build, #print axioms audit) tied to /repo by differential execution against the compiled model driver; property monitors as failing-input search")],
        checks=checks,
        notes="fix: commits in /repo are listed in known_findings.json (status fixed). Exit 2 = harness problem (never a verdict).",
        not_applicable=na,
    )
    (V / "MANIFEST.json").write_text(json.dumps(m, indent=1) + "\n")
    print("checks:", [c["property_id"] for c in checks], "not claimed:", len(na))


if __name__ == "__main__":
    main()
