#!/usr/bin/env python3
"""regenerate MANIFEST.json from the table below (run from /verif)"""
import json
from pathlib import Path

V = Path(__file__).resolve().parent.parent
ALL = [json.loads(l)["id"] for l in (V / "properties.jsonl").read_text().splitlines() if l.strip()]

NOTE = ("Trusted: Lean 4.33 kernel + axioms propext/Classical.choice/Quot.sound (audited per theorem on every run, no "
        "native_decide/bv_decide/sorry); the hand-written model is tied to /repo only by this run's correspondence "
        "(real code vs compiled model on the same cases); CPython/stdlib semantics re-expressed in the model. ")

CHECKS = {
    "C17": dict(
        text="The option tables of Lithium's two argparse parsers are REGENERATED from the live parser objects on every run (lean/Generated/CmdlineTable.lean). Theorems: C17_generated_wf (decide: every generated table has a single REMAINDER positional — changing nargs breaks this obligation), C17_tail_isolation (for EVERY table of that shape, every sequence of option blocks before the first non-option token and EVERY tail: the namespace and any error are independent of the tail and the tail is handed over verbatim), C17_name_is_positional, C17_early_never_ambiguous, C17_syspath_script (after fix 48933b6: if the imported test script prepends P and appends Q to sys.path, what is left is P ++ before ++ Q — Lithium's temporary entry is gone wherever the script put its own), C17_testcase_choice, C17_import_order, C17_syspath; recorded findings as theorems: C17_early_swallow_counterexample, C17_tail_ambiguous_counterexample. The argparse port is tied to CPython's argparse + process_args by differential execution on argv = pre x name x tail (attached, two-token, abbreviated, clustered, invalid options; hostile tails); resolution order and sys.path on real directories.",
        note=NOTE + "The port of argparse 3.12 is a model of a library validated only by the correspondence; the import system is modelled abstractly. Three recorded findings (early-parser swallow, ambiguous prefix in the tail, importable stem).",
        technique="table regeneration from live parsers + Lean 4 proof (locality of option blocks, induction over blocks) + differential execution of process_args",
        ref="§4 C17"),
    "C16": dict(
        text="Theorems on the Lean models of TestcaseJsStr / TestcaseAttrs.split_parts: C16_js_exact (the reducible JS atoms WITH THEIR BYTE OFFSETS in the file are EXACTLY the string characters of the reference segmentation Js.specJs — find the next quote; if the body behind it has a closing quote its tokens are string characters, the quotes and the text outside are not; if the data ends first the quote is ordinary text and the search resumes right behind it — proved through the scanner's back-tracking on an unterminated quote (rewind to the last opening quote), the header/footer cut and the gap merge: LithiumProofs/SplitJsSpec.lean, outer_spec + mergeLoop_sp + splitJs_spans), C16_js_partition, C16_js_token_progress, C16_js_tokens (every reducible JS atom is one token of the escape grammar, never a fragment of an escape), C16_attrs_partition (parts partition the data, are non-empty, one flag each; never raises), C16_attrs_shape (every reducible attribute atom is one complete attribute: leading whitespace, name, then nothing / '=' quoted value through its first closing quote / '=' unquoted value without whitespace or '>'), C16_attrs_in_tag (every reducible attribute atom lies inside a tag: preceded by a part that ends in '<', optional whitespace, a tag name, with only complete attributes and '>'-free text in between). The Lean reference segmentation is itself compared, on every run, with an independently written Python reference tokenizer (driver command jsspec) on every string up to length 5/6 over adversarial alphabets plus grammar-directed and marker-bearing streams; the splitter models are tied to the code field by field on the same inputs; atoms are also checked through the brace collapse, through both rewriting strategies and on re-used loader objects. C16_attrs_not_continued (behind every reducible attribute atom that does not end with a quoted value the next part starts with white space or '>': an unquoted value or a value-less name is never cut short, also not at the end of the data).",
        note=NOTE + "The reference segmentation is a definition (25 lines of Lean, LithiumModel/JsSpec.lean) that a reader has to accept as the meaning of 'inside a properly terminated string'; its agreement with a second, independently written tokenizer is tested, not proved. Marker handling (DDBEGIN/DDEND around the JS region) is C05/C08.",
        technique="Lean 4 proof (refinement of the splitter state machines to a reference segmentation: simulation of the scanner by a greedy labelled pass, rewind lemma, offset-preserving gap merge; shape and in-tag invariants for attributes) + exhaustive short-string correspondence + independent reference tokenizer",
        ref="§4 C16"),
    "C05": dict(
        text="Theorems C05_load_frame (for every splitter without header/footer: before = lines through the DDBEGIN line, after = lines from the DDEND line), C05_char_byte (char mode moves the last region byte, unchanged, in front of the suffix), C05_content_frame, C05_frame_minimize and C05_frame_pairs (every proposal and the final best of minimize / minimize-around / minimize-balanced keep before and after, for every test, clock and option setting; the pair strategies through the generic closed-predicate invariant of the pass loop), C05_frame_move (minimize-balanced WITH the experimental move, modelled in PairsMove.lean: removals and both kinds of moves keep before and after), C05_frame_collapse_cond (minimize-collapse-brace keeps before and after in every proposal and in the final file IF the re-load of the collapsed text finds the same boundaries again; deletions never touch them — the recorded finding collapse-reload-boundary is an input on which the symbol loader does not, model counterexample C05_collapse_reload_counterexample). Tied to the code by loaders + all 7 strategies (+move) x 5 splitters on marker files with every terminator style; the monitor compares prefix/suffix (and the byte before DDEND in char mode) of every file presented to the test.",
        note=NOTE + "Brace collapsing (re-load of the collapsed text) and the two rewriting strategies: monitored on the real code, not proved.",
        technique="Lean 4 proof (load spec + frame invariant through the strategy loops) + differential execution on marker files",
        ref="§4 C05"),
    "C13": dict(
        text="Theorems C13_around_fixpoint and C13_balanced_fixpoint: for EVERY deterministic test f, min = 1, repeat last/always, no time limit, any max >= 1, any clock, every well-formed testcase with non-empty atoms — in the final testcase of minimize-around the test rejects the file without the two neighbours of every atom that has both; in the final testcase of minimize-balanced (>= 2 atoms left) it rejects the file without atom j when j is balanced and without j and its partner otherwise. C13_partner_characterised: the partner search returns exactly the first later atom at which the running balance of (), [], {} is back to zero with no kind negative in between. Proof: outer loop ends after a quiet pass at chunk size 1 (pairsOuter_last_pass), a quiet pass proposes every such deletion (aroundPass_quiet / balPass_quiet), the global invariant 'every content tried was rejected or is at least as long as the best' and non-empty atoms make a de-duplicated proposal a rejected one; termination from C09_bound_pairs. The literal reading of 'partner' (balance may have been negative on the way) fails on the unchanged tree: theorem C13_literal_partner_counterexample + recorded finding partner-after-negative. Correspondence: complete verdict trees for bracket-bearing atoms n <= 4/5, oracle families, independent partner computation; balanced WITH the experimental move: monitor only.",
        note=NOTE + "The experimental move is not modelled (monitor on the real code). One recorded finding (partner-after-negative).",
        technique="Lean 4 proof (outer-loop and pass-loop induction rules, global tried-invariant, quiet-pass coverage, findRhs characterisation) + complete-verdict-tree differential execution with an independent partner computation",
        ref="§4 C13"),
    "C18": dict(
        text="Theorems C18_classify (for every timed-out flag and every integer return code: TIMEOUT iff timed out, NORMAL iff 0, CRASH iff negative / 77 / >= 2^31, ABNORMAL otherwise, return code hidden iff TIMEOUT, crashes iff CRASH, hangs iff TIMEOUT) and C18_capture (pipe and log-file capture both return exactly the bytes written before exit/kill, for every abstract child and limit). Tied to timed_run.py / crashes.py / hangs.py by real children: every exit code 0..255, every terminating signal, before/past the limit, outputs up to 1 MiB on both streams, both capture modes, pid liveness after return.",
        note=NOTE + "Pipes, kill and wait are the OS; the capture theorem is about an abstract child and tied to reality only by the real-children runs.",
        technique="Lean 4 proof (decision chain by cases + omega; capture machine) + exhaustive real-child differential runs",
        ref="§4 C18"),
    "C19": dict(
        text="Theorems C19_outputs (both capture modes give the same verdict = occurrence / regex match in stdout or stderr, regex as an uninterpreted predicate), C19_diff (interesting iff exit status, stdout or stderr differ, None on timeout), C19_repeat (verdict iff some run 1..N succeeds; inner runs = index of first success else N) with repeatLoop_spec by induction, C19_repeat_args. Tied to outputs.py / diff_test.py / repeat.py by real children and a real inner module: stream x search grid in both modes, behaviour pairs incl. same-output/different-code and signals, every inner verdict sequence for N <= 4/6 with default and custom cookies.",
        note=NOTE + "`re` is uninterpreted; filecmp.cmp's shallow mode is modelled as content comparison.",
        technique="Lean 4 proof (induction on the repeat loop; case analysis) + real-child differential runs in both capture modes",
        ref="§4 C19"),
    "C20": dict(
        text="Theorems C20_sequential (every set of taken names: result = least free N >= 1), C20_fault (any other mkdir failure stops at once), C20_sequential_names / C20_lookalikes_irrelevant / C20_names_refine (the same loop over a listing of NAMES: only the exact name \"tmp\"+str(N) counts, look-alikes such as tmp01 take no number away; refines the number-level loop), C20_concurrent (every k, every pre-existing set, EVERY schedule of mkdir attempts: finished runs hold pairwise distinct, self-created, not pre-existing directories; invariant Safe by induction over the schedule). Tied to reducer.py by all subsets of tmp1..tmp6 as dirs/files, injected mkdir errors under a watchdog, and complete enumeration of interleavings of 2/3/4 logical runs at os.mkdir/stat/listdir granularity, plus real processes released together.",
        note=NOTE + "Atomicity of mkdir(2) is assumed.",
        technique="Lean 4 proof (invariant over arbitrary schedules) + exhaustive interleaving enumeration of the real code",
        ref="§4 C20"),
    "C03": dict(
        text="C03_new_candidate_is_tested (driver world: every candidate not proposed before in the run is handed to the test — the driver never refuses one itself). Theorem C03_one_minimal: for EVERY deterministic test f : bytes -> bool (monotone or not), min=1, repeat in {last,always}, no time limit, any max >= 1, repeat-first or not, every well-formed testcase with non-empty atoms, the model of Minimize.reduce ends with f(best minus atom i) = false for every remaining atom i. The follow-up clause is kept as C03_followup_statement (not claimed), refuted by C03_followup_counterexample (decide) and recorded as a finding; C03_followup_partial covers the case where re-splitting reproduces the atoms. Tied to strategies.py by proposal-by-proposal differential execution of the real Minimize.reduce vs the model under every deterministic test for n <= 4 atoms and oracle families on the five real loaders.",
        note=NOTE + "Non-empty atoms is C06; SHA-512 de-duplication is modelled as equality of contents.",
        technique="Lean 4 proof (loop invariants: tried-set, last-sweep, termination measure) + differential execution of the real strategy",
        ref="§4 C03"),
    "C04": dict(
        text="Theorems C04_deletion_minimize and C04_deletion_pairs: for every test, option setting, clock and well-formed testcase, every proposal (tested or de-duplicated), the basis it was built on and the final best of minimize, minimize-around and minimize-balanced is the original with reducible atoms deleted (IsDel: same prefix/suffix, zipped (part, flag) list a sub-list, identical non-reducible parts); for minimize every proposal is moreover best.rmslice lo hi with lo < hi <= len (the a <= b side condition of C07). The pair strategies are handled by one generic invariant rule over the pass loop (any predicate closed under rmslice with ordered non-negative bounds). Correspondence: every reducible/non-reducible layout up to length 6/7 x 3 strategies x 6 option settings, plus the five real loaders; the monitor compares the BYTES the real dump() writes for each tested candidate with prefix + atoms + suffix.",
        note=NOTE + "The experimental move is excluded by the property and not modelled.",
        technique="Lean 4 proof (eraseRanks sublist/filter lemmas, loop invariant of minimize, generic closed-predicate invariant over the pair-strategy pass loop) + exhaustive-layout differential execution",
        ref="§4 C04"),
    "C09": dict(
        text="Theorems C09_bound_minimize and C09_bound_pairs: against EVERY oracle (index- and content-dependent: adversarial, inconsistent, always-yes), every min, max >= 1, repeat mode, time limit and clock, the models of minimize, minimize-around and minimize-balanced terminate without exhausting their fuel (outer loop and every pass), flag no internal error (incl. the `assert` of the balanced pass: invariant count(S,0,lhs)*chunk = chunk_start) and run at most (n+1)*(n+ceil(log2 n)+2) tests (+1 initial check). minimize: potential function (len + log2(chunk) + removed)*(n+1) + chunk_end; pairs: every pass moves a chunk index strictly forward (<= num_chunks tests), every accepted proposal strictly shortens the testcase, so at most n + log2(chunk0) + 1 passes. Theorem C09_collapse_terminates: minimize-collapse-brace with ANY of the five splitters as re-loader (symbol: any delimiter sets) terminates against every oracle, flags no internal error and runs at most 2(C+1)(C+log2(C+1)+2)+2 tests, C = bytes of the file (measure: byte length of the best file; collapsing never adds a byte; never more atoms than bytes; the re-loaders partition their input into non-empty atoms by the C06 theorems). C09_collapse_regrows_counterexample: the stated bound in the number of ATOMS is false for that strategy (3 atoms, 49 tests, bound 29: the re-load of the collapsed text has 9 atoms) — recorded finding, reproduced on the real code on every run. The two rewriting strategies: C09_rewrite_skeleton — their round skeleton (rwLoop: which pass follows which) ends by its break after at most B+log2(chunk)+2 passes and P*(B+log2(chunk)+2) tests if no pass runs more than P tests and the passes report at most B removed in total; both hypotheses are checked on the numbers the real pass functions report (P = B/2) and the recorded pass lists are replayed through the Lean skeleton; what a pass does to the text (regular expressions) is not modelled, the stated (B+2)^2 is also monitored directly. Correspondence and monitor: 4 removal + 2 rewriting strategies under adversarial scripts, complete verdict trees n <= 4, hill climbing, every splitter and custom symbol cut sets through the brace collapse, deletions that form a marker word; watchdog for loops that spin without starting a test.",
        note=NOTE + "collapse-brace: termination/no-error/byte bound are theorems, the atom-count bound of the property is FALSE for it (recorded finding collapse-regrows-atoms, model counterexample theorem + replay on the real code). Rewriting strategies: skeleton theorem under monitored hypotheses + the bound monitored directly (the regex code of a pass is not modelled); replace-arguments-by-globals non-termination is a recorded finding; the collapse re-load raising LithiumError was a genuine defect (fixed: e840551).",
        technique="Lean 4 proof (termination measure / potential function; byte-length measure for the brace collapse) + differential execution + adversarial verdict search",
        ref="§4 C09"),
    "C10": dict(
        text="Theorems C10_exact_core / C10_exact_core_parts: for EVERY n, every testcase with pairwise distinct non-empty atoms (reducible or not, with prefix/suffix), every core of reducible atoms and every test that accepts exactly the deletions of the original still containing the core (CoreTest; shown satisfiable for every core by coreTest_singletons), minimize with min=1, repeat last/always, no time limit, any max >= 1 and any clock returns exactly the original with all reducible atoms outside the core deleted (order and flags kept) — from C03_one_minimal + C04_deletion_minimize + an 'accepted' invariant + sublist/filter lemmas. Theorems C10_test_bound / C10_test_bound_default: under the same hypotheses (core duplicate-free, repeat=last, no repeated first round) the number of tests including the initial check is at most (2m+1)*ceil(log2 n)+5m+8 for EVERY n whose first chunk size is not cut by --max (default --max 2^30: every n <= 2^31), every clock and time limit — potential argument over the rounds (LithiumProofs/CoreBound.lean: every kept block of a round contains a core atom, so a round of chunk size c >= 4 starts with fewer than 2c(m+1) atoms and makes <= 2m+1 tests; the rounds of size 2 and 1 make <= 9m+8). C10_bound_needs_max: the --max hypothesis is necessary (model counterexample with --max 1). The real Minimize.reduce is tied to the model for every (n, core) with n <= 8/10 and for empty/full/prefix/suffix/clustered/spread/random cores with n up to 1025/4096 on line, char and symbol atoms (final atoms + number of tests), and the bound is also monitored there.",
        note=NOTE + "The bound is proved for n <= 2^31 atoms with the default --max (beyond that the first round alone makes n/2^30 tests and the stated bound is false of code and model alike; such files cannot be run here). The general C09 bound (n+1)(n+ceil(log2 n)+2)+1 holds without that restriction.",
        technique="Lean 4 proof (exact core from 1-minimality + deletion invariant; test bound by a potential function over the rounds) + differential execution on (n, core) grids with the bound as monitor",
        ref="§4 C10"),
    "C14": dict(
        text="Theorems C14_pow2 (is_power_of_two(k) iff k = 2^j, all integers), C14_process_args (start-up refuses exactly non-powers of two for the effective min/max; --chunk-size=n == min=max=n, repeat=never), C14_blocks (every minimize candidate = best minus one contiguous non-empty block; chunk size a power of two, <= min(max, lp2 n), non-increasing; block = chunk size unless it is the entire remainder), C14_min_clause (with power-of-two min <= max a candidate deletes fewer than min atoms only once at most min atoms remain), C14_resweep_decision + C14_removed_flag (the round-end decision sweeps the same size again only after a sweep that removed something, never under repeat=never, under repeat=last only at the smallest size; otherwise the size strictly decreases), C14_deadline_minimize, C14_deadline_pairs and C14_deadline_move (minimize, minimize-around, minimize-balanced and minimize-balanced with the experimental move make no proposal — hence start no test — once the clock has passed start+limit, for every test and clock). The resweep rule over the whole proposal log: monitor on the real code (blocks are also checked on testcases with non-reducible parts between the atoms).",
        note=NOTE + "min > max is a recorded finding; --repeat-first-round counts as 'the first sweep removed something' (documented option). time.time() is replaced by a scripted clock.",
        technique="Lean 4 proof (proposal-log invariant over the minimize loop; arithmetic on bit_length) + differential execution under option/verdict/clock grids",
        ref="§4 C14"),
    "C01": dict(
        text="C01_new_job_on_used_object (a Lithium object in ANY state left by earlier runs, testcase re-loaded: the run ends with the file equal to the last version accepted in THIS run; by frame lemmas: the test log is write-only; false before fix e531ec0). Theorems C01_final_is_last_accepted / C01_check_only / C01_every_later_run / C01_best_is_last_accepted over the driver model (Lithium.run + interesting + Strategy.main + ReductionIterator): for EVERY strategy script (proposals, direct file writes, failures) and EVERY outcome sequence (incl. raising), after every run() the file equals what it held during the last accepting test. Tied to reducer.py/strategies.py by differential execution of real Lithium.run() on disk (scripted strategy+test, 1-3 runs per object; 7 real strategies x 5 splitters under complete verdict trees and random verdicts) against the model.",
        note=NOTE + "Candidate construction of the two rewriting strategies is not modelled (iterator-level theorem + monitor).",
        technique="Lean 4 proof (invariant over the event log, induction) + differential execution of the real driver",
        ref="§4 C01"),
    "C02": dict(
        text="C02_hooks_any_history (a Lithium object in ANY prior state: the run appends init once, its tests, cleanup once to the trace, however it ends). Theorems C02_abort_restores (abort at any test index / strategy failure at any point), C02_hooks (init once before, cleanup once after), C02_kill_durable (inside every test the highest-numbered *-interesting copy, or original, is the last accepted version) over the driver model for every script. Correspondence as C01 plus aborts at every test index with 6 exception classes and injected rmslice failures; thorough tier SIGKILLs real `python -m lithium` children inside test k.",
        note=NOTE + "Durability of completed writes across SIGKILL is OS behaviour (assumed); exceptions raised by the hooks themselves are out of scope.",
        technique="Lean 4 proof (invariants Core/Log/Kill over the event log) + differential execution with abort injection",
        ref="§4 C02"),
    "C11": dict(
        text="Theorems C11_reject_original (1 test, 0 writes, status 1), C11_nothing_to_reduce, C11_status (status 0 iff a later candidate was accepted, unless aborted), C11_check_only (1 test, 0 writes, status 0 iff accepted) over the driver model for every script; C11_reject_original_any_history / C11_check_only_any_history / C11_status_any_history: the same for a Lithium object in ANY state left behind by earlier runs (a theorem that was false before the fix e531ec0: run() now forgets last_interesting). Correspondence as C01 with writes observed through st_mtime_ns/st_ino.",
        note=NOTE,
        technique="Lean 4 proof (case analysis + loop invariant on anySuccess) + differential execution of the real driver",
        ref="§4 C11"),
    "C12": dict(
        text="Theorems C12_tmp_log (temp dir = original + i-interesting/i-boring holding the bytes seen by test i, indices 1..n, test_count = tests run) and C12_no_duplicates (files seen by tests after the first are pairwise distinct) over the driver model for every script and outcome sequence. Correspondence as C01 with proposals that repeat earlier ones or re-split the same bytes; the scripted test records prefix, bytes and directory listing at every call.",
        note=NOTE + "SHA-512 is modelled as the identity on contents.",
        technique="Lean 4 proof (Log invariant incl. tried-set = contents tested) + differential execution of the real driver",
        ref="§4 C12"),
    "C06": dict(
        text="Theorems C06_roundtrip_{line,char,symbol} (every byte string: a successful load writes back the same bytes, atoms non-empty, one flag per atom), C06_no_internal_error, C06_lines_flatten; C06_roundtrip_attrs, C06_roundtrip_jsstr (all five splitters: bytes, non-empty parts, one flag per part; for the JS splitter via the invariant that the tokenizer's index list stays strictly increasing and in range through back-tracking and gap merge). Tied to testcases.py by differential execution of load() vs the model on every concatenation of <= 3/4 entries of a 24-entry adversarial alphabet x splitters plus random strings; monitor (dump-and-compare, also through a re-used object) on all five splitters.",
        note=NOTE + "load() through a re-used object is checked on the real code (a Python aliasing matter the pure model cannot express).",
        technique="Lean 4 proof (generic load round-trip lemma over any splitter meeting SplitOK, instantiated per splitter) + exhaustive short-string correspondence",
        ref="§4 C06"),
    "C08": dict(
        text="Theorem C08_load_spec: for every splitter and every file, load equals the loop-free marker rule (first line mentioning a word opens iff it mentions DDBEGIN, first later line mentioning DDEND closes, both-words rule, the two LithiumErrors decided before the splitter runs); C08_no_markers. Tied to testcases.py by differential execution on every arrangement of <= 3 lines x 7 line kinds x up to 8 terminators x 5 splitters; monitor restates the rule on str.splitlines and checks that Lithium.main tests/writes nothing on a marker error.",
        note=NOTE + "'before anything is tested or written' is checked on the real Lithium.main only (monitor), not modelled.",
        technique="Lean 4 proof (loop-to-takeWhile/dropWhile refinement) + exhaustive arrangement correspondence",
        ref="§4 C08"),
    "C15": dict(
        text="Theorems C15_line_terminated / C15_line_lf_last / C15_line_crlf (all byte strings), C15_char, C15_symbol_boundaries (all disjoint delimiter sets, all byte strings: atoms = cutting at every position whose left neighbour is cut-after or right neighbour is cut-before), C15_default_sets_disjoint, C15_symbol_overlap_counterexample (recorded finding). Tied to the code by exhaustive short strings for line/char/symbol (default + 20 custom sets, programmatic and via a real command line).",
        note=NOTE + "Overlapping delimiter sets are a known finding (full statement kept as C15_symbol_statement, refuted by C15_symbol_overlap_counterexample).",
        technique="Lean 4 proof (scanner = reference cutter, induction over matches) + exhaustive short-string correspondence",
        ref="§4 C15"),
    "C07": dict(
        text="Theorem C07_rmslice_spec (all WF testcases, all integer/None bounds with clamp a <= clamp b): rmslice removes exactly the reducible atoms of rank [a',b'), keeps everything else, length drops by b'-a'; C07_clamp, C07_len_counts. C07_copy_independent (heap model Alias: testcase objects hold references to list objects; copy() and rmslice() allocate fresh lists, callers may edit a list in place; for EVERY history of copy / rmslice / in-place edits over any number of objects, an operation on one object leaves every other object's parts and flags as they were, and copy() also the original — invariant: no two objects ever share a list), C07_copy_equal, C07_rmslice_on_object. Tied to testcases.py by exhaustive differential execution of copy()+rmslice() vs the model over all layouts <= 7/8 and all index pairs around the range, plus an independent monitor as failing-input search.",
        note=NOTE + "The aliasing clause is a theorem about a heap model whose allocation behaviour (which operations create new list objects) is tied to the code by comparing contents AND the sharing structure (`is`) after random object histories over all five testcase classes.",
        technique="Lean 4 proof (induction over lists, index translation lemma; no-sharing invariant over a heap of list objects) + exhaustive model/code correspondence",
        ref="§4 C07"),
}

NA_REASON = {}


def main():
    checks = []
    for pid in ALL:
        if pid not in CHECKS:
            continue
        c = CHECKS[pid]
        checks.append(dict(
            property_id=pid,
            quick_cmd=f"./check {pid} --tier quick",
            thorough_cmd=f"./check {pid} --tier thorough",
            evidence_file=f"evidence/{pid}.json",
            replay_cmd_template="./check replay {path}",
            engine="lean-model+correspondence",
            level_claimed=dict(category="proof", text=c["text"], design_ref=c["ref"]),
            level_note=c["note"],
            technique=c["technique"],
        ))
    na = [dict(property_id=p, reason=NA_REASON.get(p, "check not built yet in this round; planned in DESIGN.md §4 (not claimed until its theorems and correspondence exist)"))
          for p in ALL if p not in CHECKS]
    hooks = json.loads((V / "tools" / "hooks.json").read_text()) if (V / "tools" / "hooks.json").exists() else {}
    m = dict(
        version=1,
        setup_cmd="cd lean && lake build",
        hooks=dict(guard="LITHIUM_VERIF", enable="no source hooks are needed: every observation point is reachable from outside (scripted interestingness modules, subclassing, patching inside the harness process); LITHIUM_VERIF is reserved and unused",
                   baseline_off_cmd="cd /repo && /venv/bin/python -m pytest -ra -q -p no:cacheprovider --timeout=900 --continue-on-collection-errors",
                   source_commits=[], add_only=True),
        engines=[dict(name="lean-model+correspondence", path="lean/ harness/ check",
                      serves_properties=[c["property_id"] for c in checks],
                      kind_free_text="Lean 4 model + theorems (lake build, #print axioms audit) tied to /repo by differential execution against the compiled model driver; property monitors as failing-input search")],
        checks=checks,
        notes="fix: commits in /repo are listed in known_findings.json (status fixed). Exit 2 = harness problem (never a verdict).",
        not_applicable=na,
    )
    (V / "MANIFEST.json").write_text(json.dumps(m, indent=1) + "\n")
    print("checks:", [c["property_id"] for c in checks], "not claimed:", len(na))


if __name__ == "__main__":
    main()
