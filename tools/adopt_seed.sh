#!/bin/bash
# tools/adopt_seed.sh <src-dir-with-patch.diff,demo.py,meta.json> <name>
# confirm a seeded change in a scratch worktree (tests pass, demo fails with / passes without), then keep it
set -u
src="$1"; name="$2"; wt=/tmp/adopt-wt-$$
git -C /repo worktree add -q --detach "$wt" HEAD || exit 2
trap 'git -C /repo worktree remove --force "$wt"' EXIT
cd "$wt"
PYTHONPATH="$wt/src" LITHIUM_SRC="$wt/src" timeout 120 /venv/bin/python "$src/demo.py" >/dev/null 2>&1; d0=$?
git apply "$src/patch.diff" || { echo "$name: patch does not apply"; exit 1; }
tests=$(PYTHONPATH="$wt/src" /venv/bin/python -m pytest -q -p no:cacheprovider 2>&1 | tail -1)
PYTHONPATH="$wt/src" LITHIUM_SRC="$wt/src" timeout 120 /venv/bin/python "$src/demo.py" >/tmp/adopt-demo-$$.txt 2>&1; d1=$?
echo "$name: demo-without=$d0 demo-with=$d1 tests: $tests"
if [ "$d0" = 0 ] && [ "$d1" = 1 ] && echo "$tests" | grep -q "^81 passed"; then
  mkdir -p /verif/seeded/$name
  cp "$src/patch.diff" "$src/demo.py" /verif/seeded/$name/
  python3 - "$src/meta.json" /verif/seeded/$name/meta.json "$tests" <<'PY'
import json,sys
m=json.load(open(sys.argv[1]))
m["confirmed"]={"scratch_worktree":"git worktree of /repo HEAD under /tmp (removed afterwards)","tests_with_patch":sys.argv[3],"demo_exit_without_patch":0,"demo_exit_with_patch":1}
json.dump(m,open(sys.argv[2],"w"),indent=1)
PY
  echo "$name: kept"
else
  echo "$name: NOT confirmed"; tail -5 /tmp/adopt-demo-$$.txt
fi
rm -f /tmp/adopt-demo-$$.txt
