#!/bin/bash
# tools/seedpar.sh [parallel]: run every kept seeded change against the check of its property, each in its own
# scratch worktree of /repo (LITHIUM_REPO), several at a time; writes seeded/RESULTS.tsv.  /repo itself is not touched.
cd /verif
par=${1:-6}
out=$(mktemp -d)
one() {
  name=$1; prop=${name%-*}; wt=/tmp/seedpar-$name
  git -C /repo worktree add -q --detach "$wt" HEAD 2>/dev/null || { echo -e "$name\t$prop\t2\tworktree-failed\t" > $2/$name.tsv; return; }
  if git -C "$wt" apply /verif/seeded/$name/patch.diff 2>/dev/null; then
    res=$(VERIF_OUT=$wt.out LITHIUM_REPO=$wt timeout 1500 ./check $prop 2>&1); rc=$?
    v=$(echo "$res" | grep -E "^VIOLATION" | head -1)
    d=$(echo "$res" | grep -a -E "^DETAIL" | head -1 | sed "s/^DETAIL property=[A-Z0-9]* //" | tr -c "[:print:]" "?" | cut -c1-160)
    kind="missed"
    if echo "$v" | grep -q "no-failing-input-found"; then kind="proof-or-correspondence-only"; elif [ -n "$v" ]; then kind="failing-input"; fi
    printf '%s\t%s\t%s\t%s\t%s\n' "$name" "$prop" "$rc" "$kind" "$d" > $2/$name.tsv
  else
    echo -e "$name\t$prop\t2\tpatch-does-not-apply\t" > $2/$name.tsv
  fi
  git -C /repo worktree remove --force "$wt"; rm -rf "$wt.out"
}
export -f one
# C17 regenerates a tracked Lean file from the live parsers: run those seeds one at a time, last
ls -d seeded/C*-* | xargs -n1 basename | grep -v '^C17' | xargs -P "$par" -I{} bash -c "one {} $out"
for s in $(ls -d seeded/C17-* | xargs -n1 basename); do one $s $out; done
./check C17 > /dev/null 2>&1   # regenerate the table from the unchanged tree
echo -e "seed\tproperty\tcheck_exit\tverdict\tdetail" > seeded/RESULTS.tsv
cat $out/*.tsv | sort -t- -k1,1 -k2,2n >> seeded/RESULTS.tsv
rm -rf $out
grep -c "failing-input" seeded/RESULTS.tsv; grep -v "failing-input" seeded/RESULTS.tsv
