#!/bin/bash
# tools/seedone.sh <seed-name> [check-id ...]: run checks against one seeded change in a scratch worktree (LITHIUM_REPO); /repo untouched
name=$1; shift; ids=${@:-${name%-*}}; wt=/tmp/seedone-$name-$$
cd /verif
git -C /repo worktree add -q --detach "$wt" HEAD || exit 2
trap 'git -C /repo worktree remove --force "$wt"; rm -rf "$wt.out"' EXIT
git -C "$wt" apply /verif/seeded/$name/patch.diff || { echo "$name: patch does not apply"; exit 2; }
for id in $ids; do
  res=$(VERIF_OUT=$wt.out LITHIUM_REPO=$wt timeout 1500 ./check $id 2>&1); rc=$?
  echo "== $name $id rc=$rc $(echo "$res" | grep -a -E '^VIOLATION' | head -1) $(echo "$res" | grep -a -E '^DETAIL' | head -1 | tr -c '[:print:]' '?' | cut -c1-140)"
done
