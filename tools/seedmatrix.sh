#!/bin/bash
# run every kept seeded change against the check of its property; writes seeded/RESULTS.tsv
cd /verif
out=seeded/RESULTS.tsv
echo -e "seed\tproperty\tcheck_exit\tverdict\tdetail" > $out
for d in seeded/C*-*/; do
  name=$(basename $d); prop=${name%-*}
  res=$(tools/seedtest.sh /verif/$d/patch.diff $prop 2>&1)
  rc=$(echo "$res" | grep -o "rc=[0-9]*" | head -1 | cut -d= -f2)
  v=$(echo "$res" | grep -E "^VIOLATION" | head -1)
  kind="missed"
  if echo "$v" | grep -q "no-failing-input-found"; then kind="proof-or-correspondence-only"; elif [ -n "$v" ]; then kind="failing-input"; fi
  rp=$(echo "$v" | grep -o "replay=[^ ]*" | cut -d= -f2)
  detail=""
  if [ -n "$rp" ] && [ -f "$rp" ]; then detail=$(python3 -c "import json,sys;r=json.load(open('$rp'));print((r.get('key') or 'disagreement')+': '+str(r.get('what') or (r.get('disagreements') or [{}])[0].get('function',''))[:140].replace('\t',' ').replace('\n',' '))"); fi
  echo -e "$name\t$prop\t$rc\t$kind\t$detail" >> $out
  echo "$name $rc $kind"
done
git -C /repo status --short | head -3
