#!/usr/bin/env python3
"""print the seeded-changes table of DESIGN.md §0 from seeded/*/meta.json and seeded/RESULTS.tsv"""
import csv, json, re
from pathlib import Path
V = Path(__file__).resolve().parent.parent
res = {}
for r in csv.DictReader(open(V / "seeded/RESULTS.tsv"), delimiter="\t"):
    res[r["seed"]] = r
def key(d):
    m = re.match(r"C(\d+)-(\d+)", d.name); return (int(m.group(1)), int(m.group(2)))
print("| seed | change | needs | caught by |\n| --- | --- | --- | --- |")
for d in sorted([p for p in (V / "seeded").iterdir() if p.is_dir()], key=key):
    m = json.load(open(d / "meta.json"))
    r = res.get(d.name, {})
    clean = lambda t: re.sub(r"\s+", " ", str(t)).replace("|", "/")[:150]
    caught = f"{r.get('verdict', '?')}: {r.get('detail', '').split(':')[0]}"
    print(f"| {d.name} | {clean(m.get('summary'))} | {clean(m.get('needs_to_manifest'))[:110]} | {caught} |")
