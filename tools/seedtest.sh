#!/bin/bash
# tools/seedtest.sh <patch.diff> <check-id>...   apply a seeded change to /repo, run checks, undo
set -u
patch="$1"; shift
cd /repo || exit 2
if [ -n "$(git status --porcelain --untracked-files=no)" ]; then echo "repo dirty"; exit 2; fi
git apply "$patch" || { echo "patch does not apply"; exit 2; }
trap 'git -C /repo checkout -- . ' EXIT
cd /verif
for id in "$@"; do
  out=$(timeout 1200 ./check "$id" 2>&1); rc=$?
  echo "== $id rc=$rc"; echo "$out" | grep -E "VIOLATION|KNOWN-FINDING|HARNESS|exit=" | head -5
done
