#!/bin/bash
# run every check of MANIFEST.json: tools/runall.sh <tier> <seed> [parallel]
# prints one line per check; exit 1 if any check did not exit 0
cd "$(dirname "$0")/.."
tier=${1:-quick}; seed=${2:-0}; par=${3:-4}
(cd lean && lake build >/dev/null 2>&1)
out=$(mktemp -d)
ids=$(python3 -c "import json;print(' '.join(c['property_id'] for c in json.load(open('MANIFEST.json'))['checks']))")
printf '%s\n' $ids | xargs -P "$par" -I{} sh -c "start=\$(date +%s); VERIF_SEED=$seed ./check {} --tier $tier > $out/{}.log 2>&1; rc=\$?; echo \"{} rc=\$rc \$(( \$(date +%s) - start ))s \$(grep -c '^KNOWN-FINDING' $out/{}.log) known \$(grep '^VIOLATION' $out/{}.log | head -1)\""
bad=$(grep -L "exit=0" $out/*.log 2>/dev/null | wc -l)
rm -rf "$out"
[ "$bad" = 0 ]
