import LithiumProps.C01
import LithiumProps.C02
import LithiumProps.C06
import LithiumProps.C07
import LithiumProps.C08
import LithiumProps.C11
import LithiumProps.C12
import LithiumProps.C15
