import LithiumProps.C06
import LithiumProps.C07
import LithiumProps.C08
import LithiumProps.C15
