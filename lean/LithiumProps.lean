import LithiumProps.C07
