/-
C17 — Command line: test arguments are isolated; the test name resolves predictably.

The option tables in `Generated/CmdlineTable.lean` are regenerated from the live argparse parsers on
every run; the theorems below are about the model of argparse's `_parse_known_args` restricted to
one trailing REMAINDER positional (`parseLoop`) and hold for EVERY table of that shape.
-/
import LithiumProofs.Cmdline
import Generated.CmdlineTable

namespace Cmdline

/-- the shape the isolation argument needs: the only positional is `nargs=REMAINDER` -/
def WFTable (t : Table) : Prop := t.pos = .remainder ∧ t.plainArgs = true

instance (t : Table) : Decidable (WFTable t) := by unfold WFTable; exact inferInstance

/-- the tables Lithium builds today have that shape (checked on the regenerated data: changing
`nargs=argparse.REMAINDER` in reducer.py, or giving a parser `fromfile_prefix_chars` / other
`prefix_chars`, breaks THIS proof obligation) -/
theorem C17_generated_wf :
    WFTable Generated.earlyTable ∧ ∀ t ∈ Generated.mainTables, WFTable t := by
  decide

/-- Tail isolation.  Let the command line be `pre ++ name :: tail` where `pre` is a sequence of
blocks — each a token the table classifies as an option (flag, cluster, `--opt=value`, unknown or
even erroneous), or an argument-taking option followed by its separate value token — and `name`
is the first token that is not an option.  Then, for EVERY tail (any tokens at all, `-c`,
`--strategy=...`, `--`, `-h`, ...): either parsing fails with an error that does not depend on
the tail, or it succeeds with a namespace that does not depend on the tail and hands
`name :: tail` — verbatim, in order — to the REMAINDER positional. -/
theorem C17_tail_isolation (t : Table) (pre : List (List Tok)) (name : Tok)
    (hpre : ∀ b ∈ pre,
      (∃ s, b = [s] ∧ s ≠ dd ∧ (∀ o n, classify t s = .opt o n none → (o.nargs == 0) = true) ∧
        ¬ (∃ _h : True, match classify t s with | .arg => True | _ => False)) ∨
      (∃ s v o n, b = [s, v] ∧ s ≠ dd ∧ classify t s = .opt o n none ∧ (o.nargs == 0) = false))
    (hname : ∃ _h : True, match classify t name with | .arg => True | _ => False) :
    (∃ p' : Parsed, ∀ tail, parseLoop t (pre.flatten ++ name :: tail) {} = .ok { p' with remainder := name :: tail }) ∨
    (∃ e q, ∀ tail, parseLoop t (pre.flatten ++ name :: tail) {} = .error e q) := by
  apply tail_isolation t pre _ name hname
  intro b hb
  rcases hpre b hb with ⟨s, rfl, h1, h2, h3⟩ | ⟨s, v, o, n, rfl, h1, hc, hn⟩
  · exact local_single t s h1 h2 h3
  · exact local_pair t s v h1 o n hc hn

/-- a token that does not start with `-` (a test name such as `crashes`, `./t.py`) is never an
option, in any table -/
theorem C17_name_is_positional (t : Table) (c : Char) (cs : List Char) (h : c ≠ '-') :
    classify t (c :: cs) = .arg := by
  unfold classify
  simp [h]

/-- the early parser never fails on ambiguity (its `error()` returns), so its choice of atom type
and strategy is a function of `parseLoop` alone -/
theorem C17_early_never_ambiguous (t : Table) (h : t.errorsPass = true) (argv : List Tok) :
    anyAmbiguous t argv = false := by
  have key : ∀ s, classify t s ≠ .ambiguous := by
    intro s
    unfold classify
    simp only [h, Bool.not_true, Bool.and_false, Bool.false_eq_true, if_false]
    repeat' split
    all_goals (intro hc; cases hc)
  unfold anyAmbiguous
  simp only
  rw [List.any_eq_false]
  intro s _
  cases hc : classify t s with
  | ambiguous => exact absurd hc (key s)
  | _ => simp

/-- which file is reduced: `--testcase` if given, else the last command-line argument; the test
name is the first non-option token and the test receives the rest -/
theorem C17_testcase_choice (earlyT : Table) (mainT : Tok → Tok → Table) (argv : List Tok)
    (atom strategy : Tok) (ns : List (Tok × Tok)) (tc cond : Tok) (cargs : List Tok)
    (h : processArgs earlyT mainT argv = .ok atom strategy ns tc cond cargs) :
    (∀ v, lastValue ns "testcase".toList = some v → tc = v) ∧
    (lastValue ns "testcase".toList = none → tc = (cond :: cargs).getLast?.getD cond) := by
  unfold processArgs at h
  simp only at h
  repeat' split at h
  all_goals first
    | (simp only [PA.ok.injEq] at h
       obtain ⟨-, -, rfl, rfl, rfl, rfl⟩ := h
       refine ⟨fun v' hv' => ?_, fun hn => ?_⟩ <;> simp_all)
    | cases h

/-! ### recorded findings: the two places where the full property fails -/

/-- the early parser swallows everything after the separate value of an option it does not know:
`--min 2 --strategy=minimize-around -c t.py f` is parsed as strategy `minimize`, atom `line` -/
theorem C17_early_swallow_counterexample :
    early Generated.earlyTable
      ["--min".toList, "2".toList, "--strategy=minimize-around".toList, "-c".toList, "t.py".toList, "f".toList]
      = ("line".toList, "minimize".toList) := by
  decide

/-- a test argument that is a prefix of several Lithium options makes the main parser fail:
`t.py --m x f` -/
theorem C17_tail_ambiguous_counterexample :
    ∃ e q, parse (Generated.mainTables.getD 0 Generated.earlyTable)
      ["t.py".toList, "--m".toList, "x".toList, "f".toList] = .error e q := by
  refine ⟨"ambiguous option", {}, ?_⟩
  decide

/-- non-vacuity of the isolation theorem on the live main table: `--min=4 -c` before `t.py`,
a hostile tail after it -/
example :
    parse (Generated.mainTables.getD 0 Generated.earlyTable)
      ["--min=4".toList, "-c".toList, "t.py".toList, "-j".toList, "--".toList, "-h".toList, "f".toList]
    = .ok { ns := [("min".toList, "4".toList), ("atom".toList, "char".toList)],
            extras := [], seenExcl := some "-c".toList,
            remainder := ["t.py".toList, "-j".toList, "--".toList, "-h".toList, "f".toList] } := by
  decide +kernel

/-! ### test name resolution and sys.path (abstract model of `rel_or_abs_import`) -/

inductive Resolved where
  | atPath | inCwd | builtin | importError
deriving Repr, DecidableEq

/-- `rel_or_abs_import`: a path component → that location only; else the current directory; else
the built-in test of that name; else ImportError -/
def resolve (hasPath atPathOk inCwdOk builtinOk : Bool) : Resolved :=
  if hasPath then (if atPathOk then .atPath else .importError)
  else if inCwdOk then .inCwd
  else if builtinOk then .builtin
  else .importError

/-- `sys.path.append(dir)` ... `finally: sys.path.pop()` on every exit path -/
def sysPathAfter (before : List String) (dir : String) : List String := (before ++ [dir]).dropLast

theorem C17_import_order (hasPath a b c : Bool) :
    (hasPath = true → resolve hasPath a b c = (if a then .atPath else .importError)) ∧
    (hasPath = false → b = true → resolve hasPath a b c = .inCwd) ∧
    (hasPath = false → b = false → c = true → resolve hasPath a b c = .builtin) ∧
    (hasPath = false → b = false → c = false → resolve hasPath a b c = .importError) := by
  cases hasPath <;> cases a <;> cases b <;> cases c <;> simp [resolve]

theorem C17_syspath (before : List String) (dir : String) : sysPathAfter before dir = before := by
  simp [sysPathAfter]

/-- delete the LAST occurrence of `d`: the loop of the repaired `rel_or_abs_import` (fix 48933b6) -/
def removeLast (d : String) (l : List String) : List String := (l.reverse.erase d).reverse

/-- `sys.path.append(dir)`; the imported test script prepends `P` and appends `Q` to `sys.path` while it
is imported; `finally`: the last occurrence of `dir` is deleted -/
def sysPathAfterScript (before : List String) (dir : String) (P Q : List String) : List String :=
  removeLast dir (P ++ (before ++ [dir]) ++ Q)

/-- the module search path is left as it was, plus what the test script itself added — Lithium's
temporary entry is gone wherever the script put its own (before the fix the last entry was popped:
`sysPathPop` below, which loses the script's entry and keeps Lithium's) -/
theorem C17_syspath_script (before : List String) (dir : String) (P Q : List String) (hq : dir ∉ Q) :
    sysPathAfterScript before dir P Q = P ++ before ++ Q := by
  unfold sysPathAfterScript removeLast
  simp only [List.reverse_append, List.reverse_cons, List.reverse_nil, List.nil_append, List.append_assoc]
  have hq' : dir ∉ Q.reverse := by simpa using hq
  rw [List.erase_append_right _ hq']
  simp

/-- the behaviour before the fix, on a script that appends one entry: Lithium's entry stays, the
script's is lost -/
example : ((["a"] ++ ["tmpdir"] ++ ["helpers"]).dropLast, sysPathAfterScript ["a"] "tmpdir" [] ["helpers"])
    = (["a", "tmpdir"], ["a", "helpers"]) := by decide

end Cmdline
