/-
C05 — Text outside the DDBEGIN/DDEND region is never modified.

Proved: what `load` protects (prefix through the DDBEGIN line, suffix from the DDEND line, and in
char mode the byte before it), and that every proposal and the final best of minimize,
minimize-around and minimize-balanced keep `before` and `after` — for every test, clock and option
setting.  `content` is `before ++ atoms ++ after`, so the files start / end with those bytes.
Monitored on the real code, not proved: brace collapsing (re-load of the collapsed text), the two
rewriting strategies and the experimental move (DESIGN.md §4 C05).
-/
import LithiumProofs.PairsMove
import LithiumProofs.CollapseFrame
import LithiumProofs.Frame
import LithiumProofs.MinimizeLog
import LithiumProofs.Load

namespace Strat
open Testcase Load

/-- what the file written for a testcase looks like -/
theorem C05_content_frame (t : Testcase) :
    t.content = t.before ++ (t.parts.flatten ++ t.after) ∧ t.before <+: t.content ∧ t.after <:+ t.content := by
  refine ⟨by simp [content], ?_, ?_⟩
  · exact ⟨t.parts.flatten ++ t.after, by simp [content]⟩
  · exact ⟨t.before ++ t.parts.flatten, by simp [content]⟩

/-- line and symbol mode (any delimiter sets): with a marker pair, `before` is exactly the lines
up to and including the first line mentioning a marker word (the DDBEGIN line) and `after` exactly
the lines from the first later line mentioning DDEND on; without markers nothing is protected -/
theorem C05_load_frame (sp : Splitter) (hsp : ∀ x s, sp x = .ok s → s.header = [] ∧ s.footer = [])
    (d : Bytes) (t : Testcase) (h : loadWith sp d = .ok t) :
    match (Lines.splitLines d).dropWhile (fun l => !mentionsAny l) with
    | [] => t.before = [] ∧ t.after = []
    | m :: rest =>
      match rest.dropWhile (fun l => !hasSub DDEND l) with
      | [] => False
      | e :: post =>
        t.before = ((Lines.splitLines d).takeWhile (fun l => !mentionsAny l)).flatten ++ m ∧
        t.after = e ++ post.flatten := by
  rw [loadWith_spec] at h
  simp only at h
  split
  · rename_i hdw
    rw [hdw] at h
    simp only at h
    cases hs : sp (Lines.splitLines d).flatten with
    | error e => simp [hs, Load.finish] at h
    | ok s =>
      simp only [hs, Load.finish, Except.ok.injEq] at h
      subst h
      obtain ⟨h1, h2⟩ := hsp _ _ hs
      simp [Load.mk, h1, h2]
  · rename_i m rest hdw
    rw [hdw] at h
    simp only at h
    by_cases hb : hasSub DDBEGIN m = true
    · simp only [hb, if_true] at h
      split
      · rename_i hdw2
        rw [hdw2] at h; simp at h
      · rename_i e post hdw2
        rw [hdw2] at h
        simp only at h
        cases hs : sp (rest.takeWhile (fun l => !hasSub DDEND l)).flatten with
        | error e => simp [hs, Load.finish] at h
        | ok s =>
          simp only [hs, Load.finish, Except.ok.injEq] at h
          subst h
          obtain ⟨h1, h2⟩ := hsp _ _ hs
          simp [Load.mk, h1, h2]
    · simp [hb] at h

/-- char mode: the last byte of the region (the end of the last reducible line's terminator) is
moved, unchanged, in front of the protected suffix -/
theorem C05_char_byte (t : Testcase) :
    (charPost t).before = t.before ∧
    ((t.before ≠ [] ∨ t.after ≠ []) → ∀ ps p, t.parts = ps ++ [p] →
      (charPost t).after = p ++ t.after ∧ (charPost t).parts = ps) := by
  unfold charPost
  refine ⟨by split <;> rfl, ?_⟩
  intro hba ps p hp
  have hc : ((!t.before.isEmpty || !t.after.isEmpty) && !t.parts.isEmpty) = true := by
    rw [hp]
    rcases hba with h | h
    · cases hb : t.before with
      | nil => exact absurd hb h
      | cons _ _ => simp
    · cases ha : t.after with
      | nil => exact absurd ha h
      | cons _ _ => simp
  rw [if_pos hc]
  simp [hp]

/-- minimize: every proposal and the final best keep `before` and `after` -/
theorem C05_frame_minimize (cfg : Cfg) (o : Oracle) (clk : Clock) (t : Testcase) (h : t.WF) (hmax : 1 ≤ cfg.max) :
    ((minimize cfg o clk t).best.before = t.before ∧ (minimize cfg o clk t).best.after = t.after) ∧
    ∀ a ∈ (minimize cfg o clk t).atts, a.cand.before = t.before ∧ a.cand.after = t.after := by
  have hinv : MInv t.len (minInit cfg t) { best := t } := by
    have hp := Util.lp2_pos t.len
    refine ⟨h, ?_, ?_, by simp [minInit], Nat.le_refl _⟩
    · show 1 ≤ min cfg.max (Util.lp2 t.len); omega
    · show 1 ≤ min (min cfg.max (Util.lp2 t.len)) (max cfg.min 1); omega
  obtain ⟨st', it', -, hP, e1, e2, -, -⟩ :=
    minLoop_reach cfg o clk (stopAt cfg clk) t.len (fun _ it => DInv t it)
      (fun _ _ _ _ hp _ => hp)
      (fun st it ha hp => dinv_attempt o t t.len st it ha hp)
      (minFuel t) (minInit cfg t) { best := t } hinv
      ⟨isDel_refl t h, by intro a ha; simp at ha⟩
  unfold minimize
  rw [e1, e2]
  exact ⟨⟨hP.best.1, hP.best.2.1⟩, fun a ha => ⟨(hP.atts a ha).2.1.1, (hP.atts a ha).2.1.2.1⟩⟩

/-- minimize-around and minimize-balanced: every proposal and the final best keep `before`/`after` -/
theorem C05_frame_pairs (cfg : Cfg) (o : Oracle) (clk : Clock) (t : Testcase) :
    Frame t (around cfg o clk t) ∧ Frame t (balanced cfg o clk t) := by
  exact ⟨frame_of_allT t _ (around_allT _ (frame_closed t) cfg o clk t ⟨rfl, rfl⟩),
    frame_of_allT t _ (balanced_allT _ (frame_closed t) cfg o clk t ⟨rfl, rfl⟩)⟩

/-- minimize-balanced WITH the experimental move: every proposal — removals and both kinds of
moves — and the final best keep `before` and `after`, for every test, clock and option setting
(a move re-orders `parts`/`reducible` of a copy of the best testcase and touches nothing else) -/
theorem C05_frame_move (cfg : Cfg) (o : Oracle) (clk : Clock) (t : Testcase) :
    Frame t (balancedMove cfg o clk t) :=
  balancedMove_frame cfg o clk t

/-- non-vacuity: `{ a }` where only the fourth test accepts: the pair cannot go, moving `a` behind
the closing brace is rejected, moving it in front of the opening brace is accepted -/
example :
    let t : Testcase := { before := [1], parts := [[0x7B], [0x61], [0x7D]], reducible := [true, true, true], after := [2] }
    ((balancedMove { move := true } (fun k _ => k == 3) (fun _ => 0) t).atts.reverse.map (fun a => (a.tag, a.cand.parts, a.resp))).take 5
      = [(2, [[0x7B], [0x61]], .rejected), (1, [[0x61]], .rejected), (9, [[0x7B], [0x7D], [0x61]], .rejected),
         (9, [[0x61], [0x7B], [0x7D]], .accepted), (2, [[0x7B], [0x7D]], .rejected)] := by
  decide

/-- minimize-collapse-brace: deletions never touch the protected prefix/suffix; the only step that can is
the re-load of a collapsed text.  IF re-loading `before ++ x ++ after` finds the same `before` and
`after` again (for every region text `x` the run produces), every proposal — deletions and collapsed
texts — and the final best keep them, for every test, clock and option setting.  The hypothesis is
exactly what the recorded finding below violates. -/
theorem C05_frame_collapse_cond (reload : Bytes → Option Testcase) (cfg : Cfg) (o : Oracle) (clk : Clock) (t : Testcase)
    (hre : ∀ x t', reload (t.before ++ x ++ t.after) = some t' → t'.before = t.before ∧ t'.after = t.after) :
    Frame t (collapse reload cfg o clk t) :=
  collapse_frame reload cfg o clk t hre

/-- The recorded finding `collapse-reload-boundary` as a theorem about the model: symbol atoms, a DDEND
line that starts with the continuation bytes `80 A8`, and a verdict sequence under which `}y\n` is
deleted (leaving the lead byte `E2` in front of the DDEND line) before a brace pair collapses.  The
re-load of the collapsed text splits at the new U+2028, the first two bytes of the protected suffix
become reducible and are deleted: the final file no longer ends with the original suffix. -/
theorem C05_collapse_reload_counterexample :
    let data : Bytes := [0x2f,0x2f,0x20,0x44,0x44,0x42,0x45,0x47,0x49,0x4e,0x0a,0x67,0x7b,0x0a,0x5a,0x3b,0x0a,0x7d,0x78,0xe2,
      0x7d,0x79,0x0a,0x80,0xa8,0x20,0x44,0x44,0x45,0x4e,0x44,0x0a,0x74,0x61,0x69,0x6c,0x0a]
    let vs : List Bool := [false,false,false,false,false,true,false,true,false,false,true,false,true,true,true]
    let reload : Bytes → Option Testcase := fun d => (loadSymbol DEFAULT_CUT_BEFORE DEFAULT_CUT_AFTER d).toOption
    (reload data).map (fun t => (t.after, (collapse reload {} (fun k _ => vs.getD k false) (fun _ => 0) t).best.after))
      = some ([0x80,0xa8,0x20,0x44,0x44,0x45,0x4e,0x44,0x0a,0x74,0x61,0x69,0x6c,0x0a],
              [0x20,0x44,0x44,0x45,0x4e,0x44,0x0a,0x74,0x61,0x69,0x6c,0x0a]) := by
  decide +kernel

/-- non-vacuity: a char-mode file with markers and a CR before the DDEND line -/
example :
    (loadChar ([0x68, 0x0A] ++ DDBEGIN ++ [0x0A, 0x61, 0x62, 0x0D] ++ DDEND ++ [0x0A, 0x74])).toOption.map
      (fun t => (t.before, t.parts, t.after))
      = some ([0x68, 0x0A] ++ DDBEGIN ++ [0x0A], [[0x61], [0x62]], [0x0D] ++ DDEND ++ [0x0A, 0x74]) := by
  decide

end Strat
