/-
C15 — Line, char and symbol atoms follow their documented boundaries.
-/
import LithiumProofs.Load
import LithiumProofs.Symbol

namespace Load
open Lines

/-- line atoms: every atom except possibly the last ends with one of the line terminators
(LF, CR, VT, FF, FS, GS, RS, NEL, LS, PS — CR LF ends with LF) -/
theorem C15_line_terminated (d : Bytes) : AllButLast EndsWithTerm (splitLines d) :=
  splitAux_allButLast [] d

/-- a line feed occurs only as the final byte of an atom -/
theorem C15_line_lf_last (d : Bytes) : ∀ x ∈ splitLines d, LFOnlyLast x :=
  splitAux_lf [] d (by simp)

/-- a CR LF pair is never split between two atoms -/
theorem C15_line_crlf (d : Bytes) : NoCRLFSplit (splitLines d) :=
  splitAux_noSplit [] d

/-- the atoms of line mode are these lines, all reducible -/
theorem C15_line_atoms (d : Bytes) :
    splitLine d = .ok { parts := splitLines d, reducible := List.replicate (splitLines d).length true } :=
  rfl

/-- char atoms are the single bytes of the data, in order -/
theorem C15_char (d : Bytes) :
    ∃ s, splitChar d = .ok s ∧ s.parts = d.map (fun b => [b]) ∧ ∀ x ∈ s.parts, x.length = 1 := by
  refine ⟨_, rfl, rfl, ?_⟩
  intro x hx
  simp only [List.mem_map] at hx
  obtain ⟨b, _, rfl⟩ := hx
  rfl

/-- symbol atoms, for every pair of DISJOINT delimiter sets and every byte string: the atoms are
exactly the pieces obtained by cutting the data at every position whose left neighbour is a
cut-after byte or whose right neighbour is a cut-before byte (`cutSpec`), all reducible. -/
theorem C15_symbol_boundaries (B A : List UInt8) (hdisj : ∀ c, ¬ (B.contains c = true ∧ A.contains c = true))
    (d : Bytes) :
    splitSymbol B A d = .ok { parts := cutSpec B A d, reducible := List.replicate (cutSpec B A d).length true } := by
  simp only [splitSymbol]
  rw [symSplit_eq_cutSpec B A hdisj (d.length + 1) d (by omega)]

/-- the default sets are disjoint, so the theorem applies to them -/
theorem C15_default_sets_disjoint :
    ∀ c, ¬ (DEFAULT_CUT_BEFORE.contains c = true ∧ DEFAULT_CUT_AFTER.contains c = true) := by
  intro c
  simp only [DEFAULT_CUT_BEFORE, DEFAULT_CUT_AFTER, List.contains_cons, List.contains_nil,
    Bool.or_false, Bool.or_eq_true, beq_iff_eq]
  rintro ⟨h1, h2⟩
  rcases h1 with h | h | h <;> subst h <;> simp at h2

/-- the full statement (any two sets) is FALSE of the code: with a byte in both sets the regex
consumes it as a "cut-before" prefix and does not cut after it.  Recorded finding. -/
def C15_symbol_statement : Prop :=
  ∀ (B A : List UInt8) (d : Bytes),
    splitSymbol B A d = .ok { parts := cutSpec B A d, reducible := List.replicate (cutSpec B A d).length true }

theorem C15_symbol_overlap_counterexample : ¬ C15_symbol_statement := by
  intro h
  have := congrArg (fun r => r.toOption.map (·.parts)) (h [0x3B] [0x3B] [0x3B, 0x3B, 0x62])
  revert this
  decide

/-- non-vacuity: `a;b]c` with the default sets -/
example : cutSpec DEFAULT_CUT_BEFORE DEFAULT_CUT_AFTER [0x61, 0x3B, 0x62, 0x5D, 0x63]
    = [[0x61, 0x3B], [0x62], [0x5D, 0x63]] := by decide

end Load
