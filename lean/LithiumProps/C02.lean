/-
C02 — Interrupts, errors and kills never lose the last accepted version.
-/
import LithiumProofs.World
import LithiumProofs.WorldHooks

namespace World

/-- a run cut short at ANY point — the test raising (any exception class) at any test index, or
the strategy failing internally between any two tests — returns control with the file holding
the most recently accepted version.  (The statement does not even need the exit to be `raised`:
it is C01 for every way of ending.) -/
theorem C02_abort_restores (orig : Testcase) (diskOrig : Bytes) (evs : List Ev) (first : Outcome)
    (h : orig.content = diskOrig) (_habort : (runMain orig diskOrig evs first).exit = .raised) :
    (runMain orig diskOrig evs first).disk
      = lastAccepted (runMain orig diskOrig evs first).tests diskOrig :=
  (rest_runMainW diskOrig _ evs first (rest_fresh orig diskOrig h)).disk

/-- the init hook runs exactly once, before every test; the cleanup hook exactly once, after the
last test — however the run ends -/
theorem C02_hooks (orig : Testcase) (diskOrig : Bytes) (evs : List Ev) (first : Outcome)
    (h : orig.content = diskOrig) :
    (runMain orig diskOrig evs first).trace
      = Hook.init :: (runMain orig diskOrig evs first).tests.map (fun r => Hook.test r.idx) ++ [Hook.cleanup] := by
  obtain ⟨c0, c1, c2, c3⟩ := runMain_cases orig diskOrig evs first
  obtain ⟨s1, s2, -⟩ := start_fields orig diskOrig
  by_cases h0 : orig.len = 0
  · rw [c0 h0]
    obtain ⟨ht, -, -, -, htr, -⟩ := finish_fields { start orig diskOrig with exit := .returned 0 }
    rw [ht, htr]; simp [s1, s2]
  · cases first with
    | raise =>
      rw [c1 h0 rfl]
      obtain ⟨ht, -, -, -, htr, -⟩ :=
        finish_fields { (interesting (start orig diskOrig) orig false .raise).1 with exit := .raised }
      obtain ⟨ht', htr', -⟩ := interesting_fields (start orig diskOrig) orig false .raise
      rw [ht, htr]; simp [ht', htr', s1, s2]
    | reject =>
      rw [c2 h0 rfl]
      obtain ⟨ht, -, -, -, htr, -⟩ :=
        finish_fields { (interesting (start orig diskOrig) orig false .reject).1 with exit := .returned 1 }
      obtain ⟨ht', htr', -⟩ := interesting_fields (start orig diskOrig) orig false .reject
      rw [ht, htr]; simp [ht', htr', s1, s2]
    | accept =>
      rw [c3 h0 rfl]
      obtain ⟨hl, -, -, -⟩ := after_first_accept orig diskOrig h
      have := (log_loop _ _ evs hl).trace
      obtain ⟨ht, -, htr, -, -⟩ := afterLoop_fields (loop (interesting (start orig diskOrig) orig false .accept).1 evs)
      rw [ht, htr, this]

/-- the same for ANY history: the object in any prior state `w0` (earlier runs, their hooks and tests), any events, any
first verdict, however the run ends (returns, raises in a test, the strategy fails): the hooks and tests of THIS run are
init once, its tests, cleanup once — appended to what was there -/
theorem C02_hooks_any_history (w0 : W) (evs : List Ev) (first : Outcome) :
    (runMainW w0 evs first).trace = w0.trace ++ Hook.init ::
      ((runMainW w0 evs first).tests.drop w0.tests.length).map (fun r => Hook.test r.idx) ++ [Hook.cleanup] :=
  hooks_any_history w0 evs first

/-- if the whole process is killed while test number k+1 is running, the temp directory as it
is at that moment already identifies the most recently accepted version: the highest-numbered
`*-interesting` copy (or `original` when there is none) holds exactly those bytes.
(`TestRec.tmp` is the directory content during that test.) -/
theorem C02_kill_durable (orig : Testcase) (diskOrig : Bytes) (evs : List Ev) (first : Outcome)
    (h : orig.content = diskOrig) (k : Nat) (hk : k < (runMain orig diskOrig evs first).tests.length) :
    recover (runMain orig diskOrig evs first).tests[k].tmp
      = some (lastAccepted ((runMain orig diskOrig evs first).tests.take k) diskOrig) := by
  obtain ⟨c0, c1, c2, c3⟩ := runMain_cases orig diskOrig evs first
  obtain ⟨s1, -, -, s4, -⟩ := start_fields orig diskOrig
  have first_rec : ∀ (out : Outcome) (w : W),
      w.tests = (interesting (start orig diskOrig) orig false out).1.tests →
      ∀ k (hk : k < w.tests.length), recover w.tests[k].tmp = some (lastAccepted (w.tests.take k) diskOrig) := by
    intro out w hw k hk
    obtain ⟨ht', -⟩ := interesting_fields (start orig diskOrig) orig false out
    have hw' : w.tests = [⟨(start orig diskOrig).tmpCounter, (start orig diskOrig).disk,
        (start orig diskOrig).tmp, out⟩] := by rw [hw, ht', s1]; simp
    have hk0 : k = 0 := by rw [hw'] at hk; simp at hk; omega
    subst hk0
    simp [hw', s4, recover, maxInteresting, pickMax, List.find?, h]
  by_cases h0 : orig.len = 0
  · have : (runMain orig diskOrig evs first).tests = [] := by
      rw [c0 h0]
      obtain ⟨ht, -⟩ := finish_fields { start orig diskOrig with exit := .returned 0 }
      rw [ht]; exact s1
    rw [this] at hk; simp at hk
  · cases first with
    | raise =>
      refine first_rec .raise _ ?_ k hk
      rw [c1 h0 rfl]
      exact (finish_fields _).1
    | reject =>
      refine first_rec .reject _ ?_ k hk
      rw [c2 h0 rfl]
      exact (finish_fields _).1
    | accept =>
      obtain ⟨-, hkill, -, -⟩ := after_first_accept orig diskOrig h
      have hK := kill_loop diskOrig _ evs hkill
      obtain ⟨ht, -⟩ := afterLoop_fields (loop (interesting (start orig diskOrig) orig false .accept).1 evs)
      have hrun := c3 h0 rfl
      have key : ∀ (w : W), w.tests = (loop (interesting (start orig diskOrig) orig false .accept).1 evs).tests →
          ∀ k (hk : k < w.tests.length), recover w.tests[k].tmp = some (lastAccepted (w.tests.take k) diskOrig) := by
        intro w hw k hk
        have hk' : k < (loop (interesting (start orig diskOrig) orig false .accept).1 evs).tests.length := by
          rw [← hw]; exact hk
        have := hK.recs k hk'
        simp only [hw]
        exact this
      exact key _ (by rw [hrun]; exact ht) k hk

/-- non-vacuity: an accepted candidate, then KeyboardInterrupt in the next test: the file is
restored, hooks ran once each, and inside the aborted test the newest interesting copy was
the accepted candidate -/
example :
    let t (ps : List Bytes) : Testcase := { before := [], parts := ps, reducible := ps.map (fun _ => true), after := [] }
    let w := runMain (t [[1], [2]]) [1, 2] [.propose (t [[1]]) .accept, .propose (t []) .raise] .accept
    w.exit = .raised ∧ w.disk = [1] ∧ w.trace = [.init, .test 1, .test 2, .test 3, .cleanup] ∧
      (w.tests[2]?.map (fun r => recover r.tmp)) = some (some [1]) := by
  decide

end World
