/-
C03 — minimize ends with a 1-minimal file.
-/
import LithiumProofs.MinimizeMin
import LithiumModel.Load
import LithiumModel.World

namespace Strat
open Testcase

/-- With a deterministic interestingness test `f` (ANY function of the candidate bytes, monotone
or not), smallest chunk size 1, repeat mode `last` or `always`, no time limit, any power-of-two or
other `--max ≥ 1`, `--repeat-first-round` or not, and any well-formed testcase whose atoms are
non-empty (C06): minimize ends with a file from which no single remaining reducible atom can be
deleted without the test rejecting the result. -/
theorem C03_one_minimal (cfg : Cfg) (f : Bytes → Bool) (clk : Clock) (t : Testcase) (h : t.WF)
    (hne : ∀ p ∈ t.parts, p ≠ []) (hmin : cfg.min = 1)
    (hrep : cfg.rep = .last ∨ cfg.rep = .always) (hstop : cfg.stopAfter = none) (hmax : 1 ≤ cfg.max) :
    let r := minimize cfg (fun _ c => f c) clk t
    ∀ i, i < r.best.len → f (rm1 r.best i).content = false := by
  have hp := Util.lp2_pos t.len
  have hinv : MInv t.len (minInit cfg t) { best := t } := by
    refine ⟨h, ?_, ?_, by simp [minInit], Nat.le_refl _⟩
    · show 1 ≤ min cfg.max (Util.lp2 t.len); omega
    · show 1 ≤ min (min cfg.max (Util.lp2 t.len)) (max cfg.min 1); omega
  have hstopAt : stopAt cfg clk = none := by simp [stopAt, hstop]
  -- the measure at the start is below the fuel (as in C09)
  obtain ⟨hcs, hl1, hl2⟩ := log2_start_le' cfg.max t.len hmax
  have hfuel : phi t.len (minInit cfg t) { best := t } < minFuel t := by
    have hdef : phi t.len (minInit cfg t) { best := t }
        = (t.len + Nat.log2 (min cfg.max (Util.lp2 t.len)) + (if cfg.repeatFirst = true then 1 else 0)) * (t.len + 1)
          + t.len := rfl
    have hB : (t.len + Nat.log2 (min cfg.max (Util.lp2 t.len)) + (if cfg.repeatFirst = true then 1 else 0)) * (t.len + 1)
        ≤ (t.len + Nat.log2 (t.len + 1) + 1) * (t.len + 1) := Nat.mul_le_mul_right _ (by split <;> omega)
    have e2 : (t.len + 2) * (t.len + Nat.log2 (t.len + 1) + 4)
        = (t.len + Nat.log2 (t.len + 1) + 1) * (t.len + 1) + (t.len + Nat.log2 (t.len + 1) + 1) + 3 * (t.len + 2) := by
      generalize Nat.log2 (t.len + 1) = L
      generalize t.len = n
      simp only [Nat.add_mul, Nat.mul_add, Nat.mul_comm]
      omega
    rw [hdef]; unfold minFuel; omega
  simp only
  unfold minimize
  rw [hstopAt]
  refine minLoop_exit cfg (fun _ c => f c) clk none t.len (fun st it => OneInv f st it)
    (fun it' => ∀ i, i < it'.best.len → f (rm1 it'.best i).content = false)
    (fun st it st' _ hp hr => oneInv_round cfg clk none f st it st' hp hr)
    (fun st it ha hp => oneInv_attempt f t.len st it ha hp)
    ?_ (minFuel t) (minInit cfg t) { best := t } hinv ?_ hfuel
  · -- the exits of the loop
    intro st it it' hi hP hdone
    unfold roundPhase at hdone
    simp only [deadlinePassed, Bool.false_eq_true, if_false] at hdone
    by_cases hre : st.chunkEnd - (st.chunkSize : Int) < 0
    · simp only [hre, decide_true, if_true] at hdone
      by_cases h0 : (it.best.len == 0) = true
      · simp only [h0, if_true, Sum.inl.injEq] at hdone
        subst hdone
        intro i hi'
        have : it.best.len = 0 := by simpa using h0
        omega
      · simp only [h0, Bool.false_eq_true, if_false, id] at hdone
        cases hrd : roundDecision cfg st it.best.len with
        | some st1 => rw [hrd] at hdone; simp at hdone
        | none =>
          rw [hrd] at hdone
          simp only [Sum.inl.injEq] at hdone
          subst hdone
          -- `break`: chunk size ≤ min chunk size = 1 and nothing was removed in the last round
          unfold roundDecision at hrd
          have hmc := hP.mc
          have hcs1 := hi.cs
          split at hrd
          · rename_i hle
            have hcs : st.chunkSize = 1 := by omega
            split at hrd
            · exact absurd hrd (by simp)
            · rename_i hnr
              have hrm : st.removed = false := by
                cases hr : st.removed with
                | false => rfl
                | true =>
                  exfalso; apply hnr
                  rcases hrep with hr' | hr' <;> simp [hr, hr']
              intro i hi'
              exact hP.last hcs hrm i (by rw [hcs] at hre; omega) hi'
          · split at hrd <;> simp at hrd
    · simp [hre] at hdone
  · exact ⟨by intro c hc; simp at hc, hne, by
      show min (min cfg.max (Util.lp2 t.len)) (max cfg.min 1) = 1
      rw [hmin]; omega, by
      intro _ _ i hi hlt
      exfalso
      have hi' : ((t.len : Nat) : Int) ≤ (i : Int) := hi
      have hlt' : i < t.len := hlt
      omega⟩

/-- The property's follow-up clause at full strength ("consequently a follow-up run with
--chunk-size=1 on the result accepts no candidate and leaves the file unchanged"), here for the
symbol splitter: it is NOT claimed — it is false of the code, see the counterexample below and
the recorded finding `followup-resplit`. -/
def C03_followup_statement : Prop :=
  ∀ (d : Bytes) (f : Bytes → Bool) (t t2 : Testcase),
    (Load.loadSymbol Load.DEFAULT_CUT_BEFORE Load.DEFAULT_CUT_AFTER d).toOption = some t →
    (Load.loadSymbol Load.DEFAULT_CUT_BEFORE Load.DEFAULT_CUT_AFTER
      (minimize {} (fun _ c => f c) (fun _ => 0) t).best.content).toOption = some t2 →
    (minimize { min := 1, max := 1, rep := .never } (fun _ c => f c) (fun _ => 0) t2).best.content
      = (minimize {} (fun _ c => f c) (fun _ => 0) t).best.content

/-- `a]b;c` with a test that accepts exactly `a]b;c`, `ac` and the empty file: minimize ends
1-minimal at `ac` (atoms `a`, `c`), but `ac` re-loads as ONE atom, whose deletion is accepted. -/
theorem C03_followup_counterexample : ¬ C03_followup_statement := by
  intro h
  have := h [0x61, 0x5D, 0x62, 0x3B, 0x63]
    (fun c => c == [0x61, 0x5D, 0x62, 0x3B, 0x63] || c == [0x61, 0x63] || c == [])
    { before := [], parts := [[0x61], [0x5D, 0x62, 0x3B], [0x63]], reducible := [true, true, true], after := [] }
    { before := [], parts := [[0x61, 0x63]], reducible := [true], after := [] }
    (by decide) (by decide)
  revert this
  decide

/-- the part of the follow-up clause that does hold: when the follow-up run starts from the very
atoms that remained (re-splitting the result reproduces them — always so in char mode), its
first sweep proposes exactly the single-atom deletions, which the 1-minimal result rejects; see
`C03_one_minimal` for the premise.  Stated here for the first proposal of the sweep. -/
theorem C03_followup_partial (f : Bytes → Bool) (T : Testcase)
    (hmin1 : ∀ i, i < T.len → f (rm1 T i).content = false) (hlen : 1 ≤ T.len) :
    let st := minInit { min := 1, max := 1, rep := .never } T
    (attempt (fun _ c => f c) st { best := T }).2.best = T := by
  simp only
  have hcs : (minInit { min := 1, max := 1, rep := .never } T).chunkSize = 1 := by
    have := Util.lp2_pos T.len
    show min 1 (Util.lp2 T.len) = 1
    omega
  have hce : (minInit { min := 1, max := 1, rep := .never } T).chunkEnd = (T.len : Int) := rfl
  exact attempt_keeps_best f _ { best := T } hcs (by rw [hce]; omega)
    (by rw [hce]; exact hmin1 _ (by simp only [Int.toNat_natCast]; omega))

/-- non-vacuity with a non-monotone test: lines a,b,c,d; interesting = {abcd, acd, ac, c} -/
example :
    let t : Testcase := { before := [], parts := [[1], [2], [3], [4]], reducible := [true, true, true, true], after := [] }
    let f : Bytes → Bool := fun c => c == [1, 2, 3, 4] || c == [1, 3, 4] || c == [1, 3] || c == [3]
    (minimize {} (fun _ c => f c) (fun _ => 0) t).best.parts = [[3]] := by
  decide

end Strat

namespace World

/-- the driver never answers for the test: a candidate whose bytes were not proposed before in this run IS handed to the
test (one more test in the log, with the candidate's bytes on disk), whatever the candidate looks like — a marker word in
it, an empty file, anything.  (1-minimality is a statement about what the TEST rejects; a driver that refuses candidates
itself would make it hold for the wrong reason.) -/
theorem C03_new_candidate_is_tested (w : W) (c : Testcase) (out : Outcome) (hnew : c.content ∉ w.tried) :
    (stepEv w (.propose c out)).tests = w.tests ++
      [{ idx := w.tmpCounter, disk := c.content, tmp := w.tmp, out := out }] := by
  cases out <;> simp [stepEv, interesting, hnew]

end World
