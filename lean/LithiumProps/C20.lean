/-
C20 — Each run gets a fresh temp directory, even under races and faults.
-/
import LithiumModel.TempDir
import LithiumProofs.TempDirNames

namespace TempDir

theorem filter_le_sub (l : List Nat) (i : Nat) :
    (l.filter (fun x => decide (i + 1 ≤ x))).length ≤ (l.filter (fun x => decide (i ≤ x))).length := by
  induction l with
  | nil => simp
  | cons a t iht =>
    by_cases h1 : i + 1 ≤ a
    · have h2 : i ≤ a := by omega
      simp [List.filter_cons, h1, h2, iht]
    · by_cases h2 : i ≤ a
      · simp [List.filter_cons, h1, h2]; omega
      · simp [List.filter_cons, h1, h2, iht]

theorem filter_lt_of_mem (l : List Nat) (i : Nat) (hmem : i ∈ l) :
    (l.filter (fun x => decide (i + 1 ≤ x))).length < (l.filter (fun x => decide (i ≤ x))).length := by
  induction l with
  | nil => simp at hmem
  | cons a t iht =>
    simp only [List.mem_cons] at hmem
    by_cases hia : i = a
    · subst hia
      have := filter_le_sub t i
      simp [List.filter_cons]
      omega
    · have hm : i ∈ t := by
        rcases hmem with h | h
        · exact absurd h hia
        · exact h
      have := iht hm
      by_cases h1 : i + 1 ≤ a
      · have h2 : i ≤ a := by omega
        simp [List.filter_cons, h1, h2]; omega
      · have h2 : ¬ i ≤ a := by omega
        simp [List.filter_cons, h1, h2]; omega

theorem seqLoop_spec (taken : List Nat) (fuel i : Nat)
    (hfuel : (taken.filter (fun x => i ≤ x)).length < fuel) :
    ∃ n, seqLoop taken (fun _ => none) fuel i = .ok n ∧ i ≤ n ∧ ¬ taken.contains n ∧
      ∀ j, i ≤ j → j < n → taken.contains j := by
  induction fuel generalizing i with
  | zero => omega
  | succ f ih =>
    unfold seqLoop
    simp only
    by_cases hc : taken.contains i = true
    · simp only [hc, if_true]
      have hmem : i ∈ taken := by simpa using hc
      have hlt := filter_lt_of_mem taken i hmem
      obtain ⟨n, h1, h2, h3, h4⟩ := ih (i + 1) (by omega)
      refine ⟨n, h1, by omega, h3, ?_⟩
      intro j hj1 hj2
      by_cases hje : j = i
      · subst hje; exact hc
      · exact h4 j (by omega) hj2
    · simp only [hc, Bool.false_eq_true, if_false]
      exact ⟨i, rfl, Nat.le_refl _, hc, fun j h1 h2 => by omega⟩

/-- without faults, for EVERY set of taken names: the run gets `tmpN` with N the lowest number
≥ 1 whose name is not taken (so an existing directory or file is never reused) -/
theorem C20_sequential (taken : List Nat) :
    ∃ n, createTempDir taken (fun _ => none) = .ok n ∧ 1 ≤ n ∧ ¬ taken.contains n ∧
      ∀ j, 1 ≤ j → j < n → taken.contains j := by
  unfold createTempDir
  apply seqLoop_spec
  have : (taken.filter (fun x => 1 ≤ x)).length ≤ taken.length := List.length_filter_le _ _
  omega

/-- if `mkdir` fails for any reason other than the name being taken, the run stops with that
error at once — no retry with the next number -/
theorem C20_fault (taken : List Nat) (faults : Nat → Option Nat) (e : Nat) (h : faults 1 = some e) :
    createTempDir taken faults = .error e := by
  simp [createTempDir, seqLoop, h]


/-! ### the listing as NAMES: what merely looks like a numbered directory takes no number away -/

/-- for EVERY directory listing (any names at all): the run gets `tmpN` with N the lowest number ≥ 1 such that
exactly the name `"tmp" ++ str N` is not there; `tmp01`, `tmp1.bak`, `Tmp1`, `tmp` are other names -/
theorem C20_sequential_names (names : List String) :
    ∃ n, createTempDirN names (fun _ => none) = .ok n ∧ 1 ≤ n ∧ dirName n ∉ names ∧
      ∀ j, 1 ≤ j → j < n → dirName j ∈ names := by
  unfold createTempDirN
  have hf : (names.filter (notSeen 1)).length < names.length + 1 := by
    have : (names.filter (notSeen 1)).length ≤ names.length := List.length_filter_le _ _
    omega
  obtain ⟨n, h1, h2, h3, h4⟩ := seqLoopN_spec names (names.length + 1) 1 hf
  refine ⟨n, h1, h2, by simpa using h3, ?_⟩
  intro j hj1 hj2
  simpa using h4 j hj1 hj2

/-- two listings that agree on which exact names `tmp<i>` exist give the same directory, whatever else they hold -/
theorem C20_lookalikes_irrelevant (names names' : List String)
    (h : ∀ i, dirName i ∈ names ↔ dirName i ∈ names') :
    createTempDirN names (fun _ => none) = createTempDirN names' (fun _ => none) := by
  obtain ⟨n, h1, h2, h3, h4⟩ := C20_sequential_names names
  obtain ⟨n', h1', h2', h3', h4'⟩ := C20_sequential_names names'
  rw [h1, h1']
  have : n = n' := by
    rcases Nat.lt_trichotomy n n' with hlt | heq | hgt
    · exact absurd ((h n).mpr (h4' n h2 hlt)) h3
    · exact heq
    · exact absurd ((h n').mp (h4 n' h2' hgt)) h3'
  rw [this]

/-- the name-level loop is the number-level one of `C20_sequential`/`C20_concurrent` under the obvious reading of a listing -/
theorem C20_names_refine (names : List String) (taken : List Nat) (faults : Nat → Option Nat)
    (h : ∀ i, taken.contains i = names.contains (dirName i)) (fuel i : Nat) :
    seqLoopN names faults fuel i = seqLoop taken faults fuel i := by
  induction fuel generalizing i with
  | zero => rfl
  | succ f ih =>
    unfold seqLoopN seqLoop
    cases faults i with
    | some e => rfl
    | none => simp only [h i, ih]

theorem C20_fault_names (names : List String) (faults : Nat → Option Nat) (e : Nat) (h : faults 1 = some e) :
    createTempDirN names faults = .error e := by
  simp [createTempDirN, seqLoopN, h]

/-- non-vacuity: zero-padded and decorated look-alikes next to a real `tmp2` -/
example : createTempDirN ["tmp01", "tmp002", "tmp2", "tmp", "tmp1.bak", "Tmp1"] (fun _ => none) = .ok 1 := by rfl
example : createTempDirN ["tmp01", "tmp1", "tmp2", "tmp"] (fun _ => none) = .ok 3 := by rfl

/-! ### concurrent starts -/

/-- what every reachable state of `k` concurrently starting runs satisfies -/
structure Safe (taken0 : List Nat) (s : Sys) : Prop where
  created_fresh : ∀ x ∈ s.created, x.1 ∉ taken0
  created_taken : ∀ x ∈ s.created, x.1 ∈ s.taken
  taken_mono : ∀ n ∈ taken0, n ∈ s.taken
  names_nodup : (s.created.map (·.1)).Nodup
  got : ∀ pid p, s.procs[pid]? = some p → ∀ n, p.got = some n → (n, pid) ∈ s.created

theorem safe_step (taken0 : List Nat) (s : Sys) (pid : Nat) (h : Safe taken0 s) :
    Safe taken0 (stepProc s pid) := by
  unfold stepProc
  cases hp : s.procs[pid]? with
  | none => exact h
  | some p =>
    simp only
    cases hg : p.got with
    | some n => exact h
    | none =>
      simp only
      by_cases hc : s.taken.contains p.i = true
      · simp only [hc, if_true]
        refine ⟨h.created_fresh, h.created_taken, h.taken_mono, h.names_nodup, ?_⟩
        intro q pq hq n hn
        by_cases hqp : q = pid
        · subst hqp
          have hlt : q < s.procs.length := by
            rcases Nat.lt_or_ge q s.procs.length with h1 | h1
            · exact h1
            · rw [List.getElem?_eq_none h1] at hp; exact absurd hp (by simp)
          rw [List.getElem?_set_self hlt] at hq
          injection hq with hq
          subst hq
          simp only at hn
          first
            | exact absurd hn (by simp)
            | (rw [hg] at hn; exact absurd hn (by simp))
        · rw [List.getElem?_set_ne (Ne.symm hqp)] at hq
          exact h.got q pq hq n hn
      · have hnot : p.i ∉ s.taken := by simpa using hc
        simp only [hc, Bool.false_eq_true, if_false]
        refine ⟨?_, ?_, ?_, ?_, ?_⟩
        · intro x hx
          simp only [List.mem_cons] at hx
          rcases hx with rfl | hx
          · exact fun hm => hnot (h.taken_mono _ hm)
          · exact h.created_fresh x hx
        · intro x hx
          simp only [List.mem_cons] at hx ⊢
          rcases hx with rfl | hx
          · exact Or.inl rfl
          · exact Or.inr (h.created_taken x hx)
        · intro n hn; simp only [List.mem_cons]; exact Or.inr (h.taken_mono n hn)
        · simp only [List.map_cons, List.nodup_cons]
          refine ⟨?_, h.names_nodup⟩
          intro hm
          obtain ⟨x, hx, hx2⟩ := List.mem_map.mp hm
          exact hnot (hx2 ▸ h.created_taken x hx)
        · intro q pq hq n hn
          by_cases hqp : q = pid
          · subst hqp
            have hlt : q < s.procs.length := by
              rcases Nat.lt_or_ge q s.procs.length with h1 | h1
              · exact h1
              · rw [List.getElem?_eq_none h1] at hp; exact absurd hp (by simp)
            rw [List.getElem?_set_self hlt] at hq
            injection hq with hq
            subst hq
            simp only [Option.some.injEq] at hn
            subst hn
            simp
          · rw [List.getElem?_set_ne (Ne.symm hqp)] at hq
            simp only [List.mem_cons]
            exact Or.inr (h.got q pq hq n hn)

/-- for every number of runs, every set of pre-existing names and EVERY schedule of their
`mkdir` attempts (`mkdir` atomic): every run that has finished holds a directory it created itself,
that did not exist before, and no two runs hold the same one -/
theorem C20_concurrent (taken0 : List Nat) (k : Nat) (sched : List Nat) :
    let s := runSchedule (initSys taken0 k) sched
    (∀ (pid : Nat) (p : Proc) (n : Nat), s.procs[pid]? = some p → p.got = some n → (n, pid) ∈ s.created ∧ n ∉ taken0) ∧
    (∀ (pid1 pid2 : Nat) (p1 p2 : Proc) (n : Nat), s.procs[pid1]? = some p1 → s.procs[pid2]? = some p2 →
      p1.got = some n → p2.got = some n → pid1 = pid2) := by
  have hsafe : Safe taken0 (runSchedule (initSys taken0 k) sched) := by
    unfold runSchedule
    have h0 : Safe taken0 (initSys taken0 k) := by
      refine ⟨by simp [initSys], by simp [initSys], fun n hn => hn, by simp [initSys], ?_⟩
      intro pid p hp n hn
      simp only [initSys] at hp
      have : p = {} := by
        have hm := List.mem_of_getElem? hp
        simp only [List.mem_replicate] at hm
        exact hm.2
      subst this
      simp at hn
    generalize initSys taken0 k = s0 at h0
    induction sched generalizing s0 with
    | nil => exact h0
    | cons a t ih => exact ih _ (safe_step taken0 s0 a h0)
  simp only
  refine ⟨fun pid p n hp hn => ⟨hsafe.got pid p hp n hn, hsafe.created_fresh _ (hsafe.got pid p hp n hn)⟩, ?_⟩
  intro pid1 pid2 p1 p2 n hp1 hp2 hn1 hn2
  have m1 := hsafe.got pid1 p1 hp1 n hn1
  have m2 := hsafe.got pid2 p2 hp2 n hn2
  -- two entries of `created` with the same name are the same entry
  have key : ∀ (l : List (Nat × Nat)), (l.map (·.1)).Nodup → ∀ a b, (n, a) ∈ l → (n, b) ∈ l → a = b := by
    intro l
    induction l with
    | nil => intro _ a b h; simp at h
    | cons x t ih =>
      intro hnd a b ha hb
      simp only [List.map_cons, List.nodup_cons] at hnd
      simp only [List.mem_cons] at ha hb
      rcases ha with rfl | ha <;> rcases hb with hb | hb
      · injection hb with _ hb; exact hb.symm
      · exact absurd (List.mem_map.mpr ⟨(n, b), hb, rfl⟩) hnd.1
      · subst hb; exact absurd (List.mem_map.mpr ⟨(n, a), ha, rfl⟩) hnd.1
      · exact ih hnd.2 a b ha hb
  exact key _ hsafe.names_nodup pid1 pid2 m1 m2

/-- non-vacuity: three runs, tmp1 and tmp3 taken, an interleaved schedule -/
example :
    ((runSchedule (initSys [1, 3] 3) [0, 1, 2, 0, 1, 2, 2, 1, 2, 2, 1, 1, 1]).procs.map (·.got)) = [some 2, some 5, some 4] := by
  decide

end TempDir
