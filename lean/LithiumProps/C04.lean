/-
C04 — Chunk-removal strategies only ever delete reducible atoms.
(minimize, minimize-around and minimize-balanced without the experimental move.)
-/
import LithiumProofs.MinimizeLog
import LithiumProofs.Frame

namespace Strat
open Testcase

/-- `IsDel orig t`: `t` has the same protected prefix and suffix as `orig`, its (part, flag) list
is a sub-list of `orig`'s — nothing added, duplicated, reordered or altered — and it has exactly
`orig`'s non-reducible parts.  This is the property's "the original with zero or more reducible
atoms deleted". -/
example : IsDel = fun orig t =>
    t.before = orig.before ∧ t.after = orig.after ∧ t.WF ∧
    (t.parts.zip t.reducible).Sublist (orig.parts.zip orig.reducible) ∧
    (t.parts.zip t.reducible).filter (fun x => !x.2) = (orig.parts.zip orig.reducible).filter (fun x => !x.2) := rfl

/-- minimize, for EVERY test (any verdict sequence), every option setting, every clock and every
well-formed testcase: the final best and every proposal (tested or de-duplicated) is the
original with zero or more reducible atoms deleted; moreover every proposal is the current
best minus a non-empty range of its reducible atoms (the side condition `a ≤ b` of C07 holds at
the call site). -/
theorem C04_deletion_minimize (cfg : Cfg) (o : Oracle) (clk : Clock) (t : Testcase) (h : t.WF)
    (hmax : 1 ≤ cfg.max) :
    IsDel t (minimize cfg o clk t).best ∧
    ∀ a ∈ (minimize cfg o clk t).atts,
      IsDel t a.cand ∧ IsDel t a.base ∧ a.cand = a.base.rmslice a.lo a.hi ∧ a.lo < a.hi ∧ a.hi ≤ a.base.len := by
  have hinv : MInv t.len (minInit cfg t) { best := t } := by
    have hp := Util.lp2_pos t.len
    refine ⟨h, ?_, ?_, by simp [minInit], Nat.le_refl _⟩
    · show 1 ≤ min cfg.max (Util.lp2 t.len); omega
    · show 1 ≤ min (min cfg.max (Util.lp2 t.len)) (max cfg.min 1); omega
  obtain ⟨st', it', -, hP, e1, e2, -, -⟩ :=
    minLoop_reach cfg o clk (stopAt cfg clk) t.len (fun _ it => DInv t it)
      (fun _ _ _ _ hp _ => hp)
      (fun st it ha hp => dinv_attempt o t t.len st it ha hp)
      (minFuel t) (minInit cfg t) { best := t } hinv
      ⟨isDel_refl t h, by intro a ha; simp at ha⟩
  unfold minimize
  rw [e1, e2]
  refine ⟨hP.best, ?_⟩
  intro a ha
  obtain ⟨b1, b2, b3, b4, b5⟩ := hP.atts a ha
  exact ⟨b2, b1, b3, b4, b5⟩

/-- non-vacuity: a testcase with a non-reducible part in the middle; accept everything -/
example :
    let t : Testcase := { before := [0], parts := [[1], [2], [3]], reducible := [true, false, true], after := [9] }
    t.WF ∧ (minimize {} (fun _ _ => true) (fun _ => 0) t).best.parts = [[2]] ∧
      (minimize {} (fun _ _ => true) (fun _ => 0) t).best.reducible = [false] := by
  decide

/-- minimize-around and minimize-balanced (without the experimental move), for EVERY test, option
setting, clock and well-formed testcase: the final best, every proposal (tested or de-duplicated)
and the basis each proposal was built on is the original with zero or more reducible atoms
deleted. -/
theorem C04_deletion_pairs (cfg : Cfg) (o : Oracle) (clk : Clock) (t : Testcase) (h : t.WF) :
    (IsDel t (around cfg o clk t).best ∧
      ∀ a ∈ (around cfg o clk t).atts, IsDel t a.cand ∧ IsDel t a.base) ∧
    (IsDel t (balanced cfg o clk t).best ∧
      ∀ a ∈ (balanced cfg o clk t).atts, IsDel t a.cand ∧ IsDel t a.base) := by
  have ha := around_allT _ (isDel_closed t) cfg o clk t (isDel_refl t h)
  have hb := balanced_allT _ (isDel_closed t) cfg o clk t (isDel_refl t h)
  exact ⟨⟨ha.best, ha.atts⟩, ⟨hb.best, hb.atts⟩⟩

/-- non-vacuity: `(b)c` in char mode with non-reducible `b`, always-yes test: both strategies delete
reducible atoms only and keep the non-reducible part in place -/
example :
    let t : Testcase := { before := [0], parts := [[0x28], [0x62], [0x29], [0x63]], reducible := [true, false, true, true], after := [9] }
    t.WF ∧ (balanced {} (fun _ _ => true) (fun _ => 0) t).best.parts = [[0x28], [0x62]] ∧
      (around {} (fun _ _ => true) (fun _ => 0) t).best.parts = [[0x62], [0x29]] := by
  decide

end Strat
