/-
C13 — Pair strategies stop only at their own fixpoint.

Proved here:
* `pairsOuter_quiet`, `C13_{around,balanced}_ends_after_quiet_pass`: the outer loop shared by the two
  strategies can only end — smallest chunk size `final`, repeat `last`/`always`, no time limit —
  right after a pass at a chunk size ≤ `final` in which NO proposal was accepted; for ANY pass
  function and every test.
* `C13_around_fixpoint`: the full fixpoint statement for minimize-around under every deterministic
  test (global invariant "every content tried so far was rejected or is at least as long as the
  best", the quiet pass at chunk size 1 visits every atom with two neighbours, candidates are
  strictly shorter because atoms are non-empty).
* `C13_balanced_fixpoint`: the same for minimize-balanced, with the partner search of the code
  (`balRhs`, characterised by `findRhs`): see below.
-/
import LithiumModel.Pairs
import LithiumProofs.PairsFix
import LithiumProps.C09

namespace Strat

theorem pairsOuter_quiet (cfg : Cfg) (clk : Clock) (pass : Nat → It → It × Bool) (final : Nat)
    (hrep : cfg.rep = .last ∨ cfg.rep = .always) :
    ∀ (fuel cs : Nat) (it : It),
      (pairsOuter cfg clk none pass final fuel cs it).outOfFuel = false →
      (pairsOuter cfg clk none pass final fuel cs it).internalError = false →
      ∃ cs' it', cs' ≤ final ∧ (pass cs' it').2 = false ∧
        pairsOuter cfg clk none pass final fuel cs it = (pass cs' it').1 := by
  intro fuel
  induction fuel with
  | zero => intro cs it h _; simp [pairsOuter] at h
  | succ f ih =>
    intro cs it h1 h2
    unfold pairsOuter at h1 h2 ⊢
    simp only [deadlinePassed, Bool.false_eq_true, if_false] at h1 h2 ⊢
    by_cases hflag : ((pass cs it).1.outOfFuel || (pass cs it).1.internalError) = true
    · -- the pass itself failed: excluded by the hypotheses
      simp only [hflag, if_true] at h1 h2
      simp only [Bool.or_eq_true] at hflag
      rcases hflag with hf | hf
      · rw [hf] at h1; exact absurd h1 (by simp)
      · rw [hf] at h2; exact absurd h2 (by simp)
    · simp only [hflag, Bool.false_eq_true, if_false] at h1 h2 ⊢
      by_cases hrepeat : ((pass cs it).2 && (cfg.rep == .always || (cfg.rep == .last && decide (cs ≤ final)))) = true
      · simp only [hrepeat, if_true] at h1 h2 ⊢
        exact ih cs _ h1 h2
      · simp only [hrepeat, Bool.false_eq_true, if_false] at h1 h2 ⊢
        by_cases hlast : cs ≤ final
        · simp only [hlast, decide_true, if_true] at h1 h2 ⊢
          refine ⟨cs, it, hlast, ?_, rfl⟩
          -- nothing was accepted in this pass, otherwise it would have been repeated
          cases hp : (pass cs it).2 with
          | false => rfl
          | true =>
            exfalso; apply hrepeat
            rcases hrep with hr | hr <;> simp [hp, hr, hlast]
        · simp only [hlast, decide_false, Bool.false_eq_true, if_false] at h1 h2 ⊢
          exact ih (cs / 2) _ h1 h2

/-- minimize-around, for every test and clock: with repeat `last`/`always` and no time limit, a
run that ends normally ends right after a quiet pass at a chunk size ≤ max(min, 1) -/
theorem C13_around_ends_after_quiet_pass (cfg : Cfg) (o : Oracle) (clk : Clock) (t : Testcase)
    (hrep : cfg.rep = .last ∨ cfg.rep = .always) (hstop : cfg.stopAfter = none)
    (h1 : (around cfg o clk t).outOfFuel = false) (h2 : (around cfg o clk t).internalError = false) :
    ∃ cs' it', cs' ≤ max cfg.min 1 ∧ (aroundPass o clk none cs' it').2 = false ∧
      around cfg o clk t = (aroundPass o clk none cs' it').1 := by
  have hs : stopAt cfg clk = none := by simp [stopAt, hstop]
  unfold around at h1 h2 ⊢
  simp only [hs] at h1 h2 ⊢
  exact pairsOuter_quiet cfg clk (fun cs it => aroundPass o clk none cs it) _ hrep _ _ _ h1 h2

theorem C13_balanced_ends_after_quiet_pass (cfg : Cfg) (o : Oracle) (clk : Clock) (t : Testcase)
    (hrep : cfg.rep = .last ∨ cfg.rep = .always) (hstop : cfg.stopAfter = none)
    (h1 : (balanced cfg o clk t).outOfFuel = false) (h2 : (balanced cfg o clk t).internalError = false) :
    ∃ cs' it', cs' ≤ max cfg.min 1 ∧ (balPass o clk none cs' it').2 = false ∧
      balanced cfg o clk t = (balPass o clk none cs' it').1 := by
  have hs : stopAt cfg clk = none := by simp [stopAt, hstop]
  unfold balanced at h1 h2 ⊢
  simp only [hs] at h1 h2 ⊢
  exact pairsOuter_quiet cfg clk (fun cs it => balPass o clk none cs it) _ hrep _ _ _ h1 h2

/-- non-vacuity: `{ x }` + `y`: with a test that accepts only the removal of the brace pair,
minimize-balanced removes the pair (atom 0 with its partner 2) and stops at `x`,`y` -/
example :
    let t : Testcase := { before := [], parts := [[0x7B], [0x78], [0x7D], [0x79]], reducible := [true, true, true, true], after := [] }
    (balanced {} (fun _ c => c == [0x78, 0x79]) (fun _ => 0) t).best.parts = [[0x78], [0x79]] ∧
    (balanced {} (fun _ c => c == [0x78, 0x79]) (fun _ => 0) t).outOfFuel = false := by
  decide

/-- **minimize-around stops only at its fixpoint.**  For EVERY deterministic test `f`, smallest
chunk size 1 (`--min` ≤ 1), repeat mode `last` or `always`, no time limit, any `--max ≥ 1`, any
clock, and every well-formed testcase with non-empty atoms: in the final testcase, for every
remaining atom `k` that still has a neighbour on both sides, the test rejects the file without
those two neighbours.  (`pairCand best k` is `best` minus atoms `k+1` and `k-1`.) -/
theorem C13_around_fixpoint (cfg : Cfg) (f : Bytes → Bool) (clk : Clock) (t : Testcase)
    (hwf : t.WF) (hne : ∀ p ∈ t.parts, p ≠ []) (hmin : cfg.min ≤ 1) (hmax : 1 ≤ cfg.max)
    (hrep : cfg.rep = .last ∨ cfg.rep = .always) (hstop : cfg.stopAfter = none) :
    ∀ k, 1 ≤ k → k + 1 < (around cfg (fun _ c => f c) clk t).best.len →
      f (pairCand (around cfg (fun _ c => f c) clk t).best k).content = false := by
  obtain ⟨⟨b1, b2, -⟩, -⟩ := C09_bound_pairs cfg (fun _ c => f c) clk t hwf hmax
  have hs : stopAt cfg clk = none := by simp [stopAt, hstop]
  have hfin : max cfg.min 1 = 1 := by omega
  have hcs : 1 ≤ min cfg.max (Util.lp2 t.len) := by have := Util.lp2_pos t.len; omega
  unfold around at b1 b2 ⊢
  simp only [hs, hfin] at b1 b2 ⊢
  obtain ⟨it', g', hq, hr⟩ := pairsOuter_last_pass f cfg clk (fun cs it => aroundPass (fun _ c => f c) clk none cs it) hrep
    (fun cs it hc hg => aroundPass_ginv f clk none cs it hc hg)
    (pairsFuel t) _ { best := t } hcs ⟨hwf, hne, by intro c hc; simp at hc⟩ b1 b2
  rw [hr] at b1 ⊢
  obtain ⟨q1, q2⟩ := aroundPass_quiet f clk it' hq b1
  have gfin := aroundPass_ginv f clk none 1 it' (Nat.le_refl 1) g'
  intro k hk1 hk2
  rw [q1] at hk2 ⊢
  have hmem := q2 k hk1 hk2
  -- the candidate is strictly shorter than the best testcase
  have hc := aroundCand_ok 1 { summary := [], chunkStart := k, before := 0, keep := k, after := 0 } { best := it'.best }
    g'.wf g'.nonempty (Nat.le_refl 1) hk2
  rw [aroundCand_one _ _ hk1 hk2] at hc
  cases hfv : f (pairCand it'.best k).content with
  | false => rfl
  | true =>
    have := gfin.tried _ hmem hfv
    rw [q1] at this
    have hsh : (pairCand it'.best k).content.length < it'.best.content.length := hc.shorter
    omega

/-- non-vacuity: five one-byte atoms `a b c d e`, the test accepts exactly the files that still
contain `b` and have an odd number of bytes: minimize-around removes the neighbours `a`,`c` of
`b`, ends with `b d e`, and the test rejects what is left when the neighbours of `d` go (`d`) -/
example :
    let t : Testcase := { before := [], parts := [[0x61], [0x62], [0x63], [0x64], [0x65]], reducible := [true, true, true, true, true], after := [] }
    let f : Bytes → Bool := fun c => c.contains 0x62 && c.length % 2 == 1
    (around {} (fun _ c => f c) (fun _ => 0) t).best.parts = [[0x62], [0x64], [0x65]] ∧
    f (pairCand (around {} (fun _ c => f c) (fun _ => 0) t).best 1).content = false := by
  decide

/-- **minimize-balanced stops only at its fixpoint.**  For EVERY deterministic test `f`, smallest
chunk size 1, repeat mode `last` or `always`, no time limit, any `--max ≥ 1`, any clock, and every
well-formed testcase with non-empty atoms: if at least two atoms remain in the final testcase then
for every remaining atom `j` the test rejects `balTarget best j` — the file without atom `j` when
its brackets are balanced, the file without `j` and its partner when they are not and the partner
search (`partnerOf`, characterised by `partnerOf_spec`) finds one. -/
theorem C13_balanced_fixpoint (cfg : Cfg) (f : Bytes → Bool) (clk : Clock) (t : Testcase)
    (hwf : t.WF) (hne : ∀ p ∈ t.parts, p ≠ []) (hmin : cfg.min ≤ 1) (hmax : 1 ≤ cfg.max)
    (hrep : cfg.rep = .last ∨ cfg.rep = .always) (hstop : cfg.stopAfter = none) :
    2 ≤ (balanced cfg (fun _ c => f c) clk t).best.len →
    ∀ j, j < (balanced cfg (fun _ c => f c) clk t).best.len →
      ∀ c, balTarget (balanced cfg (fun _ c => f c) clk t).best j = some c → f c.content = false := by
  obtain ⟨-, b1, b2, -⟩ := C09_bound_pairs cfg (fun _ c => f c) clk t hwf hmax
  have hs : stopAt cfg clk = none := by simp [stopAt, hstop]
  have hfin : max cfg.min 1 = 1 := by omega
  have hcs : 1 ≤ min cfg.max (Util.lp2 t.len) := by have := Util.lp2_pos t.len; omega
  unfold balanced at b1 b2 ⊢
  simp only [hs, hfin] at b1 b2 ⊢
  obtain ⟨it', g', hq, hr⟩ := pairsOuter_last_pass f cfg clk (fun cs it => balPass (fun _ c => f c) clk none cs it) hrep
    (fun cs it hc hg => balPass_ginv f clk none cs it hc hg)
    (pairsFuel t) _ { best := t } hcs ⟨hwf, hne, by intro c hc; simp at hc⟩ b1 b2
  rw [hr] at b1 b2 ⊢
  obtain ⟨q1, q2⟩ := balPass_quiet f clk it' hq b1 b2
  have gfin := balPass_ginv f clk none 1 it' (Nat.le_refl 1) g'
  intro h2 j hj c hc
  rw [q1] at h2 hj hc
  have hmem := q2 h2 j hj c hc
  -- the target is strictly shorter than the best testcase
  have hshort : c.content.length < it'.best.content.length := by
    unfold balTarget at hc
    split at hc
    · simp only [Option.some.injEq] at hc
      subst hc
      have h := balCand1_ok 1 { summary := [], chunkStart := j, lhs := j } { best := it'.best } g'.wf g'.nonempty
        (Nat.le_refl 1) hj
      rw [balCand1_one _ _ hj] at h
      exact h.shorter
    · split at hc
      · simp only [Option.some.injEq] at hc
        subst hc
        have hge := findRhs_ge (List.replicate it'.best.len true) (balLists it'.best).1 (balLists it'.best).2.1 (balLists it'.best).2.2
          ((List.replicate it'.best.len true).drop (j + 1)) j (balOf (balLists it'.best).1 (balLists it'.best).2.1 (balLists it'.best).2.2 j)
        have hle := findRhs_le (List.replicate it'.best.len true) (balLists it'.best).1 (balLists it'.best).2.1 (balLists it'.best).2.2
          ((List.replicate it'.best.len true).drop (j + 1)) j (balOf (balLists it'.best).1 (balLists it'.best).2.1 (balLists it'.best).2.2 j)
        have hlen : ((List.replicate it'.best.len true).drop (j + 1)).length = it'.best.len - (j + 1) := by simp
        have h := balCand2_ok 1 { summary := List.replicate it'.best.len true, chunkStart := j, lhs := j } { best := it'.best }
          (partnerOf it'.best j).1 g'.wf g'.nonempty (Nat.le_refl 1) hj
        rw [balCand2_one _ _ _ rfl rfl (by unfold partnerOf; exact hge) (by unfold partnerOf; simp only; omega)] at h
        exact h.shorter
      · exact absurd hc (by simp)
  cases hfv : f c.content with
  | false => rfl
  | true =>
    have := gfin.tried _ hmem hfv
    rw [q1] at this
    omega

/-- The partner used in `C13_balanced_fixpoint`, in the property's words: for an unbalanced atom
`j` the search reports a partner exactly when there is a first later atom `j + d` at which the
running balance of all three bracket kinds is back to zero with no kind negative (and not all
zero) at the atoms in between, and it reports that atom.  (The literal reading without "no kind
negative in between" is the recorded finding `partner-after-negative`, see
`C13_literal_partner_counterexample`.) -/
theorem C13_partner_characterised (t : Testcase) (j : Nat) (hj : j < t.len)
    (hz : balZero (balOf (balLists t).1 (balLists t).2.1 (balLists t).2.2 j) = false) :
    (balZero (partnerOf t j).2 = true →
      ∃ d, j + d < t.len ∧ (partnerOf t j).1 = j + d ∧
        FirstZero (balLists t).1 (balLists t).2.1 (balLists t).2.2 j (balOf (balLists t).1 (balLists t).2.1 (balLists t).2.2 j) d) ∧
    (∀ d, j + d < t.len →
      FirstZero (balLists t).1 (balLists t).2.1 (balLists t).2.2 j (balOf (balLists t).1 (balLists t).2.1 (balLists t).2.2 j) d →
      balZero (partnerOf t j).2 = true ∧ (partnerOf t j).1 = j + d) :=
  partnerOf_spec t j hj hz

/-- non-vacuity and the shape of the fixpoint: `{ x } y` with a test that needs `x` and balanced
braces: the brace pair goes together, `x y` remains, and `y` (balanced) cannot be deleted... it can:
the test accepts `x`; the run ends with `x` alone — fewer than two atoms, nothing is claimed.
With a test that also needs `y` the run ends with `x y` and both single deletions are rejected. -/
example :
    let t : Testcase := { before := [], parts := [[0x7B], [0x78], [0x7D], [0x79]], reducible := [true, true, true, true], after := [] }
    let f : Bytes → Bool := fun c => c.contains 0x78 && c.contains 0x79 && c.count 0x7B == c.count 0x7D
    (balanced {} (fun _ c => f c) (fun _ => 0) t).best.parts = [[0x78], [0x79]] ∧
    (balTarget (balanced {} (fun _ c => f c) (fun _ => 0) t).best 0).map (·.parts) = some [[0x79]] ∧
    (balTarget (balanced {} (fun _ c => f c) (fun _ => 0) t).best 1).map (·.parts) = some [[0x78]] := by
  decide

/-- The recorded finding `partner-after-negative` as a theorem about the model: lines `}`, `x`,
`{` and a test that accepts exactly the file `x`: the run ends with all three lines although
deleting `}` together with `{` — where the running balance first returns to zero — is accepted;
the search of the code gives up at `x` because the balance is negative there. -/
theorem C13_literal_partner_counterexample :
    let t : Testcase := { before := [], parts := [[0x7D], [0x78], [0x7B]], reducible := [true, true, true], after := [] }
    let f : Bytes → Bool := fun c => c == [0x78]
    (balanced {} (fun _ c => f c) (fun _ => 0) t).best = t ∧
    f ((t.rmslice 2 3).rmslice 0 1).content = true ∧ balTarget t 0 = none := by
  decide

/-- Why the property (and `C13_balanced_fixpoint`) says "if at least two atoms remain": with ONE atom left the pass
returns before proposing anything (`num_chunks < 2`, inherited from the surrounding-pairs pass, where a lone
atom has no neighbours), so a test that also accepts the empty file leaves the last line standing: lines `f(`,
`x`, `)`, `y`, `x` with `--max=1` and a test that asks for matching parentheses and for `y` wherever there is an
`x` end with `y` although deleting it is accepted.
Replayed on the real code (`Lithium.main --strategy=minimize-balanced --max=1`): same result. -/
theorem C13_one_atom_left_counterexample :
    let t : Testcase := { before := [], parts := [[0x66, 0x28, 0x0A], [0x78, 0x0A], [0x29, 0x0A], [0x79, 0x0A], [0x78, 0x0A]],
                          reducible := [true, true, true, true, true], after := [] }
    let f : Bytes → Bool := fun c => c.count 0x28 == c.count 0x29 && (!c.contains 0x78 || c.contains 0x79)
    (balanced { max := 1 } (fun _ c => f c) (fun _ => 0) t).best.parts = [[0x79, 0x0A]] ∧ f [] = true := by
  decide

end Strat
