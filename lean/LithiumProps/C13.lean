/-
C13 — Pair strategies stop only at their own fixpoint.

Proved here: the outer loop shared by minimize-around and minimize-balanced
(`MinimizeSurroundingPairs.reduce`) can only end — with smallest chunk size `final`, repeat mode
`last` or `always`, no time limit — right after a pass at a chunk size ≤ `final` in which NO
proposal was accepted; for ANY pass function, hence for both strategies and every test.
The second half of the fixpoint argument (such a quiet pass at chunk size 1 proposes every pair
named in the property, and a de-duplicated proposal is a rejected one) is carried by the
proposal-by-proposal correspondence of the two pass models with the real code and by the
monitor; it is not a theorem yet (DESIGN.md §4 C13, partial).
-/
import LithiumModel.Pairs

namespace Strat

theorem pairsOuter_quiet (cfg : Cfg) (clk : Clock) (pass : Nat → It → It × Bool) (final : Nat)
    (hrep : cfg.rep = .last ∨ cfg.rep = .always) :
    ∀ (fuel cs : Nat) (it : It),
      (pairsOuter cfg clk none pass final fuel cs it).outOfFuel = false →
      (pairsOuter cfg clk none pass final fuel cs it).internalError = false →
      ∃ cs' it', cs' ≤ final ∧ (pass cs' it').2 = false ∧
        pairsOuter cfg clk none pass final fuel cs it = (pass cs' it').1 := by
  intro fuel
  induction fuel with
  | zero => intro cs it h _; simp [pairsOuter] at h
  | succ f ih =>
    intro cs it h1 h2
    unfold pairsOuter at h1 h2 ⊢
    simp only [deadlinePassed, Bool.false_eq_true, if_false] at h1 h2 ⊢
    by_cases hflag : ((pass cs it).1.outOfFuel || (pass cs it).1.internalError) = true
    · -- the pass itself failed: excluded by the hypotheses
      simp only [hflag, if_true] at h1 h2
      simp only [Bool.or_eq_true] at hflag
      rcases hflag with hf | hf
      · rw [hf] at h1; exact absurd h1 (by simp)
      · rw [hf] at h2; exact absurd h2 (by simp)
    · simp only [hflag, Bool.false_eq_true, if_false] at h1 h2 ⊢
      by_cases hrepeat : ((pass cs it).2 && (cfg.rep == .always || (cfg.rep == .last && decide (cs ≤ final)))) = true
      · simp only [hrepeat, if_true] at h1 h2 ⊢
        exact ih cs _ h1 h2
      · simp only [hrepeat, Bool.false_eq_true, if_false] at h1 h2 ⊢
        by_cases hlast : cs ≤ final
        · simp only [hlast, decide_true, if_true] at h1 h2 ⊢
          refine ⟨cs, it, hlast, ?_, rfl⟩
          -- nothing was accepted in this pass, otherwise it would have been repeated
          cases hp : (pass cs it).2 with
          | false => rfl
          | true =>
            exfalso; apply hrepeat
            rcases hrep with hr | hr <;> simp [hp, hr, hlast]
        · simp only [hlast, decide_false, Bool.false_eq_true, if_false] at h1 h2 ⊢
          exact ih (cs / 2) _ h1 h2

/-- minimize-around, for every test and clock: with repeat `last`/`always` and no time limit, a
run that ends normally ends right after a quiet pass at a chunk size ≤ max(min, 1) -/
theorem C13_around_ends_after_quiet_pass (cfg : Cfg) (o : Oracle) (clk : Clock) (t : Testcase)
    (hrep : cfg.rep = .last ∨ cfg.rep = .always) (hstop : cfg.stopAfter = none)
    (h1 : (around cfg o clk t).outOfFuel = false) (h2 : (around cfg o clk t).internalError = false) :
    ∃ cs' it', cs' ≤ max cfg.min 1 ∧ (aroundPass o clk none cs' it').2 = false ∧
      around cfg o clk t = (aroundPass o clk none cs' it').1 := by
  have hs : stopAt cfg clk = none := by simp [stopAt, hstop]
  unfold around at h1 h2 ⊢
  simp only [hs] at h1 h2 ⊢
  exact pairsOuter_quiet cfg clk (fun cs it => aroundPass o clk none cs it) _ hrep _ _ _ h1 h2

theorem C13_balanced_ends_after_quiet_pass (cfg : Cfg) (o : Oracle) (clk : Clock) (t : Testcase)
    (hrep : cfg.rep = .last ∨ cfg.rep = .always) (hstop : cfg.stopAfter = none)
    (h1 : (balanced cfg o clk t).outOfFuel = false) (h2 : (balanced cfg o clk t).internalError = false) :
    ∃ cs' it', cs' ≤ max cfg.min 1 ∧ (balPass o clk none cs' it').2 = false ∧
      balanced cfg o clk t = (balPass o clk none cs' it').1 := by
  have hs : stopAt cfg clk = none := by simp [stopAt, hstop]
  unfold balanced at h1 h2 ⊢
  simp only [hs] at h1 h2 ⊢
  exact pairsOuter_quiet cfg clk (fun cs it => balPass o clk none cs it) _ hrep _ _ _ h1 h2

/-- non-vacuity: `{ x }` + `y`: with a test that accepts only the removal of the brace pair,
minimize-balanced removes the pair (atom 0 with its partner 2) and stops at `x`,`y` -/
example :
    let t : Testcase := { before := [], parts := [[0x7B], [0x78], [0x7D], [0x79]], reducible := [true, true, true, true], after := [] }
    (balanced {} (fun _ c => c == [0x78, 0x79]) (fun _ => 0) t).best.parts = [[0x78], [0x79]] ∧
    (balanced {} (fun _ c => c == [0x78, 0x79]) (fun _ => 0) t).outOfFuel = false := by
  decide

end Strat
