/-
C01 — The final file is exactly the last version the test accepted.

`runMain`/`runCheckOnly` model `Lithium.run()`; the strategy is ANY script of proposals, direct
file writes and failures (`List Ev`), the test ANY sequence of outcomes (including raising), so
the statements quantify over every strategy (also ones not yet written), every atom type and
option, and every behaviour of the test.  `TestRec.disk` is, by construction of the model, the
bytes at the testcase path while that test runs.
-/
import LithiumProofs.World
import LithiumProofs.WorldFrame

namespace World

/-- one `run()` on a fresh `Lithium` object whose testcase was loaded from the file
(`orig.content = diskOrig`, which is C06): however the run ends — normally, original rejected,
nothing to reduce, the test or the strategy raising at any point — the file then holds the
bytes it held during the most recent accepting test, and the original bytes if there was none. -/
theorem C01_final_is_last_accepted (orig : Testcase) (diskOrig : Bytes) (evs : List Ev)
    (first : Outcome) (h : orig.content = diskOrig) :
    (runMain orig diskOrig evs first).disk
      = lastAccepted (runMain orig diskOrig evs first).tests diskOrig :=
  (rest_runMainW diskOrig _ evs first (rest_fresh orig diskOrig h)).disk

theorem C01_check_only (orig : Testcase) (diskOrig : Bytes) (first : Outcome)
    (h : orig.content = diskOrig) :
    (runCheckOnly orig diskOrig first).disk
      = lastAccepted (runCheckOnly orig diskOrig first).tests diskOrig :=
  (rest_runCheckOnlyW diskOrig _ first (rest_fresh orig diskOrig h)).disk

/-- any number of further `run()` calls on the same object (any mix of reducing strategies and
check-only) keep the file equal to the last accepted version over the whole history -/
theorem C01_every_later_run (diskOrig : Bytes) (w0 : W) (h : Rest diskOrig w0) (evs : List Ev)
    (first : Outcome) :
    Rest diskOrig (runMainW w0 evs first) ∧ Rest diskOrig (runCheckOnlyW w0 first) :=
  ⟨rest_runMainW diskOrig w0 evs first h, rest_runCheckOnlyW diskOrig w0 first h⟩

/-- a NEW JOB on a used `Lithium` object: the object may be in ANY state left behind by earlier runs (their log, counters,
remembered testcases — no invariant assumed); if the testcase was loaded afresh, so that it is what the file holds,
the run ends with the file byte-identical to the content it had during the most recent test OF THIS RUN that answered
'interesting' — the file as loaded if there was none.  (False before the fix `e531ec0`: a rejected original let the
previous job's result be written over the new file.) -/
theorem C01_new_job_on_used_object (w0 : W) (evs : List Ev) (first : Outcome) (htc : w0.testcase.content = w0.disk) :
    (runMainW w0 evs first).disk = lastAccepted ((runMainW w0 evs first).tests.drop w0.tests.length) w0.disk :=
  new_job_final w0 evs first htc

/-- inside the reduction loop the iterator's best testcase — the only thing a strategy can read
back and derive its next candidates from — is always the last accepted candidate: a rejected,
skipped or aborted candidate never becomes `best`. -/
theorem C01_best_is_last_accepted (diskOrig : Bytes) (w : W) (evs : List Ev) (h : Core diskOrig w) :
    (loop w evs).best.content = lastAccepted (loop w evs).tests diskOrig ∧
    (loop w evs).lastInteresting = some (loop w evs).best :=
  ⟨(core_loop diskOrig w evs h).best, (core_loop diskOrig w evs h).li⟩

/-- non-vacuity: accept the original, reject a candidate, accept another, then the strategy
writes junk into the file and fails: the file ends up holding the accepted candidate. -/
example :
    let t (ps : List Bytes) : Testcase := { before := [], parts := ps, reducible := ps.map (fun _ => true), after := [] }
    let w := runMain (t [[1], [2], [3]]) [1, 2, 3]
      [.propose (t [[1], [2]]) .reject, .propose (t [[1], [3]]) .accept, .write [9, 9], .strategyError] .accept
    w.disk = [1, 3] ∧ w.exit = .raised ∧ w.tests.length = 3 := by
  decide

end World
