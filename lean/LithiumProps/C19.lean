/-
C19 — outputs, diff_test and repeat decide exactly what they document.
`rx` stands for `re.search(pattern, ·, MULTILINE)` (uninterpreted: any predicate on bytes).
-/
import LithiumModel.Interest

namespace Interest

/-- `outputs`: interesting exactly when the search text (or, with --regex, a match of the
pattern) occurs in stdout or stderr — the same verdict whether output is captured in memory or
in log files -/
theorem C19_outputs (regex : Bool) (rx : Bytes → Bool) (s out err : Bytes) :
    outputsMem regex rx s out err = outputsFile regex rx s out err ∧
    (regex = false → (outputsMem regex rx s out err = true ↔ (Load.hasSub s out = true ∨ Load.hasSub s err = true))) ∧
    (regex = true → (outputsMem regex rx s out err = true ↔ (rx out = true ∨ rx err = true))) := by
  cases regex <;> simp [outputsMem, outputsFile]

/-- `diff_test`: interesting exactly when the two runs differ in exit status (`none` = timed out),
stdout or stderr -/
theorem C19_diff (a b : RunData) :
    diffTest a b = true ↔ (a.rc ≠ b.rc ∨ a.out ≠ b.out ∨ a.err ≠ b.err) := by
  unfold diffTest
  by_cases h : a.rc = b.rc
  · simp [h]
  · simp [h]

theorem repeatLoop_spec (inner : Nat → Bool) (k done : Nat) :
    ((repeatLoop inner k done).1 = true ↔ ∃ i, done < i ∧ i ≤ done + k ∧ inner i = true) ∧
    ((repeatLoop inner k done).1 = true →
      done < (repeatLoop inner k done).2 ∧ (repeatLoop inner k done).2 ≤ done + k ∧
      inner (repeatLoop inner k done).2 = true ∧
      ∀ j, done < j → j < (repeatLoop inner k done).2 → inner j = false) ∧
    ((repeatLoop inner k done).1 = false → (repeatLoop inner k done).2 = done + k) := by
  induction k generalizing done with
  | zero =>
    refine ⟨?_, ?_, ?_⟩
    · simp only [repeatLoop]
      constructor
      · intro h; exact absurd h (by simp)
      · rintro ⟨i, a, b, c⟩; omega
    · intro h; simp [repeatLoop] at h
    · intro _; simp [repeatLoop]
  | succ k ih =>
    unfold repeatLoop
    by_cases h : inner (done + 1) = true
    · rw [if_pos h]
      refine ⟨⟨fun _ => ⟨done + 1, by omega, by omega, h⟩, fun _ => rfl⟩,
        fun _ => ⟨by simp, by simp, h, fun j h1 h2 => by simp at h2; omega⟩, ?_⟩
      intro h'; simp at h'
    · have h' : inner (done + 1) = false := by simpa using h
      rw [if_neg h]
      obtain ⟨i1, i2, i3⟩ := ih (done + 1)
      refine ⟨?_, ?_, ?_⟩
      · rw [i1]
        constructor
        · rintro ⟨i, a, b, c⟩; exact ⟨i, by omega, by omega, c⟩
        · rintro ⟨i, a, b, c⟩
          have : i ≠ done + 1 := by intro he; subst he; rw [h'] at c; exact absurd c (by simp)
          exact ⟨i, by omega, by omega, c⟩
      · intro ht
        obtain ⟨a, b, c, d⟩ := i2 ht
        refine ⟨by omega, by omega, c, ?_⟩
        intro j hj1 hj2
        by_cases hje : j = done + 1
        · subst hje; exact h'
        · exact d j (by omega) hj2
      · intro hf; rw [i3 hf]; omega

/-- `repeat N test ...`: interesting exactly when one of the runs 1..N of the inner test is;
it stops at the first success (the number of inner runs is the index of the first success, else
N); run `i` receives the arguments with the cookie replaced by `i` -/
theorem C19_repeat (n : Nat) (inner : Nat → Bool) :
    ((repeatTest n inner).1 = true ↔ ∃ i, 1 ≤ i ∧ i ≤ n ∧ inner i = true) ∧
    ((repeatTest n inner).1 = true →
      inner (repeatTest n inner).2 = true ∧ ∀ j, 1 ≤ j → j < (repeatTest n inner).2 → inner j = false) ∧
    ((repeatTest n inner).1 = false → (repeatTest n inner).2 = n) := by
  obtain ⟨i1, i2, i3⟩ := repeatLoop_spec inner n 0
  unfold repeatTest
  refine ⟨?_, ?_, ?_⟩
  · rw [i1]
    constructor
    · rintro ⟨i, a, b, c⟩; exact ⟨i, by omega, by omega, c⟩
    · rintro ⟨i, a, b, c⟩; exact ⟨i, by omega, by omega, c⟩
  · intro h
    obtain ⟨a, b, c, d⟩ := i2 h
    exact ⟨c, fun j hj1 hj2 => d j (by omega) hj2⟩
  · intro h; rw [i3 h]; omega

theorem C19_repeat_args (cookie : String) (args : List String) (i : Nat) :
    repeatArgs cookie args i = args.map (fun s => s.replace cookie (toString i)) := rfl

/-- non-vacuity -/
example : repeatTest 5 (fun i => i == 3) = (true, 3) ∧ repeatTest 2 (fun i => i == 3) = (false, 2) := by
  decide

end Interest
