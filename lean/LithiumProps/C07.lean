/-
C07 — Deleting an index range deletes exactly those reducible atoms.

Property theorems only; helper lemmas are in LithiumProofs/Rmslice.lean.
-/
import LithiumProofs.Rmslice

namespace Testcase

/-- the property's words for index handling: negative values count from the end,
out-of-range values are clamped to `[0, n]` -/
def clampSpec (n : Nat) (x : Int) : Nat :=
  (min (max (if x < 0 then x + n else x) 0) n).toNat

/-- `C07_clamp`: `_clamp` is that rule, for every integer; `None` selects the default. -/
theorem C07_clamp (n : Nat) (x : Int) (d : Nat) :
    clamp n (some x) d = clampSpec n x ∧ clamp n none d = d := by
  refine ⟨?_, rfl⟩
  simp only [clamp, clampSpec]
  by_cases h1 : x < 0
  · simp only [h1, if_true]; omega
  · simp only [h1, if_false]
    by_cases h2 : x > (n : Int)
    · simp only [h2, if_true]; omega
    · simp only [h2, if_false]; omega

/-- `C07_len_counts`: the reported length is the number of reducible atoms. -/
theorem C07_len_counts (t : Testcase) (h : t.WF) : t.len = t.reducible.count true :=
  len_eq_count t h

/-- `C07_rmslice_spec`: for every well-formed testcase and every pair of bounds (any integers
or `None`) with `clamp a ≤ clamp b`, `copy()+rmslice(a, b)` does not raise, leaves
`before`/`after` alone, keeps the two lists aligned, removes exactly the reducible atoms
of rank `clamp a … clamp b - 1` (everything else keeps bytes, flag and order), and the
reported length drops by exactly the number removed. -/
theorem C07_rmslice_spec (t : Testcase) (h : t.WF) (a b : Option Int)
    (hab : clamp t.len a 0 ≤ clamp t.len b t.len) :
    ∃ t', t.rmslice? a b = some t' ∧ t'.before = t.before ∧ t'.after = t.after ∧ t'.WF ∧
      t'.parts.zip t'.reducible
        = eraseRanks (clamp t.len a 0) (clamp t.len b t.len) 0 (t.parts.zip t.reducible) ∧
      t'.len = t.len - (clamp t.len b t.len - clamp t.len a 0) := by
  have ha := clamp_le t.len a 0 (Nat.zero_le _)
  have hb := clamp_le t.len b t.len (Nat.le_refl _)
  obtain ⟨s, hs, hsl, hsc⟩ := opts_get t h _ ha
  obtain ⟨e, he, hel, hec⟩ := opts_get t h _ hb
  have hraw : t.rmslice? a b = some (t.rmsliceRaw s e) := by
    simp only [rmslice?, sliceXlat, hs, he]
  generalize clamp t.len a 0 = A at *
  generalize clamp t.len b t.len = B at *
  have hn := len_eq_count t h
  have hwf : t.parts.length = t.reducible.length := h
  -- s ≤ e, because the number of reducible entries before an index is monotone in the index
  have hse : s ≤ e := by
    rcases Nat.lt_or_ge A B with hlt | hge
    · rcases Nat.lt_or_ge e s with h1 | h2
      · have := count_take_mono t.reducible (Nat.le_of_lt h1); omega
      · exact h2
    · have hAB : A = B := by omega
      subst hAB
      have : some s = some e := by rw [← hs, ← he]
      injection this with this; omega
  refine ⟨_, hraw, rfl, rfl, ?_, ?_, ?_⟩
  · -- the two lists stay aligned
    simp only [WF, rmsliceRaw, List.length_append, List.length_take, List.length_drop,
      List.length_replicate]
    omega
  · -- exactly the ranks [A, B) disappear
    let z := t.parts.zip t.reducible
    have hzlen : z.length = t.reducible.length := by simp [z, List.length_zip, hwf]
    have hzsnd : z.map (·.2) = t.reducible := map_snd_zip _ _ hwf
    have hsplit : z = z.take s ++ ((z.drop s).take (e - s) ++ z.drop e) := by
      have h1 : (z.drop s).take (e - s) ++ z.drop e = z.drop s := by
        have : z.drop e = (z.drop s).drop (e - s) := by
          rw [List.drop_drop]; congr 1; omega
        rw [this, List.take_append_drop]
      rw [h1, List.take_append_drop]
    have hc1 : ((z.take s).map (·.2)).count true = A := by
      rw [List.map_take, hzsnd]; exact hsc
    have hc2 : (((z.drop s).take (e - s)).map (·.2)).count true = B - A := by
      have htot : ((z.take e).map (·.2)).count true = B := by
        rw [List.map_take, hzsnd]; exact hec
      have : z.take e = z.take s ++ (z.drop s).take (e - s) := by
        have h2 : z.take s = (z.take e).take s := by
          rw [List.take_take]; congr 1; omega
        have h3 : (z.drop s).take (e - s) = (z.take e).drop s := by
          rw [List.drop_take]
        rw [h2, h3, List.take_append_drop]
      rw [this, List.map_append, List.count_append, hc1] at htot
      omega
    have hres : (t.rmsliceRaw s e).parts.zip (t.rmsliceRaw s e).reducible
        = z.take s ++ (((z.drop s).take (e - s)).filter (fun x => !x.2) ++ z.drop e) := by
      simp only [rmsliceRaw]
      rw [List.append_assoc, List.append_assoc,
        List.zip_append (by simp [List.length_take, hwf]),
        List.zip_append (by simp)]
      have hmid : (t.parts.drop s |>.take (e - s)).zip (t.reducible.drop s |>.take (e - s))
          = (z.drop s).take (e - s) := by
        simp only [z, take_zip', drop_zip']
      rw [hmid, filter_not_zip_falses]
      simp only [z, take_zip', drop_zip']
    rw [hres]
    show _ = eraseRanks A B 0 z
    conv => rhs; rw [hsplit]
    rw [eraseRanks_append, eraseRanks_append, hc1, hc2]
    rw [eraseRanks_below _ _ _ _ (by omega), eraseRanks_inside _ _ _ _ (by omega) (by omega),
      eraseRanks_above _ _ _ _ (by omega)]
  · -- the length drops by the number removed
    have hwf' : (t.rmsliceRaw s e).WF := by
      simp only [WF, rmsliceRaw, List.length_append, List.length_take, List.length_drop,
        List.length_replicate]
      omega
    rw [len_eq_count _ hwf', hn]
    simp only [rmsliceRaw, List.count_append]
    have hfalse : (List.replicate
        (List.map (fun x => x.fst) (List.filter (fun x => !x.snd)
          ((List.take (e - s) (List.drop s t.parts)).zip
            (List.take (e - s) (List.drop s t.reducible))))).length false).count true = 0 := by
      simp [List.count_replicate]
    rw [hfalse, hsc]
    have hdrop : (t.reducible.drop e).count true = t.reducible.count true - B := by
      have := List.take_append_drop e t.reducible
      have h4 : t.reducible.count true = (t.reducible.take e).count true + (t.reducible.drop e).count true := by
        conv => lhs; rw [← this]
        rw [List.count_append]
      omega
    rw [hdrop]
    have : B ≤ t.reducible.count true := by omega
    omega

/-- non-vacuity: a concrete testcase with both kinds of parts meets the hypotheses, and the
deletion removes what the statement says. -/
example :
    let t : Testcase := { before := [1], parts := [[10], [11], [12], [13]],
                          reducible := [true, false, true, true], after := [2] }
    t.WF ∧ clamp t.len (some (-2)) 0 ≤ clamp t.len (some 99) t.len ∧
    (t.rmslice? (some (-2)) (some 99)).map (·.parts) = some [[10], [11]] := by
  decide

end Testcase
