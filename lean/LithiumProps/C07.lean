/-
C07 — Deleting an index range deletes exactly those reducible atoms.

Property theorems only; helper lemmas are in LithiumProofs/Rmslice.lean.
-/
import LithiumProofs.Rmslice

namespace Testcase

/-- the property's words for index handling: negative values count from the end,
out-of-range values are clamped to `[0, n]` -/
def clampSpec (n : Nat) (x : Int) : Nat :=
  (min (max (if x < 0 then x + n else x) 0) n).toNat

/-- `C07_clamp`: `_clamp` is that rule, for every integer; `None` selects the default. -/
theorem C07_clamp (n : Nat) (x : Int) (d : Nat) :
    clamp n (some x) d = clampSpec n x ∧ clamp n none d = d := by
  refine ⟨?_, rfl⟩
  simp only [clamp, clampSpec]
  by_cases h1 : x < 0
  · simp only [h1, if_true]; omega
  · simp only [h1, if_false]
    by_cases h2 : x > (n : Int)
    · simp only [h2, if_true]; omega
    · simp only [h2, if_false]; omega

/-- `C07_len_counts`: the reported length is the number of reducible atoms. -/
theorem C07_len_counts (t : Testcase) (h : t.WF) : t.len = t.reducible.count true :=
  len_eq_count t h

/-- `C07_rmslice_spec`: for every well-formed testcase and every pair of bounds (any integers
or `None`) with `clamp a ≤ clamp b`, `copy()+rmslice(a, b)` does not raise, leaves
`before`/`after` alone, keeps the two lists aligned, removes exactly the reducible atoms
of rank `clamp a … clamp b - 1` (everything else keeps bytes, flag and order), and the
reported length drops by exactly the number removed. -/
theorem C07_rmslice_spec (t : Testcase) (h : t.WF) (a b : Option Int)
    (hab : clamp t.len a 0 ≤ clamp t.len b t.len) :
    ∃ t', t.rmslice? a b = some t' ∧ t'.before = t.before ∧ t'.after = t.after ∧ t'.WF ∧
      t'.parts.zip t'.reducible
        = eraseRanks (clamp t.len a 0) (clamp t.len b t.len) 0 (t.parts.zip t.reducible) ∧
      t'.len = t.len - (clamp t.len b t.len - clamp t.len a 0) :=
  rmslice_spec t h a b hab

/-- non-vacuity: a concrete testcase with both kinds of parts meets the hypotheses, and the
deletion removes what the statement says. -/
example :
    let t : Testcase := { before := [1], parts := [[10], [11], [12], [13]],
                          reducible := [true, false, true, true], after := [2] }
    t.WF ∧ clamp t.len (some (-2)) 0 ≤ clamp t.len (some 99) t.len ∧
    (t.rmslice? (some (-2)) (some 99)).map (·.parts) = some [[10], [11]] := by
  decide

end Testcase
