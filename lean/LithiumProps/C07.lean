/-
C07 — Deleting an index range deletes exactly those reducible atoms.

Property theorems only; helper lemmas are in LithiumProofs/Rmslice.lean.
-/
import LithiumProofs.Rmslice
import LithiumProofs.Alias

namespace Testcase

/-- the property's words for index handling: negative values count from the end,
out-of-range values are clamped to `[0, n]` -/
def clampSpec (n : Nat) (x : Int) : Nat :=
  (min (max (if x < 0 then x + n else x) 0) n).toNat

/-- `C07_clamp`: `_clamp` is that rule, for every integer; `None` selects the default. -/
theorem C07_clamp (n : Nat) (x : Int) (d : Nat) :
    clamp n (some x) d = clampSpec n x ∧ clamp n none d = d := by
  refine ⟨?_, rfl⟩
  simp only [clamp, clampSpec]
  by_cases h1 : x < 0
  · simp only [h1, if_true]; omega
  · simp only [h1, if_false]
    by_cases h2 : x > (n : Int)
    · simp only [h2, if_true]; omega
    · simp only [h2, if_false]; omega

/-- `C07_len_counts`: the reported length is the number of reducible atoms. -/
theorem C07_len_counts (t : Testcase) (h : t.WF) : t.len = t.reducible.count true :=
  len_eq_count t h

/-- `C07_rmslice_spec`: for every well-formed testcase and every pair of bounds (any integers
or `None`) with `clamp a ≤ clamp b`, `copy()+rmslice(a, b)` does not raise, leaves
`before`/`after` alone, keeps the two lists aligned, removes exactly the reducible atoms
of rank `clamp a … clamp b - 1` (everything else keeps bytes, flag and order), and the
reported length drops by exactly the number removed. -/
theorem C07_rmslice_spec (t : Testcase) (h : t.WF) (a b : Option Int)
    (hab : clamp t.len a 0 ≤ clamp t.len b t.len) :
    ∃ t', t.rmslice? a b = some t' ∧ t'.before = t.before ∧ t'.after = t.after ∧ t'.WF ∧
      t'.parts.zip t'.reducible
        = eraseRanks (clamp t.len a 0) (clamp t.len b t.len) 0 (t.parts.zip t.reducible) ∧
      t'.len = t.len - (clamp t.len b t.len - clamp t.len a 0) :=
  rmslice_spec t h a b hab

/-- non-vacuity: a concrete testcase with both kinds of parts meets the hypotheses, and the
deletion removes what the statement says. -/
example :
    let t : Testcase := { before := [1], parts := [[10], [11], [12], [13]],
                          reducible := [true, false, true, true], after := [2] }
    t.WF ∧ clamp t.len (some (-2)) 0 ≤ clamp t.len (some 99) t.len ∧
    (t.rmslice? (some (-2)) (some 99)).map (·.parts) = some [[10], [11]] := by
  decide

end Testcase

namespace Alias

/-- "A copy is independent", for every history: start from one loaded testcase and apply ANY sequence of
`copy()`, `rmslice(a, b)` and in-place edits of an object's lists (`tc.reducible[i] = v`, `tc.parts[i] = v`) to
any of the objects that exist by then.  Whatever the next operation is, every object other than the one it is
applied to holds exactly the parts and flags it held before — and `copy()` leaves also the object it copies
unchanged.  (Heap model `Alias`: objects hold references to list objects; the invariant is that no two objects
ever share a list, `Alias.Inv`.) -/
theorem C07_copy_independent (parts : List Bytes) (flags : List Bool) (ops : List Op) (op : Op) (j : Nat)
    (hj : j < (run (init parts flags) ops).objs.length) (hne : j ≠ target op ∨ ∃ o, op = .copy o) :
    view (step (run (init parts flags) ops) op) j = view (run (init parts flags) ops) j :=
  step_others _ op (run_inv _ ops (inv_init parts flags)) j hj hne

/-- the copy looks like the original at the moment it is made -/
theorem C07_copy_equal (h : Heap) (o : Nat) (ob : Obj) (ho : h.objs[o]? = some ob) :
    view (step h (.copy o)) h.objs.length = view h o :=
  copy_view h o ob ho

/-- and `rmslice` on an object is the pure function that `C07_rmslice_spec` speaks about -/
theorem C07_rmslice_on_object (h : Heap) (o : Nat) (a b : Option Int) (ps : List Bytes) (fs : List Bool) (t' : Testcase)
    (hv : view h o = some (ps, fs))
    (hr : ({ before := [], parts := ps, reducible := fs, after := [] } : Testcase).rmslice? a b = some t') :
    view (step h (.rmslice o a b)) o = some (t'.parts, t'.reducible) :=
  rmslice_view h o a b ps fs t' hv hr

/-- non-vacuity: copy, delete from the copy, flip a flag of the copy in place, copy the copy, delete from the
original: three objects, all different, the first still complete but for its own deletion -/
example :
    let h := run (init [[0x61], [0x62], [0x63]] [true, true, true])
      [.copy 0, .rmslice 1 (some 0) (some 1), .setFlag 1 0 false, .copy 1, .rmslice 0 (some 2) none]
    (view h 0, view h 1, view h 2) =
      (some ([[0x61], [0x62]], [true, true]), some ([[0x62], [0x63]], [false, true]), some ([[0x62], [0x63]], [false, true])) := by
  rfl

end Alias
