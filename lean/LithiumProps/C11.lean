/-
C11 — An uninteresting original is left untouched; the exit status tells the outcome.
-/
import LithiumProofs.World
import LithiumProofs.WorldStatus

namespace World

/-- the test rejects the original: exactly one test ran, the testcase file was never opened for
writing, the status is 1 — for every strategy script -/
theorem C11_reject_original (orig : Testcase) (diskOrig : Bytes) (evs : List Ev) (h0 : orig.len ≠ 0) :
    let w := runMain orig diskOrig evs .reject
    w.tests.length = 1 ∧ w.testCount = 1 ∧ w.diskWrites = 0 ∧ w.disk = diskOrig ∧ w.exit = .returned 1 := by
  obtain ⟨-, -, c2, -⟩ := runMain_cases orig diskOrig evs .reject
  simp only
  rw [c2 h0 rfl]
  obtain ⟨s1, -, -, -, s5, -, -, -, -, -, s11, s12, s13⟩ := start_fields orig diskOrig
  obtain ⟨ht, -, hcnt, hd, -, -, -, -, hdw⟩ := interesting_fields (start orig diskOrig) orig false .reject
  obtain ⟨-, -, -, hli, -⟩ := interesting_reject (start orig diskOrig) orig false
  simp only [finish, hli, s11]
  simp [ht, hcnt, hd, hdw, s1, s5, s12, s13]

/-- nothing to reduce (no reducible atom): no test, no write, status 0 -/
theorem C11_nothing_to_reduce (orig : Testcase) (diskOrig : Bytes) (evs : List Ev) (first : Outcome)
    (h0 : orig.len = 0) :
    let w := runMain orig diskOrig evs first
    w.tests = [] ∧ w.testCount = 0 ∧ w.diskWrites = 0 ∧ w.disk = diskOrig ∧ w.exit = .returned 0 := by
  obtain ⟨c0, -⟩ := runMain_cases orig diskOrig evs first
  simp only
  rw [c0 h0]
  obtain ⟨s1, -, -, -, s5, -, -, -, -, -, s11, s12, s13⟩ := start_fields orig diskOrig
  simp [finish, s1, s5, s11, s12, s13]

/-- the original is accepted: unless the run is aborted, the status is 0 exactly when at least
one later candidate was accepted, and 1 when nothing could be removed -/
theorem C11_status (orig : Testcase) (diskOrig : Bytes) (evs : List Ev) (h : orig.content = diskOrig)
    (h0 : orig.len ≠ 0) :
    let w := runMain orig diskOrig evs .accept
    w.exit = .raised ∨
      w.exit = .returned (if w.tests.tail.any (fun r => r.out == .accept) then 0 else 1) := by
  obtain ⟨-, -, -, c3⟩ := runMain_cases orig diskOrig evs .accept
  simp only
  rw [c3 h0 rfl]
  obtain ⟨hl, -, hrun, -⟩ := after_first_accept orig diskOrig h
  have hL := log_loop _ _ evs hl
  obtain ⟨ht, -, -, -, hexit⟩ := afterLoop_fields (loop (interesting (start orig diskOrig) orig false .accept).1 evs)
  rw [ht, hexit]
  -- the loop only ever leaves `running` by raising
  have hx : ∀ w : W, (w.exit = .running ∨ w.exit = .raised) →
      ((loop w evs).exit = .running ∨ (loop w evs).exit = .raised) := by
    intro w hw
    refine loop_induction (fun w => w.exit = .running ∨ w.exit = .raised) ?_ w evs hw
    intro w e _ hr
    have s := stepEv_shape w e
    generalize stepEv w e = w' at s ⊢
    cases s with
    | write b => exact Or.inl hr
    | err => exact Or.inr rfl
    | skip c out _ => exact Or.inl hr
    | raise c hc => exact Or.inr rfl
    | accept c hc =>
      obtain ⟨-, -, -, -, -, -, -, hexit, -⟩ := interesting_fields { w with tried := c.content :: w.tried } c true .accept
      exact Or.inl (by simpa [hr] using hexit)
    | reject c hc =>
      obtain ⟨-, -, -, -, -, -, -, hexit, -⟩ := interesting_fields { w with tried := c.content :: w.tried } c true .reject
      exact Or.inl (by simpa [hr] using hexit)
  rcases hx _ (Or.inl hrun) with hr | hr
  · right; rw [hr, hL.succ]
  · left; rw [hr]

/-- check-only: exactly one test, the file is never written, status 0 exactly when the test
accepted (and the run is aborted exactly when the test raised) -/
theorem C11_check_only (orig : Testcase) (diskOrig : Bytes) (first : Outcome) (h : orig.content = diskOrig) :
    let w := runCheckOnly orig diskOrig first
    w.tests.length = 1 ∧ w.testCount = 1 ∧ w.diskWrites = 0 ∧ w.disk = diskOrig ∧
      w.exit = (match first with | .accept => .returned 0 | .reject => .returned 1 | .raise => .raised) := by
  cases first <;> simp [runCheckOnly, runCheckOnlyW, beginRun, fresh, interesting, finish, h]

/-- The same clause for ANY history: the `Lithium` object may have been used for any number of earlier runs and be
in any state `w0` whatsoever (whatever it accepted, wrote or remembers); if the test rejects — or raises on — the
original of THIS run, exactly one test is run, the file is not written (in particular not with what an earlier run
ended with) and the status is non-zero.  Holds since the fix that makes `run()` forget `last_interesting`; before
it, `w0.lastInteresting = some t` with `t.content ≠ w0.disk` was a counterexample (replayed on the real code by
`second_job_same_object`). -/
theorem C11_reject_original_any_history (w0 : W) (evs : List Ev) (h0 : w0.testcase.len ≠ 0) :
    let w := runMainW w0 evs .reject
    w.tests.length = w0.tests.length + 1 ∧ w.testCount = w0.testCount + 1 ∧ w.diskWrites = w0.diskWrites ∧
      w.disk = w0.disk ∧ w.exit = .returned 1 := by
  simp [runMainW, beginRun, dumpOriginal, interesting, finish, h0]

/-- the status clause for ANY history: the object in any prior state, the original accepted and something to reduce — the
run either raises or returns 0 exactly when a candidate was accepted IN THIS RUN (the tests after its first one), 1
otherwise; what earlier runs on the object accepted does not count -/
theorem C11_status_any_history (w0 : W) (evs : List Ev) (h0 : w0.testcase.len ≠ 0) :
    let w := runMainW w0 evs .accept
    w.exit = .raised ∨
      w.exit = .returned (if (w.tests.drop (w0.tests.length + 1)).any (fun r => r.out == .accept) then 0 else 1) :=
  status_any_history w0 evs h0

theorem C11_check_only_any_history (w0 : W) (first : Outcome) :
    let w := runCheckOnlyW w0 first
    w.tests.length = w0.tests.length + 1 ∧ w.testCount = w0.testCount + 1 ∧
      (first ≠ .accept → w.diskWrites = w0.diskWrites ∧ w.disk = w0.disk) ∧
      w.exit = (match first with | .accept => .returned 0 | .reject => .returned 1 | .raise => .raised) := by
  cases first
  · by_cases hd : w0.disk = w0.testcase.content <;> simp [runCheckOnlyW, beginRun, interesting, finish, hd]
  · simp [runCheckOnlyW, beginRun, interesting, finish]
  · simp [runCheckOnlyW, beginRun, interesting, finish]

/-- non-vacuity: accepted original, one rejected and one accepted candidate: status 0 -/
example :
    let t (ps : List Bytes) : Testcase := { before := [], parts := ps, reducible := ps.map (fun _ => true), after := [] }
    (runMain (t [[1], [2]]) [1, 2] [.propose (t [[1]]) .reject, .propose (t [[2]]) .accept] .accept).exit = .returned 0 ∧
    (runMain (t [[1], [2]]) [1, 2] [.propose (t [[1]]) .reject] .accept).exit = .returned 1 := by
  decide

end World
