/-
C06 — Splitting a file and writing it back is the identity.
(all five splitters)
-/
import LithiumProofs.Load
import LithiumProofs.SplitJs
import LithiumProofs.SplitJsNe
import LithiumProofs.SplitAttrs

namespace Load

theorem C06_lines_flatten (d : Bytes) : (Lines.splitLines d).flatten = d :=
  Lines.splitLines_flatten d

/-- line mode: whatever the bytes, a successful load writes back the same bytes, every atom
is non-empty and there is exactly one flag per atom -/
theorem C06_roundtrip_line (d : Bytes) (t : Testcase) (h : loadLine d = .ok t) :
    t.content = d ∧ (∀ p ∈ t.parts, p ≠ []) ∧ t.WF :=
  loadWith_ok _ splitLine_ok d t h

theorem C06_roundtrip_symbol (B A : List UInt8) (d : Bytes) (t : Testcase)
    (h : loadSymbol B A d = .ok t) :
    t.content = d ∧ (∀ p ∈ t.parts, p ≠ []) ∧ t.WF :=
  loadWith_ok _ (splitSymbol_ok B A) d t h

theorem C06_roundtrip_char (d : Bytes) (t : Testcase) (h : loadChar d = .ok t) :
    t.content = d ∧ (∀ p ∈ t.parts, p ≠ []) ∧ t.WF := by
  unfold loadChar at h
  cases h0 : loadWith splitChar d with
  | error e => simp [h0, Except.map] at h
  | ok t0 =>
    simp only [h0, Except.map, Except.ok.injEq] at h
    subst h
    exact charPost_ok t0 d (loadWith_ok _ splitChar_ok d t0 h0)

/-- attribute mode -/
theorem C06_roundtrip_attrs (d : Bytes) (t : Testcase) (h : Attrs.loadAttrs d = .ok t) :
    t.content = d ∧ (∀ p ∈ t.parts, p ≠ []) ∧ t.WF :=
  loadWith_ok _ Attrs.splitAttrs_ok d t h

/-- the attribute splitter never raises: the only failures are the two marker errors -/
theorem C06_no_internal_error_attrs (d : Bytes) (w : String) : Attrs.loadAttrs d ≠ .error (.internal w) :=
  loadWith_no_internal _ (fun x => by unfold Attrs.splitAttrs; simp only; split <;> exact ⟨_, rfl⟩) d w

/-- JS-string mode: the bytes are reproduced, every part — string character, escape sequence, or the
text between them — is non-empty and has exactly one flag (the `chars` index list of the tokenizer
stays strictly increasing and in range through the back-tracking and the gap merge) -/
theorem C06_roundtrip_jsstr (d : Bytes) (t : Testcase) (h : Js.loadJs d = .ok t) :
    t.content = d ∧ (∀ p ∈ t.parts, p ≠ []) ∧ t.WF :=
  loadWith_ok _ Js.splitJs_ok d t h

/-- non-vacuity: `x='a\x41'+"b"` -/
example :
    (Js.loadJs [0x78, 0x3D, 0x27, 0x61, 0x5C, 0x78, 0x34, 0x31, 0x27, 0x2B, 0x22, 0x62, 0x22]).toOption.map
      (fun t => (t.before, t.parts, t.reducible, t.after))
      = some ([0x78, 0x3D, 0x27], [[0x61], [0x5C, 0x78, 0x34, 0x31], [0x27, 0x2B, 0x22], [0x62]], [true, true, false, true], [0x22]) := by
  decide

/-- the only failures of these three loaders are the two marker errors -/
theorem C06_no_internal_error (d : Bytes) (w : String) (B A : List UInt8) :
    loadLine d ≠ .error (.internal w) ∧ loadChar d ≠ .error (.internal w) ∧
      loadSymbol B A d ≠ .error (.internal w) := by
  refine ⟨loadWith_no_internal _ (fun x => ⟨_, rfl⟩) d w, ?_,
    loadWith_no_internal _ (fun x => ⟨_, rfl⟩) d w⟩
  unfold loadChar
  have := loadWith_no_internal splitChar (fun x => ⟨_, rfl⟩) d w
  cases h0 : loadWith splitChar d with
  | ok t0 => simp [Except.map]
  | error e =>
    simp only [Except.map, ne_eq, Except.error.injEq]
    rintro rfl
    exact this h0

/-- non-vacuity: a char-mode file with markers whose last reducible line ends in CR -/
example :
    (loadChar ([0x61,0x0A] ++ DDBEGIN ++ [0x0A,0x78,0x0D] ++ DDEND ++ [0x0A])).toOption.map
      (fun t => (t.parts, t.after)) = some ([[0x78]], [0x0D] ++ DDEND ++ [0x0A]) := by
  decide

end Load
