/-
C14 — Chunk-size, repeat and time-limit options are honoured.
(minimize blocks, power-of-two refusal, --chunk-size, time limit of minimize; the resweep rule
and the time limit of around/balanced: see DESIGN.md §4 C14 for what is partial.)
-/
import LithiumProofs.MinimizeLog
import LithiumProofs.PairsTime
import LithiumProofs.PairsMove
import LithiumProofs.MinClause
import LithiumProofs.Util
import LithiumModel.Args

namespace Strat
open Testcase

/-- `is_power_of_two(k)` holds exactly for `k = 2^j`, for every integer `k` -/
theorem C14_pow2 (i : Int) : Util.isPowerOfTwo i = true ↔ ∃ j : Nat, i = (2 : Int) ^ j :=
  Util.isPowerOfTwo_iff i

/-- start-up refuses exactly the settings whose effective min or max is not a power of two
(`effective`: `--chunk-size=n` means min = max = n with repeat = never, else the given values);
an accepted setting is handed to the strategy unchanged -/
theorem C14_process_args (a : Args) :
    (∀ cfg, processArgs a = .ok cfg →
      (cfg.min : Int) = (effective a).1 ∧ (cfg.max : Int) = (effective a).2.1 ∧ cfg.rep = (effective a).2.2 ∧
      (∃ j : Nat, (effective a).1 = (2 : Int) ^ j) ∧ (∃ j : Nat, (effective a).2.1 = (2 : Int) ^ j)) ∧
    ((∃ e, processArgs a = .error e) ↔
      ¬ ((∃ j : Nat, (effective a).1 = (2 : Int) ^ j) ∧ (∃ j : Nat, (effective a).2.1 = (2 : Int) ^ j))) ∧
    (∀ c, a.chunkSize = some c → effective a = (c, c, .never)) ∧
    (a.chunkSize = none → effective a = (a.min, a.max, a.rep)) := by
  refine ⟨?_, ?_, by intro c hc; simp [effective, hc], by intro hc; simp [effective, hc]⟩
  · intro cfg hc
    unfold processArgs at hc
    simp only at hc
    by_cases h1 : Util.isPowerOfTwo (effective a).1 = true
    · by_cases h2 : Util.isPowerOfTwo (effective a).2.1 = true
      · rw [if_neg (by simp [h1]), if_neg (by simp [h2])] at hc
        simp only [Except.ok.injEq] at hc
        subst hc
        have p1 := (C14_pow2 _).mp h1
        have p2 := (C14_pow2 _).mp h2
        have n1 : (((effective a).1.toNat : Nat) : Int) = (effective a).1 := by
          obtain ⟨j, hj⟩ := p1
          have : (0 : Int) ≤ (effective a).1 := by rw [hj]; exact Int.pow_nonneg (by omega)
          omega
        have n2 : (((effective a).2.1.toNat : Nat) : Int) = (effective a).2.1 := by
          obtain ⟨j, hj⟩ := p2
          have : (0 : Int) ≤ (effective a).2.1 := by rw [hj]; exact Int.pow_nonneg (by omega)
          omega
        exact ⟨n1, n2, rfl, p1, p2⟩
      · rw [if_neg (by simp [h1]), if_pos (by simpa using h2)] at hc
        exact absurd hc (by simp)
    · rw [if_pos (by simpa using h1)] at hc
      exact absurd hc (by simp)
  · unfold processArgs
    simp only
    by_cases h1 : Util.isPowerOfTwo (effective a).1 = true
    · by_cases h2 : Util.isPowerOfTwo (effective a).2.1 = true
      · rw [if_neg (by simp [h1]), if_neg (by simp [h2])]
        exact ⟨by rintro ⟨e, he⟩; simp at he, fun hn => absurd ⟨(C14_pow2 _).mp h1, (C14_pow2 _).mp h2⟩ hn⟩
      · rw [if_neg (by simp [h1]), if_pos (by simpa using h2)]
        exact ⟨fun _ hn => h2 ((C14_pow2 _).mpr hn.2), fun _ => ⟨_, rfl⟩⟩
    · rw [if_pos (by simpa using h1)]
      exact ⟨fun _ hn => h1 ((C14_pow2 _).mpr hn.1), fun _ => ⟨_, rfl⟩⟩

/-- every minimize candidate deletes one contiguous, non-empty block `[lo, hi)` of reducible atoms
from the current best (`base`); the chunk size in force is a power of two, never exceeds the
effective maximum min(--max, largest power of two below the atom count), never increases from one
proposal to the next, and the block has exactly that many atoms unless it is the entire remainder
(which then has fewer atoms than the chunk size).  For every test, clock and repeat mode, and every
power-of-two --max. -/
theorem C14_blocks (cfg : Cfg) (o : Oracle) (clk : Clock) (t : Testcase) (h : t.WF)
    (hmax : ∃ k, cfg.max = 2 ^ k) :
    let r := minimize cfg o clk t
    let cs0 := min cfg.max (Util.lp2 t.len)
    (∀ a ∈ r.atts,
      a.cand = a.base.rmslice a.lo a.hi ∧ a.lo < a.hi ∧ a.hi ≤ a.base.len ∧
      (a.hi - a.lo = a.size ∨ (a.lo = 0 ∧ a.hi = a.base.len ∧ a.base.len < a.size)) ∧
      (∃ k, a.size = 2 ^ k) ∧ a.size ≤ cs0) ∧
    r.atts.Pairwise (fun newer older => newer.size ≤ older.size) := by
  obtain ⟨k, hk⟩ := hmax
  have hmax1 : 1 ≤ cfg.max := by rw [hk]; exact Nat.one_le_two_pow
  have hp := Util.lp2_pos t.len
  have hinv : MInv t.len (minInit cfg t) { best := t } := by
    refine ⟨h, ?_, ?_, by simp [minInit], Nat.le_refl _⟩
    · show 1 ≤ min cfg.max (Util.lp2 t.len); omega
    · show 1 ≤ min (min cfg.max (Util.lp2 t.len)) (max cfg.min 1); omega
  have hpow : ∃ j, min cfg.max (Util.lp2 t.len) = 2 ^ j := by
    obtain ⟨j, hj⟩ := Util.lp2_pow2 t.len
    by_cases hle : cfg.max ≤ Util.lp2 t.len
    · exact ⟨k, by rw [Nat.min_eq_left hle, hk]⟩
    · exact ⟨j, by rw [Nat.min_eq_right (by omega), hj]⟩
  obtain ⟨st', it', -, hP, -, e2, -, -⟩ :=
    minLoop_reach cfg o clk (stopAt cfg clk) t.len
      (fun st it => LInv t (min cfg.max (Util.lp2 t.len)) st it)
      (fun st it st' _ hp hr => linv_round cfg clk (stopAt cfg clk) t _ st it st' hp hr)
      (fun st it ha hp => linv_attempt o t _ t.len st it ha hp)
      (minFuel t) (minInit cfg t) { best := t } hinv
      ⟨isDel_refl t h, by intro a ha; simp at ha, List.Pairwise.nil, hpow, Nat.le_refl _⟩
  simp only
  unfold minimize
  rw [e2]
  refine ⟨?_, hP.sorted⟩
  intro a ha
  obtain ⟨b, -⟩ := hP.atts a ha
  refine ⟨b.cand, b.lo_hi, by rw [← b.len]; exact b.hi_le, ?_, b.pow2, b.le⟩
  rcases b.block with hb | ⟨h1, h2, h3⟩
  · exact Or.inl hb
  · exact Or.inr ⟨h1, by rw [← b.len]; exact h2, by rw [← b.len]; exact h3⟩

/-- the time limit: every proposal of minimize (hence every test it starts) is made at a moment
when the clock has not passed `start + limit`; with a clock that never goes back, once the limit
has passed no further test is started. -/
theorem C14_deadline_minimize (cfg : Cfg) (o : Oracle) (clk : Clock) (t : Testcase) (h : t.WF)
    (hmax : 1 ≤ cfg.max) (limit : Nat) (hl : cfg.stopAfter = some limit) :
    (∀ a ∈ (minimize cfg o clk t).atts, clk a.tIdx ≤ clk 0 + limit) ∧
    ((∀ i j, i ≤ j → clk i ≤ clk j) → ∀ k, clk k > clk 0 + limit →
      ∀ a ∈ (minimize cfg o clk t).atts, a.tIdx < k) := by
  have hp := Util.lp2_pos t.len
  have hinv : MInv t.len (minInit cfg t) { best := t } := by
    refine ⟨h, ?_, ?_, by simp [minInit], Nat.le_refl _⟩
    · show 1 ≤ min cfg.max (Util.lp2 t.len); omega
    · show 1 ≤ min (min cfg.max (Util.lp2 t.len)) (max cfg.min 1); omega
  have hstop : stopAt cfg clk = some (clk 0 + limit) := by simp [stopAt, hl]
  obtain ⟨st', it', -, hP, -, e2, -, -⟩ :=
    minLoop_reach2 cfg o clk (stopAt cfg clk) t.len
      (fun _ it => ∀ a ∈ it.atts, deadlineAt (stopAt cfg clk) clk a.tIdx = false)
      (fun _ it => (∀ a ∈ it.atts, deadlineAt (stopAt cfg clk) clk a.tIdx = false) ∧
        deadlineAt (stopAt cfg clk) clk it.nTests = false)
      (fun st it st' _ hp hr => by
        obtain ⟨-, hd, -⟩ := roundPhase_inr cfg clk (stopAt cfg clk) st st' it it hr
        rw [deadlinePassed_eq] at hd
        exact ⟨hp, hd⟩)
      (fun st it _ hp => tinv_attempt o (stopAt cfg clk) clk st it hp.1 hp.2)
      (minFuel t) (minInit cfg t) { best := t } hinv (by intro a ha; simp at ha)
  have key : ∀ a ∈ (minimize cfg o clk t).atts, clk a.tIdx ≤ clk 0 + limit := by
    intro a ha
    unfold minimize at ha
    rw [e2] at ha
    have := hP a ha
    rw [hstop] at this
    simp only [deadlineAt, decide_eq_false_iff_not, Nat.not_lt] at this
    exact this
  refine ⟨key, ?_⟩
  intro hmono k hk a ha
  have h1 := key a ha
  rcases Nat.lt_or_ge a.tIdx k with hlt | hge
  · exact hlt
  · have := hmono k a.tIdx hge
    omega

/-- non-vacuity: 9 atoms, --max 4: sizes 4,4,2,... -/
example :
    let t : Testcase := { before := [], parts := (List.range 9).map (fun i => [UInt8.ofNat i]),
                          reducible := List.replicate 9 true, after := [] }
    ((minimize { max := 4 } (fun _ _ => false) (fun _ => 0) t).atts.reverse.map (fun a => (a.lo, a.hi, a.size))).take 4
      = [(5, 9, 4), (1, 5, 4), (7, 9, 2), (6, 8, 2)] := by
  decide

/-- the `--min` clause: with power-of-two `--min ≤ --max`, a candidate of minimize deletes fewer than
`--min` atoms only once at most `--min` atoms remain — the chunk size in force is at least `--min`
or at most `--min` atoms are left, and a block smaller than the chunk size is the entire
remainder.  For every test, clock and repeat mode. -/
theorem C14_min_clause (cfg : Cfg) (o : Oracle) (clk : Clock) (t : Testcase) (h : t.WF)
    (hmax : ∃ k, cfg.max = 2 ^ k) (hmin : ∃ j, max cfg.min 1 = 2 ^ j) (hle : max cfg.min 1 ≤ cfg.max) :
    ∀ a ∈ (minimize cfg o clk t).atts,
      (max cfg.min 1 ≤ a.size ∨ a.bestLen ≤ max cfg.min 1) ∧
      (a.hi - a.lo < max cfg.min 1 → a.bestLen ≤ max cfg.min 1) := by
  obtain ⟨k, hk⟩ := hmax
  obtain ⟨j, hj⟩ := hmin
  have hmax1 : 1 ≤ cfg.max := by rw [hk]; exact Nat.one_le_two_pow
  have hp := Util.lp2_pos t.len
  have hinv : MInv t.len (minInit cfg t) { best := t } := by
    refine ⟨h, ?_, ?_, by simp [minInit], Nat.le_refl _⟩
    · show 1 ≤ min cfg.max (Util.lp2 t.len); omega
    · show 1 ≤ min (min cfg.max (Util.lp2 t.len)) (max cfg.min 1); omega
  have hpow : ∃ j', min cfg.max (Util.lp2 t.len) = 2 ^ j' := by
    obtain ⟨j', hj'⟩ := Util.lp2_pow2 t.len
    by_cases hle' : cfg.max ≤ Util.lp2 t.len
    · exact ⟨k, by rw [Nat.min_eq_left hle', hk]⟩
    · exact ⟨j', by rw [Nat.min_eq_right (by omega), hj']⟩
  -- at the start: the chunk size is at least --min, or the whole file has at most --min atoms
  have hstart : max cfg.min 1 ≤ min cfg.max (Util.lp2 t.len) ∨ t.len ≤ max cfg.min 1 := by
    by_cases hc : max cfg.min 1 ≤ min cfg.max (Util.lp2 t.len)
    · exact Or.inl hc
    · right
      have hlt : Util.lp2 t.len < 2 ^ j := by rw [← hj]; omega
      rw [hj]
      exact Util.le_of_lp2_lt_pow t.len j hlt
  have hj0 : JInv (2 ^ j) (minInit cfg t) { best := t } := by
    rw [← hj]
    refine ⟨hstart, ?_, hpow, by intro a ha; simp at ha⟩
    show max cfg.min 1 ≤ min (min cfg.max (Util.lp2 t.len)) (max cfg.min 1) ∨ t.len ≤ max cfg.min 1
    rcases hstart with h1 | h1
    · exact Or.inl (by omega)
    · exact Or.inr h1
  obtain ⟨st', it', -, hP, -, e2, -, -⟩ :=
    minLoop_reach cfg o clk (stopAt cfg clk) t.len
      (fun st it => LInv t (min cfg.max (Util.lp2 t.len)) st it ∧ JInv (2 ^ j) st it)
      (fun st it st' _ hp hr => ⟨linv_round cfg clk (stopAt cfg clk) t _ st it st' hp.1 hr,
        jinv_round cfg clk (stopAt cfg clk) j st st' it hp.2 hr⟩)
      (fun st it ha hp => ⟨linv_attempt o t _ t.len st it ha hp.1, jinv_attempt o _ t.len st it ha hp.2⟩)
      (minFuel t) (minInit cfg t) { best := t } hinv
      ⟨⟨isDel_refl t h, by intro a ha; simp at ha, List.Pairwise.nil, hpow, Nat.le_refl _⟩, hj0⟩
  intro a ha
  unfold minimize at ha
  rw [e2] at ha
  have hm := hP.2.atts a ha
  obtain ⟨b, -⟩ := hP.1.atts a ha
  rw [hj]
  refine ⟨hm, ?_⟩
  intro hsmall
  rcases hm with h1 | h1
  · -- the chunk size is ≥ --min, so a smaller block is the entire remainder
    rcases b.block with hb | ⟨hb1, hb2, hb3⟩
    · omega
    · omega
  · exact h1

/-- `n` distinct one-byte atoms -/
def atomsOf (n : Nat) : Testcase :=
  { before := [], parts := (List.range n).map (fun i => [UInt8.ofNat i]), reducible := List.replicate n true, after := [] }

/-- non-vacuity: `--min 4`, nothing accepted: on 9 atoms the blocks have 8, 4, 4 atoms and no smaller
size is swept; on 3 atoms the chunk size is 2 < 4 — at most `--min` atoms remain -/
example :
    ((minimize { min := 4 } (fun _ _ => false) (fun _ => 0) (atomsOf 9)).atts.reverse.map (fun a => (a.lo, a.hi, a.size)))
      = [(1, 9, 8), (5, 9, 4), (1, 5, 4)] ∧
    ((minimize { min := 4 } (fun _ _ => false) (fun _ => 0) (atomsOf 3)).atts.reverse.map (fun a => (a.lo, a.hi, a.size, a.bestLen)))
      = [(1, 3, 2, 3), (0, 2, 2, 3)] := by
  decide

/-- the resweep rule, at the round-end decision of minimize (`roundDecision` is the decision tree
at strategies.py:471-507; `st.removed` is the `removed_chunks` flag, which `attempt` sets exactly
when a candidate of the current sweep was accepted — `C14_removed_flag` — and every new sweep
starts with it cleared, except the first one under `--repeat-first-round`): the same chunk size is
swept again only after a sweep that removed something, never under `--repeat never`, and under
`--repeat last` only at the smallest chunk size; in every other case the next sweep uses a strictly
smaller chunk size, or the run ends. -/
theorem C14_resweep_decision (cfg : Cfg) (st st' : MinSt) (n : Nat) (hmc : 1 ≤ st.minChunk)
    (h : roundDecision cfg st n = some st') :
    st'.removed = false ∧
    ((st'.chunkSize = st.chunkSize ∧ st.removed = true ∧ cfg.rep ≠ .never ∧
        (cfg.rep = .last → st.chunkSize ≤ st.minChunk)) ∨
     st'.chunkSize < st.chunkSize) := by
  unfold roundDecision at h
  split at h
  · rename_i hle
    split at h
    · rename_i hr
      injection h with h; subst h
      simp only [Bool.and_eq_true, Bool.or_eq_true, beq_iff_eq] at hr
      refine ⟨rfl, Or.inl ⟨rfl, hr.1, ?_, fun _ => hle⟩⟩
      rcases hr.2 with h1 | h1 <;> rw [h1] <;> simp
    · exact absurd h (by simp)
  · rename_i hgt
    split at h
    · rename_i hr
      injection h with h; subst h
      simp only [Bool.and_eq_true, beq_iff_eq, decide_eq_true_eq] at hr
      refine ⟨rfl, Or.inl ⟨rfl, hr.1.1, by rw [hr.1.2]; simp, fun hl => ?_⟩⟩
      rw [hr.1.2] at hl; exact absurd hl (by simp)
    · injection h with h; subst h
      have h2 : 2 ≤ st.chunkSize := by omega
      obtain ⟨-, b⟩ := halveBelow_spec st.chunkSize st.chunkSize n (by omega) h2
      exact ⟨rfl, Or.inr (by show halveBelow st.chunkSize st.chunkSize n < st.chunkSize; omega)⟩

/-- `removed_chunks` after a candidate: set by an accepted one, otherwise unchanged -/
theorem C14_removed_flag (o : Oracle) (st : MinSt) (it : It) :
    (attempt o st it).1.removed = (st.removed || ((attempt o st it).2.atts.head?.map (·.resp) == some .accepted)) ∧
    (attempt o st it).1.chunkSize = st.chunkSize ∧ (attempt o st it).1.minChunk = st.minChunk := by
  obtain ⟨-, -, -, f4⟩ := try_flags it o (it.best.rmslice (max 0 (st.chunkEnd - st.chunkSize)) st.chunkEnd)
    (fun r => { tag := 0, lo := (max 0 (st.chunkEnd - (st.chunkSize : Int))).toNat, hi := st.chunkEnd.toNat,
                size := st.chunkSize, bestLen := it.best.len, base := it.best, tIdx := it.nTests,
                cand := it.best.rmslice (max 0 (st.chunkEnd - st.chunkSize)) st.chunkEnd, resp := r })
  unfold attempt
  simp only
  generalize hT : It.try it o (it.best.rmslice (max 0 (st.chunkEnd - st.chunkSize)) st.chunkEnd)
    (fun r => { tag := 0, lo := (max 0 (st.chunkEnd - (st.chunkSize : Int))).toNat, hi := st.chunkEnd.toNat,
                size := st.chunkSize, bestLen := it.best.len, base := it.best, tIdx := it.nTests,
                cand := it.best.rmslice (max 0 (st.chunkEnd - st.chunkSize)) st.chunkEnd, resp := r }) = T at *
  obtain ⟨r, it2⟩ := T
  simp only at f4
  cases r <;> simp [f4]

/-- the time limit in minimize-around and minimize-balanced (without the experimental move): every
proposal — hence every test — is made at a moment when the clock has not passed `start + limit`;
with a clock that never goes back, once the limit has passed no further test is started.  For
EVERY test, option setting and testcase. -/
theorem C14_deadline_pairs (cfg : Cfg) (o : Oracle) (clk : Clock) (t : Testcase)
    (limit : Nat) (hl : cfg.stopAfter = some limit) :
    ((∀ a ∈ (around cfg o clk t).atts, clk a.tIdx ≤ clk 0 + limit) ∧
     (∀ a ∈ (balanced cfg o clk t).atts, clk a.tIdx ≤ clk 0 + limit)) ∧
    ((∀ i j, i ≤ j → clk i ≤ clk j) → ∀ k, clk k > clk 0 + limit →
      (∀ a ∈ (around cfg o clk t).atts, a.tIdx < k) ∧ (∀ a ∈ (balanced cfg o clk t).atts, a.tIdx < k)) := by
  have hstop : stopAt cfg clk = some (clk 0 + limit) := by simp [stopAt, hl]
  have conv : ∀ it : It, OnTime (stopAt cfg clk) clk it → ∀ a ∈ it.atts, clk a.tIdx ≤ clk 0 + limit := by
    intro it h a ha
    have := h a ha
    rw [hstop] at this
    simp only [deadlineAt, decide_eq_false_iff_not, Nat.not_lt] at this
    exact this
  have ka := conv _ (around_onTime cfg o clk t)
  have kb := conv _ (balanced_onTime cfg o clk t)
  refine ⟨⟨ka, kb⟩, ?_⟩
  intro hmono k hk
  have late : ∀ it : It, (∀ a ∈ it.atts, clk a.tIdx ≤ clk 0 + limit) → ∀ a ∈ it.atts, a.tIdx < k := by
    intro it h a ha
    have h1 := h a ha
    rcases Nat.lt_or_ge a.tIdx k with hlt | hge
    · exact hlt
    · have := hmono k a.tIdx hge
      omega
  exact ⟨late _ ka, late _ kb⟩

/-- the time limit in minimize-balanced WITH the experimental move: every proposal — removal or move —
is made at a moment when the clock has not passed `start + limit` (the move loop checks the clock at
its head and between its two attempts) -/
theorem C14_deadline_move (cfg : Cfg) (o : Oracle) (clk : Clock) (t : Testcase)
    (limit : Nat) (hl : cfg.stopAfter = some limit) :
    (∀ a ∈ (balancedMove cfg o clk t).atts, clk a.tIdx ≤ clk 0 + limit) ∧
    ((∀ i j, i ≤ j → clk i ≤ clk j) → ∀ k, clk k > clk 0 + limit →
      ∀ a ∈ (balancedMove cfg o clk t).atts, a.tIdx < k) := by
  have hstop : stopAt cfg clk = some (clk 0 + limit) := by simp [stopAt, hl]
  have key : ∀ a ∈ (balancedMove cfg o clk t).atts, clk a.tIdx ≤ clk 0 + limit := by
    intro a ha
    have := balancedMove_onTime cfg o clk t a ha
    rw [hstop] at this
    simp only [deadlineAt, decide_eq_false_iff_not, Nat.not_lt] at this
    exact this
  refine ⟨key, ?_⟩
  intro hmono k hk a ha
  have h1 := key a ha
  rcases Nat.lt_or_ge a.tIdx k with hlt | hge
  · exact hlt
  · have := hmono k a.tIdx hge
    omega

/-- non-vacuity: the clock jumps past the limit after the second test of minimize-around: exactly
two tests are run -/
example :
    let t : Testcase := { before := [], parts := (List.range 6).map (fun i => [UInt8.ofNat i]),
                          reducible := List.replicate 6 true, after := [] }
    (around { stopAfter := some 10 } (fun _ _ => false) (fun k => if k < 2 then 0 else 100) t).nTests = 2 ∧
    (around { stopAfter := some 10 } (fun _ _ => false) (fun k => if k < 2 then 0 else 100) t).deadlineStop = true := by
  decide

end Strat
