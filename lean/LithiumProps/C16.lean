/-
C16 — JS-string and attribute atoms are exactly string characters / attributes.

Proved on the Lean models of the two splitters (which agree with the real `split_parts` on every
string up to length 5/6 over adversarial alphabets and on grammar-directed streams, see the
correspondence):
* both partition their input (nothing lost, nothing invented), flags are aligned, parts are
  non-empty, the attribute splitter never raises (`C16_js_partition`, `C16_attrs_partition`);
* `C16_js_tokens`: every reducible JS atom is ONE token — a character, or one complete escape
  `\uHHHH`, `\xHH`, `\u{H+}`, a backslash pair — never a fragment of an escape;
* `C16_attrs_shape`: every reducible attribute atom is one complete attribute (leading whitespace,
  name, optional `=value` including its closing quote);
* `C16_attrs_not_continued`: ... and not a fragment: behind an atom that does not end with a quoted
  value the file goes on with white space or `>`;
* `C16_js_exact`: the reducible JS atoms, WITH THEIR BYTE OFFSETS in the file, are exactly the
  characters and escape sequences inside properly terminated strings of the reference
  segmentation `Js.specJs` (find the next quote; if the body behind it has a closing quote its
  tokens are string characters; if the data ends first the quote is ordinary text and the search
  goes on behind it) — through the scanner's back-tracking on an unterminated quote, the
  header/footer cut and the gap merge (`LithiumProofs/SplitJsSpec.lean`);
* `C16_attrs_in_tag`: every reducible attribute atom lies inside a tag: the parts before it end
  with a part that ends in `<`, optional whitespace, a tag name, followed only by other complete
  attributes and by text without a `>` (`LithiumProofs/SplitAttrsTag.lean`).
The Python monitor still compares with an independent reference tokenizer (exhaustive on short
strings): it ties the Lean model to the code, and `Js.specJs` to a second, independently written
reading of the property.
-/
import LithiumProofs.SplitJs
import LithiumProofs.SplitJsNe
import LithiumProofs.SplitAttrs
import LithiumProofs.SplitAttrsShape
import LithiumProofs.SplitAttrsTag
import LithiumProofs.SplitJsSpec
import LithiumProofs.SplitAttrsNext

namespace Js

/-- the token grammar `\uHHHH | \xHH | \u{H+} | \. | .` consumes at least one byte of a non-empty
input and never more than there is -/
theorem C16_js_token_progress (c : UInt8) (rest : Bytes) :
    1 ≤ tokLen (c :: rest) ∧ tokLen (c :: rest) ≤ (c :: rest).length := by
  have hdef : tokLen (c :: rest) = (if c != 0x5C then 1 else if isU4 rest then 6 else if isX2 rest then 4
      else match uBrace rest with
        | some k => k
        | none => if rest.isEmpty then 1 else 2) := rfl
  rw [hdef]
  by_cases hbs : (c != 0x5C) = true
  · rw [if_pos hbs]; simp
  · rw [if_neg hbs]
    by_cases h4 : isU4 rest = true
    · rw [if_pos h4]
      constructor
      · omega
      · unfold isU4 at h4
        split at h4
        · simp
        · exact absurd h4 (by simp)
    · rw [if_neg h4]
      by_cases h2 : isX2 rest = true
      · rw [if_pos h2]
        constructor
        · omega
        · unfold isX2 at h2
          split at h2
          · simp
          · exact absurd h2 (by simp)
      · rw [if_neg h2]
        cases hb : uBrace rest with
        | some k =>
          simp only
          unfold uBrace at hb
          split at hb
          · rename_i r
            simp only at hb
            split at hb
            · exact absurd hb (by simp)
            · split at hb
              · rename_i tl hdrop
                injection hb with hb
                subst hb
                have hl : (r.takeWhile isHex).length + 1 ≤ r.length := by
                  have : (r.drop (r.takeWhile isHex).length).length = r.length - (r.takeWhile isHex).length := List.length_drop
                  rw [hdrop] at this
                  simp at this
                  omega
                simp; omega
              · exact absurd hb (by simp)
          · exact absurd hb (by simp)
        | none =>
          simp only
          cases rest with
          | nil => simp
          | cons _ _ => simp

/-- JS-string mode partitions the data: protected header, the parts, protected footer -/
theorem C16_js_partition (d : Bytes) (s : Load.Split) (h : splitJs d = .ok s) :
    s.header ++ s.parts.flatten ++ s.footer = d ∧ s.parts.length = s.reducible.length :=
  splitJs_cat d s h

/-- JS-string mode: every reducible atom is ONE TOKEN of the escape grammar — an ordinary character,
`\uHHHH`, `\xHH`, `\u{H...}`, or a backslash pair — never a fragment of an escape sequence (the
last disjunct of `IsTok`, a lone backslash, can only be the very last byte of the data).  The index
list of the tokenizer points at such tokens through the back-tracking on unterminated strings, the
header/footer cut and the gap merge (`scan_sat`, `outer_sat`, `mergeLoop_sat`). -/
theorem C16_js_tokens (d : Bytes) (s : Load.Split) (h : splitJs d = .ok s) :
    ∀ x ∈ s.parts.zip s.reducible, x.2 = true → IsTok x.1 :=
  splitJs_tokens d s h

/-- JS-string mode, at full strength: list the reducible atoms of the split with their byte offsets
in the file (`spans … header.length`); list the string characters of the reference segmentation
with their byte offsets (`strChars d`, from `specJs`: characters and complete escape sequences
between an opening quote and the first matching closing quote; a quote whose string body runs to
the end of the data is ordinary text and scanning resumes right behind it).  The two lists are
EQUAL — no delimiting quote, no text outside a string, nothing of an unterminated string is ever
reducible, and nothing inside a terminated string is missing. -/
theorem C16_js_exact (d : Bytes) (s : Load.Split) (h : splitJs d = .ok s) :
    spans (s.parts.zip s.reducible) s.header.length = strChars d :=
  splitJs_spans d s h

/-- the reference segmentation on `x='a\x41'+"`: the two tokens of the terminated string at offsets
3 and 4; the unterminated `"` contributes nothing -/
example : strChars [0x78,0x3D,0x27,0x61,0x5C,0x78,0x34,0x31,0x27,0x2B,0x22] = [(3, [0x61]), (4, [0x5C,0x78,0x34,0x31])] := by
  decide

/-- an unterminated `'` does not hide the terminated `"…"` behind it: `'a"b"` -/
example : strChars [0x27,0x61,0x22,0x62,0x22] = [(3, [0x62])] := by
  decide

end Js

namespace Attrs

/-- attribute mode partitions the data into non-empty parts with one flag each, and never raises -/
theorem C16_attrs_partition (d : Bytes) :
    ∃ s, splitAttrs d = .ok s ∧ s.parts.flatten = d ∧ (∀ p ∈ s.parts, p ≠ []) ∧
      s.parts.length = s.reducible.length ∧ s.header = [] ∧ s.footer = [] := by
  have hok : ∃ s, splitAttrs d = .ok s := by
    unfold splitAttrs; simp only; split <;> exact ⟨_, rfl⟩
  obtain ⟨s, hs⟩ := hok
  obtain ⟨h1, h2, h3⟩ := splitAttrs_ok d s hs
  have hhf : s.header = [] ∧ s.footer = [] := by
    unfold splitAttrs at hs
    simp only at hs
    split at hs <;> (injection hs with hs; subst hs; exact ⟨rfl, rfl⟩)
  refine ⟨s, hs, ?_, h2, h3, hhf.1, hhf.2⟩
  rw [hhf.1, hhf.2] at h1
  simpa using h1

/-- attribute mode: every reducible atom is ONE COMPLETE ATTRIBUTE — optional leading whitespace, a
name `[A-Za-z][A-Za-z0-9:-]*`, and then nothing (value-less), or `=` + a quoted value up to and
including the first matching closing quote, or `=` + an unquoted value that contains no whitespace
and no `>` (and does not begin with a quote).  Tag names, the closing `>`, and text that does not
parse as an attribute are never flagged reducible (they are pushed with the flag `false` only). -/
theorem C16_attrs_shape (d : Bytes) (s : Load.Split) (h : splitAttrs d = .ok s) :
    ∀ x ∈ s.parts.zip s.reducible, x.2 = true → IsAttr x.1 :=
  splitAttrs_shape d s h

/-- attribute mode: every reducible atom lies INSIDE A TAG — whenever the (atom, flag) list is
`l1 ++ (a, true) :: l2`, the list `l1` is `l0 ++ (o, false) :: mid` where the part `o` ends with a tag
opener (`<`, optional whitespace, a letter, tag-name characters) and `mid` holds only other complete
attributes and non-reducible text WITHOUT a `>`; and `a` itself is one complete attribute. -/
theorem C16_attrs_in_tag (d : Bytes) (s : Load.Split) (h : splitAttrs d = .ok s) :
    AttrsInTag (s.parts.zip s.reducible) :=
  splitAttrs_in_tag d s h

/-- attribute mode: COMPLETE also means NOT CONTINUED.  Behind every reducible atom that does not end with a
quoted value (`…=q body q`) the next part of the file starts with white space or `>`: an unquoted value
and a value-less name are never cut short, also not at the end of the data (where the code gives up on
the tag instead of flagging what it has). -/
theorem C16_attrs_not_continued (d : Bytes) (s : Load.Split) (h : splitAttrs d = .ok s) :
    ∀ i a b r, (s.parts.zip s.reducible)[i]? = some (a, true) → (s.parts.zip s.reducible)[i + 1]? = some (b, r) →
      QuotedEnd a ∨ HeadTerm b :=
  splitAttrs_not_continued d s h

/-- non-vacuity: `<a b=cd` (the data ends inside an unquoted value): nothing is reducible; `<a b=cd e>`: ` b=cd` is -/
example : (splitAttrs [0x3C,0x61,0x20,0x62,0x3D,0x63,0x64]).toOption.map (fun s => s.reducible) = some [false, false] := by
  decide
example : (splitAttrs [0x3C,0x61,0x20,0x62,0x3D,0x63,0x64,0x20,0x65,0x3E]).toOption.map (fun s => (s.parts, s.reducible))
    = some ([[0x3C,0x61], [0x20,0x62,0x3D,0x63,0x64], [0x20,0x65], [0x3E]], [false, true, true, false]) := by
  decide

/-- non-vacuity: `<a b="c d" e>` -/
example :
    (splitAttrs [0x3C,0x61,0x20,0x62,0x3D,0x22,0x63,0x20,0x64,0x22,0x20,0x65,0x3E]).toOption.map
      (fun s => (s.parts, s.reducible))
      = some ([[0x3C,0x61], [0x20,0x62,0x3D,0x22,0x63,0x20,0x64,0x22], [0x20,0x65], [0x3E]], [false, true, true, false]) := by
  decide

end Attrs

namespace Js

/-- non-vacuity: `x='a\x41'+"` : the characters of the terminated string are reducible, the escape
is one atom, the unterminated `"` is ordinary text -/
example :
    (splitJs [0x78,0x3D,0x27,0x61,0x5C,0x78,0x34,0x31,0x27,0x2B,0x22]).toOption.map
      (fun s => (s.header, s.parts, s.reducible, s.footer))
      = some ([0x78,0x3D,0x27], [[0x61], [0x5C,0x78,0x34,0x31]], [true, true], [0x27,0x2B,0x22]) := by
  decide

end Js
