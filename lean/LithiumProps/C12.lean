/-
C12 — The temp directory is a faithful, duplicate-free log of all tests.
-/
import LithiumProofs.World

namespace World

/-- after one run on a fresh object, however it ends: the temp directory holds `original` with
the untouched original and, for the i-th test (counting from 1) that returned a verdict, the
file `i-interesting` / `i-boring` — tagged with that verdict — holding exactly the bytes the
testcase file contained during that test; the i-th test was handed the prefix `<tmpdir>/i`;
the reported number of tests is the number actually run. -/
theorem C12_tmp_log (orig : Testcase) (diskOrig : Bytes) (evs : List Ev) (first : Outcome)
    (h : orig.content = diskOrig) (h0 : orig.len ≠ 0) :
    let w := runMain orig diskOrig evs first
    w.tmp = (.original, diskOrig) :: (w.tests.filter (fun r => r.out != .raise)).map tagOf ∧
    (∀ k (hk : k < w.tests.length), w.tests[k].idx = k + 1) ∧
    w.testCount = w.tests.length := by
  subst h
  obtain ⟨-, c1, c2, c3⟩ := runMain_cases orig orig.content evs first
  obtain ⟨s1, -, s3, s4, s5, -, -, -, -, -, -, s12, -⟩ := start_fields orig orig.content
  simp only
  cases first with
  | raise =>
    rw [c1 h0 rfl]
    obtain ⟨ht, -, -, -, -, htmp, hcnt, -⟩ :=
      finish_fields { (interesting (start orig orig.content) orig false .raise).1 with exit := .raised }
    obtain ⟨ht', -, hcnt', -⟩ := interesting_fields (start orig orig.content) orig false .raise
    obtain ⟨-, htmp', -⟩ := interesting_raise (start orig orig.content) orig false
    rw [ht, htmp, hcnt]
    simp only [ht', htmp', hcnt', s1, s3, s4, s5, List.nil_append]
    refine ⟨by simp [show (Outcome.raise != Outcome.raise) = false from by decide], ?_, by simp⟩
    intro k hk
    simp only [List.length_cons, List.length_nil] at hk
    have : k = 0 := by omega
    subst this; simp
  | reject =>
    rw [c2 h0 rfl]
    obtain ⟨ht, -, -, -, -, htmp, hcnt, -⟩ :=
      finish_fields { (interesting (start orig orig.content) orig false .reject).1 with exit := .returned 1 }
    obtain ⟨ht', -, hcnt', -⟩ := interesting_fields (start orig orig.content) orig false .reject
    obtain ⟨-, htmp', -⟩ := interesting_reject (start orig orig.content) orig false
    rw [ht, htmp, hcnt]
    simp only [ht', htmp', hcnt', s1, s3, s4, s5, s12, List.nil_append]
    refine ⟨by simp [tagOf, show (Outcome.reject != Outcome.raise) = true from by decide,
      show (Outcome.reject == Outcome.accept) = false from by decide], ?_, by simp⟩
    intro k hk
    simp only [List.length_cons, List.length_nil] at hk
    have : k = 0 := by omega
    subst this; simp
  | accept =>
    rw [c3 h0 rfl]
    obtain ⟨hl, -, -, -⟩ := after_first_accept orig orig.content rfl
    have hL := log_loop _ _ evs hl
    obtain ⟨ht, htmp, -, hcnt, -⟩ := afterLoop_fields (loop (interesting (start orig orig.content) orig false .accept).1 evs)
    rw [ht, htmp, hcnt]
    exact ⟨hL.tmp, hL.idx, hL.count⟩

/-- no two tests of a run see byte-identical files, except that the unmodified original
(the first test) may be presented once more: the files seen by the tests after the first
are pairwise distinct, so no verdict is paid for twice -/
theorem C12_no_duplicates (orig : Testcase) (diskOrig : Bytes) (evs : List Ev) (first : Outcome)
    (h : orig.content = diskOrig) (h0 : orig.len ≠ 0) :
    ((runMain orig diskOrig evs first).tests.tail.map (·.disk)).Nodup := by
  obtain ⟨-, c1, c2, c3⟩ := runMain_cases orig diskOrig evs first
  obtain ⟨s1, -⟩ := start_fields orig diskOrig
  cases first with
  | raise =>
    rw [c1 h0 rfl]
    obtain ⟨ht, -⟩ := finish_fields { (interesting (start orig diskOrig) orig false .raise).1 with exit := .raised }
    obtain ⟨ht', -⟩ := interesting_fields (start orig diskOrig) orig false .raise
    rw [ht]; simp [ht', s1]
  | reject =>
    rw [c2 h0 rfl]
    obtain ⟨ht, -⟩ := finish_fields { (interesting (start orig diskOrig) orig false .reject).1 with exit := .returned 1 }
    obtain ⟨ht', -⟩ := interesting_fields (start orig diskOrig) orig false .reject
    rw [ht]; simp [ht', s1]
  | accept =>
    rw [c3 h0 rfl]
    obtain ⟨hl, -, -, -⟩ := after_first_accept orig diskOrig h
    obtain ⟨ht, -⟩ := afterLoop_fields (loop (interesting (start orig diskOrig) orig false .accept).1 evs)
    rw [ht]
    exact (log_loop _ _ evs hl).nodup

/-- non-vacuity: two different deletions of a file with repeated atoms give the same bytes;
the second is not tested; the original is proposed again and tested once more -/
example :
    let t (ps : List Bytes) : Testcase := { before := [], parts := ps, reducible := ps.map (fun _ => true), after := [] }
    let w := runMain (t [[1], [1], [2]]) [1, 1, 2]
      [.propose (t [[1], [2]]) .reject, .propose (t [[1], [2]]) .accept, .propose (t [[1], [1], [2]]) .reject] .accept
    w.tests.map (·.disk) = [[1, 1, 2], [1, 2], [1, 1, 2]] ∧ w.testCount = 3 ∧
    w.tmp.map (·.1) = [.original, .numbered 1 true, .numbered 2 false, .numbered 3 false] := by
  decide

end World
