/-
C09 — Every strategy terminates within a bounded number of tests.
(minimize, minimize-around and minimize-balanced: the stated bound is a theorem.  collapse-brace:
termination without internal error and a bound in the number of BYTES are theorems for all five
splitters, the stated bound in the number of atoms is FALSE — `C09_collapse_regrows_counterexample`,
recorded finding.  The rewriting strategies: see DESIGN.md §4 C09 for what is partial.)
-/
import LithiumProofs.MinimizeLog
import LithiumProofs.PairsBound
import LithiumProofs.CollapseBound
import LithiumProofs.Rewrite
import LithiumProps.C06

namespace Strat
open Testcase

/-- minimize, against EVERY interestingness test (`o` may depend on the test index and on the
bytes in any way: adversarial, inconsistent, always-yes), for every well-formed testcase with
`n` reducible atoms, every `--min`, every `--max ≥ 1`, every repeat mode, `--repeat-first-round`
or not, with or without a time limit and under any clock: the loop terminates by itself (the
model's fuel is never exhausted), raises no internal error, and runs at most
`(n+1)*(n+ceil(log2 n)+2)` tests — `+1` with the initial check of the original. -/
theorem C09_bound_minimize (cfg : Cfg) (o : Oracle) (clk : Clock) (t : Testcase) (h : t.WF)
    (hmax : 1 ≤ cfg.max) :
    (minimize cfg o clk t).outOfFuel = false ∧ (minimize cfg o clk t).internalError = false ∧
    (minimize cfg o clk t).nTests + 1 ≤ (t.len + 1) * (t.len + clog2 t.len + 2) + 1 := by
  obtain ⟨hcs, hl1, hl2⟩ := log2_start_le' cfg.max t.len hmax
  have hinv : MInv t.len (minInit cfg t) { best := t } := by
    refine ⟨h, hcs, ?_, by simp [minInit], Nat.le_refl _⟩
    show 1 ≤ min (min cfg.max (Util.lp2 t.len)) (max cfg.min 1)
    omega
  -- the measure at the start
  have hphi : phi t.len (minInit cfg t) { best := t }
      ≤ (t.len + Nat.log2 (min cfg.max (Util.lp2 t.len)) + 1) * (t.len + 1) + t.len := by
    have hdef : phi t.len (minInit cfg t) { best := t }
        = (t.len + Nat.log2 (min cfg.max (Util.lp2 t.len)) + (if cfg.repeatFirst = true then 1 else 0)) * (t.len + 1)
          + t.len := rfl
    rw [hdef]
    by_cases hr : cfg.repeatFirst = true
    · rw [if_pos hr]; omega
    · rw [if_neg hr, Nat.add_zero]
      have := Nat.mul_le_mul_right (t.len + 1)
        (show t.len + Nat.log2 (min cfg.max (Util.lp2 t.len)) ≤ t.len + Nat.log2 (min cfg.max (Util.lp2 t.len)) + 1 by omega)
      omega
  have hA : (t.len + Nat.log2 (min cfg.max (Util.lp2 t.len)) + 1) * (t.len + 1)
      ≤ (t.len + clog2 t.len + 1) * (t.len + 1) := Nat.mul_le_mul_right _ (by omega)
  have hB : (t.len + Nat.log2 (min cfg.max (Util.lp2 t.len)) + 1) * (t.len + 1)
      ≤ (t.len + Nat.log2 (t.len + 1) + 1) * (t.len + 1) := Nat.mul_le_mul_right _ (by omega)
  have e1 : (t.len + 1) * (t.len + clog2 t.len + 2) = (t.len + clog2 t.len + 1) * (t.len + 1) + (t.len + 1) := by
    rw [Nat.mul_comm (t.len + 1)]; exact Nat.succ_mul _ _
  have e2 : (t.len + 2) * (t.len + Nat.log2 (t.len + 1) + 4)
      = (t.len + Nat.log2 (t.len + 1) + 1) * (t.len + 1) + (t.len + Nat.log2 (t.len + 1) + 1) + 3 * (t.len + 2) := by
    generalize Nat.log2 (t.len + 1) = L
    generalize t.len = n
    simp only [Nat.add_mul, Nat.mul_add, Nat.mul_comm]
    omega
  have hfuel : phi t.len (minInit cfg t) { best := t } < minFuel t := by
    unfold minFuel; omega
  obtain ⟨b1, b2, b3⟩ := minLoop_bound cfg o clk (stopAt cfg clk) t.len (minFuel t) (minInit cfg t) { best := t } hinv hfuel
  refine ⟨b1, b2, ?_⟩
  unfold minimize
  simp only at b3
  omega

/-- non-vacuity and tightness probe: 3 lines, always-yes -/
example :
    let t : Testcase := { before := [], parts := [[1], [2], [3]], reducible := [true, true, true], after := [] }
    t.WF ∧ (minimize {} (fun _ _ => true) (fun _ => 0) t).nTests = 2 ∧
      (minimize {} (fun _ _ => true) (fun _ => 0) t).best.parts = [] := by
  decide

/-- The shared statement for the two pair strategies. -/
theorem pairs_bound (cfg : Cfg) (clk : Clock) (t : Testcase) (h : t.WF) (hmax : 1 ≤ cfg.max)
    (pass : Nat → It → It × Bool)
    (hpass : ∀ cs it, it.best.WF → 1 ≤ cs → PassOK it (pass cs it)) :
    let r := pairsOuter cfg clk (stopAt cfg clk) pass (max cfg.min 1) (pairsFuel t)
      (min cfg.max (Util.lp2 t.len)) { best := t }
    r.outOfFuel = false ∧ r.internalError = false ∧
    r.nTests + 1 ≤ (t.len + 1) * (t.len + clog2 t.len + 2) + 1 := by
  obtain ⟨hcs, hl1, hl2⟩ := log2_start_le' cfg.max t.len hmax
  obtain ⟨b1, b2, b3⟩ := pairsOuter_bound cfg clk (stopAt cfg clk) pass (max cfg.min 1) t.len (by omega) hpass
    (pairsFuel t) (min cfg.max (Util.lp2 t.len)) { best := t } h hcs (Nat.le_refl _) rfl rfl
    (by unfold pairsFuel; simp only; omega)
  refine ⟨b1, b2, ?_⟩
  simp only at b3
  have hA : (t.len + Nat.log2 (min cfg.max (Util.lp2 t.len)) + 1) * t.len
      ≤ (t.len + clog2 t.len + 2) * (t.len + 1) :=
    Nat.mul_le_mul (by omega) (by omega)
  rw [Nat.mul_comm (t.len + 1)]
  omega

/-- minimize-around and minimize-balanced (without the experimental move), against EVERY
interestingness test, for every well-formed testcase with `n` reducible atoms, every `--min`,
every `--max ≥ 1`, every repeat mode, with or without a time limit and under any clock: the
strategy terminates by itself (neither the outer loop nor a pass exhausts the model's fuel),
never fails the `assert` of the balanced pass nor raises another internal error, and runs at most
`(n+1)*(n+ceil(log2 n)+2)` tests — `+1` with the initial check of the original. -/
theorem C09_bound_pairs (cfg : Cfg) (o : Oracle) (clk : Clock) (t : Testcase) (h : t.WF)
    (hmax : 1 ≤ cfg.max) :
    ((around cfg o clk t).outOfFuel = false ∧ (around cfg o clk t).internalError = false ∧
      (around cfg o clk t).nTests + 1 ≤ (t.len + 1) * (t.len + clog2 t.len + 2) + 1) ∧
    ((balanced cfg o clk t).outOfFuel = false ∧ (balanced cfg o clk t).internalError = false ∧
      (balanced cfg o clk t).nTests + 1 ≤ (t.len + 1) * (t.len + clog2 t.len + 2) + 1) :=
  ⟨pairs_bound cfg clk t h hmax _ (fun cs it hw hcs => aroundPass_ok o clk _ cs it hw hcs),
   pairs_bound cfg clk t h hmax _ (fun cs it hw hcs => balPass_ok o clk _ cs it hw hcs)⟩

/-- non-vacuity: `{`,`a`,`}`,`b` always-yes: balanced removes everything in 3 tests, around ends
after 1 -/
example :
    let t : Testcase := { before := [], parts := [[0x7B], [0x61], [0x7D], [0x62]], reducible := [true, true, true, true], after := [] }
    t.WF ∧ (balanced {} (fun _ _ => true) (fun _ => 0) t).nTests = 2 ∧
      (around {} (fun _ _ => true) (fun _ => 0) t).nTests = 1 := by
  decide

theorem reloadOK_of_roundtrip (ld : Bytes → Except Load.Err Testcase)
    (hld : ∀ d t', ld d = .ok t' → t'.content = d ∧ (∀ p ∈ t'.parts, p ≠ []) ∧ t'.WF) :
    ReloadOK (fun d => (ld d).toOption) := by
  intro d t' hd
  cases hx : ld d with
  | error e => simp [hx, Except.toOption] at hd
  | ok t0 =>
    simp only [hx, Except.toOption, Option.some.injEq] at hd
    subst hd
    obtain ⟨a, b, c⟩ := hld d t0 hx
    exact ⟨c, b, a⟩

/-- what is proved of a run of minimize-collapse-brace with `reload` as the re-loader -/
def CollapseOK (reload : Bytes → Option Testcase) (cfg : Cfg) (o : Oracle) (clk : Clock) (t : Testcase) : Prop :=
  (collapse reload cfg o clk t).outOfFuel = false ∧ (collapse reload cfg o clk t).internalError = false ∧
  (collapse reload cfg o clk t).nTests + 1
    ≤ 2 * ((t.content.length + Nat.log2 (t.content.length + 1) + 2) * (t.content.length + 1)) + 2

/-- minimize-collapse-brace with ANY of the five splitters as re-loader (symbol mode with any cut
sets), against EVERY test, every `--min`, `--max ≥ 1`, repeat mode, time limit and clock, on every
well-formed testcase with non-empty atoms: the strategy terminates by itself, raises no internal
error (a re-load that fails is skipped, fix e840551), and runs at most
`2·(C+1)·(C+log2(C+1)+2) + 2` tests where `C` is the number of bytes of the file.  The measure is
the byte length of the best file — deleting atoms shortens it, collapsing never lengthens it
(`collapseSub_length`) and a file never has more atoms than bytes — because the number of atoms can
GROW over a collapse (next theorem). -/
theorem C09_collapse_terminates (B A : List UInt8) (cfg : Cfg) (o : Oracle) (clk : Clock) (t : Testcase)
    (h : t.WF) (hne : ∀ p ∈ t.parts, p ≠ []) (hmax : 1 ≤ cfg.max) :
    CollapseOK (fun d => (Load.loadLine d).toOption) cfg o clk t ∧
    CollapseOK (fun d => (Load.loadChar d).toOption) cfg o clk t ∧
    CollapseOK (fun d => (Load.loadSymbol B A d).toOption) cfg o clk t ∧
    CollapseOK (fun d => (Js.loadJs d).toOption) cfg o clk t ∧
    CollapseOK (fun d => (Attrs.loadAttrs d).toOption) cfg o clk t :=
  ⟨collapse_bound _ (reloadOK_of_roundtrip _ Load.C06_roundtrip_line) cfg o clk t h hne hmax,
   collapse_bound _ (reloadOK_of_roundtrip _ Load.C06_roundtrip_char) cfg o clk t h hne hmax,
   collapse_bound _ (reloadOK_of_roundtrip _ (Load.C06_roundtrip_symbol B A)) cfg o clk t h hne hmax,
   collapse_bound _ (reloadOK_of_roundtrip _ Load.C06_roundtrip_jsstr) cfg o clk t h hne hmax,
   collapse_bound _ (reloadOK_of_roundtrip _ Load.C06_roundtrip_attrs) cfg o clk t h hne hmax⟩

/-- The two rewriting strategies, as far as their ROUND SKELETON goes (`rwLoop`: which pass follows
which; what a pass does to the text is not modelled): if no pass runs more than `P` tests and the
passes never report more than `B` removed characters in total, the strategy ends by its `break` after
at most `B + log2 cs + 2` passes and `P·(B + log2 cs + 2)` tests, for every repeat mode and every
smallest chunk size `final ≥ 1`.  The two hypotheses are checked on the numbers the real
`try_making_globals` / `try_arguments_as_globals` report (harness/props/c09.py); for
replace-arguments-by-globals the second one can fail (recorded finding `replace-arguments-grows`). -/
theorem C09_rewrite_skeleton (rep : Repeat) (final cs B P : Nat) (pass : Nat → Nat × Nat) (hf : 1 ≤ final)
    (hP : ∀ k, (pass k).1 ≤ P) (hB : ∀ k, removedSum pass k ≤ B) :
    let r := rwLoop rep final pass (B + Nat.log2 cs + 3) 0 cs 0
    r.2.2 = true ∧ r.1 ≤ P * (B + Nat.log2 cs + 2) ∧ r.2.1 ≤ B + Nat.log2 cs + 2 := by
  simp only
  have hm : rwMeasure final B pass 0 cs ≤ B + Nat.log2 cs + 1 := by
    unfold rwMeasure
    split <;> simp [removedSum] <;> omega
  obtain ⟨a, b, c⟩ := rwLoop_bound rep final B P pass hf hP hB (B + Nat.log2 cs + 3) 0 cs 0 (by omega)
  refine ⟨a, ?_, by omega⟩
  have := Nat.mul_le_mul_left P (show rwMeasure final B pass 0 cs + 1 ≤ B + Nat.log2 cs + 2 by omega)
  omega

/-- non-vacuity: chunk sizes 4, 2, 1 with one repeated last pass -/
example : rwLoop .last 1 (fun k => if k = 2 then (3, 5) else (2, 0)) 20 0 4 0 = (9, 4, true) := by decide

namespace Regrow
def data : Bytes := "a b x0{\n}x1{\n}x2{\n}x3{\n}x4{\n}x5{\n}".toUTF8.toList
def collapsed : Bytes := "a b x0{ }x1{ }x2{ }x3{ }x4{ }x5{ }".toUTF8.toList
def reload : Bytes → Option Testcase := fun d => (Load.loadSymbol [] [0x20] d).toOption
def suffixOK (c : Bytes) : Bool :=
  match reload collapsed with
  | some t => (List.range (t.parts.length + 1)).any (fun j => (t.parts.drop j).flatten == c)
  | none => false
def f (c : Bytes) : Bool := c == data || suffixOK c
end Regrow

/-- The recorded finding `collapse-regrows-atoms` as a theorem about the model: symbol atoms with
`--cut-after ' '` (and no cut-before characters), the file `a b x0{⏎}x1{⏎}…x5{⏎}` has 3 atoms;
collapsing makes every `{⏎}` a `{ }`, after whose space the re-load cuts: 9 atoms.  With the
(deterministic) test that accepts the original, the collapsed text and every atom-aligned suffix of
it, the run makes 49 tests — the stated bound for n = 3 atoms is `(3+1)·(3+2+2)+1 = 29`. -/
theorem C09_collapse_regrows_counterexample :
    (Regrow.reload Regrow.data).map (fun t => (t.len,
        (collapse Regrow.reload {} (fun _ c => Regrow.f c) (fun _ => 0) t).nTests + 1,
        (t.len + 1) * (t.len + clog2 t.len + 2) + 1)) = some (3, 49, 29) ∧
    (Regrow.reload Regrow.collapsed).map (·.len) = some 9 := by
  decide +kernel

end Strat
