/-
C18 — Child outcome classification and output capture are exact.
-/
import LithiumModel.Interest

namespace Interest

/-- for every way a child can end (`timedOut`, or any integer return code — negative for death by
a signal): TIMEOUT exactly when it was still running at the limit; otherwise NORMAL exactly for 0,
CRASH exactly for a signal (rc < 0), the sanitizer code 77 or a code ≥ 2^31, ABNORMAL for every
other code; no exit code is reported exactly on TIMEOUT; `crashes` is interesting exactly on CRASH
and `hangs` exactly on TIMEOUT. -/
theorem C18_classify (timedOut : Bool) (rc : Int) :
    ((classify timedOut rc).1 = .timeout ↔ timedOut = true) ∧
    ((classify timedOut rc).2 = none ↔ timedOut = true) ∧
    (timedOut = false →
      ((classify timedOut rc).1 = .normal ↔ rc = 0) ∧
      ((classify timedOut rc).1 = .crash ↔ (rc < 0 ∨ rc = 77 ∨ rc ≥ 2 ^ 31)) ∧
      ((classify timedOut rc).1 = .abnormal ↔ (0 < rc ∧ rc ≠ 77 ∧ rc < 2 ^ 31)) ∧
      (classify timedOut rc).2 = some rc) ∧
    (crashesInteresting timedOut rc = true ↔ (classify timedOut rc).1 = .crash) ∧
    (hangsInteresting timedOut rc = true ↔ timedOut = true) := by
  cases timedOut with
  | true => simp [classify, crashesInteresting, hangsInteresting]
  | false =>
    by_cases h0 : rc = 0
    · subst h0; simp [classify, crashesInteresting, hangsInteresting]
    · by_cases h1 : rc ≠ 77 ∧ 0 < rc ∧ rc < 0x80000000
      · have hc : classify false rc = (.abnormal, some rc) := by
          unfold classify
          simp only [Bool.false_eq_true, if_false]
          rw [if_neg h0, if_pos h1]
        simp only [crashesInteresting, hangsInteresting, hc]
        refine ⟨by simp, by simp, fun _ => ⟨by simp [h0], ?_, ?_, by first | rfl | trivial⟩, by simp, by simp⟩
        · simp only [reduceCtorEq, false_iff]; omega
        · simp only [true_iff]; omega
      · have hc : classify false rc = (.crash, some rc) := by
          unfold classify
          simp only [Bool.false_eq_true, if_false]
          rw [if_neg h0, if_neg h1]
        simp only [crashesInteresting, hangsInteresting, hc]
        refine ⟨by simp, by simp, fun _ => ⟨by simp [h0], ?_, ?_, by first | rfl | trivial⟩, by simp, by simp⟩
        · simp only [true_iff]; omega
        · simp only [reduceCtorEq, false_iff]; omega

/-- output capture: in both capture modes the returned stdout / stderr are exactly the bytes the
child wrote before it exited or was killed at the limit — including output produced before a
timeout — so the two modes agree -/
theorem C18_capture (c : Child) (limit : Nat) (stderr : Bool) :
    capturePipe c limit stderr = written c limit stderr ∧
    captureFile c limit stderr = written c limit stderr := by
  refine ⟨?_, rfl⟩
  unfold capturePipe written
  simp only
  have hend : c.timedOut limit = false → ∀ w : Nat × Bool × Bytes, w.1 ≤ c.endTime limit → w.1 ≤ limit := by
    intro hto w hw
    unfold Child.timedOut at hto
    unfold Child.endTime at hw
    cases he : c.exitAt with
    | none => simp [he] at hto
    | some t => simp only [he] at hto hw; omega
  by_cases hto : c.timedOut limit = true
  · -- killed at the limit: everything written up to the limit is in the pipe buffers; nothing later
    have hE : c.endTime limit = limit := by
      unfold Child.timedOut at hto
      unfold Child.endTime
      cases he : c.exitAt with
      | none => rfl
      | some t => simp only [he, decide_eq_true_eq] at hto; simp only; omega
    simp only [hto, if_true, hE]
    have h2 : c.writes.filter (fun w => !(decide (w.1 ≤ limit)) && decide (w.1 ≤ limit) && w.2.1 == stderr) = [] := by
      rw [List.filter_eq_nil_iff]
      intro w _
      by_cases hw : w.1 ≤ limit <;> simp [hw]
    have h1 : c.writes.filter (fun w => decide (w.1 ≤ limit) && decide (w.1 ≤ limit) && w.2.1 == stderr)
        = c.writes.filter (fun w => decide (w.1 ≤ limit) && w.2.1 == stderr) := by
      apply List.filter_congr
      intro w _
      by_cases hw : w.1 ≤ limit <;> simp [hw]
    rw [h2, h1]
    simp
  · have hto' : c.timedOut limit = false := by simpa using hto
    simp only [hto', Bool.false_eq_true, if_false, List.append_nil]
    have h1 : c.writes.filter (fun w => decide (w.1 ≤ limit) && decide (w.1 ≤ c.endTime limit) && w.2.1 == stderr)
        = c.writes.filter (fun w => decide (w.1 ≤ c.endTime limit) && w.2.1 == stderr) := by
      apply List.filter_congr
      intro w _
      by_cases hw : w.1 ≤ c.endTime limit
      · simp [hw, hend hto' w hw]
      · simp [hw]
    rw [h1]

end Interest
