/-
C10 — Monotone tests: exact core in O(m log n) tests.

Proved: the "returns exactly that core" half, for every n, every core, every clock, every
`--max ≥ 1`, both repeat modes that the property's "default options" allow; and the test-count
bound `(2m+1)*ceil(log2 n) + 5m + 8` (`C10_test_bound`, `C10_test_bound_default`) for every n
whose first chunk size is not cut by `--max` (default `--max` = 2^30: every n ≤ 2^31), by a
potential argument over the rounds (LithiumProofs/CoreBound.lean).  For n > 2^31 with the default
`--max` the bound is false of the code as well (`C10_bound_needs_max`: the first round alone makes
n / 2^30 tests) — DESIGN.md §0, C10.
-/
import LithiumProofs.Core
import LithiumProofs.CoreBound
import LithiumProps.C03
import LithiumProps.C04

namespace Strat
open Testcase

/-- "a file is interesting exactly when it still contains a fixed set `core` of the original
atoms" — demanded of the files the strategy can build (the original with reducible atoms deleted,
`IsDel`, C04); the test may answer anything on other byte strings. -/
def CoreTest (t : Testcase) (core : List Bytes) (f : Bytes → Bool) : Prop :=
  ∀ c, IsDel t c → (f c.content = true ↔ ∀ p ∈ core, p ∈ c.parts)

/-- With pairwise distinct, non-empty atoms, a core of reducible atoms of the original and a test
that accepts exactly the files still containing the core: minimize with smallest chunk size 1,
repeat mode `last` (the default) or `always`, no time limit and any `--max ≥ 1` returns EXACTLY the
core — the (atom, flag) list of the result is the original's with every reducible atom outside the
core deleted, nothing else deleted, order kept; prefix and suffix are untouched. -/
theorem C10_exact_core (cfg : Cfg) (f : Bytes → Bool) (clk : Clock) (t : Testcase) (core : List Bytes)
    (h : t.WF) (hne : ∀ p ∈ t.parts, p ≠ []) (hdistinct : t.parts.Nodup)
    (hcore : ∀ p ∈ core, (p, true) ∈ t.parts.zip t.reducible) (hf : CoreTest t core f)
    (hmin : cfg.min = 1) (hrep : cfg.rep = .last ∨ cfg.rep = .always) (hstop : cfg.stopAfter = none)
    (hmax : 1 ≤ cfg.max) :
    let r := minimize cfg (fun _ c => f c) clk t
    r.best.parts.zip r.best.reducible
        = (t.parts.zip t.reducible).filter (fun x => !x.2 || core.contains x.1) ∧
      r.best.before = t.before ∧ r.best.after = t.after := by
  simp only
  -- the three facts about the result: a deletion of the original (C04), accepted, 1-minimal (C03)
  obtain ⟨hdel, -⟩ := C04_deletion_minimize cfg (fun _ c => f c) clk t h hmax
  have hmin1 := C03_one_minimal cfg f clk t h hne hmin hrep hstop hmax
  simp only at hmin1
  have hinv : MInv t.len (minInit cfg t) { best := t } := by
    have hp := Util.lp2_pos t.len
    refine ⟨h, ?_, ?_, by simp [minInit], Nat.le_refl _⟩
    · show 1 ≤ min cfg.max (Util.lp2 t.len); omega
    · show 1 ≤ min (min cfg.max (Util.lp2 t.len)) (max cfg.min 1); omega
  have hacc : (minimize cfg (fun _ c => f c) clk t).best = t ∨
      f (minimize cfg (fun _ c => f c) clk t).best.content = true := by
    obtain ⟨st', it', -, hP, e1, -⟩ :=
      minLoop_reach cfg (fun _ c => f c) clk (stopAt cfg clk) t.len
        (fun _ it => it.best = t ∨ f it.best.content = true)
        (fun _ _ _ _ hp _ => hp)
        (fun st it _ hp => by
          rcases attempt_best_accepted f st it with hb | hb
          · rw [hb]; exact hp
          · right; exact hb)
        (minFuel t) (minInit cfg t) { best := t } hinv (Or.inl rfl)
    unfold minimize
    rw [e1]; exact hP
  generalize (minimize cfg (fun _ c => f c) clk t).best = b at *
  obtain ⟨hb1, hb2, hbwf, hsub, hnon⟩ := hdel
  have hbparts : b.parts = (b.parts.zip b.reducible).map (·.1) := (map_fst_zip' _ _ hbwf).symm
  have htparts : t.parts = (t.parts.zip t.reducible).map (·.1) := (map_fst_zip' _ _ h).symm
  -- the result contains the core
  have hfb : f b.content = true := by
    rcases hacc with rfl | hacc
    · refine (hf _ (isDel_refl _ h)).2 ?_
      intro p hp
      rw [htparts]
      exact List.mem_map.2 ⟨_, hcore p hp, rfl⟩
    · exact hacc
  have hcontains := (hf b ⟨hb1, hb2, hbwf, hsub, hnon⟩).1 hfb
  -- every reducible atom of the result is in the core: deleting it is rejected
  have hall : ∀ x ∈ b.parts.zip b.reducible, x.2 = true → x.1 ∈ core := by
    intro x hx hx2
    obtain ⟨i, -, hi, hkeep⟩ := eraseRanks_one _ 0 x hx hx2
    have hlen : i < b.len := by
      rw [len_eq_count b hbwf, ← map_snd_zip _ _ hbwf]; omega
    have hrej := hmin1 i hlen
    have hd : IsDel t (rm1 b i) :=
      isDel_rmslice t b ⟨hb1, hb2, hbwf, hsub, hnon⟩ _ _ (by omega) (by omega) (by omega)
    obtain ⟨c1, -, -, c4, -⟩ := rmslice_int b hbwf (i : Int) ((i : Int) + 1) (by omega) (by omega) (by omega)
    have hz : (rm1 b i).parts.zip (rm1 b i).reducible = eraseRanks i (i + 1) 0 (b.parts.zip b.reducible) := by
      unfold rm1; rw [c4]; congr 1
    have hnot : ¬ ∀ p ∈ core, p ∈ (rm1 b i).parts := by
      intro hc
      have := (hf _ hd).2 hc
      rw [hrej] at this
      exact absurd this (by simp)
    apply Classical.byContradiction
    intro hxc
    apply hnot
    intro q hq
    have hqb := hcontains q hq
    rw [hbparts] at hqb
    obtain ⟨y, hy, hyq⟩ := List.mem_map.1 hqb
    have hyx : y ≠ x := by
      intro e
      apply hxc
      rw [← e, hyq]; exact hq
    have := hkeep y hy hyx
    rw [← hz] at this
    have hwf1 : (rm1 b i).WF := c1
    rw [← map_fst_zip' _ _ hwf1]
    exact List.mem_map.2 ⟨y, this, hyq⟩
  refine ⟨?_, hb1, hb2⟩
  have hnodupZ : (t.parts.zip t.reducible).Nodup := by
    apply nodup_of_map (·.1)
    rw [← htparts]; exact hdistinct
  apply sublist_eq_filter _ _ _ hsub hnodupZ
  intro x hxZ
  constructor
  · intro hxb
    cases hx2 : x.2 with
    | false => simp
    | true =>
      have := hall x hxb hx2
      simp [this]
  · intro hP
    cases hx2 : x.2 with
    | false =>
      have : x ∈ (t.parts.zip t.reducible).filter (fun x => !x.2) := by
        rw [List.mem_filter]; exact ⟨hxZ, by simp [hx2]⟩
      rw [← hnon, List.mem_filter] at this
      exact this.1
    | true =>
      have hxc : x.1 ∈ core := by simpa [hx2] using hP
      have hqb := hcontains _ hxc
      rw [hbparts] at hqb
      obtain ⟨y, hy, hyq⟩ := List.mem_map.1 hqb
      have hyZ : y ∈ t.parts.zip t.reducible := hsub.subset hy
      have : y = x := fst_inj_of_nodup _ (by rw [← htparts]; exact hdistinct) y x hyZ hxZ hyq
      rw [← this]; exact hy

/-- consequence in bytes: the file written at the end is prefix + the surviving atoms + suffix -/
theorem C10_exact_core_parts (cfg : Cfg) (f : Bytes → Bool) (clk : Clock) (t : Testcase) (core : List Bytes)
    (h : t.WF) (hne : ∀ p ∈ t.parts, p ≠ []) (hdistinct : t.parts.Nodup)
    (hcore : ∀ p ∈ core, (p, true) ∈ t.parts.zip t.reducible) (hf : CoreTest t core f)
    (hmin : cfg.min = 1) (hrep : cfg.rep = .last ∨ cfg.rep = .always) (hstop : cfg.stopAfter = none)
    (hmax : 1 ≤ cfg.max) :
    (minimize cfg (fun _ c => f c) clk t).best.parts
      = ((t.parts.zip t.reducible).filter (fun x => !x.2 || core.contains x.1)).map (·.1) := by
  obtain ⟨h1, -, -⟩ := C10_exact_core cfg f clk t core h hne hdistinct hcore hf hmin hrep hstop hmax
  rw [← h1]
  have hwf : (minimize cfg (fun _ c => f c) clk t).best.WF :=
    (C04_deletion_minimize cfg (fun _ c => f c) clk t h hmax).1.2.2.1
  exact (map_fst_zip' _ _ hwf).symm

/-- The other half of the property: with distinct non-empty atoms, a duplicate-free core of
reducible atoms and a test that accepts exactly the files still containing the core, minimize with
smallest chunk size 1, repeat mode `last`, no repeated first round and a `--max` that does not cut
the first chunk size (`largest_power_of_two_smaller_than(n) ≤ max`) makes, the initial check of the
original included, at most `(2m+1)*ceil(log2 n) + 5m + 8` tests — for EVERY n, every core, every
clock and every time limit (a run that is cut short by the time limit makes fewer tests). -/
theorem C10_test_bound (cfg : Cfg) (f : Bytes → Bool) (clk : Clock) (t : Testcase) (core : List Bytes)
    (h : t.WF) (hne : ∀ p ∈ t.parts, p ≠ []) (hdistinct : t.parts.Nodup) (hcn : core.Nodup)
    (hcore : ∀ p ∈ core, (p, true) ∈ t.parts.zip t.reducible) (hf : CoreTest t core f)
    (hmin : cfg.min = 1) (hrep : cfg.rep = .last) (hrf : cfg.repeatFirst = false)
    (hmax : Util.lp2 t.len ≤ cfg.max) :
    (minimize cfg (fun _ c => f c) clk t).nTests + 1
      ≤ (2 * core.length + 1) * clog2 t.len + 5 * core.length + 8 :=
  core_test_bound cfg f clk t core ⟨h, hdistinct, hcn, hcore, hf⟩ hne hmin hrep hrf hmax

/-- with the default options (`{}`: min 1, max 2^30, repeat last) the bound holds for every file
of at most 2^31 atoms -/
theorem C10_test_bound_default (f : Bytes → Bool) (clk : Clock) (t : Testcase) (core : List Bytes)
    (h : t.WF) (hne : ∀ p ∈ t.parts, p ≠ []) (hdistinct : t.parts.Nodup) (hcn : core.Nodup)
    (hcore : ∀ p ∈ core, (p, true) ∈ t.parts.zip t.reducible) (hf : CoreTest t core f)
    (hn : t.len ≤ 2 ^ 31) :
    (minimize {} (fun _ c => f c) clk t).nTests + 1
      ≤ (2 * core.length + 1) * clog2 t.len + 5 * core.length + 8 := by
  refine C10_test_bound {} f clk t core h hne hdistinct hcn hcore hf rfl rfl rfl ?_
  show Util.lp2 t.len ≤ 2 ^ 30
  by_cases h1 : t.len ≤ 1
  · rw [Util.lp2_le_one t.len h1]; exact Nat.one_le_two_pow
  · -- lp2 n is a power of two below n ≤ 2^31
    obtain ⟨j, hj⟩ := Util.lp2_pow2 t.len
    have hlt := Util.lp2_lt t.len (by omega)
    rw [hj] at hlt ⊢
    have hj31 : 2 ^ j < 2 ^ 31 := by omega
    have : j < 31 := (Nat.pow_lt_pow_iff_right (by omega)).mp hj31
    exact Nat.pow_le_pow_right (by omega) (by omega)

/-- the hypothesis on `--max` is needed: when `--max` cuts the first chunk size the first round alone
makes `n / max` tests.  Here `--max 1`, 16 one-byte atoms, empty core (every file is interesting):
17 tests against a bound of 12.  With the default `--max` = 2^30 the same happens from n > 2^31
atoms on, which is why `C10_test_bound_default` stops there. -/
theorem C10_bound_needs_max :
    let t : Testcase := { before := [], parts := (List.range 16).map (fun i => [UInt8.ofNat i]),
                          reducible := List.replicate 16 true, after := [] }
    (minimize { max := 1 } (fun _ _ => true) (fun _ => 0) t).nTests + 1 = 17 ∧
      (2 * 0 + 1) * clog2 t.len + 5 * 0 + 8 = 12 := by
  decide +kernel

/-- the hypothesis `CoreTest` is satisfiable for every core: with one-byte atoms and core bytes
that do not occur in the protected prefix/suffix, "the file contains every core byte" is such a
test (a function of the bytes alone). -/
theorem coreTest_singletons (t : Testcase) (core : List UInt8) (h : t.WF) (hs : ∀ p ∈ t.parts, ∃ b, p = [b])
    (hb : ∀ b ∈ core, b ∉ t.before ∧ b ∉ t.after) :
    CoreTest t (core.map (fun b => [b])) (fun c => core.all (fun b => c.contains b)) := by
  intro c hc
  obtain ⟨h1, h2, hwf, hsub, -⟩ := hc
  have hparts : c.parts.Sublist t.parts := by
    have := hsub.map (·.1)
    rw [map_fst_zip' _ _ hwf, map_fst_zip' _ _ h] at this
    exact this
  simp only [List.all_eq_true, List.contains_eq_mem, decide_eq_true_eq, List.mem_map,
    forall_exists_index, and_imp, forall_apply_eq_imp_iff₂]
  constructor
  · intro hall b hbc
    have := hall b hbc
    unfold content at this
    rw [h1, h2] at this
    simp only [List.mem_append, List.mem_flatten] at this
    rcases this with (hin | ⟨p, hp, hbp⟩) | hin
    · exact absurd hin (hb b hbc).1
    · obtain ⟨b', rfl⟩ := hs p (hparts.subset hp)
      simp only [List.mem_singleton] at hbp
      subst hbp; exact hp
    · exact absurd hin (hb b hbc).2
  · intro hall b hbc
    unfold content
    simp only [List.mem_append, List.mem_flatten]
    exact Or.inl (Or.inr ⟨[b], hall b hbc, by simp⟩)

/-- non-vacuity: 6 distinct one-byte atoms (one of them not reducible), core = {2, 5}; the test is
a concrete function of the bytes that satisfies `CoreTest` on the whole deletion lattice. -/
example :
    let t : Testcase := { before := [9], parts := [[1], [2], [3], [4], [5], [6]],
                          reducible := [true, true, true, false, true, true], after := [9] }
    let f : Bytes → Bool := fun c => c.contains 2 && c.contains 5
    t.WF ∧ t.parts.Nodup ∧ (minimize {} (fun _ c => f c) (fun _ => 0) t).best.parts = [[2], [4], [5]] ∧
      (minimize {} (fun _ c => f c) (fun _ => 0) t).nTests + 1 ≤ (2 * 2 + 1) * clog2 5 + 5 * 2 + 8 := by
  decide

/-- the hypotheses of `C10_exact_core` are jointly satisfiable on that input -/
example :
    let t : Testcase := { before := [9], parts := [[1], [2], [3], [4], [5], [6]],
                          reducible := [true, true, true, false, true, true], after := [9] }
    CoreTest t [[2], [5]] (fun c => [2, 5].all (fun b => c.contains b)) ∧
      (∀ p ∈ [[2], [5]], (p, true) ∈ t.parts.zip t.reducible) ∧ (∀ p ∈ t.parts, p ≠ []) := by
  refine ⟨coreTest_singletons _ [2, 5] (by decide) ?_ (by decide), by decide, by decide⟩
  intro p hp
  simp only [List.mem_cons, List.not_mem_nil, or_false] at hp
  rcases hp with rfl | rfl | rfl | rfl | rfl | rfl <;> exact ⟨_, rfl⟩

end Strat
