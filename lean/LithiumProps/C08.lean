/-
C08 — DDBEGIN/DDEND select exactly the lines between the marker lines.
-/
import LithiumProofs.Load

namespace Load

/-- The marker rule, stated without loops, for every splitter and every file.
With `ls` the lines of the file and `m` the first line that mentions either word:
* no such line: the whole file is handed to the splitter, nothing is protected;
* `m` does not mention DDBEGIN (so it mentions only DDEND): `LithiumError` (DDEND without DDBEGIN);
* otherwise `m` opens the region — also when it mentions DDEND as well — and with `e` the first
  LATER line that mentions DDEND (also when it mentions DDBEGIN as well; lines that only
  mention DDBEGIN again are ordinary region lines):
  - no such line: `LithiumError` (DDBEGIN without DDEND);
  - else the splitter gets exactly the lines strictly between `m` and `e`; everything up to
    and including `m` is the protected prefix, everything from `e` on the protected suffix.
Errors are decided before the splitter is called. -/
theorem C08_load_spec (sp : Splitter) (d : Bytes) :
    loadWith sp d =
      (let ls := Lines.splitLines d
       match ls.dropWhile (fun l => !mentionsAny l) with
       | [] => finish [] [] (sp ls.flatten)
       | m :: rest =>
         if hasSub DDBEGIN m then
           match rest.dropWhile (fun l => !hasSub DDEND l) with
           | [] => .error .beginWithoutEnd
           | e :: post =>
             finish ((ls.takeWhile (fun l => !mentionsAny l)).flatten ++ m) (e ++ post.flatten)
               (sp (rest.takeWhile (fun l => !hasSub DDEND l)).flatten)
         else .error .endWithoutBegin) :=
  loadWith_spec sp d

/-- a file without markers is reducible as a whole: the splitter gets every byte -/
theorem C08_no_markers (sp : Splitter) (d : Bytes)
    (h : ∀ l ∈ Lines.splitLines d, mentionsAny l = false) :
    loadWith sp d = finish [] [] (sp d) := by
  rw [C08_load_spec]
  simp only
  have : (Lines.splitLines d).dropWhile (fun l => !mentionsAny l) = [] := by
    apply dropWhile_eq_nil_of_all
    intro l hl
    simp [h l hl]
  rw [this, Lines.splitLines_flatten]

/-- non-vacuity / the both-words rule on a concrete file:
`x\nDDBEGIN DDEND\na\nDDBEGIN\nb\nDDEND DDBEGIN\nc\n` protects the first two lines (a line with
both words opens), keeps the later DDBEGIN line inside the region, and closes at the line
with both words. -/
example :
    let f : Bytes := [0x78,0x0A] ++ DDBEGIN ++ [0x20] ++ DDEND ++ [0x0A,0x61,0x0A] ++ DDBEGIN ++
      [0x0A,0x62,0x0A] ++ DDEND ++ [0x20] ++ DDBEGIN ++ [0x0A,0x63,0x0A]
    (loadLine f).toOption.map (·.parts) = some [[0x61,0x0A], DDBEGIN ++ [0x0A], [0x62,0x0A]] := by
  decide

example : (match loadLine (DDEND ++ [0x0A]) with | .error .endWithoutBegin => true | _ => false) = true := by decide
example : (match loadLine (DDBEGIN ++ [0x0A, 0x61]) with | .error .beginWithoutEnd => true | _ => false) = true := by decide

end Load
