import LithiumModel.Testcase
import LithiumModel.Lines
import LithiumModel.Load
import LithiumModel.World
import LithiumModel.Proto
import LithiumModel.Dispatch
