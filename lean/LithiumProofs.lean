import LithiumProofs.Rmslice
import LithiumProofs.Lines
import LithiumProofs.Load
import LithiumProofs.Symbol
import LithiumProofs.World
