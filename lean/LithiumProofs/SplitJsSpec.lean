/-
JS-string mode against a reference segmentation (C16): the reducible atoms are exactly the tokens
inside properly terminated strings.

`specJs` is the reference: find the next quote; if the string body that starts there has a closing
quote (`strBody`), its tokens are string characters, the quotes and the text before them are not;
if the data ends first, the quote is ordinary text and the search goes on behind it.

Part 1 (this section, no indices): the scanner's greedy pass `gscan` (which only finds out at the
end of the data that a string was not terminated) followed by the re-scan from behind the last
opening quote gives the reference segmentation.
-/
import LithiumProofs.SplitJsNe
import LithiumModel.JsSpec

namespace Js

/-- all tokens of the data (used when no closing quote follows) -/
def allToks : Nat → Bytes → List Bytes
  | 0, _ => []
  | f + 1, d => if tokLen d = 0 then [] else d.take (tokLen d) :: allToks f (d.drop (tokLen d))

/-- the scanner's greedy pass on labelled pieces (mirrors `scan`); the second component is the
quote of the string the data ended in, if any -/
def gscan : Nat → Option UInt8 → Bytes → List (Bytes × Bool) × Option UInt8
  | 0, m, d => (if d.isEmpty then [] else [(d, false)], m)
  | f + 1, some q, d =>
    if tokLen d = 0 then (if d.isEmpty then [] else [(d, false)], some q)
    else if d.take (tokLen d) == [q] then
      ((d.take (tokLen d), false) :: (gscan f none (d.drop (tokLen d))).1, (gscan f none (d.drop (tokLen d))).2)
    else
      ((d.take (tokLen d), true) :: (gscan f (some q) (d.drop (tokLen d))).1, (gscan f (some q) (d.drop (tokLen d))).2)
  | f + 1, none, d =>
    match d.findIdx? isQuote with
    | none => (if d.isEmpty then [] else [(d, false)], none)
    | some i =>
      ((d.take (i + 1), false) :: (gscan f (d[i]?) (d.drop (i + 1))).1, (gscan f (d[i]?) (d.drop (i + 1))).2)

theorem tokLen_bounds (c : UInt8) (rest : Bytes) :
    1 ≤ tokLen (c :: rest) ∧ tokLen (c :: rest) ≤ (c :: rest).length := by
  have hdef : tokLen (c :: rest) = (if c != 0x5C then 1 else if isU4 rest then 6 else if isX2 rest then 4
      else match uBrace rest with
        | some k => k
        | none => if rest.isEmpty then 1 else 2) := rfl
  rw [hdef]
  by_cases hbs : (c != 0x5C) = true
  · rw [if_pos hbs]; simp
  · rw [if_neg hbs]
    by_cases h4 : isU4 rest = true
    · rw [if_pos h4]
      constructor
      · omega
      · unfold isU4 at h4
        split at h4
        · simp
        · exact absurd h4 (by simp)
    · rw [if_neg h4]
      by_cases h2 : isX2 rest = true
      · rw [if_pos h2]
        constructor
        · omega
        · unfold isX2 at h2
          split at h2
          · simp
          · exact absurd h2 (by simp)
      · rw [if_neg h2]
        cases hb : uBrace rest with
        | some k =>
          simp only
          unfold uBrace at hb
          split at hb
          · rename_i r
            simp only at hb
            split at hb
            · exact absurd hb (by simp)
            · split at hb
              · rename_i tl hdrop
                injection hb with hb
                subst hb
                have hl : (r.takeWhile isHex).length + 1 ≤ r.length := by
                  have : (r.drop (r.takeWhile isHex).length).length = r.length - (r.takeWhile isHex).length := List.length_drop
                  rw [hdrop] at this
                  simp at this
                  omega
                simp; omega
              · exact absurd hb (by simp)
          · exact absurd hb (by simp)
        | none =>
          simp only
          cases rest with
          | nil => simp
          | cons _ _ => simp

theorem tokLen_le (d : Bytes) : tokLen d ≤ d.length := by
  cases d with
  | nil => simp [tokLen]
  | cons c rest => exact (tokLen_bounds c rest).2

theorem tokLen_drop_lt (d : Bytes) (h : tokLen d ≠ 0) : (d.drop (tokLen d)).length < d.length := by
  obtain ⟨hd, hk⟩ := tokLen_pos d h
  have := tokLen_le d
  have hl : 0 < d.length := List.length_pos_iff.mpr hd
  rw [List.length_drop]; omega

theorem findIdx_drop_lt (d : Bytes) (i : Nat) (h : d.findIdx? isQuote = some i) : (d.drop (i + 1)).length < d.length := by
  have := (List.findIdx?_eq_some_iff_getElem.mp h).1
  rw [List.length_drop]; omega

/-! ### the fuel does not matter once it exceeds the length of the data -/

theorem gscan_fuel (f f' : Nat) (m : Option UInt8) (d : Bytes) (h : d.length < f) (h' : d.length < f') :
    gscan f m d = gscan f' m d := by
  induction f generalizing f' m d with
  | zero => omega
  | succ f ih =>
    cases f' with
    | zero => omega
    | succ f' =>
      cases m with
      | some q =>
        unfold gscan
        by_cases h0 : tokLen d = 0
        · rw [if_pos h0, if_pos h0]
        · rw [if_neg h0, if_neg h0]
          have hlt := tokLen_drop_lt d h0
          rw [ih f' none _ (by omega) (by omega), ih f' (some q) _ (by omega) (by omega)]
      | none =>
        unfold gscan
        cases hi : d.findIdx? isQuote with
        | none => rfl
        | some i =>
          simp only
          have hlt := findIdx_drop_lt d i hi
          rw [ih f' _ _ (by omega) (by omega)]

theorem strBody_fuel (q : UInt8) (f f' : Nat) (d : Bytes) (h : d.length < f) (h' : d.length < f') :
    strBody q f d = strBody q f' d := by
  induction f generalizing f' d with
  | zero => omega
  | succ f ih =>
    cases f' with
    | zero => omega
    | succ f' =>
      unfold strBody
      by_cases h0 : tokLen d = 0
      · rw [if_pos h0, if_pos h0]
      · rw [if_neg h0, if_neg h0]
        have hlt := tokLen_drop_lt d h0
        rw [ih f' _ (by omega) (by omega)]

theorem allToks_fuel (f f' : Nat) (d : Bytes) (h : d.length < f) (h' : d.length < f') :
    allToks f d = allToks f' d := by
  induction f generalizing f' d with
  | zero => omega
  | succ f ih =>
    cases f' with
    | zero => omega
    | succ f' =>
      unfold allToks
      by_cases h0 : tokLen d = 0
      · rw [if_pos h0, if_pos h0]
      · rw [if_neg h0, if_neg h0]
        have hlt := tokLen_drop_lt d h0
        rw [ih f' _ (by omega) (by omega)]

theorem strBody_rest_lt (q : UInt8) (f : Nat) (d : Bytes) (toks : List Bytes) (rest : Bytes)
    (h : strBody q f d = some (toks, rest)) : rest.length < d.length := by
  induction f generalizing d toks with
  | zero => simp [strBody] at h
  | succ f ih =>
    unfold strBody at h
    by_cases h0 : tokLen d = 0
    · rw [if_pos h0] at h; simp at h
    · rw [if_neg h0] at h
      have hlt := tokLen_drop_lt d h0
      split at h
      · simp only [Option.some.injEq, Prod.mk.injEq] at h
        obtain ⟨-, rfl⟩ := h
        exact hlt
      · simp only [Option.map_eq_some_iff, Prod.mk.injEq] at h
        obtain ⟨r, hr, -, rfl⟩ := h
        have := ih _ _ hr
        omega

theorem specJs_fuel (f f' : Nat) (d : Bytes) (h : d.length < f) (h' : d.length < f') :
    specJs f d = specJs f' d := by
  induction f generalizing f' d with
  | zero => omega
  | succ f ih =>
    cases f' with
    | zero => omega
    | succ f' =>
      unfold specJs
      cases hi : d.findIdx? isQuote with
      | none => rfl
      | some i =>
        simp only
        have hlt := findIdx_drop_lt d i hi
        cases hb : strBody ((d[i]?).getD 0) (d.length + 1) (d.drop (i + 1)) with
        | none =>
          simp only
          rw [ih f' _ (by omega) (by omega)]
        | some r =>
          obtain ⟨toks, rest⟩ := r
          simp only
          have := strBody_rest_lt _ _ _ _ _ hb
          rw [ih f' _ (by omega) (by omega)]

/-! ### canonical fuel -/

def G (m : Option UInt8) (d : Bytes) := gscan (d.length + 1) m d
def SB (q : UInt8) (d : Bytes) := strBody q (d.length + 1) d
def AT (d : Bytes) := allToks (d.length + 1) d

theorem tokLen_zero_iff (d : Bytes) : tokLen d = 0 ↔ d = [] := by
  constructor
  · intro h
    cases d with
    | nil => rfl
    | cons c rest => have := (tokLen_bounds c rest).1; omega
  · rintro rfl; rfl

theorem G_some_step (q : UInt8) (d : Bytes) (h : tokLen d ≠ 0) :
    G (some q) d =
      if d.take (tokLen d) == [q] then
        ((d.take (tokLen d), false) :: (G none (d.drop (tokLen d))).1, (G none (d.drop (tokLen d))).2)
      else
        ((d.take (tokLen d), true) :: (G (some q) (d.drop (tokLen d))).1, (G (some q) (d.drop (tokLen d))).2) := by
  have hlt := tokLen_drop_lt d h
  unfold G
  conv => lhs; unfold gscan
  rw [if_neg h]
  rw [gscan_fuel d.length ((d.drop (tokLen d)).length + 1) none _ (by omega) (by omega),
    gscan_fuel d.length ((d.drop (tokLen d)).length + 1) (some q) _ (by omega) (by omega)]

theorem SB_step (q : UInt8) (d : Bytes) (h : tokLen d ≠ 0) :
    SB q d = if d.take (tokLen d) == [q] then some ([], d.drop (tokLen d))
      else (SB q (d.drop (tokLen d))).map (fun r => (d.take (tokLen d) :: r.1, r.2)) := by
  have hlt := tokLen_drop_lt d h
  unfold SB
  conv => lhs; unfold strBody
  rw [if_neg h]
  rw [strBody_fuel q d.length ((d.drop (tokLen d)).length + 1) _ (by omega) (by omega)]

theorem AT_step (d : Bytes) (h : tokLen d ≠ 0) : AT d = d.take (tokLen d) :: AT (d.drop (tokLen d)) := by
  have hlt := tokLen_drop_lt d h
  unfold AT
  conv => lhs; unfold allToks
  rw [if_neg h]
  rw [allToks_fuel d.length ((d.drop (tokLen d)).length + 1) _ (by omega) (by omega)]

/-- inside a string: up to the closing quote the greedy pass emits the tokens of the body; without a
closing quote it emits all tokens and ends inside the string -/
theorem G_in_string (n : Nat) : ∀ (d : Bytes) (q : UInt8), d.length ≤ n →
    (∀ toks rest, SB q d = some (toks, rest) →
      G (some q) d = (toks.map (·, true) ++ ([q], false) :: (G none rest).1, (G none rest).2)) ∧
    (SB q d = none → G (some q) d = ((AT d).map (·, true), some q) ∧ (AT d).flatten = d) := by
  induction n with
  | zero =>
    intro d q hd
    have : d = [] := List.length_eq_zero_iff.mp (by omega)
    subst this
    refine ⟨?_, ?_⟩
    · intro toks rest h
      simp [SB, strBody, tokLen] at h
    · intro _
      simp [G, gscan, AT, allToks, tokLen]
  | succ n ih =>
    intro d q hd
    by_cases h0 : tokLen d = 0
    · have : d = [] := (tokLen_zero_iff d).mp h0
      subst this
      refine ⟨?_, ?_⟩
      · intro toks rest h
        simp [SB, strBody, tokLen] at h
      · intro _
        simp [G, gscan, AT, allToks, tokLen]
    · have hlt := tokLen_drop_lt d h0
      obtain ⟨i1, i2⟩ := ih (d.drop (tokLen d)) q (by omega)
      rw [SB_step q d h0, G_some_step q d h0]
      by_cases hq : (d.take (tokLen d) == [q]) = true
      · rw [if_pos hq, if_pos hq]
        have hq' : d.take (tokLen d) = [q] := by simpa using hq
        refine ⟨?_, by intro h; simp at h⟩
        intro toks rest h
        simp only [Option.some.injEq, Prod.mk.injEq] at h
        obtain ⟨rfl, rfl⟩ := h
        rw [hq']
        simp
      · rw [if_neg hq, if_neg hq]
        refine ⟨?_, ?_⟩
        · intro toks rest h
          simp only [Option.map_eq_some_iff, Prod.mk.injEq] at h
          obtain ⟨r, hr, rfl, rfl⟩ := h
          obtain ⟨t', rest'⟩ := r
          rw [i1 t' rest' hr]
          simp
        · intro h
          have hn : SB q (d.drop (tokLen d)) = none := by
            cases hx : SB q (d.drop (tokLen d)) with
            | none => rfl
            | some r => rw [hx] at h; simp at h
          obtain ⟨j1, j2⟩ := i2 hn
          rw [j1, AT_step d h0]
          refine ⟨by simp, ?_⟩
          simp only [List.flatten_cons]
          rw [j2, List.take_append_drop]

theorem G_none_step (d : Bytes) :
    G none d = match d.findIdx? isQuote with
      | none => (if d.isEmpty then [] else [(d, false)], none)
      | some i => ((d.take (i + 1), false) :: (G (d[i]?) (d.drop (i + 1))).1, (G (d[i]?) (d.drop (i + 1))).2) := by
  unfold G
  conv => lhs; unfold gscan
  cases hi : d.findIdx? isQuote with
  | none => rfl
  | some i =>
    simp only
    have hlt := findIdx_drop_lt d i hi
    rw [gscan_fuel d.length ((d.drop (i + 1)).length + 1) _ _ (by omega) (by omega)]

theorem SP_step (d : Bytes) :
    SP d = match d.findIdx? isQuote with
      | none => if d.isEmpty then [] else [(d, false)]
      | some i =>
        match SB ((d[i]?).getD 0) (d.drop (i + 1)) with
        | some (toks, rest) =>
          (d.take (i + 1), false) :: (toks.map (·, true) ++ ([(d[i]?).getD 0], false) :: SP rest)
        | none => (d.take (i + 1), false) :: SP (d.drop (i + 1)) := by
  unfold SP
  conv => lhs; unfold specJs
  cases hi : d.findIdx? isQuote with
  | none => rfl
  | some i =>
    simp only
    have hlt := findIdx_drop_lt d i hi
    have hsb : strBody ((d[i]?).getD 0) (d.length + 1) (d.drop (i + 1)) = SB ((d[i]?).getD 0) (d.drop (i + 1)) := by
      unfold SB
      exact strBody_fuel _ _ _ _ (by omega) (by omega)
    rw [hsb]
    cases hb : SB ((d[i]?).getD 0) (d.drop (i + 1)) with
    | none =>
      simp only
      rw [specJs_fuel d.length ((d.drop (i + 1)).length + 1) _ (by omega) (by omega)]
    | some r =>
      obtain ⟨toks, rest⟩ := r
      simp only
      have := strBody_rest_lt _ _ _ _ _ hb
      rw [specJs_fuel d.length (rest.length + 1) _ (by omega) (by omega)]

theorem AT_flatten_of_none (q : UInt8) (d : Bytes) (h : SB q d = none) : (AT d).flatten = d :=
  ((G_in_string d.length d q (Nat.le_refl _)).2 h).2

/-- outside a string: when the greedy pass ends outside a string it has produced the reference
segmentation; when it ends inside a string opened by the piece `pre`, everything behind `pre` are
tokens `T`, and the reference segmentation is the same up to `pre`, followed by the reference
segmentation of the text behind it -/
theorem G_spec (n : Nat) : ∀ (d : Bytes), d.length ≤ n →
    ((G none d).2 = none → (G none d).1 = SP d) ∧
    (∀ q, (G none d).2 = some q → ∃ (A : List (Bytes × Bool)) (pre : Bytes) (T : List Bytes), (G none d).1 = A ++ (pre, false) :: T.map (·, true) ∧
      SP d = A ++ (pre, false) :: SP T.flatten ∧ pre.getLast? = some q ∧ T.flatten.length < d.length) := by
  induction n with
  | zero =>
    intro d hd
    have : d = [] := List.length_eq_zero_iff.mp (by omega)
    subst this
    simp [G, gscan, SP, specJs]
  | succ n ih =>
    intro d hd
    rw [G_none_step d, SP_step d]
    cases hi : d.findIdx? isQuote with
    | none => simp
    | some i =>
      simp only
      obtain ⟨hil, hqi, -⟩ := List.findIdx?_eq_some_iff_getElem.mp hi
      have hlt := findIdx_drop_lt d i hi
      have hget : d[i]? = some d[i] := List.getElem?_eq_getElem hil
      rw [hget]
      simp only [Option.getD_some]
      have hpre : (d.take (i + 1)).getLast? = some d[i] := by
        rw [List.take_succ_eq_append_getElem hil, List.getLast?_append]; simp
      obtain ⟨s1, s2⟩ := G_in_string (d.drop (i + 1)).length (d.drop (i + 1)) d[i] (Nat.le_refl _)
      cases hb : SB d[i] (d.drop (i + 1)) with
      | none =>
        obtain ⟨j1, j2⟩ := s2 hb
        rw [j1]
        simp only
        refine ⟨by intro h; simp at h, ?_⟩
        intro q hq
        simp only [Option.some.injEq] at hq
        subst hq
        refine ⟨[], d.take (i + 1), AT (d.drop (i + 1)), by simp, ?_, hpre, by rw [j2]; exact hlt⟩
        rw [j2]; simp
      | some r =>
        obtain ⟨toks, rest⟩ := r
        have hrl := strBody_rest_lt _ _ _ _ _ hb
        rw [s1 toks rest hb]
        simp only
        obtain ⟨k1, k2⟩ := ih rest (by omega)
        refine ⟨?_, ?_⟩
        · intro hm
          rw [k1 hm]
        · intro q hq
          obtain ⟨A, pre, T, e1, e2, e3, e4⟩ := k2 q hq
          refine ⟨(d.take (i + 1), false) :: (toks.map (·, true) ++ ([d[i]], false) :: A), pre, T, ?_, ?_, e3, by omega⟩
          · rw [e1]; simp
          · rw [e2]; simp

/-! ### Part 2: the scanner's index lists against labelled pieces -/

/-- the parts with their flags (`chars` lists the indices of the string characters) -/
def labFrom (chars : List Nat) : Nat → List Bytes → List (Bytes × Bool)
  | _, [] => []
  | k, p :: t => (p, chars.contains k) :: labFrom chars (k + 1) t

def lab (parts : List Bytes) (chars : List Nat) : List (Bytes × Bool) := labFrom chars 0 parts

theorem labFrom_append (C : List Nat) (k : Nat) (P Q : List Bytes) :
    labFrom C k (P ++ Q) = labFrom C k P ++ labFrom C (k + P.length) Q := by
  induction P generalizing k with
  | nil => simp [labFrom]
  | cons p t ih =>
    simp only [List.cons_append, labFrom, List.length_cons]
    rw [ih (k + 1)]
    have : k + 1 + t.length = k + (t.length + 1) := by omega
    rw [this]

theorem labFrom_length (C : List Nat) (k : Nat) (P : List Bytes) : (labFrom C k P).length = P.length := by
  induction P generalizing k with
  | nil => rfl
  | cons p t ih => simp [labFrom, ih]

theorem labFrom_map_fst (C : List Nat) (k : Nat) (P : List Bytes) : (labFrom C k P).map (·.1) = P := by
  induction P generalizing k with
  | nil => rfl
  | cons p t ih => simp [labFrom, ih]

theorem labFrom_congr (C C' : List Nat) (k : Nat) (P : List Bytes)
    (h : ∀ j, k ≤ j → j < k + P.length → C.contains j = C'.contains j) : labFrom C k P = labFrom C' k P := by
  induction P generalizing k with
  | nil => rfl
  | cons p t ih =>
    simp only [labFrom]
    rw [h k (Nat.le_refl _) (by simp), ih (k + 1) (fun j h1 h2 => h j (by omega) (by simp only [List.length_cons]; omega))]

theorem valid_not_contains (C : List Nat) (n : Nat) (h : Valid C n) (j : Nat) (hj : n ≤ j) : C.contains j = false := by
  cases hc : C.contains j with
  | false => rfl
  | true =>
    have : j ∈ C := by simpa using hc
    have := h.2 j this
    omega

/-- appending a part that is not a string character -/
theorem lab_push_false (P : List Bytes) (C : List Nat) (p : Bytes) (hv : Valid C P.length) :
    lab (P ++ [p]) C = lab P C ++ [(p, false)] := by
  unfold lab
  rw [labFrom_append]
  simp only [labFrom, Nat.zero_add]
  rw [valid_not_contains C P.length hv P.length (Nat.le_refl _)]

/-- appending a string character -/
theorem lab_push_true (P : List Bytes) (C : List Nat) (p : Bytes) (hv : Valid C P.length) :
    lab (P ++ [p]) (C ++ [P.length]) = lab P C ++ [(p, true)] := by
  unfold lab
  rw [labFrom_append]
  simp only [labFrom, Nat.zero_add]
  have h1 : (C ++ [P.length]).contains P.length = true := by simp
  rw [h1]
  congr 1
  apply labFrom_congr
  intro j _ hj
  have hne : j ≠ P.length := by omega
  simp [hne]

/-- the scanner's pass, part by part, is the greedy pass on labelled pieces -/
theorem scan_sim (fuel : Nat) (s : Scan) (hv : Valid s.chars s.parts.length) :
    lab (if (scan fuel s).rest.isEmpty then (scan fuel s).parts else (scan fuel s).parts ++ [(scan fuel s).rest])
        (scan fuel s).chars
      = lab s.parts s.chars ++ (gscan fuel s.instr s.rest).1 ∧
    (scan fuel s).instr = (gscan fuel s.instr s.rest).2 := by
  have hend : ∀ s : Scan, Valid s.chars s.parts.length →
      lab (if s.rest.isEmpty then s.parts else s.parts ++ [s.rest]) s.chars
        = lab s.parts s.chars ++ (if s.rest.isEmpty then [] else [(s.rest, false)]) := by
    intro s hv
    split
    · simp
    · exact lab_push_false _ _ _ hv
  induction fuel generalizing s with
  | zero =>
    simp only [scan, gscan]
    exact ⟨hend s hv, trivial⟩
  | succ f ih =>
    obtain ⟨rest, instr, chars, parts⟩ := s
    simp only at hv
    cases instr with
    | some q =>
      unfold scan gscan
      simp only
      by_cases h0 : tokLen rest = 0
      · rw [if_pos h0, if_pos h0]
        exact ⟨hend { rest := rest, instr := some q, chars := chars, parts := parts } hv, rfl⟩
      · rw [if_neg h0, if_neg h0]
        by_cases hq : (rest.take (tokLen rest) == [q]) = true
        · rw [if_pos hq, if_pos hq]
          have hv' : Valid chars (parts ++ [rest.take (tokLen rest)]).length := by
            simp only [List.length_append, List.length_singleton]
            exact valid_mono _ _ _ hv (Nat.le_succ _)
          obtain ⟨i1, i2⟩ := ih { rest := rest.drop (tokLen rest), instr := none, chars := chars,
                                   parts := parts ++ [rest.take (tokLen rest)] } hv'
          simp only at i1 i2
          refine ⟨?_, i2⟩
          rw [i1, lab_push_false _ _ _ hv]
          simp
        · rw [if_neg hq, if_neg hq]
          have hv' : Valid (chars ++ [parts.length]) (parts ++ [rest.take (tokLen rest)]).length := by
            simp only [List.length_append, List.length_singleton]
            exact valid_snoc _ _ hv
          obtain ⟨i1, i2⟩ := ih { rest := rest.drop (tokLen rest), instr := some q, chars := chars ++ [parts.length],
                                   parts := parts ++ [rest.take (tokLen rest)] } hv'
          simp only at i1 i2
          refine ⟨?_, i2⟩
          rw [i1, lab_push_true _ _ _ hv]
          simp
    | none =>
      unfold scan gscan
      simp only
      cases hi : rest.findIdx? isQuote with
      | none =>
        simp only
        exact ⟨hend { rest := rest, instr := none, chars := chars, parts := parts } hv, trivial⟩
      | some i =>
        simp only
        have hv' : Valid chars (parts ++ [rest.take (i + 1)]).length := by
          simp only [List.length_append, List.length_singleton]
          exact valid_mono _ _ _ hv (Nat.le_succ _)
        obtain ⟨i1, i2⟩ := ih { rest := rest.drop (i + 1), instr := rest[i]?, chars := chars,
                                 parts := parts ++ [rest.take (i + 1)] } hv'
        simp only at i1 i2
        refine ⟨?_, i2⟩
        rw [i1, lab_push_false _ _ _ hv]
        simp

/-! ### the rewind -/

theorem labFrom_all_true (C : List Nat) (k : Nat) (T : List Bytes) (h : labFrom C k T = T.map (·, true)) :
    ∀ x ∈ T.zipIdx k, C.contains x.2 = true := by
  induction T generalizing k with
  | nil => intro x hx; simp at hx
  | cons t u ih =>
    simp only [labFrom, List.map_cons, List.cons.injEq, Prod.mk.injEq, true_and] at h
    intro x hx
    simp only [List.zipIdx_cons, List.mem_cons] at hx
    rcases hx with rfl | hx
    · exact h.1
    · exact ih (k + 1) h.2 x hx

/-- what the labelled form `X ++ (pre, false) :: T.map (·, true)` says about parts and indices -/
theorem lab_split (parts : List Bytes) (chars : List Nat) (X : List (Bytes × Bool)) (pre : Bytes) (T : List Bytes)
    (h : lab parts chars = X ++ (pre, false) :: T.map (·, true)) :
    parts = X.map (·.1) ++ pre :: T ∧ labFrom chars 0 (X.map (·.1)) = X ∧
    chars.contains X.length = false ∧ ∀ x ∈ T.zipIdx (X.length + 1), chars.contains x.2 = true := by
  have hp : parts = X.map (·.1) ++ pre :: T := by
    have := congrArg (List.map (·.1)) h
    unfold lab at this
    rw [labFrom_map_fst] at this
    rw [this]
    simp [List.map_map, Function.comp_def]
  unfold lab at h
  rw [hp, labFrom_append] at h
  simp only [labFrom, Nat.zero_add, List.length_map] at h
  have hl : (labFrom chars 0 (X.map (·.1))).length = X.length := by rw [labFrom_length, List.length_map]
  obtain ⟨e1, e2⟩ := List.append_inj h hl
  simp only [List.cons.injEq, Prod.mk.injEq, true_and] at e2
  exact ⟨hp, e1, e2.1, labFrom_all_true chars _ T e2.2⟩

theorem rewind_lab (parts : List Bytes) (chars : List Nat) (q : UInt8) (X : List (Bytes × Bool)) (pre : Bytes)
    (T : List Bytes) (h : lab parts chars = X ++ (pre, false) :: T.map (·, true)) (hq : pre.getLast? = some q) :
    rewindIdx parts chars q = some X.length := by
  obtain ⟨hp, -, hc, hT⟩ := lab_split parts chars X pre T h
  unfold rewindIdx
  rw [hp, List.zipIdx_append, List.filter_append]
  simp only [List.length_map, Nat.zero_add, List.zipIdx_cons, List.filter_cons]
  have h1 : (endsWith pre q && !chars.contains X.length) = true := by
    have hnm : X.length ∉ chars := by simpa using hc
    simp [endsWith, hq, hnm]
  rw [if_pos h1]
  have h2 : (T.zipIdx (X.length + 1)).filter (fun x => endsWith x.1 q && !chars.contains x.2) = [] := by
    rw [List.filter_eq_nil_iff]
    intro x hx
    rw [hT x hx]
    simp
  rw [h2, List.getLast?_append]
  simp

theorem filter_lt_contains (C : List Nat) (n j : Nat) : (C.filter (· < n)).contains j = (C.contains j && decide (j < n)) := by
  induction C with
  | nil => simp
  | cons c t ih =>
    simp only [List.filter_cons]
    by_cases hc : c < n
    · simp only [hc, decide_true, if_true, List.contains_cons, ih]
      by_cases hj : j = c
      · subst hj; simp [hc]
      · have : (j == c) = false := by simpa using hj
        simp [this]
    · simp only [hc, decide_false, Bool.false_eq_true, if_false, List.contains_cons, ih]
      by_cases hj : j = c
      · subst hj; simp [hc]
      · have : (j == c) = false := by simpa using hj
        simp [this]

/-- the state after the rewind, in labelled form -/
theorem lab_rewound (parts : List Bytes) (chars : List Nat) (X : List (Bytes × Bool)) (pre : Bytes) (T : List Bytes)
    (h : lab parts chars = X ++ (pre, false) :: T.map (·, true)) :
    lab (parts.take (X.length + 1)) (chars.filter (· < X.length)) = X ++ [(pre, false)] ∧
    (parts.drop (X.length + 1)).flatten = T.flatten := by
  obtain ⟨hp, hX, hc, -⟩ := lab_split parts chars X pre T h
  have hl : (X.map (·.1)).length = X.length := List.length_map _
  constructor
  · have ht : parts.take (X.length + 1) = X.map (·.1) ++ [pre] := by
      rw [hp, ← hl, List.take_length_add_append]
      simp
    unfold lab
    rw [ht, labFrom_append]
    simp only [labFrom, Nat.zero_add, hl]
    rw [filter_lt_contains]
    simp only [Nat.lt_irrefl, decide_false, Bool.and_false]
    congr 1
    refine Eq.trans (labFrom_congr _ chars 0 _ ?_) hX
    intro j _ hj
    rw [filter_lt_contains]
    simp only [Nat.zero_add, hl] at hj
    simp [hj]
  · rw [hp, ← hl, List.drop_length_add_append]
    simp

/-- the scanner with its back-tracking produces the reference segmentation -/
theorem outer_spec (fuel : Nat) : ∀ (d : Bytes) (C : List Nat) (P : List Bytes) (cs : List Nat) (ps : List Bytes),
    NE P → Valid C P.length → d.length < fuel → outer fuel d C P = .ok (cs, ps) →
    lab ps cs = lab P C ++ SP d := by
  induction fuel with
  | zero => intro d C P cs ps _ _ hf; omega
  | succ f ih =>
    intro d C P cs ps hne hv hf h
    unfold outer at h
    simp only at h
    obtain ⟨sne, sv⟩ := scan_inv (d.length + 1) { rest := d, instr := none, chars := C, parts := P } hne hv
    obtain ⟨sim1, sim2⟩ := scan_sim (d.length + 1) { rest := d, instr := none, chars := C, parts := P } hv
    simp only at sim1 sim2
    have hG : gscan (d.length + 1) none d = G none d := rfl
    rw [hG] at sim1 sim2
    generalize scan (d.length + 1) { rest := d, instr := none, chars := C, parts := P } = s at h sne sv sim1 sim2
    have hparts : NE (if s.rest.isEmpty then s.parts else s.parts ++ [s.rest]) ∧
        Valid s.chars (if s.rest.isEmpty then s.parts else s.parts ++ [s.rest]).length := by
      split
      · exact ⟨sne, sv⟩
      · rename_i he
        refine ⟨ne_append _ _ sne (ne_single _ (by intro h0; rw [h0] at he; simp at he)), ?_⟩
        simp only [List.length_append, List.length_singleton]
        exact valid_mono _ _ _ sv (Nat.le_succ _)
    generalize (if s.rest.isEmpty then s.parts else s.parts ++ [s.rest]) = parts' at h hparts sim1
    obtain ⟨g1, g2⟩ := G_spec d.length d (Nat.le_refl _)
    split at h
    · rename_i hnone
      injection h with h
      injection h with h1 h2
      subst h1; subst h2
      rw [sim1, g1 (by rw [← sim2]; exact hnone)]
    · rename_i q hq
      obtain ⟨A, pre, T, e1, e2, e3, e4⟩ := g2 q (by rw [← sim2]; exact hq)
      have hlab : lab parts' s.chars = (lab P C ++ A) ++ (pre, false) :: T.map (·, true) := by
        rw [sim1, e1]; simp
      have hrw := rewind_lab parts' s.chars q (lab P C ++ A) pre T hlab e3
      rw [hrw] at h
      simp only at h
      obtain ⟨r1, r2⟩ := lab_rewound parts' s.chars (lab P C ++ A) pre T hlab
      obtain ⟨hp, -, -, -⟩ := lab_split parts' s.chars (lab P C ++ A) pre T hlab
      have hlen : (lab P C ++ A).length + 1 ≤ parts'.length := by
        rw [hp]; simp; omega
      have hv' : Valid (s.chars.filter (· < (lab P C ++ A).length)) (parts'.take ((lab P C ++ A).length + 1)).length := by
        refine ⟨hparts.2.1.filter _, ?_⟩
        intro c hc
        have := (List.mem_filter.mp hc).2
        simp only [decide_eq_true_eq] at this
        rw [List.length_take]
        omega
      have := ih _ _ _ cs ps (ne_take _ _ hparts.1) hv' (by rw [r2]; omega) h
      rw [this, r1, r2, e2]
      simp

/-! ### Part 3: byte offsets of the string characters, through the header/footer cut and the gap merge -/

/-- offset and bytes of the parts an index list points at -/
def sp (o : Nat) (chars : List Nat) (parts : List Bytes) : List (Nat × Bytes) :=
  chars.map (fun c => (o + (parts.take c).flatten.length, (parts[c]?).getD []))

theorem spans_labFrom (P : List Bytes) : ∀ (C : List Nat) (k o : Nat), C.Pairwise (· < ·) →
    (∀ c ∈ C, k ≤ c ∧ c < k + P.length) →
    spans (labFrom C k P) o = C.map (fun c => (o + (P.take (c - k)).flatten.length, (P[c - k]?).getD [])) := by
  induction P with
  | nil =>
    intro C k o _ hr
    cases C with
    | nil => rfl
    | cons c t => have := hr c (by simp); simp at this; omega
  | cons p t ih =>
    intro C k o hs hr
    simp only [labFrom]
    cases C with
    | nil => simp [spans, ih [] (k + 1) (o + p.length) List.Pairwise.nil (by intro c hc; simp at hc)]
    | cons c0 C' =>
      have hs' := List.pairwise_cons.mp hs
      by_cases hk : c0 = k
      · subst hk
        have hc : (c0 :: C').contains c0 = true := by simp
        rw [hc]
        simp only [spans, List.map_cons, Nat.sub_self, List.take_zero, List.flatten_nil, List.length_nil, Nat.add_zero,
          List.getElem?_cons_zero, Option.getD_some]
        congr 1
        have hcongr : labFrom (c0 :: C') (c0 + 1) t = labFrom C' (c0 + 1) t := by
          apply labFrom_congr
          intro j hj _
          have hne : j ≠ c0 := by omega
          simp [hne]
        rw [hcongr, ih C' (c0 + 1) (o + p.length) hs'.2 (by
          intro c hc
          have := hs'.1 c hc
          have := (hr c (by simp [hc])).2
          simp only [List.length_cons] at this
          omega)]
        apply List.map_congr_left
        intro c hc
        have h1 := hs'.1 c hc
        have e : c - c0 = (c - (c0 + 1)) + 1 := by omega
        rw [e]
        simp only [List.take_succ_cons, List.flatten_cons, List.length_append, List.getElem?_cons_succ]
        congr 1
        omega
      · have hk0 := (hr c0 (by simp)).1
        have hc : (c0 :: C').contains k = false := by
          cases hx : (c0 :: C').contains k with
          | false => rfl
          | true =>
            have hm : k ∈ c0 :: C' := by simpa using hx
            simp only [List.mem_cons] at hm
            rcases hm with rfl | hm
            · exact absurd rfl hk
            · have := hs'.1 k hm; omega
        rw [hc]
        simp only [spans]
        rw [ih (c0 :: C') (k + 1) (o + p.length) hs (by
          intro c hc'
          have h1 := hr c hc'
          simp only [List.length_cons] at h1
          have : c ≠ k := by
            intro he; subst he
            have : (c0 :: C').contains c = true := by simpa using hc'
            rw [this] at hc; exact absurd hc (by simp)
          omega)]
        apply List.map_congr_left
        intro c hc'
        have h1 := hr c hc'
        have : c ≠ k := by
          intro he; subst he
          have : (c0 :: C').contains c = true := by simpa using hc'
          rw [this] at hc; exact absurd hc (by simp)
        have e : c - k = (c - (k + 1)) + 1 := by omega
        rw [e]
        simp only [List.take_succ_cons, List.flatten_cons, List.length_append, List.getElem?_cons_succ]
        congr 1
        omega

theorem spans_lab (parts : List Bytes) (chars : List Nat) (o : Nat) (hv : Valid chars parts.length) :
    spans (lab parts chars) o = sp o chars parts := by
  unfold lab sp
  rw [spans_labFrom parts chars 0 o hv.1 (fun c hc => ⟨Nat.zero_le _, by have := hv.2 c hc; omega⟩)]
  simp

theorem take_three {α : Type} (l : List α) (a b y : Nat) (hab : a ≤ b) (hby : b ≤ y) :
    l.take y = l.take a ++ (l.drop a).take (b - a) ++ (l.drop b).take (y - b) := by
  have e : y = a + ((b - a) + (y - b)) := by omega
  conv => lhs; rw [e]
  rw [List.take_add, List.take_add, List.drop_drop]
  have : a + (b - a) = b := by omega
  rw [this, List.append_assoc]

/-- the gap merge keeps the byte offsets and the bytes of the string characters -/
theorem mergeLoop_sp (o : Nat) (fuel i : Nat) (parts : List Bytes) (chars : List Nat)
    (hv : Valid chars parts.length) :
    sp o (mergeLoop fuel i parts chars).2 (mergeLoop fuel i parts chars).1 = sp o chars parts := by
  induction fuel generalizing i parts chars with
  | zero => rfl
  | succ f ih =>
    unfold mergeLoop
    split
    · rename_i hi
      simp only
      have e1 : chars.getD i 0 = chars[i] := by
        rw [List.getD_eq_getElem?_getD, List.getElem?_eq_getElem (by omega)]; rfl
      have e2 : chars.getD (i + 1) 0 = chars[i + 1] := by
        rw [List.getD_eq_getElem?_getD, List.getElem?_eq_getElem hi]; rfl
      have h12 : chars[i] < chars[i + 1] := (List.pairwise_iff_getElem.mp hv.1) i (i + 1) (by omega) hi (by omega)
      have h2n : chars[i + 1] < parts.length := hv.2 _ (List.getElem_mem hi)
      rw [e1, e2]
      generalize hc1 : chars[i] = c1 at *
      generalize hc2 : chars[i + 1] = c2 at *
      split
      · rename_i hgap
        have hle := sorted_take_le chars hv.1 i (by omega)
        have hge := sorted_drop_ge chars hv.1 i hi
        rw [hc1] at hle
        rw [hc2] at hge
        have hv' : Valid (chars.take (i + 1) ++ (chars.drop (i + 1)).map (· - (c2 - c1 - 2)))
            (parts.take (c1 + 1) ++ [((parts.drop (c1 + 1)).take (c2 - c1 - 1)).flatten] ++ parts.drop c2).length := by
          have hnewlen : (parts.take (c1 + 1) ++ [((parts.drop (c1 + 1)).take (c2 - c1 - 1)).flatten] ++ parts.drop c2).length
              = parts.length - (c2 - c1 - 2) := by
            simp only [List.length_append, List.length_take, List.length_drop, List.length_singleton]
            omega
          rw [hnewlen]
          refine ⟨?_, ?_⟩
          · rw [List.pairwise_append]
            refine ⟨hv.1.sublist (List.take_sublist _ _), ?_, ?_⟩
            · rw [List.pairwise_map]
              refine (hv.1.sublist (List.drop_sublist _ _)).imp_of_mem ?_
              intro a b ha hb hab
              have := hge a ha
              have := hge b hb
              omega
            · intro a ha b hb
              obtain ⟨y, hy, rfl⟩ := List.mem_map.mp hb
              have := hle a ha
              have := hge y hy
              omega
          · intro c hc
            rcases List.mem_append.mp hc with h | h
            · have := hle c h
              omega
            · obtain ⟨y, hy, rfl⟩ := List.mem_map.mp h
              have := hge y hy
              have := hv.2 y (List.mem_of_mem_drop hy)
              omega
        rw [ih _ _ _ hv']
        -- the merged list points at the same bytes at the same offsets
        have hchars : chars = chars.take (i + 1) ++ chars.drop (i + 1) := (List.take_append_drop _ _).symm
        conv => rhs; rw [hchars]
        unfold sp
        rw [List.map_append, List.map_append, List.map_map]
        have hl : (parts.take (c1 + 1) ++ [((parts.drop (c1 + 1)).take (c2 - c1 - 1)).flatten]).length = c1 + 2 := by
          simp only [List.length_append, List.length_take, List.length_singleton]; omega
        congr 1
        · apply List.map_congr_left
          intro c h
          have hcle := hle c h
          have hmem : c ∈ chars := List.mem_of_mem_take h
          have h1 : (parts.take (c1 + 1) ++ [((parts.drop (c1 + 1)).take (c2 - c1 - 1)).flatten] ++ parts.drop c2)[c]? = parts[c]? := by
            rw [List.append_assoc, List.getElem?_append_left (by rw [List.length_take]; omega),
              List.getElem?_take_of_lt (by omega)]
          have h2 : (parts.take (c1 + 1) ++ [((parts.drop (c1 + 1)).take (c2 - c1 - 1)).flatten] ++ parts.drop c2).take c = parts.take c := by
            rw [List.append_assoc, List.take_append_of_le_length (by rw [List.length_take]; omega), List.take_take]
            congr 1; omega
          rw [h1, h2]
        · apply List.map_congr_left
          intro y hy
          have hyge := hge y hy
          have hmem : y ∈ chars := List.mem_of_mem_drop hy
          have hylt := hv.2 y hmem
          simp only [Function.comp]
          have h1 : (parts.take (c1 + 1) ++ [((parts.drop (c1 + 1)).take (c2 - c1 - 1)).flatten] ++ parts.drop c2)[y - (c2 - c1 - 2)]?
              = parts[y]? := by
            rw [List.getElem?_append_right (by rw [hl]; omega), hl, List.getElem?_drop]
            congr 1; omega
          have h2 : ((parts.take (c1 + 1) ++ [((parts.drop (c1 + 1)).take (c2 - c1 - 1)).flatten] ++ parts.drop c2).take
              (y - (c2 - c1 - 2))).flatten = (parts.take y).flatten := by
            have e : y - (c2 - c1 - 2) = (parts.take (c1 + 1) ++ [((parts.drop (c1 + 1)).take (c2 - c1 - 1)).flatten]).length + (y - c2) := by
              rw [hl]; omega
            rw [e, List.take_length_add_append, take_three parts (c1 + 1) c2 y (by omega) hyge]
            have : c2 - (c1 + 1) = c2 - c1 - 1 := by omega
            rw [this]
            simp [List.flatten_append]
          rw [h1, h2]
      · exact ih _ _ _ hv
    · rfl

theorem labFrom_eq_zip (C : List Nat) (k : Nat) (P : List Bytes) :
    labFrom C k P = P.zip ((List.range' k P.length).map C.contains) := by
  induction P generalizing k with
  | nil => rfl
  | cons p t ih =>
    simp only [labFrom, List.length_cons, List.range'_succ, List.map_cons, List.zip_cons_cons]
    rw [ih (k + 1)]

theorem lab_eq_zip (parts : List Bytes) (chars : List Nat) :
    lab parts chars = parts.zip ((List.range parts.length).map chars.contains) := by
  unfold lab
  rw [labFrom_eq_zip, List.range_eq_range']

/-- JS-string mode: the reducible atoms, with their byte offsets in the file, are EXACTLY the
characters and escape sequences inside properly terminated strings of the reference segmentation -/
theorem splitJs_spans (d : Bytes) (s : Load.Split) (h : splitJs d = .ok s) :
    spans (s.parts.zip s.reducible) s.header.length = strChars d := by
  unfold strChars
  unfold splitJs at h
  cases ho : outer (d.length + 2) d [] [] with
  | error e => rw [ho] at h; simp at h
  | ok r =>
    obtain ⟨chars, parts⟩ := r
    rw [ho] at h
    simp only at h
    have hv0 : Valid ([] : List Nat) ([] : List Bytes).length := ⟨List.Pairwise.nil, by intro c hc; simp at hc⟩
    obtain ⟨one, ov⟩ := outer_inv _ _ _ _ _ _ (by intro p hp; simp at hp) hv0 ho
    have hspec := outer_spec (d.length + 2) d [] [] chars parts (by intro p hp; simp at hp) hv0 (by omega) ho
    have hspec' : lab parts chars = SP d := by
      rw [hspec]; simp [lab, labFrom]
    rw [← hspec', spans_lab parts chars 0 ov]
    cases chars with
    | nil =>
      simp only [Except.ok.injEq] at h
      subst h
      simp only [List.length_nil]
      have : parts.zip (List.replicate parts.length false) = lab parts [] := by
        rw [lab_eq_zip]
        congr 1
        apply List.ext_getElem (by simp)
        intro n h1 h2
        simp
      rw [this, spans_lab parts [] 0 ⟨List.Pairwise.nil, by intro c hc; simp at hc⟩]
    | cons c0 rest =>
      simp only [Except.ok.injEq] at h
      subst h
      simp only
      obtain ⟨hc0, hv1, hlast, hv2⟩ := header_footer_valid c0 rest parts ov
      have hne2 : NE ((parts.drop c0).take (((c0 :: rest).map (· - c0)).getLast?.getD 0 + 1)) :=
        ne_take _ _ (ne_drop _ _ one)
      obtain ⟨-, mv⟩ := mergeLoop_inv ((c0 :: rest).map (· - c0)).length 0 _ _ hne2 hv2
      have msp := mergeLoop_sp (parts.take c0).flatten.length ((c0 :: rest).map (· - c0)).length 0 _ _ hv2
      generalize mergeLoop ((c0 :: rest).map (· - c0)).length 0
        ((parts.drop c0).take (((c0 :: rest).map (· - c0)).getLast?.getD 0 + 1)) ((c0 :: rest).map (· - c0)) = m at mv msp ⊢
      rw [← lab_eq_zip, spans_lab _ _ _ mv, msp]
      -- cutting the header and the footer shifts the offsets by the length of the header
      unfold sp
      rw [List.map_map]
      apply List.map_congr_left
      intro y hy
      simp only [Function.comp]
      have hy0 := hc0 y hy
      have hyl := hlast (y - c0) (List.mem_map.mpr ⟨y, hy, rfl⟩)
      have h1 : ((parts.drop c0).take (((c0 :: rest).map (· - c0)).getLast?.getD 0 + 1))[y - c0]? = parts[y]? := by
        rw [List.getElem?_take_of_lt (by omega), List.getElem?_drop]
        congr 1; omega
      have h2 : (((parts.drop c0).take (((c0 :: rest).map (· - c0)).getLast?.getD 0 + 1)).take (y - c0))
          = (parts.drop c0).take (y - c0) := by
        rw [List.take_take]; congr 1; omega
      have h3 : parts.take y = parts.take c0 ++ (parts.drop c0).take (y - c0) := by
        have e : y = c0 + (y - c0) := by omega
        conv => lhs; rw [e]
        rw [List.take_add]
      rw [h1, h2, h3]
      simp only [List.flatten_append, List.length_append, Nat.zero_add]

end Js
