/-
Attribute atoms lie inside a tag (C16): every reducible atom of the attribute splitter is preceded
by a part that ends with a tag opener `<`, optional whitespace, a tag name, and between that part
and the atom there are only other attributes and text without a `>`.
-/
import LithiumProofs.SplitAttrsShape

namespace Attrs
open Strat (isWs)

/-- the part ends with a tag opener `<\s*[A-Za-z][A-Za-z-]*` -/
def IsTagOpen (p : Bytes) : Prop :=
  ∃ pre ws a run, p = pre ++ 0x3C :: (ws ++ a :: run) ∧ (∀ b ∈ ws, isWs b = true) ∧ isAlpha a = true ∧
    ∀ b ∈ run, isTagChar b = true

theorem tagSearch_shape (d : Bytes) (pos e : Nat) (h : tagSearch d pos = some e) :
    pos ≤ e ∧ e - pos ≤ d.length ∧ IsTagOpen (d.take (e - pos)) := by
  induction d generalizing pos with
  | nil => simp [tagSearch] at h
  | cons c rest ih =>
    -- skipping the first byte
    have skip : tagSearch rest (pos + 1) = some e →
        pos ≤ e ∧ e - pos ≤ (c :: rest).length ∧ IsTagOpen ((c :: rest).take (e - pos)) := by
      intro h'
      obtain ⟨i1, i2, pre, ws, a, run, hp, hws, ha, hrun⟩ := ih _ h'
      have hpos := tagSearch_pos _ _ _ h'
      have he : e - pos = (e - (pos + 1)) + 1 := by omega
      refine ⟨by omega, by simp only [List.length_cons]; omega, c :: pre, ws, a, run, ?_, hws, ha, hrun⟩
      rw [he, List.take_succ_cons, hp]
      rfl
    unfold tagSearch at h
    split at h
    · rename_i hc
      simp only at h
      split at h
      · rename_i a more hdrop
        split at h
        · rename_i ha
          injection h with h
          have hc' : c = 0x3C := by simpa using hc
          subst hc'
          -- the match starts here
          have hws : rest.take (rest.takeWhile isWs).length = rest.takeWhile isWs := take_length_takeWhile isWs rest
          have hrest : rest = rest.takeWhile isWs ++ a :: more := by
            have := (List.take_append_drop (rest.takeWhile isWs).length rest).symm
            rw [hws, hdrop] at this
            exact this
          have hmore : more.take (more.takeWhile isTagChar).length = more.takeWhile isTagChar :=
            take_length_takeWhile isTagChar more
          have hWs := takeWhile_all isWs rest
          have hTs := takeWhile_all isTagChar more
          generalize rest.takeWhile isWs = W at *
          generalize more.takeWhile isTagChar = T at *
          have hlen : e - pos = (W.length + (T.length + 1)) + 1 := by omega
          have hle : T.length ≤ more.length := by
            rw [← hmore, List.length_take]; omega
          have hrl : rest.length = W.length + (1 + more.length) := by
            rw [hrest]; simp only [List.length_append, List.length_cons]; omega
          refine ⟨by omega, by simp only [List.length_cons]; omega, [], W, a, T, ?_, hWs, ha, hTs⟩
          rw [hlen, List.take_succ_cons, List.nil_append, hrest, List.take_length_add_append, List.take_succ_cons, hmore]
        · exact skip h
      · exact skip h
    · exact skip h

/-- the text skipped by the search for the next attribute-looking thing contains no `>` (a `>` would
have matched the second alternative `\s*>`) -/
theorem attrSearch_skips_no_gt (d : Bytes) (prev : Option UInt8) (pos start len : Nat) (b : Bool)
    (h : attrSearch d prev pos = some (start, len, b)) : ∀ x ∈ d.take (start - pos), x ≠ 0x3E := by
  induction d generalizing prev pos with
  | nil => simp [attrSearch] at h
  | cons c rest ih =>
    unfold attrSearch at h
    simp only at h
    split at h
    · simp only [Option.some.injEq, Prod.mk.injEq] at h
      obtain ⟨rfl, -, -⟩ := h
      simp
    · split at h
      · simp only [Option.some.injEq, Prod.mk.injEq] at h
        obtain ⟨rfl, -, -⟩ := h
        simp
      · rename_i hA2
        have hpos := (attrSearch_pos _ _ _ _ _ _ h).1
        have he : start - pos = (start - (pos + 1)) + 1 := by omega
        rw [he, List.take_succ_cons]
        intro x hx
        simp only [List.mem_cons] at hx
        rcases hx with rfl | hx
        · -- the skipped byte itself is not `>`
          intro hc
          subst hc
          have hw : isWs (0x3E : UInt8) = false := by decide
          simp [attrA2, List.takeWhile_cons, hw] at hA2
        · exact ih _ _ h x hx

/-! ### the sequence of parts -/

/-- text between a tag opener and one of its attributes: other attributes, or text without `>` -/
def MidOK (mid : List (Bytes × Bool)) : Prop :=
  ∀ x ∈ mid, (x.2 = true ∧ IsAttr x.1) ∨ (x.2 = false ∧ ∀ b ∈ x.1, b ≠ 0x3E)

/-- the list ends inside a tag: a tag opener followed only by attributes and `>`-free text -/
def Open (l : List (Bytes × Bool)) : Prop :=
  ∃ l0 o mid, l = l0 ++ (o, false) :: mid ∧ IsTagOpen o ∧ MidOK mid

/-- every reducible atom lies inside a tag -/
def AttrsInTag (l : List (Bytes × Bool)) : Prop :=
  ∀ l1 a l2, l = l1 ++ (a, true) :: l2 → Open l1 ∧ IsAttr a

theorem attrsInTag_snoc (l : List (Bytes × Bool)) (p : Bytes) (r : Bool) (h : AttrsInTag l)
    (hr : r = true → Open l ∧ IsAttr p) : AttrsInTag (l ++ [(p, r)]) := by
  intro l1 a l2 he
  rcases List.eq_nil_or_concat l2 with rfl | ⟨l2', z, rfl⟩
  · -- the atom is the new last element
    have := List.append_inj' he (by simp)
    obtain ⟨e1, e2⟩ := this
    simp only [List.cons.injEq, Prod.mk.injEq, and_true] at e2
    obtain ⟨rfl, rfl⟩ := e2
    subst e1
    exact hr rfl
  · have he' : l ++ [(p, r)] = (l1 ++ (a, true) :: l2') ++ [z] := by
      rw [he]; simp [List.concat_eq_append]
    obtain ⟨e1, -⟩ := List.append_inj' he' (by simp)
    exact h l1 a l2' e1

theorem open_snoc (l : List (Bytes × Bool)) (p : Bytes) (r : Bool) (h : Open l)
    (hp : (r = true ∧ IsAttr p) ∨ (r = false ∧ ∀ b ∈ p, b ≠ 0x3E)) : Open (l ++ [(p, r)]) := by
  obtain ⟨l0, o, mid, rfl, ho, hm⟩ := h
  refine ⟨l0, o, mid ++ [(p, r)], by simp, ho, ?_⟩
  intro x hx
  rcases List.mem_append.mp hx with hx | hx
  · exact hm x hx
  · simp only [List.mem_singleton] at hx
    subst hx
    exact hp

/-- the invariant of the splitter's loop -/
structure TagInv (s : St) : Prop where
  ok : AttrsInTag (s.parts.zip s.red)
  op : s.inTag = true → Open (s.parts.zip s.red)

theorem tagInv_push (s : St) (p rest : Bytes) (r : Bool) (b : Bool) (hl : s.parts.length = s.red.length)
    (h : TagInv s) (hr : r = true → s.inTag = true ∧ IsAttr p)
    (hb : b = true → (s.inTag = false ∧ r = false ∧ IsTagOpen p) ∨
      (s.inTag = true ∧ ((r = true ∧ IsAttr p) ∨ (r = false ∧ ∀ x ∈ p, x ≠ 0x3E)))) :
    TagInv (push { s with inTag := b } p r rest) := by
  have hz : (s.parts ++ [p]).zip (s.red ++ [r]) = s.parts.zip s.red ++ [(p, r)] := by
    rw [List.zip_append hl]; rfl
  constructor
  · show AttrsInTag ((s.parts ++ [p]).zip (s.red ++ [r]))
    rw [hz]
    exact attrsInTag_snoc _ p r h.ok (fun hrt => ⟨h.op (hr hrt).1, (hr hrt).2⟩)
  · intro hbt
    show Open ((s.parts ++ [p]).zip (s.red ++ [r]))
    rw [hz]
    have hbt' : b = true := hbt
    rcases hb hbt' with ⟨-, rfl, ho⟩ | ⟨hin, hp⟩
    · exact ⟨s.parts.zip s.red, p, [], rfl, ho, by intro x hx; simp at hx⟩
    · exact open_snoc _ p r (h.op hin) hp

theorem shape_last (s : St) (p rest : Bytes) (r b : Bool) (hl : s.parts.length = s.red.length)
    (h : Shape (push { s with inTag := b } p r rest)) : r = true → IsAttr p := by
  intro hr
  apply h (p, r) _ hr
  show (p, r) ∈ (s.parts ++ [p]).zip (s.red ++ [r])
  rw [List.zip_append hl]
  simp

theorem step_tag (s s' : St) (hl : s.parts.length = s.red.length) (h : TagInv s) (hsh : Shape s')
    (hs : step s = some s') : TagInv s' := by
  unfold step at hs
  simp only at hs
  split at hs
  · rename_i hin
    cases hm : attrMatch s.data with
    | none =>
      rw [hm] at hs
      simp only at hs
      cases hsr : attrSearch s.data none 0 with
      | none =>
        rw [hsr] at hs
        injection hs with hs; subst hs
        exact ⟨h.ok, fun hb => absurd hb (by simp)⟩
      | some r =>
        obtain ⟨start, len, b⟩ := r
        rw [hsr] at hs
        simp only at hs
        have hskip := attrSearch_skips_no_gt s.data none 0 start len b hsr
        simp only [Nat.sub_zero] at hskip
        split at hs
        · injection hs with hs; subst hs
          have e : s = { s with inTag := true } := by cases s; simp_all
          rw [e]
          exact tagInv_push s _ _ false true hl h (fun hr => absurd hr (by simp))
            (fun _ => Or.inr ⟨hin, Or.inr ⟨rfl, hskip⟩⟩)
        · injection hs with hs; subst hs
          exact tagInv_push s _ _ false false hl h (fun hr => absurd hr (by simp)) (fun hb => absurd hb (by simp))
    | some r =>
      obtain ⟨len, b⟩ := r
      rw [hm] at hs
      simp only at hs
      split at hs
      · injection hs with hs; subst hs
        exact tagInv_push s _ _ false false hl h (fun hr => absurd hr (by simp)) (fun hb => absurd hb (by simp))
      · split at hs
        · injection hs with hs; subst hs
          have e : s = { s with inTag := true } := by cases s; simp_all
          rw [e] at hsh ⊢
          have ha := shape_last s _ _ true true hl hsh rfl
          exact tagInv_push s _ _ true true hl h (fun _ => ⟨hin, ha⟩) (fun _ => Or.inr ⟨hin, Or.inl ⟨rfl, ha⟩⟩)
        · split at hs
          · split at hs
            · split at hs
              · injection hs with hs; subst hs
                exact ⟨h.ok, fun hb => absurd hb (by simp)⟩
              · injection hs with hs; subst hs
                have e : s = { s with inTag := true } := by cases s; simp_all
                rw [e] at hsh ⊢
                have ha := shape_last s _ _ true true hl hsh rfl
                exact tagInv_push s _ _ true true hl h (fun _ => ⟨hin, ha⟩) (fun _ => Or.inr ⟨hin, Or.inl ⟨rfl, ha⟩⟩)
            · split at hs
              · injection hs with hs; subst hs
                exact ⟨h.ok, fun hb => absurd hb (by simp)⟩
              · injection hs with hs; subst hs
                have e : s = { s with inTag := true } := by cases s; simp_all
                rw [e] at hsh ⊢
                have ha := shape_last s _ _ true true hl hsh rfl
                exact tagInv_push s _ _ true true hl h (fun _ => ⟨hin, ha⟩) (fun _ => Or.inr ⟨hin, Or.inl ⟨rfl, ha⟩⟩)
          · injection hs with hs; subst hs
            exact ⟨h.ok, fun hb => absurd hb (by simp)⟩
  · rename_i hin
    have hin' : s.inTag = false := by simpa using hin
    split at hs
    · exact absurd hs (by simp)
    · rename_i e he
      injection hs with hs; subst hs
      obtain ⟨-, -, ho⟩ := tagSearch_shape s.data 0 e he
      simp only [Nat.sub_zero] at ho
      exact tagInv_push s _ _ false true hl h (fun hr => absurd hr (by simp)) (fun _ => Or.inl ⟨hin', rfl, ho⟩)

theorem loop_tag (orig : Bytes) (fuel : Nat) (s : St) (hi : Inv orig s) (hsh : Shape s) (h : TagInv s) :
    TagInv (loop fuel s) := by
  induction fuel generalizing s with
  | zero => exact h
  | succ f ih =>
    unfold loop
    split
    · exact h
    · rename_i hne
      have hd : s.data ≠ [] := by
        intro he; rw [he] at hne; simp at hne
      cases hs : step s with
      | none => exact h
      | some s' =>
        have hsh' := step_shape s s' hi.len hsh hs
        exact ih s' (step_inv orig s s' hi hd hs) hsh' (step_tag s s' hi.len h hsh' hs)

/-- every reducible atom of the attribute splitter lies inside a tag: the parts before it end with a
part that ends in a tag opener `<`, optional whitespace, a tag name — followed only by other complete
attributes and by text that contains no `>` -/
theorem splitAttrs_in_tag (d : Bytes) (sp : Load.Split) (hsp : splitAttrs d = .ok sp) :
    AttrsInTag (sp.parts.zip sp.reducible) := by
  unfold splitAttrs at hsp
  simp only at hsp
  have hinv := loop_inv d (2 * d.length + 2) { data := d, inTag := false, parts := [], red := [] }
    ⟨by simp, by simp, by simp⟩
  have htag := loop_tag d (2 * d.length + 2) { data := d, inTag := false, parts := [], red := [] }
    ⟨by simp, by simp, by simp⟩ (by intro x hx; simp at hx)
    ⟨by intro l1 a l2 he; simp at he, by intro hb; simp at hb⟩
  split at hsp
  · injection hsp with hsp; subst hsp
    exact htag.ok
  · injection hsp with hsp; subst hsp
    simp only
    rw [List.zip_append hinv.len]
    exact attrsInTag_snoc _ _ false htag.ok (fun hr => absurd hr (by simp))

end Attrs
