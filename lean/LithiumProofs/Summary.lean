/-
Facts about the chunk summary string of the pair strategies ("S" = surviving = `true`):
`index`, `count` and marking a chunk as removed.
-/
import LithiumModel.Pairs

namespace Strat

def alive (s : List Bool) (j : Nat) : Bool := s.getD j false

theorem alive_cons_succ (x : Bool) (xs : List Bool) (j : Nat) : alive (x :: xs) (j + 1) = alive xs j := by
  simp [alive]

theorem alive_cons_zero (x : Bool) (xs : List Bool) : alive (x :: xs) 0 = x := by
  simp [alive]

theorem alive_lt_length (s : List Bool) (j : Nat) (h : alive s j = true) : j < s.length := by
  unfold alive at h
  rcases Nat.lt_or_ge j s.length with hlt | hge
  · exact hlt
  · rw [List.getD_eq_getElem?_getD, List.getElem?_eq_none hge] at h
    simp at h

/-! ### index -/

theorem indexFrom_spec (s : List Bool) (i frm a : Nat) (h : indexFrom s i frm = some a) :
    frm ≤ a ∧ i ≤ a ∧ a < i + s.length ∧ alive s (a - i) = true ∧
    ∀ j, i ≤ j → frm ≤ j → j < a → alive s (j - i) = false := by
  induction s generalizing i with
  | nil => simp [indexFrom] at h
  | cons x xs ih =>
    unfold indexFrom at h
    by_cases hc : (decide (frm ≤ i) && x) = true
    · rw [if_pos hc] at h
      simp only [Option.some.injEq] at h
      subst h
      simp only [Bool.and_eq_true, decide_eq_true_eq] at hc
      refine ⟨hc.1, Nat.le_refl _, by simp, by simp [alive, hc.2], ?_⟩
      intro j h1 _ h3; omega
    · rw [if_neg hc] at h
      obtain ⟨h1, h2, h3, h4, h5⟩ := ih (i + 1) h
      refine ⟨h1, by omega, by simp only [List.length_cons]; omega, ?_, ?_⟩
      · have : a - i = (a - (i + 1)) + 1 := by omega
        rw [this, alive_cons_succ]; exact h4
      · intro j hj1 hj2 hj3
        rcases Nat.eq_or_lt_of_le hj1 with he | hlt
        · subst he
          simp only [Nat.sub_self, alive_cons_zero]
          cases x with
          | false => rfl
          | true => exfalso; apply hc; simp [hj2]
        · have : j - i = (j - (i + 1)) + 1 := by omega
          rw [this, alive_cons_succ]
          exact h5 j (by omega) hj2 hj3

theorem indexS_spec (s : List Bool) (frm a : Nat) (h : indexS s frm = some a) :
    frm ≤ a ∧ a < s.length ∧ alive s a = true ∧ ∀ j, frm ≤ j → j < a → alive s j = false := by
  obtain ⟨h1, -, h3, h4, h5⟩ := indexFrom_spec s 0 frm a h
  exact ⟨h1, by omega, by simpa using h4, fun j hj1 hj2 => by simpa using h5 j (Nat.zero_le _) hj1 hj2⟩

/-! ### marking a chunk as removed -/

theorem setDead_length (s : List Bool) (i : Nat) : (setDead s i).length = s.length := by
  simp [setDead]

theorem alive_setDead (s : List Bool) (i j : Nat) :
    alive (setDead s i) j = (if i = j then false else alive s j) := by
  unfold alive setDead
  rw [List.getD_eq_getElem?_getD, List.getD_eq_getElem?_getD, List.getElem?_set]
  by_cases h : i = j
  · subst h
    simp only [if_true]
    split <;> rfl
  · simp [h]

theorem alive_setDead_false (s : List Bool) (i j : Nat) (h : alive s j = false) : alive (setDead s i) j = false := by
  rw [alive_setDead]; split <;> simp [h]

/-! ### count -/

theorem countFrom_eq_zero (s : List Bool) (i a b : Nat)
    (h : ∀ j, i ≤ j → a ≤ j → j < b → alive s (j - i) = false) : countFrom s i a b = 0 := by
  induction s generalizing i with
  | nil => rfl
  | cons x xs ih =>
    unfold countFrom
    have h0 : (if (decide (a ≤ i) && decide (i < b) && x) = true then 1 else 0) = 0 := by
      by_cases hc : (decide (a ≤ i) && decide (i < b) && x) = true
      · simp only [Bool.and_eq_true, decide_eq_true_eq] at hc
        have := h i (Nat.le_refl _) hc.1.1 hc.1.2
        simp only [Nat.sub_self, alive_cons_zero] at this
        rw [this] at hc; simp at hc
      · rw [if_neg hc]
    rw [h0, Nat.zero_add]
    apply ih
    intro j h1 h2 h3
    have := h j (by omega) h2 h3
    have e : j - i = (j - (i + 1)) + 1 := by omega
    rw [e, alive_cons_succ] at this
    exact this

theorem countFrom_split (s : List Bool) (i a b c : Nat) (hab : a ≤ b) (hbc : b ≤ c) :
    countFrom s i a c = countFrom s i a b + countFrom s i b c := by
  induction s generalizing i with
  | nil => rfl
  | cons x xs ih =>
    unfold countFrom
    rw [ih (i + 1)]
    have : (if (decide (a ≤ i) && decide (i < c) && x) = true then 1 else 0)
        = (if (decide (a ≤ i) && decide (i < b) && x) = true then 1 else 0)
          + (if (decide (b ≤ i) && decide (i < c) && x) = true then 1 else 0) := by
      cases x with
      | false => simp
      | true =>
        simp only [Bool.and_true, Bool.and_eq_true, decide_eq_true_eq]
        by_cases h1 : a ≤ i <;> by_cases h2 : i < b <;> by_cases h3 : i < c <;> by_cases h4 : b ≤ i <;>
          simp [h1, h2, h3, h4] <;> omega
    omega

theorem countFrom_single (s : List Bool) (i a : Nat) (hi : i ≤ a) :
    countFrom s i a (a + 1) = if alive s (a - i) then 1 else 0 := by
  induction s generalizing i with
  | nil => simp [countFrom, alive]
  | cons x xs ih =>
    unfold countFrom
    rcases Nat.eq_or_lt_of_le hi with he | hlt
    · subst he
      have hz : countFrom xs (i + 1) i (i + 1) = 0 := by
        apply countFrom_eq_zero
        intro j h1 h2 h3; omega
      rw [hz]
      simp only [Nat.sub_self, alive_cons_zero, Nat.add_zero]
      cases x <;> simp
    · have h0 : (if (decide (a ≤ i) && decide (i < a + 1) && x) = true then 1 else 0) = 0 := by
        have : ¬ a ≤ i := by omega
        simp [this]
      rw [h0, Nat.zero_add, ih (i + 1) (by omega)]
      have e : a - i = (a - (i + 1)) + 1 := by omega
      rw [e, alive_cons_succ]

theorem countFrom_congr (s t : List Bool) (i a b : Nat) (hl : s.length = t.length)
    (h : ∀ j, i ≤ j → a ≤ j → j < b → alive s (j - i) = alive t (j - i)) :
    countFrom s i a b = countFrom t i a b := by
  induction s generalizing i t with
  | nil =>
    cases t with
    | nil => rfl
    | cons _ _ => simp at hl
  | cons x xs ih =>
    cases t with
    | nil => simp at hl
    | cons y ys =>
      unfold countFrom
      have hrest := ih ys (i + 1) (by simpa using hl) (by
        intro j h1 h2 h3
        have := h j (by omega) h2 h3
        have e : j - i = (j - (i + 1)) + 1 := by omega
        rw [e, alive_cons_succ, alive_cons_succ] at this
        exact this)
      rw [hrest]
      by_cases hc : a ≤ i ∧ i < b
      · have := h i (Nat.le_refl _) hc.1 hc.2
        simp only [Nat.sub_self, alive_cons_zero] at this
        rw [this]
      · have : (decide (a ≤ i) && decide (i < b)) = false := by
          simp only [Bool.and_eq_false_iff, decide_eq_false_iff_not]
          by_cases h1 : a ≤ i
          · right; intro h2; exact hc ⟨h1, h2⟩
          · left; exact h1
        simp [this]

theorem countS_split (s : List Bool) (a b c : Nat) (hab : a ≤ b) (hbc : b ≤ c) :
    countS s a c = countS s a b + countS s b c := countFrom_split s 0 a b c hab hbc

theorem countS_dead (s : List Bool) (a b : Nat) (h : ∀ j, a ≤ j → j < b → alive s j = false) :
    countS s a b = 0 :=
  countFrom_eq_zero s 0 a b (fun j _ h2 h3 => by simpa using h j h2 h3)

theorem countS_single (s : List Bool) (a : Nat) : countS s a (a + 1) = if alive s a then 1 else 0 := by
  have := countFrom_single s 0 a (Nat.zero_le _)
  simpa [countS] using this

theorem countS_setDead_outside (s : List Bool) (i a b : Nat) (h : i < a ∨ b ≤ i) :
    countS (setDead s i) a b = countS s a b := by
  apply countFrom_congr _ _ 0 a b (setDead_length s i)
  intro j _ h2 h3
  simp only [Nat.sub_zero]
  rw [alive_setDead]
  have : i ≠ j := by omega
  simp [this]

theorem countS_self (s : List Bool) (a : Nat) : countS s a a = 0 :=
  countS_dead s a a (fun j h1 h2 => by omega)

end Strat
