/-
minimize-collapse-brace and the protected prefix/suffix (C05): deletions never touch them; the only
step that can is the re-load of a collapsed text.  If that re-load finds the same boundaries again,
every proposal and the final file keep `before` and `after`.  (The recorded finding
`collapse-reload-boundary` is an input on which the symbol loader does NOT find them again.)
-/
import LithiumProofs.Frame
import LithiumModel.Minimize

namespace Strat
open Testcase

def FrameOf (orig : Testcase) (t : Testcase) : Prop := t.before = orig.before ∧ t.after = orig.after

theorem attempt_frame (o : Oracle) (orig : Testcase) (st : MinSt) (it : It)
    (h : AllT (FrameOf orig) it) : AllT (FrameOf orig) (attempt o st it).2 := by
  unfold attempt
  simp only
  have hc : FrameOf orig (it.best.rmslice (max 0 (st.chunkEnd - st.chunkSize)) st.chunkEnd) := by
    obtain ⟨a, b⟩ := rmslice_frame it.best (max 0 (st.chunkEnd - st.chunkSize)) st.chunkEnd
    exact ⟨by rw [a]; exact h.best.1, by rw [b]; exact h.best.2⟩
  have := try_allT (FrameOf orig) it o (it.best.rmslice (max 0 (st.chunkEnd - st.chunkSize)) st.chunkEnd)
    (fun r => { tag := 0, lo := (max 0 (st.chunkEnd - (st.chunkSize : Int))).toNat, hi := st.chunkEnd.toNat,
                size := st.chunkSize, bestLen := it.best.len, base := it.best, tIdx := it.nTests,
                cand := it.best.rmslice (max 0 (st.chunkEnd - st.chunkSize)) st.chunkEnd, resp := r })
    h hc (fun _ => ⟨rfl, rfl⟩)
  generalize It.try it o (it.best.rmslice (max 0 (st.chunkEnd - st.chunkSize)) st.chunkEnd)
    (fun r => { tag := 0, lo := (max 0 (st.chunkEnd - (st.chunkSize : Int))).toNat, hi := st.chunkEnd.toNat,
                size := st.chunkSize, bestLen := it.best.len, base := it.best, tIdx := it.nTests,
                cand := it.best.rmslice (max 0 (st.chunkEnd - st.chunkSize)) st.chunkEnd, resp := r }) = T at this ⊢
  obtain ⟨r, it2⟩ := T
  cases r <;> exact this

theorem collapsePost_frame (reload : Bytes → Option Testcase) (o : Oracle) (orig : Testcase) (it : It)
    (hre : ∀ x t', reload (orig.before ++ x ++ orig.after) = some t' → FrameOf orig t')
    (h : AllT (FrameOf orig) it) : AllT (FrameOf orig) (collapsePost reload o it) := by
  unfold collapsePost
  simp only
  split
  · exact h
  · split
    · exact h
    · rename_i newTc hr
      rw [h.best.1, h.best.2] at hr
      exact try_allT (FrameOf orig) it o newTc _ h (hre _ _ hr) (fun _ => ⟨rfl, rfl⟩)

theorem minLoop_frame_post (cfg : Cfg) (o : Oracle) (clk : Clock) (stopAt : Option Nat) (post : It → It)
    (orig : Testcase) (hpost : ∀ it, AllT (FrameOf orig) it → AllT (FrameOf orig) (post it)) :
    ∀ (fuel : Nat) (st : MinSt) (it : It), AllT (FrameOf orig) it →
      AllT (FrameOf orig) (minLoop cfg o clk stopAt post fuel st it) := by
  intro fuel
  induction fuel with
  | zero => intro st it h; exact ⟨h.best, h.atts⟩
  | succ f ih =>
    intro st it h
    unfold minLoop minStep
    have hrp : (∀ it', roundPhase cfg clk stopAt post st it = .inl it' → AllT (FrameOf orig) it') ∧
        (∀ st' it', roundPhase cfg clk stopAt post st it = .inr (st', it') → AllT (FrameOf orig) it') := by
      unfold roundPhase
      split
      · exact ⟨by intro it' e; injection e with e; subst e; exact ⟨h.best, h.atts⟩, by intro _ _ e; simp at e⟩
      · simp only
        split
        · split
          · exact ⟨by intro it' e; injection e with e; subst e; exact h, by intro _ _ e; simp at e⟩
          · split
            · exact ⟨by intro it' e; injection e with e; subst e; exact hpost it h, by intro _ _ e; simp at e⟩
            · refine ⟨by intro _ e; simp at e, ?_⟩
              intro st' it' e
              injection e with e; injection e with e1 e2
              subst e2; exact hpost it h
        · refine ⟨by intro _ e; simp at e, ?_⟩
          intro st' it' e
          injection e with e; injection e with e1 e2
          subst e2; exact h
    cases hx : roundPhase cfg clk stopAt post st it with
    | inl it' => exact hrp.1 it' hx
    | inr p =>
      obtain ⟨st1, it1⟩ := p
      simp only
      exact ih _ _ (attempt_frame o orig st1 it1 (hrp.2 st1 it1 hx))

/-- minimize-collapse-brace: if re-loading any file `before ++ x ++ after` finds the same `before` and
`after` again, every proposal — deletions and collapsed texts — and the final best keep them -/
theorem collapse_frame (reload : Bytes → Option Testcase) (cfg : Cfg) (o : Oracle) (clk : Clock) (t : Testcase)
    (hre : ∀ x t', reload (t.before ++ x ++ t.after) = some t' → t'.before = t.before ∧ t'.after = t.after) :
    Frame t (collapse reload cfg o clk t) := by
  unfold collapse
  exact frame_of_allT t _ (minLoop_frame_post cfg o clk (stopAt cfg clk) (collapsePost reload o) t
    (fun it h => collapsePost_frame reload o t it hre h) (collapseFuel t) (minInit cfg t) { best := t }
    ⟨⟨rfl, rfl⟩, by intro a ha; simp at ha⟩)

end Strat
