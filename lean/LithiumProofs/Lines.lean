/-
Lemmas about the byte-level `splitlines` model (used by C06, C08, C15).
-/
import LithiumModel.Lines

namespace Lines

theorem splitAux_flatten (cur l : Bytes) : (splitAux cur l).flatten = cur ++ l := by
  induction l generalizing cur with
  | nil =>
    unfold splitAux
    cases cur <;> simp
  | cons b rest ih =>
    unfold splitAux
    split
    · simp [ih]
    · simp [ih]

theorem splitLines_flatten (d : Bytes) : (splitLines d).flatten = d := by
  simp [splitLines, splitAux_flatten]

theorem splitAux_nonempty (cur l : Bytes) : ∀ x ∈ splitAux cur l, x ≠ [] := by
  induction l generalizing cur with
  | nil =>
    unfold splitAux
    cases cur <;> simp
  | cons b rest ih =>
    unfold splitAux
    split
    · intro x hx
      simp only [List.mem_cons] at hx
      rcases hx with rfl | hx
      · simp
      · exact ih [] x hx
    · exact ih _

theorem splitLines_nonempty (d : Bytes) : ∀ x ∈ splitLines d, x ≠ [] :=
  splitAux_nonempty [] d

/-- the first byte of the first line is the first byte of the input -/
theorem splitAux_nil_head (l : Bytes) (y : Bytes) (t : List Bytes)
    (h : splitAux [] l = y :: t) : y.head? = l.head? := by
  have hf := splitAux_flatten [] l
  have hne := splitAux_nonempty [] l y (by rw [h]; simp)
  rw [h] at hf
  simp only [List.flatten_cons, List.nil_append] at hf
  cases y with
  | nil => exact absurd rfl hne
  | cons a y' => rw [← hf]; rfl

/-! ### line feed only at the end of a line -/

def LFOnlyLast (x : Bytes) : Prop :=
  ∀ i (h : i < x.length), x[i] = 0x0A → i + 1 = x.length

theorem endsLine_lf (cur rest : Bytes) : endsLine cur 0x0A rest = true := by
  simp [endsLine]

theorem lfOnlyLast_snoc (cur : Bytes) (b : UInt8) (h : (0x0A : UInt8) ∉ cur) :
    LFOnlyLast (cur ++ [b]) := by
  intro i hi hx
  simp only [List.length_append, List.length_cons, List.length_nil] at hi ⊢
  by_cases hlt : i < cur.length
  · rw [List.getElem_append_left hlt] at hx
    exact absurd (hx ▸ List.getElem_mem hlt) h
  · omega

theorem splitAux_lf (cur l : Bytes) (h : (0x0A : UInt8) ∉ cur) :
    ∀ x ∈ splitAux cur l, LFOnlyLast x := by
  induction l generalizing cur with
  | nil =>
    unfold splitAux
    split
    · simp
    · intro x hx
      simp only [List.mem_singleton] at hx
      subst hx
      intro i hi hx
      exact absurd (hx ▸ List.getElem_mem hi) h
  | cons b rest ih =>
    unfold splitAux
    split
    · intro x hx
      simp only [List.mem_cons] at hx
      rcases hx with rfl | hx
      · exact lfOnlyLast_snoc cur b h
      · exact ih [] (by simp) x hx
    · rename_i hnot
      apply ih
      intro hmem
      simp only [List.mem_append, List.mem_singleton] at hmem
      rcases hmem with hm | hm
      · exact h hm
      · subst hm
        exact hnot (endsLine_lf cur rest)

/-! ### a CR LF pair is never split -/

def NoCRLFSplit : List Bytes → Prop
  | x :: y :: t => ¬ (x.getLast? = some 0x0D ∧ y.head? = some 0x0A) ∧ NoCRLFSplit (y :: t)
  | _ => True

theorem endsLine_cr (cur rest : Bytes) (h : endsLine cur 0x0D rest = true) :
    rest.head? ≠ some 0x0A := by
  cases rest with
  | nil => simp
  | cons c cs =>
    simp only [List.head?_cons, ne_eq, Option.some.injEq]
    intro hc
    subst hc
    simp [endsLine] at h

theorem splitAux_noSplit (cur l : Bytes) : NoCRLFSplit (splitAux cur l) := by
  induction l generalizing cur with
  | nil =>
    unfold splitAux
    split <;> simp [NoCRLFSplit]
  | cons b rest ih =>
    unfold splitAux
    split
    · rename_i hends
      cases hsp : splitAux [] rest with
      | nil => simp [NoCRLFSplit]
      | cons y t =>
        have ih' := ih []
        rw [hsp] at ih'
        refine ⟨?_, ih'⟩
        rintro ⟨hl, hh⟩
        have hb : b = 0x0D := by simpa using hl
        subst hb
        have := endsLine_cr cur rest hends
        rw [splitAux_nil_head rest y t hsp] at hh
        exact this hh
    · exact ih _

/-! ### every line but the last ends with a terminator -/

def terminators : List Bytes :=
  [[0x0A], [0x0D], [0x0B], [0x0C], [0x1C], [0x1D], [0x1E], [0xC2, 0x85],
   [0xE2, 0x80, 0xA8], [0xE2, 0x80, 0xA9]]

def EndsWithTerm (x : Bytes) : Prop := ∃ body t, x = body ++ t ∧ t ∈ terminators

def AllButLast (P : Bytes → Prop) : List Bytes → Prop
  | x :: y :: t => P x ∧ AllButLast P (y :: t)
  | _ => True

theorem getLast?_eq_some_split (l : Bytes) (a : UInt8) (h : l.getLast? = some a) :
    l = l.dropLast ++ [a] := by
  obtain ⟨ys, hys⟩ := List.getLast?_eq_some_iff.mp h
  subst hys
  simp

theorem endsLine_term (cur : Bytes) (b : UInt8) (rest : Bytes) (h : endsLine cur b rest = true) :
    EndsWithTerm (cur ++ [b]) := by
  unfold endsLine at h
  by_cases h1 : (b == 0x0A || b == 0x0B || b == 0x0C || b == 0x1C || b == 0x1D || b == 0x1E) = true
  · refine ⟨cur, [b], rfl, ?_⟩
    simp only [Bool.or_eq_true, beq_iff_eq] at h1
    simp only [terminators, List.mem_cons, List.cons.injEq, and_true, List.mem_nil_iff]
    rcases h1 with ((((h1 | h1) | h1) | h1) | h1) | h1 <;> subst h1 <;> decide
  · rw [if_neg h1] at h
    by_cases h2 : (b == 0x0D) = true
    · have : b = 0x0D := by simpa using h2
      subst this
      exact ⟨cur, [0x0D], rfl, by decide⟩
    · rw [if_neg h2] at h
      by_cases h3 : (b == 0x85) = true
      · have : b = 0x85 := by simpa using h3
        subst this
        rw [if_pos h3] at h
        have hc := getLast?_eq_some_split cur 0xC2 (by simpa using h)
        refine ⟨cur.dropLast, [0xC2, 0x85], ?_, by decide⟩
        conv => lhs; rw [hc]
        simp
      · rw [if_neg h3] at h
        by_cases h4 : (b == 0xA8 || b == 0xA9) = true
        · rw [if_pos h4] at h
          simp only [Bool.and_eq_true, beq_iff_eq] at h
          have hc := getLast?_eq_some_split cur 0x80 h.1
          have hc2 := getLast?_eq_some_split cur.dropLast 0xE2 h.2
          simp only [Bool.or_eq_true, beq_iff_eq] at h4
          rcases h4 with h4 | h4 <;> subst h4
          · refine ⟨cur.dropLast.dropLast, [0xE2, 0x80, 0xA8], ?_, by decide⟩
            conv => lhs; rw [hc, hc2]
            simp
          · refine ⟨cur.dropLast.dropLast, [0xE2, 0x80, 0xA9], ?_, by decide⟩
            conv => lhs; rw [hc, hc2]
            simp
        · rw [if_neg h4] at h
          exact absurd h (by simp)

theorem splitAux_allButLast (cur l : Bytes) : AllButLast EndsWithTerm (splitAux cur l) := by
  induction l generalizing cur with
  | nil =>
    unfold splitAux
    split <;> simp [AllButLast]
  | cons b rest ih =>
    unfold splitAux
    split
    · rename_i hends
      cases hsp : splitAux [] rest with
      | nil => simp [AllButLast]
      | cons y t =>
        have ih' := ih []
        rw [hsp] at ih'
        exact ⟨endsLine_term cur b rest hends, ih'⟩
    · exact ih _

end Lines
