/-
Helper lemmas for C07: the index translation of `_slice_xlat` and the effect of `rmslice`.
-/
import LithiumModel.Testcase

namespace Testcase

/-- drop exactly the reducible entries whose rank (number of reducible entries before them,
starting at `r`) lies in `[a, b)` — the specification of a range deletion. -/
def eraseRanks (a b : Nat) : Nat → List (Bytes × Bool) → List (Bytes × Bool)
  | _, [] => []
  | r, (p, false) :: t => (p, false) :: eraseRanks a b r t
  | r, (p, true) :: t =>
    if a ≤ r ∧ r < b then eraseRanks a b (r + 1) t else (p, true) :: eraseRanks a b (r + 1) t

theorem count_true_add_false (l : List Bool) : l.count true + l.count false = l.length := by
  induction l with
  | nil => rfl
  | cons x t ih => cases x <;> simp [List.count_cons] <;> omega

theorem len_eq_count (t : Testcase) (h : t.WF) : t.len = t.reducible.count true := by
  unfold len; unfold WF at h
  have := count_true_add_false t.reducible
  omega

theorem positions_length (r : List Bool) : (positions r).length = r.count true := by
  induction r with
  | nil => rfl
  | cons x t ih => cases x <;> simp [positions, ih]

/-- the `k`-th entry of `positions` is in range, points at a `true`, and has exactly `k`
`true`s before it -/
theorem positions_get (r : List Bool) (k : Nat) (hk : k < (positions r).length) :
    (positions r)[k] < r.length ∧ (r.take (positions r)[k]).count true = k := by
  induction r generalizing k with
  | nil => simp [positions] at hk
  | cons x t ih =>
    cases x with
    | false =>
      simp only [positions, List.length_map] at hk
      have := ih k hk
      simp only [positions, List.getElem_map, List.length_cons, List.take_succ_cons]
      simp [List.count_cons]
      omega
    | true =>
      cases k with
      | zero => simp [positions]
      | succ k' =>
        simp only [positions, List.length_cons, List.length_map] at hk
        have := ih k' (by omega)
        simp only [positions, List.getElem_cons_succ, List.getElem_map, List.length_cons,
          List.take_succ_cons]
        simp [List.count_cons]
        omega

theorem count_take_le (r : List Bool) (i : Nat) : (r.take i).count true ≤ r.count true := by
  have : (r.take i).Sublist r := List.take_sublist i r
  exact this.count_le true

theorem count_take_mono (r : List Bool) {i j : Nat} (h : i ≤ j) :
    (r.take i).count true ≤ (r.take j).count true := by
  have : r.take i = (r.take j).take i := by rw [List.take_take]; congr; omega
  rw [this]
  exact count_take_le _ _

/-- the translated index for a clamped bound `k ≤ len`: it exists, is within the list and
has exactly `k` reducible entries before it -/
theorem opts_get (t : Testcase) (h : t.WF) (k : Nat) (hk : k ≤ t.len) :
    ∃ o, (opts t)[k]? = some o ∧ o ≤ t.reducible.length ∧ (t.reducible.take o).count true = k := by
  have hn := len_eq_count t h
  have hpl := positions_length t.reducible
  unfold WF at h
  by_cases h0 : k = 0
  · subst h0
    exact ⟨0, by simp [opts], by omega, by simp⟩
  · by_cases hlt : k < t.len
    · -- strictly inside: the k-th entry of `positions`
      have hk' : k < (positions t.reducible).length := by omega
      have hg := positions_get t.reducible k hk'
      refine ⟨(positions t.reducible)[k], ?_, by omega, hg.2⟩
      have htl : (positions t.reducible).tail.length = (positions t.reducible).length - 1 := by simp
      have h1 : k - 1 < (positions t.reducible).tail.length := by omega
      unfold opts
      rw [List.append_assoc, List.getElem?_append_right (by simp; omega)]
      simp only [List.length_cons, List.length_nil, Nat.zero_add]
      rw [List.getElem?_append_left h1, List.getElem?_eq_getElem h1]
      simp only [List.getElem_tail]
      congr 2
      omega
    · -- k = len: the final sentinel `len(parts)`
      have hke : k = t.len := by omega
      refine ⟨t.parts.length, ?_, by omega, ?_⟩
      · unfold opts
        have htl : (positions t.reducible).tail.length = (positions t.reducible).length - 1 := by simp
        rw [List.getElem?_append_right (by simp; omega)]
        simp only [List.length_append, List.length_cons, List.length_nil, Nat.zero_add]
        have : k - (1 + (positions t.reducible).tail.length) = 0 := by omega
        rw [this]; rfl
      · rw [h, List.take_length]; omega

theorem eraseRanks_append (a b r : Nat) (x y : List (Bytes × Bool)) :
    eraseRanks a b r (x ++ y) =
      eraseRanks a b r x ++ eraseRanks a b (r + (x.map (·.2)).count true) y := by
  induction x generalizing r with
  | nil => simp [eraseRanks]
  | cons e t ih =>
    obtain ⟨p, f⟩ := e
    cases f with
    | false => simp [eraseRanks, ih]
    | true =>
      simp only [List.cons_append, eraseRanks, ih, List.map_cons, List.count_cons_self]
      have : r + 1 + (t.map (·.2)).count true = r + ((t.map (·.2)).count true + 1) := by omega
      rw [this]
      split <;> simp

/-- all ranks below `a`: nothing is removed -/
theorem eraseRanks_below (a b r : Nat) (l : List (Bytes × Bool))
    (h : r + (l.map (·.2)).count true ≤ a) : eraseRanks a b r l = l := by
  induction l generalizing r with
  | nil => rfl
  | cons e t ih =>
    obtain ⟨p, f⟩ := e
    cases f with
    | false =>
      simp only [List.map_cons, List.count_cons] at h
      simp [eraseRanks, ih r (by simpa using h)]
    | true =>
      simp only [List.map_cons, List.count_cons_self] at h
      have : ¬ (a ≤ r ∧ r < b) := by omega
      simp [eraseRanks, this, ih (r + 1) (by omega)]

/-- all ranks at or above `b`: nothing is removed -/
theorem eraseRanks_above (a b r : Nat) (l : List (Bytes × Bool)) (h : b ≤ r) :
    eraseRanks a b r l = l := by
  induction l generalizing r with
  | nil => rfl
  | cons e t ih =>
    obtain ⟨p, f⟩ := e
    cases f with
    | false => simp [eraseRanks, ih r h]
    | true =>
      have : ¬ (a ≤ r ∧ r < b) := by omega
      simp [eraseRanks, this, ih (r + 1) (by omega)]

/-- all ranks inside `[a, b)`: exactly the non-reducible entries stay -/
theorem eraseRanks_inside (a b r : Nat) (l : List (Bytes × Bool)) (ha : a ≤ r)
    (h : r + (l.map (·.2)).count true ≤ b) : eraseRanks a b r l = l.filter (fun x => !x.2) := by
  induction l generalizing r with
  | nil => rfl
  | cons e t ih =>
    obtain ⟨p, f⟩ := e
    cases f with
    | false =>
      simp only [List.map_cons, List.count_cons] at h
      simp [eraseRanks, ih r ha (by simpa using h)]
    | true =>
      simp only [List.map_cons, List.count_cons_self] at h
      have : a ≤ r ∧ r < b := by omega
      simp [eraseRanks, this, ih (r + 1) (by omega) (by omega)]

theorem map_snd_zip (p : List Bytes) (r : List Bool) (h : p.length = r.length) :
    (p.zip r).map (·.2) = r := by
  induction p generalizing r with
  | nil => cases r <;> simp_all
  | cons x t ih =>
    cases r with
    | nil => simp at h
    | cons y u => simp at h; simp [ih u h]

theorem filter_not_zip_falses (l : List (Bytes × Bool)) :
    ((l.filter (fun x => !x.2)).map (·.1)).zip
      (List.replicate ((l.filter (fun x => !x.2)).map (·.1)).length false)
      = l.filter (fun x => !x.2) := by
  induction l with
  | nil => rfl
  | cons e t ih =>
    obtain ⟨p, f⟩ := e
    cases f with
    | false => simpa [List.replicate_succ] using ih
    | true => simpa using ih

theorem clamp_le (n : Nat) (x : Option Int) (d : Nat) (hd : d ≤ n) : clamp n x d ≤ n := by
  cases x with
  | none => exact hd
  | some x =>
    simp only [clamp]
    by_cases h1 : x < 0
    · simp only [h1, if_true]; omega
    · simp only [h1, if_false]
      by_cases h2 : x > (n : Int)
      · simp only [h2, if_true]; omega
      · simp only [h2, if_false]; omega

theorem take_zip' {α β} (p : List α) (r : List β) (i : Nat) :
    (p.zip r).take i = (p.take i).zip (r.take i) := by
  simp only [List.zip_eq_zipWith, List.take_zipWith]

theorem drop_zip' {α β} (p : List α) (r : List β) (i : Nat) :
    (p.zip r).drop i = (p.drop i).zip (r.drop i) := by
  simp only [List.zip_eq_zipWith, List.drop_zipWith]

theorem rmslice_spec (t : Testcase) (h : t.WF) (a b : Option Int)
    (hab : clamp t.len a 0 ≤ clamp t.len b t.len) :
    ∃ t', t.rmslice? a b = some t' ∧ t'.before = t.before ∧ t'.after = t.after ∧ t'.WF ∧
      t'.parts.zip t'.reducible
        = eraseRanks (clamp t.len a 0) (clamp t.len b t.len) 0 (t.parts.zip t.reducible) ∧
      t'.len = t.len - (clamp t.len b t.len - clamp t.len a 0) := by
  have ha := clamp_le t.len a 0 (Nat.zero_le _)
  have hb := clamp_le t.len b t.len (Nat.le_refl _)
  obtain ⟨s, hs, hsl, hsc⟩ := opts_get t h _ ha
  obtain ⟨e, he, hel, hec⟩ := opts_get t h _ hb
  have hraw : t.rmslice? a b = some (t.rmsliceRaw s e) := by
    simp only [rmslice?, sliceXlat, hs, he]
  generalize clamp t.len a 0 = A at *
  generalize clamp t.len b t.len = B at *
  have hn := len_eq_count t h
  have hwf : t.parts.length = t.reducible.length := h
  -- s ≤ e, because the number of reducible entries before an index is monotone in the index
  have hse : s ≤ e := by
    rcases Nat.lt_or_ge A B with hlt | hge
    · rcases Nat.lt_or_ge e s with h1 | h2
      · have := count_take_mono t.reducible (Nat.le_of_lt h1); omega
      · exact h2
    · have hAB : A = B := by omega
      subst hAB
      have : some s = some e := by rw [← hs, ← he]
      injection this with this; omega
  refine ⟨_, hraw, rfl, rfl, ?_, ?_, ?_⟩
  · -- the two lists stay aligned
    simp only [WF, rmsliceRaw, List.length_append, List.length_take, List.length_drop,
      List.length_replicate]
    omega
  · -- exactly the ranks [A, B) disappear
    let z := t.parts.zip t.reducible
    have hzlen : z.length = t.reducible.length := by simp [z, List.length_zip, hwf]
    have hzsnd : z.map (·.2) = t.reducible := map_snd_zip _ _ hwf
    have hsplit : z = z.take s ++ ((z.drop s).take (e - s) ++ z.drop e) := by
      have h1 : (z.drop s).take (e - s) ++ z.drop e = z.drop s := by
        have : z.drop e = (z.drop s).drop (e - s) := by
          rw [List.drop_drop]; congr 1; omega
        rw [this, List.take_append_drop]
      rw [h1, List.take_append_drop]
    have hc1 : ((z.take s).map (·.2)).count true = A := by
      rw [List.map_take, hzsnd]; exact hsc
    have hc2 : (((z.drop s).take (e - s)).map (·.2)).count true = B - A := by
      have htot : ((z.take e).map (·.2)).count true = B := by
        rw [List.map_take, hzsnd]; exact hec
      have : z.take e = z.take s ++ (z.drop s).take (e - s) := by
        have h2 : z.take s = (z.take e).take s := by
          rw [List.take_take]; congr 1; omega
        have h3 : (z.drop s).take (e - s) = (z.take e).drop s := by
          rw [List.drop_take]
        rw [h2, h3, List.take_append_drop]
      rw [this, List.map_append, List.count_append, hc1] at htot
      omega
    have hres : (t.rmsliceRaw s e).parts.zip (t.rmsliceRaw s e).reducible
        = z.take s ++ (((z.drop s).take (e - s)).filter (fun x => !x.2) ++ z.drop e) := by
      simp only [rmsliceRaw]
      rw [List.append_assoc, List.append_assoc,
        List.zip_append (by simp [List.length_take, hwf]),
        List.zip_append (by simp)]
      have hmid : (t.parts.drop s |>.take (e - s)).zip (t.reducible.drop s |>.take (e - s))
          = (z.drop s).take (e - s) := by
        simp only [z, take_zip', drop_zip']
      rw [hmid, filter_not_zip_falses]
      simp only [z, take_zip', drop_zip']
    rw [hres]
    show _ = eraseRanks A B 0 z
    conv => rhs; rw [hsplit]
    rw [eraseRanks_append, eraseRanks_append, hc1, hc2]
    rw [eraseRanks_below _ _ _ _ (by omega), eraseRanks_inside _ _ _ _ (by omega) (by omega),
      eraseRanks_above _ _ _ _ (by omega)]
  · -- the length drops by the number removed
    have hwf' : (t.rmsliceRaw s e).WF := by
      simp only [WF, rmsliceRaw, List.length_append, List.length_take, List.length_drop,
        List.length_replicate]
      omega
    rw [len_eq_count _ hwf', hn]
    simp only [rmsliceRaw, List.count_append]
    have hfalse : (List.replicate
        (List.map (fun x => x.fst) (List.filter (fun x => !x.snd)
          ((List.take (e - s) (List.drop s t.parts)).zip
            (List.take (e - s) (List.drop s t.reducible))))).length false).count true = 0 := by
      simp [List.count_replicate]
    rw [hfalse, hsc]
    have hdrop : (t.reducible.drop e).count true = t.reducible.count true - B := by
      have := List.take_append_drop e t.reducible
      have h4 : t.reducible.count true = (t.reducible.take e).count true + (t.reducible.drop e).count true := by
        conv => lhs; rw [← this]
        rw [List.count_append]
      omega
    rw [hdrop]
    have : B ≤ t.reducible.count true := by omega
    omega


/-- the form the strategies use: integer bounds already inside `[0, len]` -/
theorem rmslice_int (t : Testcase) (h : t.WF) (s e : Int) (h0 : 0 ≤ s) (hse : s ≤ e)
    (hel : e ≤ (t.len : Int)) :
    (t.rmslice s e).WF ∧ (t.rmslice s e).before = t.before ∧ (t.rmslice s e).after = t.after ∧
    (t.rmslice s e).parts.zip (t.rmslice s e).reducible
      = eraseRanks s.toNat e.toNat 0 (t.parts.zip t.reducible) ∧
    (t.rmslice s e).len = t.len - (e.toNat - s.toNat) := by
  have hcs : clamp t.len (some s) 0 = s.toNat := by
    simp only [clamp]
    rw [if_neg (by omega), if_neg (by omega)]
  have hce : clamp t.len (some e) t.len = e.toNat := by
    simp only [clamp]
    rw [if_neg (by omega), if_neg (by omega)]
  obtain ⟨t', h1, h2, h3, h4, h5, h6⟩ := rmslice_spec t h (some s) (some e) (by rw [hcs, hce]; omega)
  have : t.rmslice s e = t' := by simp [rmslice, h1]
  rw [this, ← hcs, ← hce]
  exact ⟨h4, h2, h3, h5, h6⟩

end Testcase
