/-
Helper lemmas for C07: the index translation of `_slice_xlat` and the effect of `rmslice`.
-/
import LithiumModel.Testcase

namespace Testcase

/-- drop exactly the reducible entries whose rank (number of reducible entries before them,
starting at `r`) lies in `[a, b)` — the specification of a range deletion. -/
def eraseRanks (a b : Nat) : Nat → List (Bytes × Bool) → List (Bytes × Bool)
  | _, [] => []
  | r, (p, false) :: t => (p, false) :: eraseRanks a b r t
  | r, (p, true) :: t =>
    if a ≤ r ∧ r < b then eraseRanks a b (r + 1) t else (p, true) :: eraseRanks a b (r + 1) t

theorem count_true_add_false (l : List Bool) : l.count true + l.count false = l.length := by
  induction l with
  | nil => rfl
  | cons x t ih => cases x <;> simp [List.count_cons] <;> omega

theorem len_eq_count (t : Testcase) (h : t.WF) : t.len = t.reducible.count true := by
  unfold len; unfold WF at h
  have := count_true_add_false t.reducible
  omega

theorem positions_length (r : List Bool) : (positions r).length = r.count true := by
  induction r with
  | nil => rfl
  | cons x t ih => cases x <;> simp [positions, ih]

/-- the `k`-th entry of `positions` is in range, points at a `true`, and has exactly `k`
`true`s before it -/
theorem positions_get (r : List Bool) (k : Nat) (hk : k < (positions r).length) :
    (positions r)[k] < r.length ∧ (r.take (positions r)[k]).count true = k := by
  induction r generalizing k with
  | nil => simp [positions] at hk
  | cons x t ih =>
    cases x with
    | false =>
      simp only [positions, List.length_map] at hk
      have := ih k hk
      simp only [positions, List.getElem_map, List.length_cons, List.take_succ_cons]
      simp [List.count_cons]
      omega
    | true =>
      cases k with
      | zero => simp [positions]
      | succ k' =>
        simp only [positions, List.length_cons, List.length_map] at hk
        have := ih k' (by omega)
        simp only [positions, List.getElem_cons_succ, List.getElem_map, List.length_cons,
          List.take_succ_cons]
        simp [List.count_cons]
        omega

theorem count_take_le (r : List Bool) (i : Nat) : (r.take i).count true ≤ r.count true := by
  have : (r.take i).Sublist r := List.take_sublist i r
  exact this.count_le true

theorem count_take_mono (r : List Bool) {i j : Nat} (h : i ≤ j) :
    (r.take i).count true ≤ (r.take j).count true := by
  have : r.take i = (r.take j).take i := by rw [List.take_take]; congr; omega
  rw [this]
  exact count_take_le _ _

/-- the translated index for a clamped bound `k ≤ len`: it exists, is within the list and
has exactly `k` reducible entries before it -/
theorem opts_get (t : Testcase) (h : t.WF) (k : Nat) (hk : k ≤ t.len) :
    ∃ o, (opts t)[k]? = some o ∧ o ≤ t.reducible.length ∧ (t.reducible.take o).count true = k := by
  have hn := len_eq_count t h
  have hpl := positions_length t.reducible
  unfold WF at h
  by_cases h0 : k = 0
  · subst h0
    exact ⟨0, by simp [opts], by omega, by simp⟩
  · by_cases hlt : k < t.len
    · -- strictly inside: the k-th entry of `positions`
      have hk' : k < (positions t.reducible).length := by omega
      have hg := positions_get t.reducible k hk'
      refine ⟨(positions t.reducible)[k], ?_, by omega, hg.2⟩
      have htl : (positions t.reducible).tail.length = (positions t.reducible).length - 1 := by simp
      have h1 : k - 1 < (positions t.reducible).tail.length := by omega
      unfold opts
      rw [List.append_assoc, List.getElem?_append_right (by simp; omega)]
      simp only [List.length_cons, List.length_nil, Nat.zero_add]
      rw [List.getElem?_append_left h1, List.getElem?_eq_getElem h1]
      simp only [List.getElem_tail]
      congr 2
      omega
    · -- k = len: the final sentinel `len(parts)`
      have hke : k = t.len := by omega
      refine ⟨t.parts.length, ?_, by omega, ?_⟩
      · unfold opts
        have htl : (positions t.reducible).tail.length = (positions t.reducible).length - 1 := by simp
        rw [List.getElem?_append_right (by simp; omega)]
        simp only [List.length_append, List.length_cons, List.length_nil, Nat.zero_add]
        have : k - (1 + (positions t.reducible).tail.length) = 0 := by omega
        rw [this]; rfl
      · rw [h, List.take_length]; omega

theorem eraseRanks_append (a b r : Nat) (x y : List (Bytes × Bool)) :
    eraseRanks a b r (x ++ y) =
      eraseRanks a b r x ++ eraseRanks a b (r + (x.map (·.2)).count true) y := by
  induction x generalizing r with
  | nil => simp [eraseRanks]
  | cons e t ih =>
    obtain ⟨p, f⟩ := e
    cases f with
    | false => simp [eraseRanks, ih]
    | true =>
      simp only [List.cons_append, eraseRanks, ih, List.map_cons, List.count_cons_self]
      have : r + 1 + (t.map (·.2)).count true = r + ((t.map (·.2)).count true + 1) := by omega
      rw [this]
      split <;> simp

/-- all ranks below `a`: nothing is removed -/
theorem eraseRanks_below (a b r : Nat) (l : List (Bytes × Bool))
    (h : r + (l.map (·.2)).count true ≤ a) : eraseRanks a b r l = l := by
  induction l generalizing r with
  | nil => rfl
  | cons e t ih =>
    obtain ⟨p, f⟩ := e
    cases f with
    | false =>
      simp only [List.map_cons, List.count_cons] at h
      simp [eraseRanks, ih r (by simpa using h)]
    | true =>
      simp only [List.map_cons, List.count_cons_self] at h
      have : ¬ (a ≤ r ∧ r < b) := by omega
      simp [eraseRanks, this, ih (r + 1) (by omega)]

/-- all ranks at or above `b`: nothing is removed -/
theorem eraseRanks_above (a b r : Nat) (l : List (Bytes × Bool)) (h : b ≤ r) :
    eraseRanks a b r l = l := by
  induction l generalizing r with
  | nil => rfl
  | cons e t ih =>
    obtain ⟨p, f⟩ := e
    cases f with
    | false => simp [eraseRanks, ih r h]
    | true =>
      have : ¬ (a ≤ r ∧ r < b) := by omega
      simp [eraseRanks, this, ih (r + 1) (by omega)]

/-- all ranks inside `[a, b)`: exactly the non-reducible entries stay -/
theorem eraseRanks_inside (a b r : Nat) (l : List (Bytes × Bool)) (ha : a ≤ r)
    (h : r + (l.map (·.2)).count true ≤ b) : eraseRanks a b r l = l.filter (fun x => !x.2) := by
  induction l generalizing r with
  | nil => rfl
  | cons e t ih =>
    obtain ⟨p, f⟩ := e
    cases f with
    | false =>
      simp only [List.map_cons, List.count_cons] at h
      simp [eraseRanks, ih r ha (by simpa using h)]
    | true =>
      simp only [List.map_cons, List.count_cons_self] at h
      have : a ≤ r ∧ r < b := by omega
      simp [eraseRanks, this, ih (r + 1) (by omega) (by omega)]

theorem map_snd_zip (p : List Bytes) (r : List Bool) (h : p.length = r.length) :
    (p.zip r).map (·.2) = r := by
  induction p generalizing r with
  | nil => cases r <;> simp_all
  | cons x t ih =>
    cases r with
    | nil => simp at h
    | cons y u => simp at h; simp [ih u h]

theorem filter_not_zip_falses (l : List (Bytes × Bool)) :
    ((l.filter (fun x => !x.2)).map (·.1)).zip
      (List.replicate ((l.filter (fun x => !x.2)).map (·.1)).length false)
      = l.filter (fun x => !x.2) := by
  induction l with
  | nil => rfl
  | cons e t ih =>
    obtain ⟨p, f⟩ := e
    cases f with
    | false => simpa [List.replicate_succ] using ih
    | true => simpa using ih

theorem clamp_le (n : Nat) (x : Option Int) (d : Nat) (hd : d ≤ n) : clamp n x d ≤ n := by
  cases x with
  | none => exact hd
  | some x =>
    simp only [clamp]
    by_cases h1 : x < 0
    · simp only [h1, if_true]; omega
    · simp only [h1, if_false]
      by_cases h2 : x > (n : Int)
      · simp only [h2, if_true]; omega
      · simp only [h2, if_false]; omega

theorem take_zip' {α β} (p : List α) (r : List β) (i : Nat) :
    (p.zip r).take i = (p.take i).zip (r.take i) := by
  simp only [List.zip_eq_zipWith, List.take_zipWith]

theorem drop_zip' {α β} (p : List α) (r : List β) (i : Nat) :
    (p.zip r).drop i = (p.drop i).zip (r.drop i) := by
  simp only [List.zip_eq_zipWith, List.drop_zipWith]

end Testcase
