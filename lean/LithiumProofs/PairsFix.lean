/-
The fixpoint reached by minimize-around / minimize-balanced under a deterministic test (C13):
the global invariant of the iterator ("everything tried was rejected or is at least as long as the
current best") and what a pass at chunk size 1 that accepts nothing has proposed.
-/
import LithiumProofs.PairsBound
import LithiumProofs.MinimizeMin

namespace Strat
open Testcase

/-! ### bytes: a deletion never lengthens the file, and shortens it when atoms go -/

theorem rmslice_bytes (t : Testcase) (h : t.WF) (hne : ∀ p ∈ t.parts, p ≠ []) (s e : Int)
    (h0 : 0 ≤ s) (hse : s ≤ e) :
    (t.rmslice s e).content.length + (t.len - (t.rmslice s e).len) ≤ t.content.length ∧
    (∀ p ∈ (t.rmslice s e).parts, p ≠ []) := by
  have hab : clamp t.len (some s) 0 ≤ clamp t.len (some e) t.len := by
    simp only [clamp]
    rw [if_neg (by omega : ¬ s < 0), if_neg (by omega : ¬ e < 0)]
    split <;> split <;> omega
  obtain ⟨t', e1, c2, c3, c1, c4, c5⟩ := rmslice_spec t h (some s) (some e) hab
  have hrm : t.rmslice s e = t' := by simp [rmslice, e1]
  rw [hrm]
  have hz : ∀ x ∈ t.parts.zip t.reducible, x.1 ≠ [] := by
    intro x hx
    exact hne x.1 (List.of_mem_zip hx).1
  obtain ⟨i1, i2⟩ := eraseRanks_flatLen (clamp t.len (some s) 0) (clamp t.len (some e) t.len) 0 _ hz
  rw [← c4] at i1 i2
  -- parts dropped = reducible atoms dropped
  have hcount : t'.parts.length + (t.len - t'.len) = t.parts.length := by
    have hf := eraseRanks_filter (clamp t.len (some s) 0) (clamp t.len (some e) t.len) 0 (t.parts.zip t.reducible)
    rw [← c4] at hf
    have hw : t.parts.length = t.reducible.length := h
    have hw' : t'.parts.length = t'.reducible.length := c1
    have l1 := len_eq_count t h
    have l2 := len_eq_count _ c1
    have c1' := count_true_add_false t.reducible
    have c2' := count_true_add_false t'.reducible
    have hcf : t'.reducible.count false = t.reducible.count false := by
      have e1 : (t'.parts.zip t'.reducible).map (·.2) = t'.reducible := map_snd_zip _ _ hw'
      have e2 : (t.parts.zip t.reducible).map (·.2) = t.reducible := map_snd_zip _ _ hw
      have key : ∀ l : List (Bytes × Bool), (l.map (·.2)).count false = (l.filter (fun x => !x.2)).length := by
        intro l
        induction l with
        | nil => rfl
        | cons x t ih => obtain ⟨p, f⟩ := x; cases f <;> simp [ih]
      rw [← e1, ← e2, key, key, hf]
    omega
  refine ⟨?_, ?_⟩
  · rw [content_length _ c1, content_length _ h, c2, c3]
    simp only [List.length_zip] at i1 i2
    have hw : t.parts.length = t.reducible.length := h
    have hw' : t'.parts.length = t'.reducible.length := c1
    omega
  · intro p hp
    have hsub := eraseRanks_sublist (clamp t.len (some s) 0) (clamp t.len (some e) t.len) 0 (t.parts.zip t.reducible)
    rw [← c4] at hsub
    have hmem : p ∈ (t'.parts.zip t'.reducible).map (·.1) := by
      rw [map_fst_zip' _ _ c1]; exact hp
    obtain ⟨x, hx, rfl⟩ := List.mem_map.mp hmem
    exact hz x (hsub.subset hx)

/-- what the strategies need of a candidate -/
structure CandOK (best c : Testcase) : Prop where
  wf : c.WF
  nonempty : ∀ p ∈ c.parts, p ≠ []
  shorter : c.content.length < best.content.length

/-- two deletions in a row whose total number of removed atoms is positive -/
theorem rm2_candOK (t : Testcase) (h : t.WF) (hne : ∀ p ∈ t.parts, p ≠ []) (s1 e1 s2 e2 : Int)
    (h1 : 0 ≤ s1) (h1' : s1 ≤ e1) (h2 : 0 ≤ s2) (h2' : s2 ≤ e2)
    (hlt : ((t.rmslice s1 e1).rmslice s2 e2).len < t.len) :
    CandOK t ((t.rmslice s1 e1).rmslice s2 e2) := by
  obtain ⟨w1, l1⟩ := rmslice_len t h s1 e1 h1 h1'
  obtain ⟨b1, n1⟩ := rmslice_bytes t h hne s1 e1 h1 h1'
  obtain ⟨w2, l2⟩ := rmslice_len _ w1 s2 e2 h2 h2'
  obtain ⟨b2, n2⟩ := rmslice_bytes _ w1 n1 s2 e2 h2 h2'
  exact ⟨w2, n2, by omega⟩

theorem rm1_candOK (t : Testcase) (h : t.WF) (hne : ∀ p ∈ t.parts, p ≠ []) (s e : Int)
    (h1 : 0 ≤ s) (h1' : s ≤ e) (hlt : (t.rmslice s e).len < t.len) : CandOK t (t.rmslice s e) := by
  obtain ⟨w1, l1⟩ := rmslice_len t h s e h1 h1'
  obtain ⟨b1, n1⟩ := rmslice_bytes t h hne s e h1 h1'
  exact ⟨w1, n1, by omega⟩

theorem aroundCand_ok (cs : Nat) (st : AroundSt) (it : It) (h : it.best.WF) (hne : ∀ p ∈ it.best.parts, p ≠ [])
    (hcs : 1 ≤ cs) (hg : st.chunkStart + cs < it.best.len) : CandOK it.best (aroundCand cs st it) := by
  have hl := (aroundCand_len cs st it h hcs hg).2
  unfold aroundCand at hl ⊢
  simp only at hl ⊢
  exact rm2_candOK it.best h hne _ _ _ _ (by omega) (by omega) (by omega) (by omega) hl

theorem balCand1_ok (cs : Nat) (st : BalSt) (it : It) (h : it.best.WF) (hne : ∀ p ∈ it.best.parts, p ≠ [])
    (hcs : 1 ≤ cs) (hg : st.chunkStart < it.best.len) : CandOK it.best (balCand1 cs st it) := by
  have hl := (balCand1_len cs st it h hcs hg).2
  unfold balCand1 at hl ⊢
  exact rm1_candOK it.best h hne _ _ (by omega) (by omega) hl

theorem balCand2_ok (cs : Nat) (st : BalSt) (it : It) (rhs : Nat) (h : it.best.WF)
    (hne : ∀ p ∈ it.best.parts, p ≠ []) (hcs : 1 ≤ cs) (hg : st.chunkStart < it.best.len) :
    CandOK it.best (balCand2 cs st it rhs) := by
  have hl := (balCand2_len cs st it rhs h hcs hg).2
  unfold balCand2 at hl ⊢
  simp only at hl ⊢
  exact rm2_candOK it.best h hne _ _ _ _ (by omega) (by omega) (by omega) (by omega) hl

/-! ### the global invariant under a deterministic test -/

structure GInv (f : Bytes → Bool) (it : It) : Prop where
  wf : it.best.WF
  nonempty : ∀ p ∈ it.best.parts, p ≠ []
  tried : ∀ c ∈ it.tried, f c = true → it.best.content.length ≤ c.length

theorem try_ginv (f : Bytes → Bool) (it : It) (c : Testcase) (mk : Resp → Att) (h : GInv f it)
    (hc : CandOK it.best c) : GInv f (it.try (fun _ x => f x) c mk).2 := by
  rcases try_spec it (fun _ x => f x) c mk with ⟨-, -, hb, -, ht⟩ | ⟨-, -, hv, hb, -, ht⟩ | ⟨-, -, hv, hb, -, ht⟩
  · exact ⟨by rw [hb]; exact h.wf, by rw [hb]; exact h.nonempty, by rw [hb, ht]; exact h.tried⟩
  · refine ⟨by rw [hb]; exact hc.wf, by rw [hb]; exact hc.nonempty, ?_⟩
    rw [hb, ht]
    intro x hx hfx
    simp only [List.mem_cons] at hx
    rcases hx with rfl | hx
    · exact Nat.le_refl _
    · have := h.tried x hx hfx
      have := hc.shorter
      omega
  · refine ⟨by rw [hb]; exact h.wf, by rw [hb]; exact h.nonempty, ?_⟩
    rw [hb, ht]
    intro x hx hfx
    simp only [List.mem_cons] at hx
    rcases hx with rfl | hx
    · rw [hv] at hfx; exact absurd hfx (by simp)
    · exact h.tried x hx hfx

theorem ginv_flags (f : Bytes → Bool) (it : It) (h : GInv f it) (b : Bool) :
    GInv f { it with outOfFuel := b } ∧ GInv f { it with internalError := b } ∧ GInv f { it with deadlineStop := b } :=
  ⟨⟨h.wf, h.nonempty, h.tried⟩, ⟨h.wf, h.nonempty, h.tried⟩, ⟨h.wf, h.nonempty, h.tried⟩⟩

theorem pLoop_ginv {σ : Type} (f : Bytes → Bool) (pd : PassDef σ) (clk : Clock) (stopAt : Option Nat)
    (hact : ∀ st it c mk, GInv f it → pd.guard st it = true → pd.act st it = .propose c mk → CandOK it.best c)
    (fuel : Nat) (st : σ) (it : It) (any : Bool) (h : GInv f it) :
    GInv f (pLoop pd (fun _ x => f x) clk stopAt fuel st it any).1 :=
  pLoop_induct pd (fun _ x => f x) clk stopAt (fun _ it _ => GInv f it) (fun it _ => GInv f it)
    (fun _ _ _ h => h) (fun _ it _ h => (ginv_flags f it h true).1) (fun _ it _ h _ _ => (ginv_flags f it h true).2.1)
    (fun _ _ _ _ h _ _ _ _ => h)
    (fun st it _ c mk h hg _ ha =>
      have r := try_ginv f it c mk h (hact st it c mk h hg ha)
      ⟨r, fun _ _ => r⟩)
    fuel st it any h

theorem aroundPass_ginv (f : Bytes → Bool) (clk : Clock) (stopAt : Option Nat) (cs : Nat) (it : It)
    (hcs : 1 ≤ cs) (h : GInv f it) : GInv f (aroundPass (fun _ x => f x) clk stopAt cs it).1 := by
  unfold aroundPass
  simp only
  split
  · exact h
  · unfold aroundLoop
    apply pLoop_ginv f _ clk stopAt _ _ _ _ _ h
    intro st it c mk hi hg ha
    simp only [aroundDef, PAct.propose.injEq] at ha
    obtain ⟨rfl, -⟩ := ha
    exact aroundCand_ok cs st it hi.wf hi.nonempty hcs (by simpa [aroundDef] using hg)

theorem balPass_ginv (f : Bytes → Bool) (clk : Clock) (stopAt : Option Nat) (cs : Nat) (it : It)
    (hcs : 1 ≤ cs) (h : GInv f it) : GInv f (balPass (fun _ x => f x) clk stopAt cs it).1 := by
  unfold balPass
  simp only
  split
  · exact h
  · unfold balLoop
    apply pLoop_ginv f _ clk stopAt _ _ _ _ _ h
    intro st it c mk hi hg ha
    have hg' : st.chunkStart < it.best.len := by simpa [balDef] using hg
    simp only [balDef, balAct] at ha
    split at ha
    · exact absurd ha (by simp)
    · split at ha
      · simp only [PAct.propose.injEq] at ha
        obtain ⟨rfl, -⟩ := ha
        exact balCand1_ok cs st it hi.wf hi.nonempty hcs hg'
      · split at ha
        · exact absurd ha (by simp)
        · simp only [PAct.propose.injEq] at ha
          obtain ⟨rfl, -⟩ := ha
          exact balCand2_ok cs st it _ hi.wf hi.nonempty hcs hg'

/-- The outer loop, with min = 1, repeat last/always and no time limit, when it ends without a
flag, ends right after a pass at chunk size exactly 1 that accepted nothing and that started from
an iterator satisfying the global invariant. -/
theorem pairsOuter_last_pass (f : Bytes → Bool) (cfg : Cfg) (clk : Clock) (pass : Nat → It → It × Bool)
    (hrep : cfg.rep = .last ∨ cfg.rep = .always)
    (hpass : ∀ cs it, 1 ≤ cs → GInv f it → GInv f (pass cs it).1) :
    ∀ (fuel cs : Nat) (it : It), 1 ≤ cs → GInv f it →
      (pairsOuter cfg clk none pass 1 fuel cs it).outOfFuel = false →
      (pairsOuter cfg clk none pass 1 fuel cs it).internalError = false →
      ∃ it', GInv f it' ∧ (pass 1 it').2 = false ∧ pairsOuter cfg clk none pass 1 fuel cs it = (pass 1 it').1 := by
  intro fuel cs it hcs hg
  exact pairsOuter_induct cfg clk none pass 1 (fun cs it => 1 ≤ cs ∧ GInv f it)
    (fun r => r.outOfFuel = false → r.internalError = false →
      ∃ it', GInv f it' ∧ (pass 1 it').2 = false ∧ r = (pass 1 it').1)
    (fun _ _ _ h1 _ => absurd h1 (by simp))
    (fun cs it _ hflag h1 h2 => by
      simp only [Bool.or_eq_true] at hflag
      rcases hflag with hf | hf
      · rw [hf] at h1; exact absurd h1 (by simp)
      · rw [hf] at h2; exact absurd h2 (by simp))
    (fun cs it _ hd => by simp [deadlinePassed] at hd)
    (fun cs it hP _ _ hlast hrepeat _ _ => by
      have hcs1 : cs = 1 := by omega
      subst hcs1
      refine ⟨it, hP.2, ?_, rfl⟩
      cases hp : (pass 1 it).2 with
      | false => rfl
      | true =>
        rw [hp] at hrepeat
        rcases hrep with hr | hr <;> simp [hr] at hrepeat)
    (fun cs it hP _ _ => ⟨hP.1, hpass cs it hP.1 hP.2⟩)
    (fun cs it hP _ hl => ⟨by omega, hpass cs it hP.1 hP.2⟩)
    fuel cs it ⟨hcs, hg⟩

/-! ### minimize-around: what a quiet pass at chunk size 1 has proposed -/

/-- the file without the two neighbours of atom `k` -/
def pairCand (t : Testcase) (k : Nat) : Testcase :=
  (t.rmslice ((k : Int) + 1) ((k : Int) + 2)).rmslice ((k : Int) - 1) (k : Int)

theorem indexFrom_replicate (m i frm : Nat) :
    indexFrom (List.replicate m true) i frm = if max i frm < i + m then some (max i frm) else none := by
  induction m generalizing i with
  | zero =>
    simp only [List.replicate_zero, indexFrom, Nat.add_zero]
    rw [if_neg (by omega)]
  | succ m ih =>
    simp only [List.replicate_succ, indexFrom, Bool.and_true]
    by_cases h : frm ≤ i
    · rw [if_pos (by simpa using h), if_pos (by omega)]
      congr 1; omega
    · rw [if_neg (by simpa using h), ih (i + 1)]
      by_cases h2 : max (i + 1) frm < i + 1 + m
      · rw [if_pos h2, if_pos (by omega)]; congr 1; omega
      · rw [if_neg h2, if_neg (by omega)]

theorem indexS_replicate (n frm : Nat) :
    indexS (List.replicate n true) frm = if frm < n then some frm else none := by
  unfold indexS
  rw [indexFrom_replicate]
  simp

theorem divUp_one (n : Nat) : Util.divUp n 1 = n := by
  unfold Util.divUp
  simp [Nat.mod_one]

theorem aroundCand_one (st : AroundSt) (it : It) (h1 : 1 ≤ st.chunkStart) (hg : st.chunkStart + 1 < it.best.len) :
    aroundCand 1 st it = pairCand it.best st.chunkStart := by
  unfold aroundCand pairCand
  simp only
  have e1 : ((min it.best.len (st.chunkStart + 1) : Nat) : Int) = (st.chunkStart : Int) + 1 := by omega
  have e2 : ((min it.best.len (min it.best.len (st.chunkStart + 1) + 1) : Nat) : Int) = (st.chunkStart : Int) + 2 := by omega
  have e3 : max (0 : Int) ((st.chunkStart : Int) - ((1 : Nat) : Int)) = (st.chunkStart : Int) - 1 := by omega
  rw [e1, e2, e3]

/-- A pass of minimize-around at chunk size 1 under a deterministic test that accepts nothing and
does not run out of fuel leaves the best testcase alone and has proposed — tested now, or found
among the contents tested earlier — the removal of the two neighbours of every atom that has a
neighbour on both sides. -/
theorem aroundPass_quiet (f : Bytes → Bool) (clk : Clock) (it : It)
    (hq : (aroundPass (fun _ x => f x) clk none 1 it).2 = false)
    (hf : (aroundPass (fun _ x => f x) clk none 1 it).1.outOfFuel = false) :
    (aroundPass (fun _ x => f x) clk none 1 it).1.best = it.best ∧
    ∀ k, 1 ≤ k → k + 1 < it.best.len →
      (pairCand it.best k).content ∈ (aroundPass (fun _ x => f x) clk none 1 it).1.tried := by
  unfold aroundPass at hq hf ⊢
  simp only [divUp_one] at hq hf ⊢
  by_cases hn : it.best.len < 3
  · simp only [hn, if_true]
    exact ⟨trivial, fun k h1 h2 => by omega⟩
  · simp only [hn, if_false] at hq hf ⊢
    unfold aroundLoop at hq hf ⊢
    have key := pLoop_induct_exits (aroundDef 1 it.best.len) (fun _ x => f x) clk none
      (fun st it' any => any = false →
        it'.best = it.best ∧ st.summary = List.replicate it.best.len true ∧ st.chunkStart = st.keep ∧
        st.after = st.keep + 1 ∧ 1 ≤ st.keep ∧
        ∀ j, 1 ≤ j → j < st.keep → (pairCand it.best j).content ∈ it'.tried)
      (fun it' any => any = false → it'.outOfFuel = false →
        it'.best = it.best ∧ ∀ j, 1 ≤ j → j + 1 < it.best.len → (pairCand it.best j).content ∈ it'.tried)
      (fun st it' any hP hg ha _ => by
        obtain ⟨p1, -, p3, -, -, p6⟩ := hP ha
        have hg' : ¬ (st.chunkStart + 1 < it'.best.len) := by simpa [aroundDef] using hg
        rw [p1] at hg'
        exact ⟨p1, fun j h1 h2 => p6 j h1 (by omega)⟩)
      (fun st it' any _ _ hd => by simp [deadlinePassed] at hd)
      (fun st it' any _ _ hfu => by simp at hfu)
      (fun st it' any _ _ hact => by simp [aroundDef] at hact)
      (fun st it' any _ _ _ hact => by simp [aroundDef] at hact)
      (fun st it' any c mk hP hg _ hact => by
        simp only [aroundDef, PAct.propose.injEq] at hact
        obtain ⟨rfl, -⟩ := hact
        have hg' : st.chunkStart + 1 < it'.best.len := by simpa [aroundDef] using hg
        -- an accepted proposal makes both claims vacuous
        rcases try_spec it' (fun _ x => f x) (aroundCand 1 st it') mk with
          ⟨hr, hin, hb, -, ht⟩ | ⟨hr, -, -, -, -, -⟩ | ⟨hr, -, -, hb, -, ht⟩
        · -- skipped: the content was tested before
          rw [hr]
          simp only [show (Resp.skipped == Resp.accepted) = false from rfl, Bool.or_false]
          have hstep : any = false →
              (it'.try (fun _ x => f x) (aroundCand 1 st it') mk).2.best = it.best ∧
              ∀ j, 1 ≤ j → j < st.keep + 1 →
                (pairCand it.best j).content ∈ (it'.try (fun _ x => f x) (aroundCand 1 st it') mk).2.tried := by
            intro ha
            obtain ⟨p1, -, p3, -, p5, p6⟩ := hP ha
            refine ⟨by rw [hb]; exact p1, ?_⟩
            intro j h1 h2
            rw [ht]
            rcases Nat.lt_or_ge j st.keep with hlt | hge
            · exact p6 j h1 hlt
            · have hj : j = st.chunkStart := by omega
              subst hj
              have hc := aroundCand_one st it' (by omega) hg'
              rw [p1] at hc
              rw [← hc]
              simpa using hin
          refine ⟨?_, ?_⟩
          · intro hnone ha _
            obtain ⟨p1, p2, p3, p4, p5, -⟩ := hP ha
            obtain ⟨s1, s2⟩ := hstep ha
            refine ⟨s1, fun j h1 h2 => s2 j h1 ?_⟩
            -- no surviving chunk after `after`: keep + 2 ≥ n
            simp only [aroundDef, aroundNext, p2, indexS_replicate] at hnone
            split at hnone
            · rename_i a ha'
              exact absurd hnone (by simp)
            · rename_i hnn
              split at hnn
              · exact absurd hnn (by simp)
              · omega
          · intro st' hnext ha
            obtain ⟨p1, p2, p3, p4, p5, -⟩ := hP ha
            obtain ⟨s1, s2⟩ := hstep ha
            simp only [aroundDef, aroundNext, p2, indexS_replicate] at hnext
            split at hnext
            · rename_i a ha'
              simp only [Option.some.injEq] at hnext
              subst hnext
              split at ha'
              · simp only [Option.some.injEq] at ha'
                exact ⟨s1, rfl, by simp only; omega, by simp only; omega, by simp only; omega,
                  fun j h1 h2 => s2 j h1 (by simp only at h2; omega)⟩
              · exact absurd ha' (by simp)
            · exact absurd hnext (by simp)
        · rw [hr]
          simp only [beq_self_eq_true, Bool.or_true]
          exact ⟨fun _ ha => absurd ha (by simp), fun _ _ ha => absurd ha (by simp)⟩
        · -- rejected: the content is tested now
          rw [hr]
          simp only [show (Resp.rejected == Resp.accepted) = false from rfl, Bool.or_false]
          have hstep : any = false →
              (it'.try (fun _ x => f x) (aroundCand 1 st it') mk).2.best = it.best ∧
              ∀ j, 1 ≤ j → j < st.keep + 1 →
                (pairCand it.best j).content ∈ (it'.try (fun _ x => f x) (aroundCand 1 st it') mk).2.tried := by
            intro ha
            obtain ⟨p1, -, p3, -, p5, p6⟩ := hP ha
            refine ⟨by rw [hb]; exact p1, ?_⟩
            intro j h1 h2
            rw [ht]
            rcases Nat.lt_or_ge j st.keep with hlt | hge
            · exact List.mem_cons_of_mem _ (p6 j h1 hlt)
            · have hj : j = st.chunkStart := by omega
              subst hj
              have hc := aroundCand_one st it' (by omega) hg'
              rw [p1] at hc
              rw [← hc]
              exact List.mem_cons_self
          refine ⟨?_, ?_⟩
          · intro hnone ha _
            obtain ⟨p1, p2, p3, p4, p5, -⟩ := hP ha
            obtain ⟨s1, s2⟩ := hstep ha
            refine ⟨s1, fun j h1 h2 => s2 j h1 ?_⟩
            simp only [aroundDef, aroundNext, p2, indexS_replicate] at hnone
            split at hnone
            · rename_i a ha'
              exact absurd hnone (by simp)
            · rename_i hnn
              split at hnn
              · exact absurd hnn (by simp)
              · omega
          · intro st' hnext ha
            obtain ⟨p1, p2, p3, p4, p5, -⟩ := hP ha
            obtain ⟨s1, s2⟩ := hstep ha
            simp only [aroundDef, aroundNext, p2, indexS_replicate] at hnext
            split at hnext
            · rename_i a ha'
              simp only [Option.some.injEq] at hnext
              subst hnext
              split at ha'
              · simp only [Option.some.injEq] at ha'
                exact ⟨s1, rfl, by simp only; omega, by simp only; omega, by simp only; omega,
                  fun j h1 h2 => s2 j h1 (by simp only at h2; omega)⟩
              · exact absurd ha' (by simp)
            · exact absurd hnext (by simp))
      (2 * it.best.len + 2)
      { summary := List.replicate it.best.len true, chunkStart := 1, before := 0, keep := 1, after := 2 } it false
      (fun _ => ⟨rfl, rfl, rfl, rfl, Nat.le_refl _, fun j h1 h2 => by simp only at h2; omega⟩)
    exact key hq hf

/-! ### minimize-balanced: what a quiet pass at chunk size 1 has proposed -/

theorem try_quiet (it : It) (o : Oracle) (c : Testcase) (mk : Resp → Att)
    (h : ((it.try o c mk).1 == Resp.accepted) = false) :
    (it.try o c mk).2.best = it.best ∧ c.content ∈ (it.try o c mk).2.tried ∧
    ∀ x ∈ it.tried, x ∈ (it.try o c mk).2.tried := by
  rcases try_spec it o c mk with ⟨-, hin, hb, -, ht⟩ | ⟨hr, -, -, -, -, -⟩ | ⟨-, -, -, hb, -, ht⟩
  · exact ⟨hb, by rw [ht]; simpa using hin, fun x hx => by rw [ht]; exact hx⟩
  · rw [hr] at h; exact absurd h (by decide)
  · exact ⟨hb, by rw [ht]; exact List.mem_cons_self, fun x hx => by rw [ht]; exact List.mem_cons_of_mem _ hx⟩

theorem countFrom_replicate (m i a b : Nat) :
    countFrom (List.replicate m true) i a b = min b (i + m) - max a i := by
  induction m generalizing i with
  | zero => simp only [List.replicate_zero, countFrom]; omega
  | succ m ih =>
    simp only [List.replicate_succ, countFrom, Bool.and_true, ih (i + 1)]
    by_cases h1 : a ≤ i <;> by_cases h2 : i < b <;> simp [h1, h2] <;> omega

theorem countS_replicate (n a b : Nat) (hab : a ≤ b) (hb : b ≤ n) :
    countS (List.replicate n true) a b = b - a := by
  unfold countS
  rw [countFrom_replicate]
  omega

theorem findRhs_le (summary : List Bool) (curly square normal : List Int) (l : List Bool) (rhs : Nat)
    (bal : Int × Int × Int) : (findRhs summary curly square normal l rhs bal).1 ≤ rhs + l.length := by
  induction l generalizing rhs bal with
  | nil => simp [findRhs]
  | cons x xs ih =>
    unfold findRhs
    simp only [List.length_cons]
    split
    · have := ih (rhs + 1) bal; omega
    · split
      · omega
      · split
        · omega
        · have := ih (rhs + 1) (bal.1 + curly.getD (rhs + 1) 0, bal.2.1 + square.getD (rhs + 1) 0, bal.2.2 + normal.getD (rhs + 1) 0)
          omega

/-- the three lists of bracket balances `try_removing_chunks` computes at chunk size 1 -/
def balLists (t : Testcase) : List Int × List Int × List Int :=
  ((List.range t.len).map (fun i => countDiff t.parts i 0x7B 0x7D),
   (List.range t.len).map (fun i => countDiff t.parts i 0x5B 0x5D),
   (List.range t.len).map (fun i => countDiff t.parts i 0x28 0x29))

/-- the partner search of the code for atom `j` of `t` when every chunk survives -/
def partnerOf (t : Testcase) (j : Nat) : Nat × (Int × Int × Int) :=
  findRhs (List.replicate t.len true) (balLists t).1 (balLists t).2.1 (balLists t).2.2
    ((List.replicate t.len true).drop (j + 1)) j (balOf (balLists t).1 (balLists t).2.1 (balLists t).2.2 j)

/-- what the fixpoint of minimize-balanced says about atom `j`: a balanced atom is deleted alone,
an unbalanced atom together with the partner the search finds (none: nothing is claimed) -/
def balTarget (t : Testcase) (j : Nat) : Option Testcase :=
  if balZero (balOf (balLists t).1 (balLists t).2.1 (balLists t).2.2 j) then
    some (t.rmslice (j : Int) ((j : Int) + 1))
  else if balZero (partnerOf t j).2 then
    some ((t.rmslice ((partnerOf t j).1 : Int) (((partnerOf t j).1 : Int) + 1)).rmslice (j : Int) ((j : Int) + 1))
  else none

theorem balCand1_one (st : BalSt) (it : It) (hg : st.chunkStart < it.best.len) :
    balCand1 1 st it = it.best.rmslice (st.chunkStart : Int) ((st.chunkStart : Int) + 1) := by
  unfold balCand1
  have e1 : ((min it.best.len (st.chunkStart + 1) : Nat) : Int) = (st.chunkStart : Int) + 1 := by omega
  rw [e1]

theorem balCand2_one (st : BalSt) (it : It) (rhs : Nat) (hs : st.summary = List.replicate it.best.len true)
    (hl : st.chunkStart = st.lhs) (h1 : st.lhs ≤ rhs) (h2 : rhs < it.best.len) :
    balCand2 1 st it rhs
      = (it.best.rmslice (rhs : Int) ((rhs : Int) + 1)).rmslice (st.lhs : Int) ((st.lhs : Int) + 1) := by
  unfold balCand2
  simp only
  rw [hs, countS_replicate _ _ _ h1 (by omega), hl]
  have e0 : st.lhs + 1 * (rhs - st.lhs) = rhs := by omega
  rw [e0]
  have e1 : ((min it.best.len rhs : Nat) : Int) = (rhs : Int) := by omega
  have e2 : ((min it.best.len (min it.best.len rhs + 1) : Nat) : Int) = (rhs : Int) + 1 := by omega
  have e3 : ((min it.best.len (st.lhs + 1) : Nat) : Int) = (st.lhs : Int) + 1 := by omega
  rw [e1, e2, e3]

/-- A pass of minimize-balanced at chunk size 1 under a deterministic test that accepts nothing and
raises no flag leaves the best testcase alone and has proposed — tested now, or found among the
contents tested earlier — the deletion `balTarget best j` for every atom `j`. -/
theorem balPass_quiet (f : Bytes → Bool) (clk : Clock) (it : It)
    (hq : (balPass (fun _ x => f x) clk none 1 it).2 = false)
    (hf : (balPass (fun _ x => f x) clk none 1 it).1.outOfFuel = false)
    (he : (balPass (fun _ x => f x) clk none 1 it).1.internalError = false) :
    (balPass (fun _ x => f x) clk none 1 it).1.best = it.best ∧
    (2 ≤ it.best.len → ∀ j, j < it.best.len → ∀ c, balTarget it.best j = some c →
      c.content ∈ (balPass (fun _ x => f x) clk none 1 it).1.tried) := by
  unfold balPass at hq hf he ⊢
  simp only [divUp_one] at hq hf he ⊢
  by_cases hn : it.best.len < 2
  · simp only [hn, if_true]
    exact ⟨trivial, fun h2 => by omega⟩
  · simp only [hn, if_false] at hq hf he ⊢
    unfold balLoop at hq hf he ⊢
    -- the quiet-step bookkeeping shared by all three kinds of iteration
    have shiftP : ∀ (st st' : BalSt) (it' : It),
        st.summary = List.replicate it.best.len true → st.chunkStart = st.lhs → balShift 1 st = some st' →
        st'.summary = List.replicate it.best.len true ∧ st'.chunkStart = st'.lhs ∧ st'.lhs = st.lhs + 1 := by
      intro st st' it' p2 p3 hsh
      unfold balShift at hsh
      rw [p2, indexS_replicate] at hsh
      split at hsh
      · rename_i l hl
        simp only [Option.some.injEq] at hsh
        subst hsh
        split at hl
        · simp only [Option.some.injEq] at hl
          exact ⟨rfl, by simp only; omega, by simp only; omega⟩
        · exact absurd hl (by simp)
      · exact absurd hsh (by simp)
    have shiftNone : ∀ (st : BalSt), st.summary = List.replicate it.best.len true → balShift 1 st = none →
        it.best.len ≤ st.lhs + 1 := by
      intro st p2 hsh
      unfold balShift at hsh
      rw [p2, indexS_replicate] at hsh
      split at hsh
      · exact absurd hsh (by simp)
      · rename_i hnn
        split at hnn
        · exact absurd hnn (by simp)
        · omega
    have key := pLoop_induct_exits
      (balDef 1 it.best.len (balLists it.best).1 (balLists it.best).2.1 (balLists it.best).2.2) (fun _ x => f x) clk none
      (fun st it' any => any = false →
        it'.best = it.best ∧ st.summary = List.replicate it.best.len true ∧ st.chunkStart = st.lhs ∧
        ∀ j, j < st.lhs → ∀ c, balTarget it.best j = some c → c.content ∈ it'.tried)
      (fun it' any => any = false → it'.outOfFuel = false → it'.internalError = false →
        it'.best = it.best ∧ ∀ j, j < it.best.len → ∀ c, balTarget it.best j = some c → c.content ∈ it'.tried)
      (fun st it' any hP hg ha _ _ => by
        obtain ⟨p1, -, p3, p4⟩ := hP ha
        have hg' : ¬ (st.chunkStart < it'.best.len) := by simpa [balDef] using hg
        rw [p1] at hg'
        exact ⟨p1, fun j hj => p4 j (by omega)⟩)
      (fun st it' any _ _ hd => by simp [deadlinePassed] at hd)
      (fun st it' any _ _ hfu => by simp at hfu)
      (fun st it' any _ _ _ _ _ hie => by simp at hie)
      (fun st it' any hP hg _ hact => by
        -- no partner: nothing is claimed for this atom
        have hnone : any = false → balTarget it.best st.lhs = none := by
          intro ha
          obtain ⟨p1, p2, p3, -⟩ := hP ha
          simp only [balDef, balAct] at hact
          split at hact
          · exact absurd hact (by simp)
          · split at hact
            · exact absurd hact (by simp)
            · rename_i hz
              split at hact
              · rename_i hr
                unfold balTarget
                rw [if_neg hz]
                have : partnerOf it.best st.lhs = balRhs (balLists it.best).1 (balLists it.best).2.1 (balLists it.best).2.2 st := by
                  unfold partnerOf balRhs; rw [p2]
                rw [this, if_neg (by simpa using hr)]
              · exact absurd hact (by simp)
        refine ⟨?_, ?_⟩
        · intro hnx ha _ _
          obtain ⟨p1, p2, p3, p4⟩ := hP ha
          have := shiftNone st p2 (by simpa [balDef, balNext] using hnx)
          refine ⟨p1, fun j hj c hc => ?_⟩
          rcases Nat.lt_or_ge j st.lhs with hlt | hge
          · exact p4 j hlt c hc
          · have : j = st.lhs := by omega
            subst this
            rw [hnone ha] at hc; exact absurd hc (by simp)
        · intro st' hnx ha
          obtain ⟨p1, p2, p3, p4⟩ := hP ha
          obtain ⟨s1, s2, s3⟩ := shiftP st st' it' p2 p3 (by simpa [balDef, balNext] using hnx)
          refine ⟨p1, s1, s2, fun j hj c hc => ?_⟩
          rcases Nat.lt_or_ge j st.lhs with hlt | hge
          · exact p4 j hlt c hc
          · have : j = st.lhs := by omega
            subst this
            rw [hnone ha] at hc; exact absurd hc (by simp))
      (fun st it' any c mk hP hg _ hact => by
        have hg' : st.chunkStart < it'.best.len := by simpa [balDef] using hg
        -- the proposal is the target of atom `lhs`
        have htarget : any = false → balTarget it.best st.lhs = some c := by
          intro ha
          obtain ⟨p1, p2, p3, -⟩ := hP ha
          simp only [balDef, balAct] at hact
          split at hact
          · exact absurd hact (by simp)
          · split at hact
            · rename_i hz
              simp only [PAct.propose.injEq] at hact
              obtain ⟨rfl, -⟩ := hact
              unfold balTarget
              rw [if_pos hz, balCand1_one st it' hg', p1, p3]
            · rename_i hz
              split at hact
              · exact absurd hact (by simp)
              · rename_i hr
                simp only [PAct.propose.injEq] at hact
                obtain ⟨rfl, -⟩ := hact
                have hpe : partnerOf it.best st.lhs = balRhs (balLists it.best).1 (balLists it.best).2.1 (balLists it.best).2.2 st := by
                  unfold partnerOf balRhs; rw [p2]
                have hge := findRhs_ge st.summary (balLists it.best).1 (balLists it.best).2.1 (balLists it.best).2.2
                  (st.summary.drop (st.lhs + 1)) st.lhs (balOf (balLists it.best).1 (balLists it.best).2.1 (balLists it.best).2.2 st.lhs)
                have hle := findRhs_le st.summary (balLists it.best).1 (balLists it.best).2.1 (balLists it.best).2.2
                  (st.summary.drop (st.lhs + 1)) st.lhs (balOf (balLists it.best).1 (balLists it.best).2.1 (balLists it.best).2.2 st.lhs)
                have hlen : (st.summary.drop (st.lhs + 1)).length = it.best.len - (st.lhs + 1) := by
                  rw [p2]; simp
                rw [p1] at hg'
                unfold balTarget
                rw [if_neg hz, hpe, if_pos (by simpa using hr)]
                rw [balCand2_one st it' _ (by rw [p1]; exact p2) p3 (by unfold balRhs; exact hge)
                  (by rw [p1]; unfold balRhs; omega), p1]
        by_cases hacc : ((it'.try (fun _ x => f x) c mk).1 == Resp.accepted) = true
        · rw [hacc]
          simp only [Bool.or_true]
          exact ⟨fun _ ha => absurd ha (by simp), fun _ _ ha => absurd ha (by simp)⟩
        · have hacc' : ((it'.try (fun _ x => f x) c mk).1 == Resp.accepted) = false := by simpa using hacc
          obtain ⟨q1, q2, q3⟩ := try_quiet it' (fun _ x => f x) c mk hacc'
          rw [hacc']
          simp only [Bool.or_false]
          have hnextEq : balNext 1 (balLists it.best).1 (balLists it.best).2.1 (balLists it.best).2.2 st
              (some (it'.try (fun _ x => f x) c mk).1) = balShift 1 st := by
            cases hr : (it'.try (fun _ x => f x) c mk).1 with
            | accepted => rw [hr] at hacc'; exact absurd hacc' (by decide)
            | rejected => rfl
            | skipped => rfl
          refine ⟨?_, ?_⟩
          · intro hnx ha _ _
            obtain ⟨p1, p2, p3, p4⟩ := hP ha
            have := shiftNone st p2 (by simpa [balDef, hnextEq] using hnx)
            refine ⟨by rw [q1]; exact p1, fun j hj c' hc => ?_⟩
            rcases Nat.lt_or_ge j st.lhs with hlt | hge
            · exact q3 _ (p4 j hlt c' hc)
            · have : j = st.lhs := by omega
              subst this
              rw [htarget ha] at hc
              simp only [Option.some.injEq] at hc
              subst hc
              exact q2
          · intro st' hnx ha
            obtain ⟨p1, p2, p3, p4⟩ := hP ha
            obtain ⟨s1, s2, s3⟩ := shiftP st st' it' p2 p3 (by simpa [balDef, hnextEq] using hnx)
            refine ⟨by rw [q1]; exact p1, s1, s2, fun j hj c' hc => ?_⟩
            rcases Nat.lt_or_ge j st.lhs with hlt | hge
            · exact q3 _ (p4 j hlt c' hc)
            · have : j = st.lhs := by omega
              subst this
              rw [htarget ha] at hc
              simp only [Option.some.injEq] at hc
              subst hc
              exact q2)
      (2 * it.best.len + 2) { summary := List.replicate it.best.len true, chunkStart := 0, lhs := 0 } it false
      (fun _ => ⟨rfl, rfl, rfl, fun j hj => by simp only at hj; omega⟩)
    obtain ⟨k1, k2⟩ := key hq hf he
    exact ⟨k1, fun _ => k2⟩

/-! ### the partner search in the property's words -/

def addBal (a b : Int × Int × Int) : Int × Int × Int := (a.1 + b.1, a.2.1 + b.2.1, a.2.2 + b.2.2)

def nonNeg (b : Int × Int × Int) : Bool := decide (0 ≤ b.1) && decide (0 ≤ b.2.1) && decide (0 ≤ b.2.2)

/-- the running balance `bal + balance(rhs+1) + ... + balance(rhs+d)` -/
def accFrom (curly square normal : List Int) (rhs : Nat) (bal : Int × Int × Int) : Nat → Int × Int × Int
  | 0 => bal
  | d + 1 => addBal (accFrom curly square normal rhs bal d) (balOf curly square normal (rhs + d + 1))

theorem accFrom_shift (curly square normal : List Int) (rhs : Nat) (bal : Int × Int × Int) (d : Nat) :
    accFrom curly square normal (rhs + 1) (addBal bal (balOf curly square normal (rhs + 1))) d
      = accFrom curly square normal rhs bal (d + 1) := by
  induction d with
  | zero => rfl
  | succ d ih =>
    show addBal (accFrom curly square normal (rhs + 1) _ d) _ = addBal (accFrom curly square normal rhs bal (d + 1)) _
    rw [ih]
    have : rhs + 1 + d + 1 = rhs + (d + 1) + 1 := by omega
    rw [this]

/-- `d` is the first positive offset at which the running balance is zero, and it was neither zero
nor negative in any kind before -/
def FirstZero (curly square normal : List Int) (rhs : Nat) (bal : Int × Int × Int) (d : Nat) : Prop :=
  1 ≤ d ∧ balZero (accFrom curly square normal rhs bal d) = true ∧
  ∀ d', 1 ≤ d' → d' < d →
    balZero (accFrom curly square normal rhs bal d') = false ∧ nonNeg (accFrom curly square normal rhs bal d') = true

def isNeg (b : Int × Int × Int) : Bool := decide (b.1 < 0) || decide (b.2.1 < 0) || decide (b.2.2 < 0)

theorem findRhs_cons_true (summary : List Bool) (curly square normal : List Int) (rest : List Bool) (rhs : Nat)
    (bal : Int × Int × Int) :
    findRhs summary curly square normal (true :: rest) rhs bal
      = if isNeg (addBal bal (balOf curly square normal (rhs + 1))) then (rhs + 1, addBal bal (balOf curly square normal (rhs + 1)))
        else if balZero (addBal bal (balOf curly square normal (rhs + 1))) then (rhs + 1, addBal bal (balOf curly square normal (rhs + 1)))
        else findRhs summary curly square normal rest (rhs + 1) (addBal bal (balOf curly square normal (rhs + 1))) := by
  rw [findRhs]
  rfl

/-- with every chunk surviving, the search returns a zero balance exactly when such a first zero
exists among the next `m` atoms, and then it returns that atom -/
theorem findRhs_spec (summary : List Bool) (curly square normal : List Int) (m rhs : Nat)
    (bal : Int × Int × Int) :
    (balZero (findRhs summary curly square normal (List.replicate m true) rhs bal).2 = true →
      balZero bal = true ∨ ∃ d, d ≤ m ∧ FirstZero curly square normal rhs bal d ∧
        (findRhs summary curly square normal (List.replicate m true) rhs bal).1 = rhs + d) ∧
    (∀ d, d ≤ m → FirstZero curly square normal rhs bal d →
      balZero (findRhs summary curly square normal (List.replicate m true) rhs bal).2 = true ∧
      (findRhs summary curly square normal (List.replicate m true) rhs bal).1 = rhs + d) := by
  induction m generalizing rhs bal with
  | zero =>
    simp only [List.replicate_zero, findRhs]
    exact ⟨fun h => Or.inl h, fun d hd hfz => by have := hfz.1; omega⟩
  | succ m ih =>
    rw [List.replicate_succ, findRhs_cons_true]
    have hacc1 : accFrom curly square normal rhs bal 1 = addBal bal (balOf curly square normal (rhs + 1)) := rfl
    have hshift := accFrom_shift curly square normal rhs bal
    generalize addBal bal (balOf curly square normal (rhs + 1)) = b' at *
    by_cases hneg : isNeg b' = true
    · rw [if_pos hneg]
      have hparts : b'.1 < 0 ∨ b'.2.1 < 0 ∨ b'.2.2 < 0 := by
        unfold isNeg at hneg
        simp only [Bool.or_eq_true, decide_eq_true_eq] at hneg
        omega
      have hnz : balZero b' = false := by
        unfold balZero
        rcases hparts with h | h | h
        · have : (b'.1 == 0) = false := by simp; omega
          simp [this]
        · have : (b'.2.1 == 0) = false := by simp; omega
          simp [this]
        · have : (b'.2.2 == 0) = false := by simp; omega
          simp [this]
      have hnn : nonNeg b' = false := by
        unfold nonNeg
        rcases hparts with h | h | h
        · have : decide (0 ≤ b'.1) = false := by simp; omega
          simp [this]
        · have : decide (0 ≤ b'.2.1) = false := by simp; omega
          simp [this]
        · have : decide (0 ≤ b'.2.2) = false := by simp; omega
          simp [this]
      refine ⟨fun h => by rw [hnz] at h; exact absurd h (by simp), ?_⟩
      intro d hd hfz
      exfalso
      rcases Nat.eq_or_lt_of_le hfz.1 with he | hlt
      · subst he; have h21 := hfz.2.1; rw [hacc1, hnz] at h21; exact absurd h21 (by simp)
      · have := (hfz.2.2 1 (Nat.le_refl 1) hlt).2
        rw [hacc1, hnn] at this; exact absurd this (by simp)
    · rw [if_neg hneg]
      have hnn : nonNeg b' = true := by
        unfold isNeg at hneg
        simp only [Bool.or_eq_true, decide_eq_true_eq, not_or] at hneg
        unfold nonNeg
        simp only [Bool.and_eq_true, decide_eq_true_eq]
        omega
      by_cases hz' : balZero b' = true
      · rw [if_pos hz']
        refine ⟨fun _ => Or.inr ⟨1, by omega, ⟨Nat.le_refl 1, by rw [hacc1]; exact hz', fun d' h1 h2 => by omega⟩, rfl⟩, ?_⟩
        intro d hd hfz
        refine ⟨hz', ?_⟩
        rcases Nat.eq_or_lt_of_le hfz.1 with he | hlt
        · subst he; rfl
        · have := (hfz.2.2 1 (Nat.le_refl 1) hlt).1
          rw [hacc1, hz'] at this; exact absurd this (by simp)
      · rw [if_neg hz']
        have hz : balZero b' = false := by simpa using hz'
        obtain ⟨i1, i2⟩ := ih (rhs + 1) b'
        refine ⟨?_, ?_⟩
        · intro h
          rcases i1 h with hzz | ⟨d, hd, hfz, hr⟩
          · rw [hz] at hzz; exact absurd hzz (by simp)
          · refine Or.inr ⟨d + 1, by omega, ⟨by omega, by rw [← hshift]; exact hfz.2.1, ?_⟩, by rw [hr]; omega⟩
            intro d' h1 h2
            rcases Nat.eq_or_lt_of_le h1 with he | hlt
            · subst he; rw [hacc1]; exact ⟨hz, hnn⟩
            · have := hfz.2.2 (d' - 1) (by omega) (by omega)
              rw [hshift, show d' - 1 + 1 = d' by omega] at this
              exact this
        · intro d hd hfz
          rcases Nat.eq_or_lt_of_le hfz.1 with he | hlt
          · subst he; have h21 := hfz.2.1; rw [hacc1, hz] at h21; exact absurd h21 (by simp)
          · have hfz' : FirstZero curly square normal (rhs + 1) b' (d - 1) := by
              refine ⟨by omega, by rw [hshift, show d - 1 + 1 = d by omega]; exact hfz.2.1, ?_⟩
              intro d' h1 h2
              have := hfz.2.2 (d' + 1) (by omega) (by omega)
              rw [← hshift] at this
              exact this
            obtain ⟨r1, r2⟩ := i2 (d - 1) (by omega) hfz'
            exact ⟨r1, by rw [r2]; omega⟩

/-- **What `partnerOf` finds.**  For an unbalanced atom `j`, the search reports a partner exactly
when there is a first later atom `j + d` at which the running balance of all three bracket kinds
is back to zero without any kind having been negative (or all of them zero) in between — and it
reports that atom. -/
theorem partnerOf_spec (t : Testcase) (j : Nat) (hj : j < t.len)
    (hz : balZero (balOf (balLists t).1 (balLists t).2.1 (balLists t).2.2 j) = false) :
    (balZero (partnerOf t j).2 = true →
      ∃ d, j + d < t.len ∧ (partnerOf t j).1 = j + d ∧
        FirstZero (balLists t).1 (balLists t).2.1 (balLists t).2.2 j (balOf (balLists t).1 (balLists t).2.1 (balLists t).2.2 j) d) ∧
    (∀ d, j + d < t.len →
      FirstZero (balLists t).1 (balLists t).2.1 (balLists t).2.2 j (balOf (balLists t).1 (balLists t).2.1 (balLists t).2.2 j) d →
      balZero (partnerOf t j).2 = true ∧ (partnerOf t j).1 = j + d) := by
  have hdrop : (List.replicate t.len true).drop (j + 1) = List.replicate (t.len - (j + 1)) true := by simp
  unfold partnerOf
  rw [hdrop]
  obtain ⟨s1, s2⟩ := findRhs_spec (List.replicate t.len true) (balLists t).1 (balLists t).2.1 (balLists t).2.2
    (t.len - (j + 1)) j (balOf (balLists t).1 (balLists t).2.1 (balLists t).2.2 j)
  refine ⟨?_, ?_⟩
  · intro h
    rcases s1 h with hzz | ⟨d, hd, hfz, hr⟩
    · rw [hz] at hzz; exact absurd hzz (by simp)
    · exact ⟨d, by omega, hr, hfz⟩
  · intro d hd hfz
    exact s2 d (by omega) hfz

end Strat
