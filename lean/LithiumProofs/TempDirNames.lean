/-
Name-level model of create_temp_dir (TempDir.seqLoopN): helper lemmas for C20_sequential_names.
-/
import LithiumModel.TempDir
import Std.Data.String.ToNat

namespace TempDir

theorem dirName_inj {i j : Nat} (h : dirName i = dirName j) : i = j := by
  unfold dirName at h
  have h2 : toString i = toString j := by
    have := congrArg String.toList h
    simp only [String.toList_append] at this
    exact String.toList_inj.mp (List.append_cancel_left this)
  exact Nat.repr_injective h2

theorem filter_len_le {α} (l : List α) (p q : α → Bool) (hpq : ∀ x, p x = true → q x = true) :
    (l.filter p).length ≤ (l.filter q).length := by
  induction l with
  | nil => simp
  | cons a t ih =>
    by_cases hp : p a = true
    · simp [hp, hpq a hp, ih]
    · by_cases hq : q a = true
      · simp [hp, hq]; omega
      · simp [hp, hq, ih]

theorem filter_len_lt {α} (l : List α) (p q : α → Bool) (hpq : ∀ x, p x = true → q x = true)
    (a : α) (ha : a ∈ l) (hq : q a = true) (hp : p a = false) :
    (l.filter p).length < (l.filter q).length := by
  induction l with
  | nil => simp at ha
  | cons b t ih =>
    have hle := filter_len_le t p q hpq
    by_cases hab : a = b
    · subst hab
      simp [hp, hq]; omega
    · have hm : a ∈ t := by
        rcases List.mem_cons.mp ha with h | h
        · exact absurd h hab
        · exact h
      have := ih hm
      by_cases hpb : p b = true
      · simp [hpb, hpq b hpb]; omega
      · by_cases hqb : q b = true
        · simp [hpb, hqb]; omega
        · simp [hpb, hqb]; omega

/-- names not among tmp0 .. tmp(i-1) -/
def notSeen (i : Nat) (s : String) : Bool := !(((List.range i).map dirName).contains s)

theorem seqLoopN_spec (names : List String) (fuel i : Nat)
    (hfuel : (names.filter (notSeen i)).length < fuel) :
    ∃ n, seqLoopN names (fun _ => none) fuel i = .ok n ∧ i ≤ n ∧ ¬ names.contains (dirName n) ∧
      ∀ j, i ≤ j → j < n → names.contains (dirName j) := by
  induction fuel generalizing i with
  | zero => omega
  | succ f ih =>
    unfold seqLoopN
    simp only
    by_cases hc : names.contains (dirName i) = true
    · simp only [hc, if_true]
      have hmem : dirName i ∈ names := by simpa using hc
      have hlt := filter_len_lt names (notSeen (i + 1)) (notSeen i)
        (by
          intro x hx
          simp only [notSeen, Bool.not_eq_true', List.contains_eq_mem, List.mem_map, List.mem_range,
            decide_eq_false_iff_not, not_exists, not_and] at hx ⊢
          intro k hk
          exact hx k (by omega))
        (dirName i) hmem
        (by
          simp only [notSeen, Bool.not_eq_true', List.contains_eq_mem, List.mem_map, List.mem_range,
            decide_eq_false_iff_not, not_exists, not_and]
          intro k hk he
          have := dirName_inj he
          omega)
        (by
          simp only [notSeen, Bool.not_eq_false', List.contains_eq_mem, List.mem_map, List.mem_range,
            decide_eq_true_eq]
          exact ⟨i, by omega, rfl⟩)
      obtain ⟨n, h1, h2, h3, h4⟩ := ih (i + 1) (by omega)
      refine ⟨n, h1, by omega, h3, ?_⟩
      intro j hj1 hj2
      by_cases hje : j = i
      · subst hje; exact hc
      · exact h4 j (by omega) hj2
    · simp only [hc, Bool.false_eq_true, if_false]
      exact ⟨i, rfl, Nat.le_refl _, hc, fun j h1 h2 => by omega⟩

end TempDir
