/-
The symbol splitter's regex scanner cuts exactly at the documented boundaries (C15).
-/
import LithiumProofs.Load

namespace Load

/-- is there a cut between the neighbouring bytes `x y`? -/
def isCut (B A : List UInt8) (x y : UInt8) : Bool := A.contains x || B.contains y

/-- prepend a byte to the first piece -/
def consHead (c : UInt8) : List Bytes → List Bytes
  | [] => [[c]]
  | p :: ps => (c :: p) :: ps

/-- reference: cut the data at every position whose left neighbour is a cut-after byte or
whose right neighbour is a cut-before byte -/
def cutSpec (B A : List UInt8) : Bytes → List Bytes
  | [] => []
  | [c] => [[c]]
  | c :: c' :: rest =>
    if isCut B A c c' then [c] :: cutSpec B A (c' :: rest)
    else consHead c (cutSpec B A (c' :: rest))

def NoCut (B A : List UInt8) : Bytes → Prop
  | x :: y :: t => isCut B A x y = false ∧ NoCut B A (y :: t)
  | _ => True

def lastOr : UInt8 → Bytes → UInt8
  | d, [] => d
  | _, x :: t => lastOr x t

theorem lastOr_append_singleton (d : UInt8) (l : Bytes) (a : UInt8) : lastOr d (l ++ [a]) = a := by
  induction l generalizing d with
  | nil => rfl
  | cons x t ih => simp [lastOr, ih]

/-- a piece without inner cuts that is followed by a cut (or the end) is the first piece -/
theorem cutSpec_append (B A : List UInt8) (x : UInt8) (t rest : Bytes)
    (hno : NoCut B A (x :: t))
    (hb : rest = [] ∨ ∃ y ys, rest = y :: ys ∧ isCut B A (lastOr x t) y = true) :
    cutSpec B A ((x :: t) ++ rest) = (x :: t) :: cutSpec B A rest := by
  induction t generalizing x with
  | nil =>
    rcases hb with rfl | ⟨y, ys, rfl, hc⟩
    · simp [cutSpec]
    · simp only [lastOr] at hc
      simp [cutSpec, hc]
  | cons x' t ih =>
    obtain ⟨h1, h2⟩ := hno
    have := ih x' h2 (by simpa [lastOr] using hb)
    simp only [List.cons_append] at this ⊢
    simp only [cutSpec, h1, Bool.false_eq_true, if_false, this, consHead]

def Free (B A : List UInt8) (x : UInt8) : Prop := A.contains x = false ∧ B.contains x = false

theorem symRun_free (B A : List UInt8) (d : Bytes) :
    (∀ x ∈ (symRun B A d).1, Free B A x) ∧
      ((symRun B A d).2 = [] ∨
        ∃ y ys, (symRun B A d).2 = y :: ys ∧ (B.contains y || A.contains y) = true) := by
  induction d with
  | nil => simp [symRun]
  | cons c cs ih =>
    unfold symRun
    split
    · rename_i h
      exact ⟨by simp, Or.inr ⟨c, cs, rfl, h⟩⟩
    · rename_i h
      simp only [Bool.or_eq_true, not_or, Bool.not_eq_true] at h
      refine ⟨?_, ih.2⟩
      intro x hx
      simp only [List.mem_cons] at hx
      rcases hx with rfl | hx
      · exact ⟨h.2, h.1⟩
      · exact ih.1 x hx

/-- a run of free bytes, optionally followed by one cut-after byte that is not a cut-before
byte, has no inner cut -/
theorem noCut_run_post (B A : List UInt8) (r post : Bytes) (hr : ∀ x ∈ r, Free B A x)
    (hp : post = [] ∨ ∃ a, post = [a] ∧ B.contains a = false) : NoCut B A (r ++ post) := by
  induction r with
  | nil =>
    rcases hp with rfl | ⟨a, rfl, _⟩ <;> simp [NoCut]
  | cons x r' ih =>
    have ih' := ih (fun y hy => hr y (by simp [hy]))
    have hx := hr x (by simp)
    cases hrp : r' ++ post with
    | nil => simp [hrp, NoCut]
    | cons y ys =>
      simp only [List.cons_append, hrp, NoCut]
      rw [hrp] at ih'
      refine ⟨?_, ih'⟩
      simp only [isCut, hx.1, Bool.false_or]
      -- `y` is the next free byte or the closing cut-after byte
      cases r' with
      | nil =>
        simp only [List.nil_append] at hrp
        rcases hp with rfl | ⟨a, rfl, ha⟩
        · simp at hrp
        · simp only [List.cons.injEq] at hrp
          rw [← hrp.1]; exact ha
      | cons z zs =>
        simp only [List.cons_append, List.cons.injEq] at hrp
        rw [← hrp.1]
        exact (hr z (by simp)).2

theorem noCut_cons (B A : List UInt8) (c : UInt8) (l : Bytes) (hc : A.contains c = false)
    (hl : NoCut B A l) (hh : ∀ y ys, l = y :: ys → B.contains y = false) : NoCut B A (c :: l) := by
  cases l with
  | nil => simp [NoCut]
  | cons y ys =>
    refine ⟨?_, hl⟩
    show (A.contains c || B.contains y) = false
    rw [hc, hh y ys rfl]; rfl

/-- the first match on a non-empty input is the first piece of the reference cutting -/
theorem symTok_cutSpec (B A : List UInt8)
    (hdisj : ∀ c, ¬ (B.contains c = true ∧ A.contains c = true)) (c : UInt8) (cs : Bytes) :
    cutSpec B A (c :: cs) = (symTok B A (c :: cs)).1 :: cutSpec B A (symTok B A (c :: cs)).2 := by
  have hBA : ∀ x, B.contains x = true → A.contains x = false := by
    intro x hx
    cases h : A.contains x with
    | false => rfl
    | true => exact absurd ⟨hx, h⟩ (hdisj x)
  have hAB : ∀ x, A.contains x = true → B.contains x = false := by
    intro x hx
    cases h : B.contains x with
    | false => rfl
    | true => exact absurd ⟨h, hx⟩ (hdisj x)
  -- generic closing step for a token `pre ++ run (++ [a])`
  have close : ∀ (pre : Bytes) (d1 : Bytes),
      (pre = [] ∨ ∃ b, pre = [b] ∧ A.contains b = false) → pre ++ d1 = c :: cs →
      (pre = [] → ∃ x xs, d1 = x :: xs ∧ B.contains x = false) →
      cutSpec B A (c :: cs) =
        (symClose A pre (symRun B A d1)).1 :: cutSpec B A (symClose A pre (symRun B A d1)).2 := by
    intro pre d1 hpre hcat hpre0
    unfold symClose
    obtain ⟨hfree, hstop⟩ := symRun_free B A d1
    have happ := symRun_append B A d1
    -- the token is non-empty
    have tok_ne : ∀ post : Bytes, pre ++ (symRun B A d1).1 ++ post = [] → post = [] →
        (symRun B A d1).2 ≠ [] → ∃ y ys, (symRun B A d1).2 = y :: ys ∧ B.contains y = false := by
      intro post h0 _ _
      simp only [List.append_eq_nil_iff] at h0
      obtain ⟨⟨hp0, hr0⟩, _⟩ := h0
      obtain ⟨x, xs, hd1, hx⟩ := hpre0 hp0
      rw [hr0] at happ
      simp only [List.nil_append] at happ
      exact ⟨x, xs, by rw [happ, hd1], hx⟩
    cases h2 : (symRun B A d1).2 with
    | nil =>
      rw [h2] at happ
      simp only [List.append_nil] at happ
      simp only
      have hwhole : pre ++ (symRun B A d1).1 = c :: cs := by rw [happ]; exact hcat
      have hnc : NoCut B A (pre ++ (symRun B A d1).1) := by
        have hr := noCut_run_post B A (symRun B A d1).1 [] hfree (Or.inl rfl)
        simp only [List.append_nil] at hr
        rcases hpre with rfl | ⟨b, rfl, hb⟩
        · simpa using hr
        · show NoCut B A (b :: (symRun B A d1).1)
          exact noCut_cons B A b _ hb hr (fun y ys hy => (hfree y (by rw [hy]; simp)).2)
      rw [hwhole] at hnc ⊢
      have := cutSpec_append B A c cs [] hnc (Or.inl rfl)
      simpa [cutSpec] using this
    | cons y ys =>
      rw [h2] at happ
      rcases hstop with hnil | ⟨y', ys', hy', hdel⟩
      · rw [h2] at hnil; simp at hnil
      · rw [h2] at hy'
        simp only [List.cons.injEq] at hy'
        obtain ⟨rfl, rfl⟩ := hy'
        simp only
        by_cases hA : A.contains y = true
        · -- the match ends with the cut-after byte `y`
          simp only [hA, if_true]
          have hyB := hAB y hA
          have hnc : NoCut B A (pre ++ (symRun B A d1).1 ++ [y]) := by
            have hr := noCut_run_post B A (symRun B A d1).1 [y] hfree (Or.inr ⟨y, rfl, hyB⟩)
            rcases hpre with rfl | ⟨b, rfl, hb⟩
            · simpa using hr
            · have := noCut_cons B A b _ hb hr (by
                intro z zs hz
                cases hrr : (symRun B A d1).1 with
                | nil => rw [hrr] at hz; simp at hz; rw [← hz.1]; exact hyB
                | cons w ws =>
                  rw [hrr] at hz; simp at hz
                  rw [← hz.1]; exact (hfree w (by rw [hrr]; simp)).2)
              simpa using this
          have hwhole : (pre ++ (symRun B A d1).1 ++ [y]) ++ ys = c :: cs := by
            have : pre ++ ((symRun B A d1).1 ++ y :: ys) = pre ++ d1 := by rw [happ]
            simpa [List.append_assoc] using this.trans hcat
          cases htok : pre ++ (symRun B A d1).1 ++ [y] with
          | nil => simp at htok
          | cons t0 ts =>
            rw [htok] at hnc hwhole
            have hlast : lastOr t0 ts = y := by
              have : lastOr 0 (t0 :: ts) = y := by rw [← htok]; exact lastOr_append_singleton _ _ _
              simpa [lastOr] using this
            have hb : ys = [] ∨ ∃ z zs, ys = z :: zs ∧ isCut B A (lastOr t0 ts) z = true := by
              cases ys with
              | nil => exact Or.inl rfl
              | cons z zs =>
                refine Or.inr ⟨z, zs, rfl, ?_⟩
                show (A.contains (lastOr t0 ts) || B.contains z) = true
                rw [hlast, hA]; rfl
            have := cutSpec_append B A t0 ts ys hnc hb
            rw [hwhole] at this
            exact this
        · -- the match stops before the cut-before byte `y`
          have hA' : A.contains y = false := by simpa using hA
          simp only [hA', Bool.false_eq_true, if_false]
          have hyB : B.contains y = true := by
            rw [hA', Bool.or_false] at hdel; exact hdel
          have hnc : NoCut B A (pre ++ (symRun B A d1).1) := by
            have hr := noCut_run_post B A (symRun B A d1).1 [] hfree (Or.inl rfl)
            simp only [List.append_nil] at hr
            rcases hpre with rfl | ⟨b, rfl, hb⟩
            · simpa using hr
            · show NoCut B A (b :: (symRun B A d1).1)
              exact noCut_cons B A b _ hb hr (fun z zs hz => (hfree z (by rw [hz]; simp)).2)
          have hwhole : (pre ++ (symRun B A d1).1) ++ (y :: ys) = c :: cs := by
            have : pre ++ ((symRun B A d1).1 ++ y :: ys) = pre ++ d1 := by rw [happ]
            simpa [List.append_assoc] using this.trans hcat
          cases htok : pre ++ (symRun B A d1).1 with
          | nil =>
            -- impossible: then `y` is the first byte, not in B by `hpre0`
            obtain ⟨z, zs, hz, hzB⟩ := tok_ne [] (by simpa using htok) rfl (by rw [h2]; simp)
            rw [h2] at hz
            simp only [List.cons.injEq] at hz
            rw [← hz.1] at hzB
            rw [hzB] at hyB
            exact absurd hyB (by simp)
          | cons t0 ts =>
            rw [htok] at hnc hwhole
            have hb : (y :: ys) = [] ∨ ∃ z zs, (y :: ys) = z :: zs ∧ isCut B A (lastOr t0 ts) z = true :=
              Or.inr ⟨y, ys, rfl, by
                show (A.contains (lastOr t0 ts) || B.contains y) = true
                rw [hyB, Bool.or_true]⟩
            have := cutSpec_append B A t0 ts (y :: ys) hnc hb
            rw [hwhole] at this
            exact this
  unfold symTok
  by_cases hB : B.contains c = true
  · simp only [hB, if_true]
    exact close [c] cs (Or.inr ⟨c, rfl, hBA c hB⟩) rfl (by simp)
  · have hB' : B.contains c = false := by simpa using hB
    simp only [hB', Bool.false_eq_true, if_false]
    have := close [] (c :: cs) (Or.inl rfl) rfl (fun _ => ⟨c, cs, rfl, hB'⟩)
    simpa using this

theorem symSplit_eq_cutSpec (B A : List UInt8)
    (hdisj : ∀ c, ¬ (B.contains c = true ∧ A.contains c = true)) (fuel : Nat) (d : Bytes)
    (h : d.length < fuel) : symSplit B A fuel d = cutSpec B A d := by
  induction fuel generalizing d with
  | zero => omega
  | succ n ih =>
    cases d with
    | nil => simp [symSplit, cutSpec]
    | cons c cs =>
      obtain ⟨h1, h2⟩ := symTok_spec B A c cs
      have hlen : (symTok B A (c :: cs)).2.length < n := by
        have : ((symTok B A (c :: cs)).1 ++ (symTok B A (c :: cs)).2).length = (c :: cs).length := by
          rw [h1]
        simp only [List.length_append, List.length_cons] at this h
        have : 0 < (symTok B A (c :: cs)).1.length := List.length_pos_iff.mpr h2
        omega
      have hne : (symTok B A (c :: cs)).1.isEmpty = false := by
        cases h3 : (symTok B A (c :: cs)).1 with
        | nil => exact absurd h3 h2
        | cons _ _ => rfl
      simp only [symSplit, hne, Bool.false_eq_true, if_false, ih _ hlen]
      exact (symTok_cutSpec B A hdisj c cs).symm

end Load
