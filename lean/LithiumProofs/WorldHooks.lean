/-
Hook order (C02) for a Lithium object in ANY prior state: trace invariant relative to where the run started.
-/
import LithiumProofs.WorldStatus

namespace World

/-- the hook/test trace relative to where THIS run started: `pre` = the trace before, `k` = log length before -/
structure TrInv (pre : List Hook) (k : Nat) (w : W) : Prop where
  le : k ≤ w.tests.length
  tr : w.trace = pre ++ Hook.init :: (w.tests.drop k).map (fun r => Hook.test r.idx)

theorem tr_test (pre : List Hook) (k : Nat) (w : W) (c : Testcase) (wr : Bool) (out : Outcome) (h : TrInv pre k w) :
    TrInv pre k (interesting w c wr out).1 := by
  obtain ⟨ht, htr, -⟩ := interesting_fields w c wr out
  refine ⟨?_, ?_⟩
  · rw [ht]; simp; have := h.le; omega
  · rw [htr, ht, drop_snoc _ _ _ h.le, h.tr]; simp

theorem tr_step (pre : List Hook) (k : Nat) (w w' : W) (e : Ev) (h : TrInv pre k w) (s : StepShape w e w') : TrInv pre k w' := by
  cases s with
  | write b => exact ⟨h.le, h.tr⟩
  | err => exact ⟨h.le, h.tr⟩
  | skip c out _ => exact h
  | raise c hc =>
    have := tr_test pre k { w with tried := c.content :: w.tried } c true .raise ⟨h.le, h.tr⟩
    exact ⟨this.le, this.tr⟩
  | accept c hc =>
    have := tr_test pre k { w with tried := c.content :: w.tried } c true .accept ⟨h.le, h.tr⟩
    exact ⟨this.le, this.tr⟩
  | reject c hc =>
    exact tr_test pre k { w with tried := c.content :: w.tried } c true .reject ⟨h.le, h.tr⟩

theorem tr_loop (pre : List Hook) (k : Nat) (w : W) (evs : List Ev) (h : TrInv pre k w) : TrInv pre k (loop w evs) :=
  loop_induction (TrInv pre k) (fun w e hw _ => tr_step pre k w _ e hw (stepEv_shape w e)) w evs h

theorem tr_start (w0 : W) : TrInv w0.trace w0.tests.length (dumpOriginal (beginRun w0)) := by
  refine ⟨Nat.le_refl _, ?_⟩
  show w0.trace ++ [Hook.init] = w0.trace ++ Hook.init :: (w0.tests.drop w0.tests.length).map _
  simp

/-- init once before, cleanup once after the tests of THIS run — for an object in any prior state, however the run ends -/
theorem hooks_any_history (w0 : W) (evs : List Ev) (first : Outcome) :
    (runMainW w0 evs first).trace = w0.trace ++ Hook.init ::
      ((runMainW w0 evs first).tests.drop w0.tests.length).map (fun r => Hook.test r.idx) ++ [Hook.cleanup] := by
  have hs := tr_start w0
  by_cases hl : (dumpOriginal (beginRun w0)).testcase.len = 0
  · have hrun : runMainW w0 evs first = finish { dumpOriginal (beginRun w0) with exit := .returned 0 } := by
      simp only [runMainW, if_pos hl]
    obtain ⟨ht, -, -, -, htr, -⟩ := finish_fields { dumpOriginal (beginRun w0) with exit := .returned 0 }
    rw [hrun, htr, ht]
    show (dumpOriginal (beginRun w0)).trace ++ [Hook.cleanup] = _
    rw [hs.tr]
  · have h1 := tr_test w0.trace w0.tests.length (dumpOriginal (beginRun w0)) (dumpOriginal (beginRun w0)).testcase false first hs
    cases first with
    | raise =>
      have hrun : runMainW w0 evs .raise = finish { (interesting (dumpOriginal (beginRun w0)) (dumpOriginal (beginRun w0)).testcase false .raise).1 with exit := .raised } := by
        simp only [runMainW, if_neg hl]; rfl
      obtain ⟨ht, -, -, -, htr, -⟩ := finish_fields { (interesting (dumpOriginal (beginRun w0)) (dumpOriginal (beginRun w0)).testcase false .raise).1 with exit := .raised }
      rw [hrun, htr, ht]
      show (interesting (dumpOriginal (beginRun w0)) (dumpOriginal (beginRun w0)).testcase false .raise).1.trace ++ [Hook.cleanup] =
        w0.trace ++ Hook.init :: ((interesting (dumpOriginal (beginRun w0)) (dumpOriginal (beginRun w0)).testcase false .raise).1.tests.drop w0.tests.length).map _ ++ [Hook.cleanup]
      rw [h1.tr]
    | reject =>
      have hrun : runMainW w0 evs .reject = finish { (interesting (dumpOriginal (beginRun w0)) (dumpOriginal (beginRun w0)).testcase false .reject).1 with exit := .returned 1 } := by
        simp only [runMainW, if_neg hl]; rfl
      obtain ⟨ht, -, -, -, htr, -⟩ := finish_fields { (interesting (dumpOriginal (beginRun w0)) (dumpOriginal (beginRun w0)).testcase false .reject).1 with exit := .returned 1 }
      rw [hrun, htr, ht]
      show (interesting (dumpOriginal (beginRun w0)) (dumpOriginal (beginRun w0)).testcase false .reject).1.trace ++ [Hook.cleanup] =
        w0.trace ++ Hook.init :: ((interesting (dumpOriginal (beginRun w0)) (dumpOriginal (beginRun w0)).testcase false .reject).1.tests.drop w0.tests.length).map _ ++ [Hook.cleanup]
      rw [h1.tr]
    | accept =>
      have hrun : runMainW w0 evs .accept = afterLoop (loop (interesting (dumpOriginal (beginRun w0)) (dumpOriginal (beginRun w0)).testcase false .accept).1 evs) := by
        simp only [runMainW, if_neg hl]; rfl
      have hlp := tr_loop _ _ _ evs h1
      obtain ⟨at1, -, at3, -, -⟩ := afterLoop_fields (loop (interesting (dumpOriginal (beginRun w0)) (dumpOriginal (beginRun w0)).testcase false .accept).1 evs)
      rw [hrun, at3, at1, hlp.tr]

end World
