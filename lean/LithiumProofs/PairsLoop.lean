/-
Generic reasoning principles for the pass loop `pLoop` and the outer loop `pairsOuter` shared by
minimize-around and minimize-balanced.
-/
import LithiumModel.Pairs
import LithiumProofs.Minimize

namespace Strat
open Testcase

/-- Invariant rule for one pass, with the reason of every exit available.  `P` holds at the top of
every iteration, `Q` of every way the pass can end: the guard fails, the deadline passed, a
`ValueError` exit after a skip or after a proposal, a failed `assert`, and — for the executable
model only — running out of fuel. -/
theorem pLoop_induct_exits {σ : Type} (pd : PassDef σ) (o : Oracle) (clk : Clock) (stopAt : Option Nat)
    (P : σ → It → Bool → Prop) (Q : It → Bool → Prop)
    (hguard : ∀ st it any, P st it any → pd.guard st it = false → Q it any)
    (hdead : ∀ st it any, P st it any → pd.guard st it = true → deadlinePassed stopAt clk it = true → Q it any)
    (hfuel : ∀ st it any, P st it any → Q { it with outOfFuel := true } any)
    (hfail : ∀ st it any, P st it any → pd.guard st it = true → pd.act st it = .fail →
      Q { it with internalError := true } any)
    (hskip : ∀ st it any, P st it any → pd.guard st it = true → deadlinePassed stopAt clk it = false →
      pd.act st it = .skip →
      (pd.next st it none = none → Q it any) ∧ ∀ st', pd.next st it none = some st' → P st' it any)
    (htry : ∀ st it any c mk, P st it any → pd.guard st it = true → deadlinePassed stopAt clk it = false →
      pd.act st it = .propose c mk →
      (pd.next st it (some (it.try o c mk).1) = none →
        Q (it.try o c mk).2 (any || ((it.try o c mk).1 == .accepted))) ∧
      ∀ st', pd.next st it (some (it.try o c mk).1) = some st' →
        P st' (it.try o c mk).2 (any || ((it.try o c mk).1 == .accepted))) :
    ∀ (fuel : Nat) (st : σ) (it : It) (any : Bool), P st it any →
      Q (pLoop pd o clk stopAt fuel st it any).1 (pLoop pd o clk stopAt fuel st it any).2 := by
  intro fuel
  induction fuel with
  | zero => intro st it any h; exact hfuel st it any h
  | succ f ih =>
    intro st it any h
    unfold pLoop
    by_cases hg : pd.guard st it = true
    · simp only [hg, Bool.not_true, Bool.false_eq_true, if_false]
      by_cases hd : deadlinePassed stopAt clk it = true
      · simp only [hd, if_true]; exact hdead st it any h hg hd
      · have hd' : deadlinePassed stopAt clk it = false := by simpa using hd
        simp only [hd', Bool.false_eq_true, if_false]
        cases hact : pd.act st it with
        | fail => exact hfail st it any h hg hact
        | skip =>
          simp only
          obtain ⟨s1, s2⟩ := hskip st it any h hg hd' hact
          cases hn : pd.next st it none with
          | none => exact s1 hn
          | some st' => exact ih st' it any (s2 st' hn)
        | propose c mk =>
          simp only
          obtain ⟨t1, t2⟩ := htry st it any c mk h hg hd' hact
          cases hn : pd.next st it (some (it.try o c mk).1) with
          | none => exact t1 hn
          | some st' => exact ih st' _ _ (t2 st' hn)
    · have hg' : pd.guard st it = false := by simpa using hg
      simp only [hg', Bool.not_false, if_true]
      exact hguard st it any h hg'

/-- Invariant rule for one pass (exits not distinguished). -/
theorem pLoop_induct {σ : Type} (pd : PassDef σ) (o : Oracle) (clk : Clock) (stopAt : Option Nat)
    (P : σ → It → Bool → Prop) (Q : It → Bool → Prop)
    (hQ : ∀ st it any, P st it any → Q it any)
    (hfuel : ∀ st it any, P st it any → Q { it with outOfFuel := true } any)
    (hfail : ∀ st it any, P st it any → pd.guard st it = true → pd.act st it = .fail →
      Q { it with internalError := true } any)
    (hskip : ∀ st it any st', P st it any → pd.guard st it = true → deadlinePassed stopAt clk it = false →
      pd.act st it = .skip → pd.next st it none = some st' → P st' it any)
    (htry : ∀ st it any c mk, P st it any → pd.guard st it = true → deadlinePassed stopAt clk it = false →
      pd.act st it = .propose c mk →
      Q (it.try o c mk).2 (any || ((it.try o c mk).1 == .accepted)) ∧
      ∀ st', pd.next st it (some (it.try o c mk).1) = some st' →
        P st' (it.try o c mk).2 (any || ((it.try o c mk).1 == .accepted))) :
    ∀ (fuel : Nat) (st : σ) (it : It) (any : Bool), P st it any →
      Q (pLoop pd o clk stopAt fuel st it any).1 (pLoop pd o clk stopAt fuel st it any).2 :=
  pLoop_induct_exits pd o clk stopAt P Q (fun st it any h _ => hQ st it any h) (fun st it any h _ _ => hQ st it any h)
    hfuel hfail
    (fun st it any h hg hd ha => ⟨fun _ => hQ st it any h, fun st' hn => hskip st it any st' h hg hd ha hn⟩)
    (fun st it any c mk h hg hd ha =>
      have k := htry st it any c mk h hg hd ha
      ⟨fun _ => k.1, k.2⟩)

/-- Fuel and test-count rule for one pass: when a state invariant `I` is kept by `next`, rules out
a failing `assert`, and a measure `mu` strictly decreases with every `next`, then `mu + 1` units of
fuel are enough, no flag is raised, and the pass runs at most `mu + 1` tests. -/
theorem pLoop_bound {σ : Type} (pd : PassDef σ) (o : Oracle) (clk : Clock) (stopAt : Option Nat)
    (I : σ → Prop) (mu : σ → Nat)
    (hnext : ∀ st it r st', I st → pd.next st it r = some st' → I st' ∧ mu st' < mu st)
    (hnofail : ∀ st it, I st → pd.guard st it = true → pd.act st it ≠ .fail) :
    ∀ (fuel : Nat) (st : σ) (it : It) (any : Bool), I st → mu st < fuel →
      (pLoop pd o clk stopAt fuel st it any).1.outOfFuel = it.outOfFuel ∧
      (pLoop pd o clk stopAt fuel st it any).1.internalError = it.internalError ∧
      (pLoop pd o clk stopAt fuel st it any).1.deadlineStop = it.deadlineStop ∧
      (pLoop pd o clk stopAt fuel st it any).1.nTests ≤ it.nTests + mu st + 1 := by
  intro fuel
  induction fuel with
  | zero => intro st it any _ h; omega
  | succ f ih =>
    intro st it any hI hmu
    unfold pLoop
    by_cases hg : pd.guard st it = true
    · simp only [hg, Bool.not_true, Bool.false_eq_true, if_false]
      by_cases hd : deadlinePassed stopAt clk it = true
      · simp only [hd, if_true]; exact ⟨trivial, trivial, trivial, by omega⟩
      · have hd' : deadlinePassed stopAt clk it = false := by simpa using hd
        simp only [hd', Bool.false_eq_true, if_false]
        cases hact : pd.act st it with
        | fail => exact absurd hact (hnofail st it hI hg)
        | skip =>
          simp only
          cases hn : pd.next st it none with
          | none => exact ⟨rfl, rfl, rfl, by dsimp only; omega⟩
          | some st' =>
            dsimp only
            obtain ⟨i1, i2⟩ := hnext st it none st' hI hn
            obtain ⟨b1, b2, b3, b4⟩ := ih st' it any i1 (by omega)
            exact ⟨b1, b2, b3, by omega⟩
        | propose c mk =>
          simp only
          obtain ⟨f1, f2, f3, -⟩ := try_flags it o c mk
          have hnt : (it.try o c mk).2.nTests ≤ it.nTests + 1 := by
            rcases try_spec it o c mk with ⟨-, -, -, e, -⟩ | ⟨-, -, -, -, e, -⟩ | ⟨-, -, -, -, e, -⟩ <;> omega
          cases hn : pd.next st it (some (it.try o c mk).1) with
          | none => exact ⟨f1, f2, f3, by dsimp only; omega⟩
          | some st' =>
            dsimp only
            obtain ⟨i1, i2⟩ := hnext st it _ st' hI hn
            obtain ⟨b1, b2, b3, b4⟩ := ih st' (it.try o c mk).2 (any || ((it.try o c mk).1 == .accepted)) i1 (by omega)
            exact ⟨by rw [b1, f1], by rw [b2, f2], by rw [b3, f3], by omega⟩
    · have hg' : pd.guard st it = false := by simpa using hg
      simp only [hg', Bool.not_false, if_true]
      exact ⟨trivial, trivial, trivial, by omega⟩

/-- Invariant rule for the outer loop (`MinimizeSurroundingPairs.reduce`). -/
theorem pairsOuter_induct (cfg : Cfg) (clk : Clock) (stopAt : Option Nat)
    (pass : Nat → It → It × Bool) (final : Nat) (P : Nat → It → Prop) (Q : It → Prop)
    (hfuel : ∀ cs it, P cs it → Q { it with outOfFuel := true })
    (hbad : ∀ cs it, P cs it → ((pass cs it).1.outOfFuel || (pass cs it).1.internalError) = true → Q (pass cs it).1)
    (hdead : ∀ cs it, P cs it → deadlinePassed stopAt clk (pass cs it).1 = true →
      Q { (pass cs it).1 with deadlineStop := true })
    (hend : ∀ cs it, P cs it → ((pass cs it).1.outOfFuel || (pass cs it).1.internalError) = false →
      deadlinePassed stopAt clk (pass cs it).1 = false → cs ≤ final →
      ((pass cs it).2 && (cfg.rep == .always || (cfg.rep == .last && decide (cs ≤ final)))) = false → Q (pass cs it).1)
    (hrepeat : ∀ cs it, P cs it → ((pass cs it).1.outOfFuel || (pass cs it).1.internalError) = false →
      (pass cs it).2 = true → P cs (pass cs it).1)
    (hhalve : ∀ cs it, P cs it → ((pass cs it).1.outOfFuel || (pass cs it).1.internalError) = false →
      ¬ cs ≤ final → P (cs / 2) (pass cs it).1) :
    ∀ (fuel cs : Nat) (it : It), P cs it → Q (pairsOuter cfg clk stopAt pass final fuel cs it) := by
  intro fuel
  induction fuel with
  | zero => intro cs it h; exact hfuel cs it h
  | succ f ih =>
    intro cs it h
    unfold pairsOuter
    simp only
    by_cases hflag : ((pass cs it).1.outOfFuel || (pass cs it).1.internalError) = true
    · rw [if_pos hflag]; exact hbad cs it h hflag
    · have hflag' : ((pass cs it).1.outOfFuel || (pass cs it).1.internalError) = false := by simpa using hflag
      rw [if_neg hflag]
      by_cases hd : deadlinePassed stopAt clk (pass cs it).1 = true
      · rw [if_pos hd]; exact hdead cs it h hd
      · have hd' : deadlinePassed stopAt clk (pass cs it).1 = false := by simpa using hd
        rw [if_neg hd]
        by_cases hr : ((pass cs it).2 && (cfg.rep == .always || (cfg.rep == .last && decide (cs ≤ final)))) = true
        · rw [if_pos hr]
          have : (pass cs it).2 = true := by
            cases hp : (pass cs it).2 with
            | true => rfl
            | false => rw [hp] at hr; simp at hr
          exact ih cs _ (hrepeat cs it h hflag' this)
        · have hr' : ((pass cs it).2 && (cfg.rep == .always || (cfg.rep == .last && decide (cs ≤ final)))) = false := by
            simpa using hr
          rw [if_neg hr]
          by_cases hl : cs ≤ final
          · rw [if_pos (by simpa using hl)]; exact hend cs it h hflag' hd' hl hr'
          · rw [if_neg (by simpa using hl)]; exact ih (cs / 2) _ (hhalve cs it h hflag' hl)

end Strat
