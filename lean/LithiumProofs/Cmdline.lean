/-
Tail isolation for the command-line model (C17).
-/
import LithiumModel.Cmdline

namespace Cmdline

abbrev dd : Tok := ['-', '-']

/-- the outcome of the loop on a block of tokens does not depend on what follows the block -/
def Local (t : Table) (ws : List Tok) : Prop :=
  ∀ p, (∃ p', ∀ rest, parseLoop t (ws ++ rest) p = parseLoop t rest p') ∨
       (∃ e q, ∀ rest, parseLoop t (ws ++ rest) p = .error e q)

/-- does this token start a two-token option (`--opt value`)? -/
def needsValue (t : Table) (s : Tok) : Prop :=
  ∃ o n, classify t s = .opt o n none ∧ (o.nargs == 0) = false

/-- any single token that is an option of some kind (known with attached value, flag, cluster,
unknown, ambiguous) is handled without looking at the following tokens -/
theorem local_single (t : Table) (s : Tok) (h1 : s ≠ dd) (h2 : ∀ o n, classify t s = .opt o n none → (o.nargs == 0) = true)
    (h3 : ¬ (∃ _h : True, match classify t s with | .arg => True | _ => False)) : Local t [s] := by
  intro p
  have hdd : (s == ['-', '-']) = false := by
    cases hb : (s == ['-', '-']) with
    | false => rfl
    | true => exact absurd (by simpa using hb) h1
  cases hc : classify t s with
  | arg => exact absurd ⟨trivial, by rw [hc]; trivial⟩ h3
  | ambiguous =>
    right
    refine ⟨"ambiguous option", p, fun rest => ?_⟩
    simp only [List.singleton_append, parseLoop, hdd, Bool.false_eq_true, if_false, hc]
  | unknown =>
    left
    refine ⟨{ p with extras := p.extras ++ [s] }, fun rest => ?_⟩
    simp only [List.singleton_append, parseLoop, hdd, Bool.false_eq_true, if_false, hc]
  | opt o n ex =>
    cases ex with
    | some ex =>
      by_cases hn : (o.nargs == 1) = true
      · cases hv : checkValue o ex with
        | some e =>
          right
          refine ⟨e, p, fun rest => ?_⟩
          simp only [List.singleton_append, parseLoop, hdd, Bool.false_eq_true, if_false, hc, hn, if_true, hv]
        | none =>
          cases ht : take p o [(o.dest, ex)] with
          | ok p' =>
            left
            refine ⟨p', fun rest => ?_⟩
            simp only [List.singleton_append, parseLoop, hdd, Bool.false_eq_true, if_false, hc, hn, if_true, hv, ht]
          | error e =>
            right
            refine ⟨e, p, fun rest => ?_⟩
            simp only [List.singleton_append, parseLoop, hdd, Bool.false_eq_true, if_false, hc, hn, if_true, hv, ht]
      · by_cases hcl : ((n.getD 1 '-') != '-' && !ex.isEmpty) = true
        · cases hco : clusterOpts t (ex.length + 2) o ex [] with
          | error e =>
            right
            refine ⟨e, p, fun rest => ?_⟩
            simp only [List.singleton_append, parseLoop, hdd, Bool.false_eq_true, if_false, hc, hn, hcl, if_true, hco]
          | ok os =>
            cases hf : os.foldl (fun (acc : Except String Parsed) o' => Except.bind acc (fun q => take q o' [(o'.dest, o'.const)])) (Except.ok p) with
            | ok p' =>
              left
              refine ⟨p', fun rest => ?_⟩
              simp only [List.singleton_append, parseLoop, hdd, Bool.false_eq_true, if_false, hc, hn, hcl, if_true, hco, hf]
            | error e =>
              right
              refine ⟨e, p, fun rest => ?_⟩
              simp only [List.singleton_append, parseLoop, hdd, Bool.false_eq_true, if_false, hc, hn, hcl, if_true, hco, hf]
        · right
          refine ⟨"ignored explicit argument", p, fun rest => ?_⟩
          simp only [List.singleton_append, parseLoop, hdd, Bool.false_eq_true, if_false, hc, hn, hcl]
    | none =>
      have h0 := h2 o n hc
      cases ht : take p o [(o.dest, o.const)] with
      | ok p' =>
        left
        refine ⟨p', fun rest => ?_⟩
        simp only [List.singleton_append, parseLoop, hdd, Bool.false_eq_true, if_false, hc, h0, if_true, ht]
      | error e =>
        right
        refine ⟨e, p, fun rest => ?_⟩
        simp only [List.singleton_append, parseLoop, hdd, Bool.false_eq_true, if_false, hc, h0, if_true, ht]

/-- an option that takes one argument, given as two tokens: the outcome depends on those two only -/
theorem local_pair (t : Table) (s v : Tok) (h1 : s ≠ dd) (o : Opt) (n : Tok) (hc : classify t s = .opt o n none)
    (hn : (o.nargs == 0) = false) : Local t [s, v] := by
  intro p
  have hdd : (s == ['-', '-']) = false := by
    cases hb : (s == ['-', '-']) with
    | false => rfl
    | true => exact absurd (by simpa using hb) h1
  by_cases hv : (v == ['-', '-']) = true
  · right
    refine ⟨"expected one argument", p, fun rest => ?_⟩
    simp only [List.cons_append, List.nil_append, parseLoop, hdd, Bool.false_eq_true, if_false, hc, hn, hv, if_true]
  · cases hcv : classify t v with
    | arg =>
      cases hch : checkValue o v with
      | some e =>
        right
        refine ⟨e, p, fun rest => ?_⟩
        simp only [List.cons_append, List.nil_append, parseLoop, hdd, Bool.false_eq_true, if_false, hc, hn, hv, hcv, hch]
      | none =>
        cases ht : take p o [(o.dest, v)] with
        | ok p' =>
          left
          refine ⟨p', fun rest => ?_⟩
          simp only [List.cons_append, List.nil_append, parseLoop, hdd, Bool.false_eq_true, if_false, hc, hn, hv, hcv, hch, ht]
        | error e =>
          right
          refine ⟨e, p, fun rest => ?_⟩
          simp only [List.cons_append, List.nil_append, parseLoop, hdd, Bool.false_eq_true, if_false, hc, hn, hv, hcv, hch, ht]
    | ambiguous =>
      right
      refine ⟨"ambiguous option", p, fun rest => ?_⟩
      simp only [List.cons_append, List.nil_append, parseLoop, hdd, Bool.false_eq_true, if_false, hc, hn, hv, hcv]
    | unknown =>
      right
      refine ⟨"expected one argument", p, fun rest => ?_⟩
      simp only [List.cons_append, List.nil_append, parseLoop, hdd, Bool.false_eq_true, if_false, hc, hn, hv, hcv]
    | opt o2 n2 e2 =>
      right
      refine ⟨"expected one argument", p, fun rest => ?_⟩
      simp only [List.cons_append, List.nil_append, parseLoop, hdd, Bool.false_eq_true, if_false, hc, hn, hv, hcv]

/-- blocks compose, and the first non-option token hands everything from there on to the
REMAINDER positional, verbatim -/
theorem tail_isolation (t : Table) (pre : List (List Tok)) (hpre : ∀ b ∈ pre, Local t b) (name : Tok)
    (hname : ∃ _h : True, match classify t name with | .arg => True | _ => False) (p0 : Parsed) :
    (∃ p' : Parsed, ∀ tail, parseLoop t (pre.flatten ++ name :: tail) p0 = .ok { p' with remainder := name :: tail }) ∨
    (∃ e q, ∀ tail, parseLoop t (pre.flatten ++ name :: tail) p0 = .error e q) := by
  induction pre generalizing p0 with
  | nil =>
    left
    refine ⟨p0, fun tail => ?_⟩
    simp only [List.flatten_nil, List.nil_append]
    unfold parseLoop
    by_cases hd : (name == ['-', '-']) = true
    · simp only [hd, if_true]
    · simp only [hd, Bool.false_eq_true, if_false]
      obtain ⟨-, h⟩ := hname
      cases hc : classify t name with
      | arg => rfl
      | opt _ _ _ => rw [hc] at h; exact absurd h (by simp)
      | unknown => rw [hc] at h; exact absurd h (by simp)
      | ambiguous => rw [hc] at h; exact absurd h (by simp)
  | cons b bs ih =>
    have hb := hpre b (by simp)
    have hbs : ∀ b' ∈ bs, Local t b' := fun b' h' => hpre b' (by simp [h'])
    rcases hb p0 with ⟨p1, h1⟩ | ⟨e, q, h1⟩
    · rcases ih hbs p1 with ⟨p', h2⟩ | ⟨e, q, h2⟩
      · left
        refine ⟨p', fun tail => ?_⟩
        simp only [List.flatten_cons, List.append_assoc]
        rw [h1]; exact h2 tail
      · right
        refine ⟨e, q, fun tail => ?_⟩
        simp only [List.flatten_cons, List.append_assoc]
        rw [h1]; exact h2 tail
    · right
      refine ⟨e, q, fun tail => ?_⟩
      simp only [List.flatten_cons, List.append_assoc]
      exact h1 _

end Cmdline
