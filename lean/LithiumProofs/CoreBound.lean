/-
The number of tests of minimize under a monotone test with a unique minimal core (C10).
Part 1: what one candidate does (accepted / not accepted), and testcases whose parts are all
reducible (deleting the range `[s, e)` of atoms is `parts.take s ++ parts.drop e`).
-/
import LithiumProofs.MinimizeMin
import LithiumProofs.Core

namespace Strat
open Testcase

/-! ### one candidate -/

/-- the block `[s, e)` of the candidate built in state `st` -/
def blockStart (st : MinSt) : Int := max 0 (st.chunkEnd - st.chunkSize)

def stepBack (st : MinSt) : Int := if st.chunkSize ≤ 2 then 1 else (st.chunkSize : Int)

/-- Under a deterministic test and the tried-invariant of `OneInv`, a candidate is either accepted
(one test; it becomes the best and the sweep continues below it) or not accepted (at most one
test; de-duplicated candidates are rejected ones; the sweep moves on by the step). -/
theorem attempt_cases (f : Bytes → Bool) (n0 : Nat) (st : MinSt) (it : It) (ha : AInv n0 st it)
    (h : OneInv f st it) :
    (f (it.best.rmslice (blockStart st) st.chunkEnd).content = true ∧
      (attempt (fun _ c => f c) st it).2.best = it.best.rmslice (blockStart st) st.chunkEnd ∧
      (attempt (fun _ c => f c) st it).2.nTests = it.nTests + 1 ∧
      (attempt (fun _ c => f c) st it).1 = { st with removed := true, chunkEnd := blockStart st }) ∨
    (f (it.best.rmslice (blockStart st) st.chunkEnd).content = false ∧
      (attempt (fun _ c => f c) st it).2.best = it.best ∧
      (attempt (fun _ c => f c) st it).2.nTests ≤ it.nTests + 1 ∧
      (attempt (fun _ c => f c) st it).1 = { st with chunkEnd := st.chunkEnd - stepBack st }) := by
  have hce := ha.ce
  have hce1 := ha.ce1
  have hs0 : (0 : Int) ≤ max 0 (st.chunkEnd - st.chunkSize) := by omega
  have hse : max 0 (st.chunkEnd - (st.chunkSize : Int)) < st.chunkEnd := by have := ha.cs; omega
  obtain ⟨hshort, -⟩ := rmslice_shorter it.best ha.wf h.nonempty _ _ hs0 hse hce
  have hspec := try_spec it (fun _ c => f c) (it.best.rmslice (max 0 (st.chunkEnd - st.chunkSize)) st.chunkEnd)
    (fun r => { tag := 0, lo := (max 0 (st.chunkEnd - (st.chunkSize : Int))).toNat, hi := st.chunkEnd.toNat,
                size := st.chunkSize, bestLen := it.best.len, base := it.best, tIdx := it.nTests,
                cand := it.best.rmslice (max 0 (st.chunkEnd - st.chunkSize)) st.chunkEnd, resp := r })
  unfold blockStart stepBack
  unfold attempt
  simp only
  generalize hT : It.try it (fun _ c => f c) (it.best.rmslice (max 0 (st.chunkEnd - st.chunkSize)) st.chunkEnd)
    (fun r => { tag := 0, lo := (max 0 (st.chunkEnd - (st.chunkSize : Int))).toNat, hi := st.chunkEnd.toNat,
                size := st.chunkSize, bestLen := it.best.len, base := it.best, tIdx := it.nTests,
                cand := it.best.rmslice (max 0 (st.chunkEnd - st.chunkSize)) st.chunkEnd, resp := r }) = T at *
  obtain ⟨r, it2⟩ := T
  simp only at hspec
  rcases hspec with ⟨hr, hin, hb, hn, -⟩ | ⟨hr, -, hv, hb, hn, -⟩ | ⟨hr, -, hv, hb, hn, -⟩
  · -- de-duplicated: tried before, and shorter than the best, so the test rejects it
    subst hr
    right
    have hmem : (it.best.rmslice (max 0 (st.chunkEnd - (st.chunkSize : Int))) st.chunkEnd).content ∈ it.tried := by
      simpa using hin
    have hfalse : f (it.best.rmslice (max 0 (st.chunkEnd - (st.chunkSize : Int))) st.chunkEnd).content = false := by
      cases hf : f (it.best.rmslice (max 0 (st.chunkEnd - (st.chunkSize : Int))) st.chunkEnd).content with
      | false => rfl
      | true =>
        have := h.tried _ hmem hf
        omega
    exact ⟨hfalse, hb, by show it2.nTests ≤ _; omega, rfl⟩
  · subst hr
    left
    exact ⟨hv, hb, hn, rfl⟩
  · subst hr
    right
    exact ⟨hv, hb, by show it2.nTests ≤ _; omega, rfl⟩

/-! ### the list of reducible atoms -/

def ratoms (l : List (Bytes × Bool)) : List Bytes := (l.filter (·.2)).map (·.1)

/-- the reducible atoms of a testcase, in order: what chunk positions count -/
def R (t : Testcase) : List Bytes := ratoms (t.parts.zip t.reducible)

theorem eraseRanks_ratoms (a b r : Nat) (l : List (Bytes × Bool)) (hab : a ≤ b) :
    ratoms (eraseRanks a b r l) = (ratoms l).take (a - r) ++ (ratoms l).drop (b - r) := by
  induction l generalizing r with
  | nil => simp [eraseRanks, ratoms]
  | cons x t ih =>
    obtain ⟨p, fl⟩ := x
    cases fl with
    | false =>
      have e1 : ratoms ((p, false) :: t) = ratoms t := by simp [ratoms]
      have e2 : ratoms ((p, false) :: eraseRanks a b r t) = ratoms (eraseRanks a b r t) := by simp [ratoms]
      simp only [eraseRanks]
      rw [e1, e2, ih]
    | true =>
      have e1 : ratoms ((p, true) :: t) = p :: ratoms t := by simp [ratoms]
      simp only [eraseRanks]
      rw [e1]
      by_cases hin : a ≤ r ∧ r < b
      · rw [if_pos hin, ih (r + 1)]
        have h1 : a - (r + 1) = 0 := by omega
        have h2 : a - r = 0 := by omega
        have h3 : b - r = (b - (r + 1)) + 1 := by omega
        rw [h1, h2, h3]
        simp
      · rw [if_neg hin]
        have e2 : ratoms ((p, true) :: eraseRanks a b (r + 1) t) = p :: ratoms (eraseRanks a b (r + 1) t) := by
          simp [ratoms]
        rw [e2, ih (r + 1)]
        rcases Nat.lt_or_ge r a with hlt | hge
        · have h2 : a - r = (a - (r + 1)) + 1 := by omega
          have h3 : b - r = (b - (r + 1)) + 1 := by omega
          rw [h2, h3]
          simp
        · have h1 : a - (r + 1) = 0 := by omega
          have h2 : a - r = 0 := by omega
          have h3 : b - r = 0 := by omega
          have h4 : b - (r + 1) = 0 := by omega
          rw [h1, h2, h3, h4]
          simp

theorem filter_snd_length (p : List Bytes) (r : List Bool) (h : p.length = r.length) :
    ((p.zip r).filter (·.2)).length = r.count true := by
  induction p generalizing r with
  | nil => cases r with
    | nil => rfl
    | cons _ _ => simp at h
  | cons x t ih =>
    cases r with
    | nil => simp at h
    | cons b u =>
      have := ih u (by simpa using h)
      cases b <;> simp [this]

theorem R_length (t : Testcase) (h : t.WF) : (R t).length = t.len := by
  unfold R ratoms
  rw [List.length_map, filter_snd_length _ _ h, len_eq_count t h]

/-- deleting the chunk `[s, e)` deletes those positions of the list of reducible atoms -/
theorem R_rmslice (t : Testcase) (h : t.WF) (s e : Int) (h0 : 0 ≤ s) (hse : s ≤ e) (hel : e ≤ (t.len : Int)) :
    R (t.rmslice s e) = (R t).take s.toNat ++ (R t).drop e.toNat := by
  obtain ⟨-, -, -, c4, -⟩ := rmslice_int t h s e h0 hse hel
  unfold R
  rw [c4, eraseRanks_ratoms _ _ 0 _ (by omega)]
  simp

theorem R_sublist_parts (t : Testcase) (h : t.WF) : (R t).Sublist t.parts := by
  have h1 : ((t.parts.zip t.reducible).filter (·.2)).Sublist (t.parts.zip t.reducible) := List.filter_sublist
  have := h1.map (·.1)
  rw [map_fst_zip' _ _ h] at this
  exact this

theorem mem_R_iff (t : Testcase) (p : Bytes) : p ∈ R t ↔ (p, true) ∈ t.parts.zip t.reducible := by
  unfold R ratoms
  simp only [List.mem_map, List.mem_filter]
  constructor
  · rintro ⟨⟨q, b⟩, ⟨hm, hb⟩, rfl⟩
    simp only at hb
    subst hb; exact hm
  · intro hm; exact ⟨(p, true), ⟨hm, rfl⟩, rfl⟩

/-! ### counting core atoms -/

def cc (core : List Bytes) (l : List Bytes) : Nat := l.countP (fun p => core.contains p)

theorem cc_append (core a b : List Bytes) : cc core (a ++ b) = cc core a + cc core b := by
  unfold cc; exact List.countP_append

theorem cc_le_length (core l : List Bytes) : cc core l ≤ l.length := by
  unfold cc; exact List.countP_le_length

theorem cc_pos_of_mem (core l : List Bytes) (p : Bytes) (hp : p ∈ core) (hl : p ∈ l) : 1 ≤ cc core l := by
  unfold cc
  exact List.countP_pos_iff.mpr ⟨p, hl, by simpa using hp⟩

theorem nodup_subset_length {α : Type} [DecidableEq α] (l m : List α) (hn : l.Nodup) (hs : ∀ x ∈ l, x ∈ m) :
    l.length ≤ m.length := by
  induction l generalizing m with
  | nil => simp
  | cons x t ih =>
    have hx : x ∈ m := hs x (by simp)
    have hn' := List.nodup_cons.mp hn
    have := ih (m.erase x) hn'.2 (by
      intro y hy
      have hne : y ≠ x := by rintro rfl; exact hn'.1 hy
      exact (List.mem_erase_of_ne hne).mpr (hs y (by simp [hy])))
    rw [List.length_erase_of_mem hx] at this
    have : 1 ≤ m.length := List.length_pos_of_mem hx
    simp only [List.length_cons]
    omega

theorem cc_le_core (core l : List Bytes) (hn : l.Nodup) : cc core l ≤ core.length := by
  unfold cc
  rw [List.countP_eq_length_filter]
  apply nodup_subset_length _ _ (hn.sublist List.filter_sublist)
  intro x hx
  have := (List.mem_filter.mp hx).2
  simpa using this

/-- if every atom of a duplicate-free list is a core atom there are at most `m` of them -/
theorem length_le_of_all_core (core l : List Bytes) (hn : l.Nodup) (h : l.length ≤ cc core l) :
    l.length ≤ core.length := Nat.le_trans h (cc_le_core core l hn)

theorem all_core_of_cc (core l : List Bytes) (h : l.length ≤ cc core l) : ∀ p ∈ l, p ∈ core := by
  unfold cc at h
  have : l.countP (fun p => core.contains p) = l.length := Nat.le_antisymm List.countP_le_length h
  rw [List.countP_eq_length] at this
  intro p hp
  simpa using this p hp

/-! ### deletions of an original with distinct atoms -/

theorem mem_parts_iff_R (t c : Testcase) (hdel : IsDel t c) (hwf : t.WF) (hnd : t.parts.Nodup) (p : Bytes)
    (hp : (p, true) ∈ t.parts.zip t.reducible) : p ∈ c.parts ↔ p ∈ R c := by
  obtain ⟨-, -, hcwf, hsub, -⟩ := hdel
  constructor
  · intro hm
    rw [← map_fst_zip' _ _ hcwf] at hm
    obtain ⟨⟨q, b⟩, hx, hq⟩ := List.mem_map.mp hm
    simp only at hq
    subst hq
    have hx' := hsub.subset hx
    have := fst_inj_of_nodup (t.parts.zip t.reducible) (by rw [map_fst_zip' _ _ hwf]; exact hnd) (q, b) (q, true) hx' hp rfl
    have hb : b = true := by injection this
    subst hb
    exact (mem_R_iff c q).mpr hx
  · intro hm
    exact (R_sublist_parts c hcwf).subset hm

theorem R_nodup (t c : Testcase) (hdel : IsDel t c) (hwf : t.WF) (hnd : t.parts.Nodup) : (R c).Nodup := by
  obtain ⟨-, -, hcwf, hsub, -⟩ := hdel
  have h1 : (c.parts).Sublist t.parts := by
    have := hsub.map (·.1)
    rw [map_fst_zip' _ _ hcwf, map_fst_zip' _ _ hwf] at this
    exact this
  exact hnd.sublist ((R_sublist_parts c hcwf).trans h1)

/-! ### halving, for powers of two -/

theorem halveBelow_pow2_spec (f k n : Nat) (hf : k ≤ f) (hk : 1 ≤ k) :
    (halveBelow f (2 ^ k) n = 2 ^ (k - 1) ∨ n ≤ 2 * halveBelow f (2 ^ k) n) ∧
    (halveBelow f (2 ^ k) n < n ∨ halveBelow f (2 ^ k) n = 1) := by
  induction f generalizing k with
  | zero => omega
  | succ f ih =>
    obtain ⟨k', rfl⟩ : ∃ k', k = k' + 1 := ⟨k - 1, by omega⟩
    have hhalf : 2 ^ (k' + 1) / 2 = 2 ^ k' := by rw [Nat.pow_succ]; omega
    have hgt : 2 ^ (k' + 1) > 1 := by
      have : 1 ≤ 2 ^ k' := Nat.one_le_two_pow
      rw [Nat.pow_succ]; omega
    unfold halveBelow
    rw [if_pos hgt]
    simp only [hhalf, Nat.add_sub_cancel]
    by_cases hlt : 2 ^ k' < n
    · rw [if_pos hlt]; exact ⟨Or.inl rfl, Or.inl hlt⟩
    · rw [if_neg hlt]
      by_cases hk0 : k' = 0
      · subst hk0
        cases f with
        | zero => simp [halveBelow] <;> omega
        | succ f' => simp [halveBelow] <;> omega
      · cases f with
        | zero => omega
        | succ f' =>
          obtain ⟨i1, i2⟩ := ih k' (by omega) (by omega)
          refine ⟨Or.inr ?_, i2⟩
          rcases i1 with i1 | i1
          · rw [i1]
            have : 2 * 2 ^ (k' - 1) = 2 ^ k' := by
              obtain ⟨k'', rfl⟩ : ∃ k'', k' = k'' + 1 := ⟨k' - 1, by omega⟩
              rw [Nat.add_sub_cancel, Nat.pow_succ]; omega
            omega
          · exact i1

/-! ### a potential argument for the loop -/

/-- if a potential `Ψ` does not grow over the round phase and pays for every test of an attempt,
the loop makes at most `Ψ` tests -/
theorem minLoop_potential (cfg : Cfg) (o : Oracle) (clk : Clock) (stopAt : Option Nat) (n0 : Nat)
    (P P' : MinSt → It → Prop) (Ψ : MinSt → It → Nat)
    (hround : ∀ st it st', MInv n0 st it → P st it →
      roundPhase cfg clk stopAt id st it = .inr (st', it) → P' st' it ∧ Ψ st' it ≤ Ψ st it)
    (hatt : ∀ st it, AInv n0 st it → P' st it →
      P (attempt o st it).1 (attempt o st it).2 ∧
      (attempt o st it).2.nTests + Ψ (attempt o st it).1 (attempt o st it).2 ≤ it.nTests + Ψ st it) :
    ∀ (fuel : Nat) (st : MinSt) (it : It), MInv n0 st it → P st it →
      (minLoop cfg o clk stopAt id fuel st it).nTests ≤ it.nTests + Ψ st it := by
  intro fuel
  induction fuel with
  | zero => intro st it _ _; simp [minLoop]
  | succ f ih =>
    intro st it hinv hp
    unfold minLoop minStep
    obtain ⟨r1, r2⟩ := roundPhase_spec cfg clk stopAt n0 st it hinv
    cases hrp : roundPhase cfg clk stopAt id st it with
    | inl it' =>
      obtain ⟨-, e2, -⟩ := r1 it' hrp
      simp only
      omega
    | inr p =>
      obtain ⟨st1, it1⟩ := p
      obtain ⟨e1, e2, -, -⟩ := r2 st1 it1 hrp
      subst e1
      simp only
      obtain ⟨a1, -⟩ := attempt_spec o n0 st1 it1 e2
      obtain ⟨q1, q2⟩ := hround st it1 st1 hinv hp hrp
      obtain ⟨b1, b2⟩ := hatt st1 it1 e2 q1
      have := ih _ _ a1 b1
      omega

/-! ### blocks of the list of reducible atoms -/

theorem drop_split {α : Type} (l : List α) (s e : Nat) (hse : s ≤ e) :
    l.drop s = (l.drop s).take (e - s) ++ l.drop e := by
  have h := (List.take_append_drop (e - s) (l.drop s)).symm
  rw [List.drop_drop] at h
  have : s + (e - s) = e := by omega
  rw [this] at h
  exact h

theorem block_has_core (core l : List Bytes) (s e : Nat) (hse : s ≤ e) (p : Bytes) (hp : p ∈ core) (hl : p ∈ l)
    (hn : p ∉ l.take s ++ l.drop e) : 1 ≤ cc core ((l.drop s).take (e - s)) := by
  have h1 : l = l.take s ++ ((l.drop s).take (e - s) ++ l.drop e) := by
    rw [← drop_split l s e hse, List.take_append_drop]
  rw [h1] at hl
  simp only [List.mem_append] at hl hn
  rcases hl with hl | hl | hl
  · exact absurd (Or.inl hl) hn
  · exact cc_pos_of_mem core _ p hp hl
  · exact absurd (Or.inr hl) hn

theorem sub_div_step (e cs : Nat) (hcs : 1 ≤ cs) (hge : cs ≤ e) : (e - cs) / cs + 1 = e / cs := by
  have h := Nat.add_div_right (e - cs) (by omega : 0 < cs)
  rw [Nat.sub_add_cancel hge] at h
  omega

/-! ### the invariant and the potential -/

structure KInv (f : Bytes → Bool) (t : Testcase) (core : List Bytes) (st : MinSt) (it : It) : Prop where
  one : OneInv f st it
  del : IsDel t it.best
  cin : ∀ p ∈ core, p ∈ R it.best
  pow : ∃ k, st.chunkSize = 2 ^ k
  blk : st.chunkSize ≠ 2 →
    it.best.len ≤ st.chunkEnd.toNat + st.chunkSize * cc core ((R it.best).drop st.chunkEnd.toNat)

/-- an upper bound for the number of candidates still to come: the rest of this round, `2m+1` for
each later round with chunks of 4 or more atoms, `9m+8` for the rounds with chunk sizes 2 and 1 -/
def Psi (core : List Bytes) (st : MinSt) (it : It) : Nat :=
  if 4 ≤ st.chunkSize then
    st.chunkEnd.toNat / st.chunkSize + (2 * core.length + 1) * (Nat.log2 st.chunkSize - 2) + (9 * core.length + 8)
  else if st.chunkSize = 2 then st.chunkEnd.toNat + it.best.len + core.length
  else st.chunkEnd.toNat + (if st.removed = false ∧ it.best.len ≤ cc core (R it.best) then 0 else core.length)

/-- the hypotheses on the original and the test -/
structure CoreHyp (f : Bytes → Bool) (t : Testcase) (core : List Bytes) : Prop where
  wf : t.WF
  nd : t.parts.Nodup
  cnd : core.Nodup
  red : ∀ p ∈ core, (p, true) ∈ t.parts.zip t.reducible
  test : ∀ c, IsDel t c → (f c.content = true ↔ ∀ p ∈ core, p ∈ c.parts)

theorem CoreHyp.test_R {f : Bytes → Bool} {t : Testcase} {core : List Bytes} (H : CoreHyp f t core)
    (c : Testcase) (hc : IsDel t c) : f c.content = true ↔ ∀ p ∈ core, p ∈ R c := by
  rw [H.test c hc]
  constructor
  · intro h p hp; exact (mem_parts_iff_R t c hc H.wf H.nd p (H.red p hp)).mp (h p hp)
  · intro h p hp; exact (mem_parts_iff_R t c hc H.wf H.nd p (H.red p hp)).mpr (h p hp)

theorem kinv_attempt (f : Bytes → Bool) (t : Testcase) (core : List Bytes) (H : CoreHyp f t core)
    (n0 : Nat) (st : MinSt) (it : It) (ha : AInv n0 st it) (hk : KInv f t core st it)
    (hge : (st.chunkSize : Int) ≤ st.chunkEnd) :
    KInv f t core (attempt (fun _ c => f c) st it).1 (attempt (fun _ c => f c) st it).2 ∧
    (attempt (fun _ c => f c) st it).2.nTests + Psi core (attempt (fun _ c => f c) st it).1 (attempt (fun _ c => f c) st it).2
      ≤ it.nTests + Psi core st it := by
  have hone := oneInv_attempt f n0 st it ha hk.one
  have hcases := attempt_cases f n0 st it ha hk.one
  have hcs := ha.cs
  have hce := ha.ce
  have hwfb := ha.wf
  have hRlen := R_length it.best hwfb
  have hRnd := R_nodup t it.best hk.del H.wf H.nd
  -- natural-number names
  obtain ⟨e, he⟩ : ∃ e : Nat, st.chunkEnd = (e : Int) := ⟨st.chunkEnd.toNat, by have := ha.ce1; omega⟩
  have hecs : st.chunkSize ≤ e := by omega
  have helen : e ≤ it.best.len := by omega
  have hbs : blockStart st = ((e - st.chunkSize : Nat) : Int) := by unfold blockStart; omega
  have hs0 : (0 : Int) ≤ blockStart st := by omega
  have hse : blockStart st ≤ st.chunkEnd := by omega
  have hdelc := isDel_rmslice t it.best hk.del _ _ hs0 hse hce
  have hRc : R (it.best.rmslice (blockStart st) st.chunkEnd)
      = (R it.best).take (e - st.chunkSize) ++ (R it.best).drop e := by
    rw [R_rmslice it.best hwfb _ _ hs0 hse hce, hbs, he]; simp
  have hlenc : (it.best.rmslice (blockStart st) st.chunkEnd).len = it.best.len - st.chunkSize := by
    obtain ⟨-, -, -, -, c5⟩ := rmslice_int it.best hwfb _ _ hs0 hse hce
    rw [c5, hbs, he]; simp only [Int.toNat_natCast]; omega
  have htest := H.test_R _ hdelc
  have htake : ((R it.best).take (e - st.chunkSize)).length = e - st.chunkSize := by
    rw [List.length_take]; omega
  have hsplit := drop_split (R it.best) (e - st.chunkSize) e (by omega)
  have hes : e - (e - st.chunkSize) = st.chunkSize := by omega
  rw [hes] at hsplit
  generalize attempt (fun _ c => f c) st it = A at *
  obtain ⟨A1, A2⟩ := A
  simp only at hone hcases ⊢
  rcases hcases with ⟨hv, hb, hn, hst⟩ | ⟨hv, hb, hn, hst⟩
  · -- accepted
    have hcoreC := htest.mp hv
    subst hst
    refine ⟨⟨hone, by rw [hb]; exact hdelc, by rw [hb]; exact hcoreC, hk.pow, ?_⟩, ?_⟩
    · intro h2
      have := hk.blk h2
      rw [he] at this
      simp only [Int.toNat_natCast] at this
      rw [hb, hlenc, hRc, hbs]
      simp only [Int.toNat_natCast]
      rw [List.drop_left' htake]
      omega
    · unfold Psi
      have hlenc' := hlenc
      rw [hbs, he] at hlenc'
      simp only [hbs, he, Int.toNat_natCast, hb, hlenc']
      by_cases h4 : 4 ≤ st.chunkSize
      · rw [if_pos h4, if_pos h4]
        have := sub_div_step e st.chunkSize hcs hecs
        omega
      · rw [if_neg h4, if_neg h4]
        by_cases h2 : st.chunkSize = 2
        · rw [if_pos h2, if_pos h2]; omega
        · rw [if_neg h2, if_neg h2]
          -- an accepted candidate in the last round means not every atom was a core atom
          have hnot : ¬ (st.removed = false ∧ it.best.len ≤ cc core (R it.best)) := by
            rintro ⟨-, hall⟩
            have h1 : it.best.len ≤ core.length := by
              rw [← hRlen] at hall ⊢
              exact length_le_of_all_core core _ hRnd hall
            have h2' := nodup_subset_length core _ H.cnd hcoreC
            rw [R_length _ hdelc.2.2.1, hlenc] at h2'
            omega
          rw [if_neg hnot]
          simp only [Bool.true_eq_false, false_and, if_false]
          omega
  · -- not accepted: the block contains a core atom
    subst hst
    have hblock : 1 ≤ cc core (((R it.best).drop (e - st.chunkSize)).take st.chunkSize) := by
      have hnot : ¬ ∀ p ∈ core, p ∈ R (it.best.rmslice (blockStart st) st.chunkEnd) := by
        intro hall
        have := htest.mpr hall
        rw [hv] at this
        exact absurd this (by simp)
      have hex : ∃ p, p ∈ core ∧ p ∉ R (it.best.rmslice (blockStart st) st.chunkEnd) := by
        by_cases hx : ∃ p, p ∈ core ∧ p ∉ R (it.best.rmslice (blockStart st) st.chunkEnd)
        · exact hx
        · exact absurd (fun p hp => Classical.byContradiction (fun hnp => hx ⟨p, hp, hnp⟩)) hnot
      obtain ⟨p, hp, hpn⟩ := hex
      rw [hRc] at hpn
      have := block_has_core core (R it.best) (e - st.chunkSize) e (by omega) p hp (hk.cin p hp) hpn
      rw [hes] at this
      exact this
    refine ⟨⟨hone, by rw [hb]; exact hk.del, by rw [hb]; exact hk.cin, hk.pow, ?_⟩, ?_⟩
    · intro h2
      have hblk := hk.blk h2
      rw [he] at hblk
      simp only [Int.toNat_natCast] at hblk
      have hsb : stepBack st = (st.chunkSize : Int) := by
        unfold stepBack
        split
        · have : st.chunkSize = 1 := by simp only at h2; omega
          omega
        · rfl
      rw [hb, hsb, he]
      simp only
      have : ((e : Int) - (st.chunkSize : Int)).toNat = e - st.chunkSize := by omega
      rw [this, hsplit, cc_append, Nat.mul_add]
      have := Nat.le_mul_of_pos_right st.chunkSize hblock
      omega
    · unfold Psi
      simp only [he, hb]
      have hsb1 : 1 ≤ stepBack st ∧ stepBack st ≤ e := by
        unfold stepBack; split <;> omega
      by_cases h4 : 4 ≤ st.chunkSize
      · rw [if_pos h4, if_pos h4]
        have hsb : stepBack st = (st.chunkSize : Int) := by
          unfold stepBack; rw [if_neg (by omega)]
        rw [hsb]
        have : ((e : Int) - (st.chunkSize : Int)).toNat = e - st.chunkSize := by omega
        rw [this]
        simp only [Int.toNat_natCast]
        have := sub_div_step e st.chunkSize hcs hecs
        omega
      · rw [if_neg h4, if_neg h4]
        by_cases h2 : st.chunkSize = 2
        · rw [if_pos h2, if_pos h2]; omega
        · rw [if_neg h2, if_neg h2]
          split <;> omega

theorem two_pow_lt_four (k : Nat) (h : ¬ 4 ≤ 2 ^ k) : k = 0 ∨ k = 1 := by
  rcases Nat.lt_or_ge k 2 with h2 | h2
  · omega
  · have : 2 ^ 2 ≤ 2 ^ k := Nat.pow_le_pow_right (by omega) h2
    omega

theorem two_le_of_four_le_pow (k : Nat) (h : 4 ≤ 2 ^ k) : 2 ≤ k := by
  rcases Nat.lt_or_ge k 2 with hlt | hge
  · have : k = 0 ∨ k = 1 := by omega
    rcases this with rfl | rfl <;> simp at h
  · exact hge

theorem Psi_ge4 (core : List Bytes) (cs mc : Nat) (ce : Int) (rm : Bool) (it : It) (k : Nat) (hk : cs = 2 ^ k)
    (h : 4 ≤ cs) :
    Psi core { chunkSize := cs, minChunk := mc, chunkEnd := ce, removed := rm } it
      = ce.toNat / cs + (2 * core.length + 1) * (k - 2) + (9 * core.length + 8) := by
  unfold Psi
  simp only
  rw [if_pos h, hk, Nat.log2_two_pow]

theorem Psi_two (core : List Bytes) (mc : Nat) (ce : Int) (rm : Bool) (it : It) :
    Psi core { chunkSize := 2, minChunk := mc, chunkEnd := ce, removed := rm } it
      = ce.toNat + it.best.len + core.length := by
  simp [Psi]

theorem Psi_one (core : List Bytes) (mc : Nat) (ce : Int) (rm : Bool) (it : It) :
    Psi core { chunkSize := 1, minChunk := mc, chunkEnd := ce, removed := rm } it
      = ce.toNat + (if rm = false ∧ it.best.len ≤ cc core (R it.best) then 0 else core.length) := by
  simp [Psi]

theorem kinv_round (cfg : Cfg) (hrep : cfg.rep = .last) (f : Bytes → Bool) (t : Testcase) (core : List Bytes)
    (H : CoreHyp f t core) (clk : Clock) (stopAt : Option Nat) (n0 : Nat) (st st' : MinSt) (it : It)
    (hinv : MInv n0 st it) (hk : KInv f t core st it)
    (hr : roundPhase cfg clk stopAt id st it = .inr (st', it)) :
    (KInv f t core st' it ∧ (st'.chunkSize : Int) ≤ st'.chunkEnd) ∧ Psi core st' it ≤ Psi core st it := by
  have hone := oneInv_round cfg clk stopAt f st it st' hk.one hr
  obtain ⟨-, -, hc⟩ := roundPhase_inr cfg clk stopAt st st' it it hr
  rcases hc with ⟨rfl, hne⟩ | ⟨hend, hlen, hrd⟩
  · exact ⟨⟨hk, by omega⟩, Nat.le_refl _⟩
  · have hcs := hinv.cs
    have hmc := hk.one.mc
    have hRlen := R_length it.best hinv.wf
    have hRnd := R_nodup t it.best hk.del H.wf H.nd
    have hblk := hk.blk
    obtain ⟨k, hk2⟩ := hk.pow
    clear hr
    obtain ⟨cs, mc, ce, rm⟩ := st
    simp only at hend hrd hcs hmc hblk hk2
    have htn : ce.toNat < cs := by omega
    unfold roundDecision at hrd
    simp only at hrd
    rw [hmc, hrep] at hrd
    by_cases h1 : cs ≤ 1
    · rw [if_pos h1] at hrd
      have hcs1 : cs = 1 := by omega
      subst hcs1
      split at hrd
      · rename_i hrem
        injection hrd with hrd
        subst hrd
        have hremoved : rm = true := by simpa using hrem
        subst hremoved
        have hblk' := hblk (by omega)
        have h0 : ce.toNat = 0 := by omega
        rw [h0] at hblk'
        simp only [List.drop_zero, Nat.zero_add, Nat.one_mul] at hblk'
        have hm : it.best.len ≤ core.length := by
          rw [← hRlen] at hblk' ⊢
          exact length_le_of_all_core core _ hRnd hblk'
        refine ⟨⟨⟨hone, hk.del, hk.cin, ⟨0, rfl⟩, ?_⟩, ?_⟩, ?_⟩
        · intro _; simp only [Int.toNat_natCast]; omega
        · simp only; omega
        · rw [Psi_one, Psi_one]
          simp only [Int.toNat_natCast, true_and, Bool.true_eq_false, false_and, if_false]
          rw [if_pos hblk']
          omega
      · exact absurd hrd (by simp)
    · rw [if_neg h1] at hrd
      have hnot : (rm && (Repeat.last == Repeat.always) && decide (cs < it.best.len)) = false := by
        have : (Repeat.last == Repeat.always) = false := by decide
        rw [this]; simp
      rw [hnot] at hrd
      simp only [Bool.false_eq_true, if_false] at hrd
      injection hrd with hrd
      subst hrd
      subst hk2
      have hk1 : 1 ≤ k := by
        rcases Nat.eq_zero_or_pos k with h0 | h0
        · subst h0; simp at h1
        · exact h0
      obtain ⟨j, hj, hjle⟩ := halveBelow_pow2 (2 ^ k) k it.best.len
      obtain ⟨hs1, hs2⟩ := halveBelow_spec (2 ^ k) (2 ^ k) it.best.len (by omega) (by omega)
      obtain ⟨hp1, hp2⟩ := halveBelow_pow2_spec (2 ^ k) k it.best.len (Nat.le_of_lt Nat.lt_two_pow_self) hk1
      have hkk : 2 ^ k = 2 * 2 ^ (k - 1) := by
        obtain ⟨k', rfl⟩ : ∃ k', k = k' + 1 := ⟨k - 1, by omega⟩
        rw [Nat.add_sub_cancel, Nat.pow_succ]; omega
      generalize halveBelow (2 ^ k) (2 ^ k) it.best.len = c' at *
      subst hj
      have hjk : j ≤ k - 1 := by
        have : 2 ^ j ≤ 2 ^ (k - 1) := by omega
        exact (Nat.pow_le_pow_iff_right (by omega)).mp this
      refine ⟨⟨⟨hone, hk.del, hk.cin, ⟨j, rfl⟩, ?_⟩, ?_⟩, ?_⟩
      · intro _; simp only [Int.toNat_natCast]; omega
      · simp only; omega
      · -- the potential over the end of a round
        have hskip : j ≠ k - 1 → it.best.len ≤ 2 * 2 ^ j := by
          intro hne
          rcases hp1 with hp1 | hp1
          · exact absurd ((Nat.pow_right_inj (by omega)).mp hp1) hne
          · exact hp1
        have hjpos : 0 < 2 ^ j := Nat.two_pow_pos j
        by_cases h4 : 4 ≤ 2 ^ k
        · rw [Psi_ge4 core (2 ^ k) mc ce rm it k rfl h4]
          generalize ce.toNat / 2 ^ k = q0
          have hk22 := two_le_of_four_le_pow k h4
          -- the length at the end of a round with chunks of `2^k ≥ 4`
          have hblk' := hblk (by omega)
          have hccm : cc core ((R it.best).drop ce.toNat) ≤ core.length :=
            cc_le_core core _ (hRnd.sublist (List.drop_sublist _ _))
          have hmul : 2 ^ k * cc core ((R it.best).drop ce.toNat) ≤ 2 ^ k * core.length :=
            Nat.mul_le_mul_left _ hccm
          have hlenlt : it.best.len < 2 ^ k * (core.length + 1) := by rw [Nat.mul_add]; omega
          by_cases h4' : 4 ≤ 2 ^ j
          · rw [Psi_ge4 core (2 ^ j) _ _ false it j rfl h4']
            simp only [Int.toNat_natCast]
            have hj2 := two_le_of_four_le_pow j h4'
            by_cases hjk1 : j = k - 1
            · have hdiv : it.best.len / 2 ^ j < 2 * (core.length + 1) := by
                rw [Nat.div_lt_iff_lt_mul hjpos]
                rw [hkk, ← hjk1] at hlenlt
                calc it.best.len < 2 * 2 ^ j * (core.length + 1) := hlenlt
                  _ = 2 * (core.length + 1) * 2 ^ j := by
                    rw [Nat.mul_assoc, Nat.mul_comm (2 ^ j), ← Nat.mul_assoc]
              have hk2' : k - 2 = (j - 2) + 1 := by omega
              rw [hk2', Nat.mul_succ]
              generalize it.best.len / 2 ^ j = q1 at *
              omega
            · have hl := hskip hjk1
              have hdiv : it.best.len / 2 ^ j ≤ 2 := by
                apply Nat.div_le_of_le_mul
                rw [Nat.mul_comm]; exact hl
              have hk2' : k - 2 = (j - 2) + ((k - 2) - (j - 2)) := by omega
              have hge2 : 2 ≤ (k - 2) - (j - 2) := by omega
              rw [hk2', Nat.mul_add]
              have := Nat.mul_le_mul_left (2 * core.length + 1) hge2
              generalize it.best.len / 2 ^ j = q1 at *
              omega
          · rcases two_pow_lt_four j h4' with rfl | rfl
            · -- chunk size 1 next: at most 2 atoms are left
              simp only [Nat.pow_zero]
              rw [Psi_one]
              have hl := hskip (by omega)
              simp only [Nat.pow_zero] at hl
              simp only [Int.toNat_natCast]
              split <;> omega
            · simp only [Nat.pow_one]
              rw [Psi_two]
              simp only [Int.toNat_natCast]
              by_cases hjk1 : 1 = k - 1
              · have hk2' : k = 2 := by omega
                subst hk2'
                simp only [Nat.reducePow] at hlenlt
                omega
              · have hl := hskip hjk1
                simp only [Nat.pow_one] at hl
                have hge1 : 1 ≤ k - 2 := by omega
                have := Nat.mul_le_mul_left (2 * core.length + 1) hge1
                omega
        · rcases two_pow_lt_four k h4 with rfl | rfl
          · omega
          · have hj0 : j = 0 := by omega
            subst hj0
            simp only [Nat.pow_one, Nat.pow_zero]
            rw [Psi_two, Psi_one]
            simp only [Int.toNat_natCast]
            split <;> omega

/-! ### the bound -/

/-- Minimize with smallest chunk size 1, repeat mode `last`, no repeated first round and a first
chunk size that is not cut by `--max`, run with a test that accepts exactly the deletions of the
original that still contain all `m` core atoms (distinct atoms): the number of tests, the initial
check of the original included, is at most `(2m+1)*ceil(log2 n) + 5m + 8` — whatever the clock
and the time limit do. -/
theorem core_test_bound (cfg : Cfg) (f : Bytes → Bool) (clk : Clock) (t : Testcase) (core : List Bytes)
    (H : CoreHyp f t core) (hne : ∀ p ∈ t.parts, p ≠ [])
    (hmin : cfg.min = 1) (hrep : cfg.rep = .last) (hrf : cfg.repeatFirst = false)
    (hmax : Util.lp2 t.len ≤ cfg.max) :
    (minimize cfg (fun _ c => f c) clk t).nTests + 1
      ≤ (2 * core.length + 1) * clog2 t.len + 5 * core.length + 8 := by
  obtain ⟨j, hj⟩ := Util.lp2_pow2 t.len
  have hcs0 : min cfg.max (Util.lp2 t.len) = 2 ^ j := by rw [← hj]; omega
  have hjpos : 0 < 2 ^ j := Nat.two_pow_pos j
  have hinit : minInit cfg t = { chunkSize := 2 ^ j, minChunk := 1, chunkEnd := (t.len : Int), removed := false } := by
    unfold minInit
    simp only [hcs0, hrf, hmin]
    congr 1
    omega
  have hminv : MInv t.len (minInit cfg t) { best := t } := by
    rw [hinit]
    exact ⟨H.wf, by simp only; omega, by simp only; omega, by simp, Nat.le_refl _⟩
  have hkinv : KInv f t core (minInit cfg t) { best := t } := by
    rw [hinit]
    refine ⟨⟨by intro c hc; simp at hc, hne, rfl, ?_⟩, isDel_refl t H.wf, ?_, ⟨j, rfl⟩, ?_⟩
    · intro _ _ i hi hlt
      simp only at hi hlt
      omega
    · intro p hp
      exact (mem_R_iff t p).mpr (H.red p hp)
    · intro _
      simp only [Int.toNat_natCast]
      omega
  have hb := minLoop_potential cfg (fun _ c => f c) clk (stopAt cfg clk) t.len
    (KInv f t core) (fun st it => KInv f t core st it ∧ (st.chunkSize : Int) ≤ st.chunkEnd) (Psi core)
    (fun st it st' hinv hp hr => kinv_round cfg hrep f t core H clk (stopAt cfg clk) t.len st st' it hinv hp hr)
    (fun st it ha hp => kinv_attempt f t core H t.len st it ha hp.1 hp.2)
    (minFuel t) (minInit cfg t) { best := t } hminv hkinv
  unfold minimize
  have h0 : ({ best := t } : It).nTests = 0 := rfl
  rw [h0, hinit] at hb
  rw [hinit]
  have hn2 := Util.le_two_lp2 t.len
  rw [hj] at hn2
  -- `j + 1 ≤ ceil(log2 n)` when the first chunk size is at least 2
  have hclog : 2 ≤ 2 ^ j → j + 1 ≤ clog2 t.len := by
    intro h2
    have hn : ¬ t.len ≤ 1 := by
      intro hle
      have := Util.lp2_le_one t.len hle
      omega
    have hlt := Util.lp2_lt t.len (by omega)
    rw [hj] at hlt
    have : j ≤ Nat.log2 (t.len - 1) := (Nat.le_log2 (by omega)).mpr hlt
    unfold clog2
    rw [if_neg hn]
    omega
  by_cases h4 : 4 ≤ 2 ^ j
  · rw [Psi_ge4 core (2 ^ j) 1 _ false _ j rfl h4] at hb
    simp only [Int.toNat_natCast] at hb
    have hdiv : t.len / 2 ^ j ≤ 2 := by
      apply Nat.div_le_of_le_mul
      rw [Nat.mul_comm]; exact hn2
    have hj2 := two_le_of_four_le_pow j h4
    have hc := hclog (by omega)
    have hsplit : clog2 t.len = (j - 2) + (clog2 t.len - (j - 2)) := by omega
    have hge3 : 3 ≤ clog2 t.len - (j - 2) := by omega
    have := Nat.mul_le_mul_left (2 * core.length + 1) hge3
    rw [hsplit, Nat.mul_add]
    generalize t.len / 2 ^ j = q at *
    omega
  · rcases two_pow_lt_four j h4 with rfl | rfl
    · simp only [Nat.pow_zero] at hb hn2 ⊢
      rw [Psi_one] at hb
      simp only [Int.toNat_natCast] at hb
      split at hb <;> omega
    · simp only [Nat.pow_one] at hb hn2 ⊢
      rw [Psi_two] at hb
      simp only [Int.toNat_natCast] at hb
      have hc := hclog (by simp)
      have := Nat.mul_le_mul_left (2 * core.length + 1) hc
      have hlen : ({ best := t } : It).best.len = t.len := rfl
      omega

end Strat
