/-
Every part the JS-string splitter produces is non-empty (C06), via the invariant that the
`chars` list is strictly increasing and indexes existing parts.
-/
import LithiumProofs.SplitJs

namespace Js

def NE (parts : List Bytes) : Prop := ∀ p ∈ parts, p ≠ []

/-- `chars` is strictly increasing and every entry indexes a part -/
def Valid (chars : List Nat) (n : Nat) : Prop := chars.Pairwise (· < ·) ∧ ∀ c ∈ chars, c < n

theorem ne_append (a b : List Bytes) (ha : NE a) (hb : NE b) : NE (a ++ b) := by
  intro p hp
  rcases List.mem_append.mp hp with h | h
  · exact ha p h
  · exact hb p h

theorem ne_single (p : Bytes) (h : p ≠ []) : NE [p] := by
  intro q hq
  simp only [List.mem_singleton] at hq
  rw [hq]; exact h

theorem valid_mono (chars : List Nat) (n m : Nat) (h : Valid chars n) (hnm : n ≤ m) : Valid chars m :=
  ⟨h.1, fun c hc => Nat.lt_of_lt_of_le (h.2 c hc) hnm⟩

theorem valid_snoc (chars : List Nat) (n : Nat) (h : Valid chars n) : Valid (chars ++ [n]) (n + 1) := by
  refine ⟨?_, ?_⟩
  · rw [List.pairwise_append]
    refine ⟨h.1, List.pairwise_singleton _ _, ?_⟩
    intro a ha b hb
    simp only [List.mem_singleton] at hb
    rw [hb]; exact h.2 a ha
  · intro c hc
    rcases List.mem_append.mp hc with h1 | h1
    · exact Nat.lt_succ_of_lt (h.2 c h1)
    · simp only [List.mem_singleton] at h1
      rw [h1]; exact Nat.lt_succ_self _

theorem tokLen_pos (d : Bytes) (h : tokLen d ≠ 0) : d ≠ [] ∧ 1 ≤ tokLen d := by
  cases d with
  | nil => simp [tokLen] at h
  | cons c rest => exact ⟨by simp, by omega⟩

theorem take_ne (d : Bytes) (k : Nat) (hd : d ≠ []) (hk : 1 ≤ k) : d.take k ≠ [] := by
  cases d with
  | nil => exact absurd rfl hd
  | cons c rest =>
    cases k with
    | zero => omega
    | succ k => simp

theorem scan_inv (fuel : Nat) (s : Scan) (hne : NE s.parts) (hv : Valid s.chars s.parts.length) :
    NE (scan fuel s).parts ∧ Valid (scan fuel s).chars (scan fuel s).parts.length := by
  induction fuel generalizing s with
  | zero => exact ⟨hne, hv⟩
  | succ f ih =>
    unfold scan
    split
    · simp only
      split
      · exact ⟨hne, hv⟩
      · rename_i hk
        obtain ⟨hd, hk1⟩ := tokLen_pos s.rest hk
        have htok := take_ne s.rest (tokLen s.rest) hd hk1
        split
        · apply ih
          · exact ne_append _ _ hne (ne_single _ htok)
          · simp only [List.length_append, List.length_singleton]
            exact valid_mono _ _ _ hv (Nat.le_succ _)
        · apply ih
          · exact ne_append _ _ hne (ne_single _ htok)
          · simp only [List.length_append, List.length_singleton]
            exact valid_snoc _ _ hv
    · split
      · exact ⟨hne, hv⟩
      · rename_i i hi
        have hlt : i < s.rest.length := by
          have := List.findIdx?_eq_some_iff_getElem.mp hi
          exact this.1
        apply ih
        · refine ne_append _ _ hne (ne_single _ ?_)
          exact take_ne s.rest (i + 1) (by intro h; rw [h] at hlt; simp at hlt) (by omega)
        · simp only [List.length_append, List.length_singleton]
          exact valid_mono _ _ _ hv (Nat.le_succ _)

theorem rewindIdx_lt (parts : List Bytes) (chars : List Nat) (q : UInt8) (idx : Nat)
    (h : rewindIdx parts chars q = some idx) : idx < parts.length := by
  unfold rewindIdx at h
  simp only [Option.map_eq_some_iff] at h
  obtain ⟨x, hx, rfl⟩ := h
  have hm := List.mem_of_getLast? hx
  have := (List.mem_filter.mp hm).1
  have := List.snd_lt_of_mem_zipIdx this
  omega

theorem ne_take (parts : List Bytes) (k : Nat) (h : NE parts) : NE (parts.take k) :=
  fun p hp => h p (List.mem_of_mem_take hp)

theorem ne_drop (parts : List Bytes) (k : Nat) (h : NE parts) : NE (parts.drop k) :=
  fun p hp => h p (List.mem_of_mem_drop hp)

theorem outer_inv (fuel : Nat) (data : Bytes) (chars : List Nat) (parts : List Bytes) (cs : List Nat) (ps : List Bytes)
    (hne : NE parts) (hv : Valid chars parts.length) (h : outer fuel data chars parts = .ok (cs, ps)) :
    NE ps ∧ Valid cs ps.length := by
  induction fuel generalizing data chars parts with
  | zero => simp [outer] at h
  | succ f ih =>
    unfold outer at h
    simp only at h
    obtain ⟨sne, sv⟩ := scan_inv (data.length + 1) { rest := data, instr := none, chars := chars, parts := parts } hne hv
    generalize scan (data.length + 1) { rest := data, instr := none, chars := chars, parts := parts } = s at h sne sv
    have hparts : NE (if s.rest.isEmpty then s.parts else s.parts ++ [s.rest]) ∧
        Valid s.chars (if s.rest.isEmpty then s.parts else s.parts ++ [s.rest]).length := by
      split
      · exact ⟨sne, sv⟩
      · rename_i he
        refine ⟨ne_append _ _ sne (ne_single _ (by intro h0; rw [h0] at he; simp at he)), ?_⟩
        simp only [List.length_append, List.length_singleton]
        exact valid_mono _ _ _ sv (Nat.le_succ _)
    generalize (if s.rest.isEmpty then s.parts else s.parts ++ [s.rest]) = parts' at h hparts
    split at h
    · injection h with h
      injection h with h1 h2
      subst h1; subst h2
      exact hparts
    · split at h
      · exact absurd h (by simp)
      · rename_i idx hidx
        have hlt := rewindIdx_lt parts' s.chars _ idx hidx
        apply ih _ _ _ (ne_take _ _ hparts.1) _ h
        refine ⟨hparts.2.1.filter _, ?_⟩
        intro c hc
        have := (List.mem_filter.mp hc).2
        simp only [decide_eq_true_eq] at this
        rw [List.length_take]
        omega

/-! ### sorted lists of indices -/

theorem sorted_take_le (l : List Nat) (hp : l.Pairwise (· < ·)) (i : Nat) (hi : i < l.length) :
    ∀ x ∈ l.take (i + 1), x ≤ l[i] := by
  intro x hx
  obtain ⟨k, hk, rfl⟩ := List.mem_iff_getElem.mp hx
  rw [List.length_take] at hk
  rw [List.getElem_take]
  rcases Nat.lt_or_ge k i with hlt | hge
  · exact Nat.le_of_lt ((List.pairwise_iff_getElem.mp hp) k i (by omega) hi hlt)
  · have : k = i := by omega
    subst this; exact Nat.le_refl _

theorem sorted_drop_ge (l : List Nat) (hp : l.Pairwise (· < ·)) (i : Nat) (hi : i + 1 < l.length) :
    ∀ y ∈ l.drop (i + 1), l[i + 1] ≤ y := by
  intro y hy
  obtain ⟨k, hk, rfl⟩ := List.mem_iff_getElem.mp hy
  rw [List.length_drop] at hk
  rw [List.getElem_drop]
  rcases Nat.eq_zero_or_pos k with h0 | hpos
  · subst h0; exact Nat.le_refl _
  · exact Nat.le_of_lt ((List.pairwise_iff_getElem.mp hp) (i + 1) (i + 1 + k) hi (by omega) (by omega))

theorem flatten_ne (l : List Bytes) (hl : l ≠ []) (hne : NE l) : l.flatten ≠ [] := by
  cases l with
  | nil => exact absurd rfl hl
  | cons a t =>
    have : a ≠ [] := hne a (by simp)
    intro h
    simp only [List.flatten_cons, List.append_eq_nil_iff] at h
    exact this h.1

theorem mergeLoop_inv (fuel i : Nat) (parts : List Bytes) (chars : List Nat) (hne : NE parts)
    (hv : Valid chars parts.length) :
    NE (mergeLoop fuel i parts chars).1 ∧
    Valid (mergeLoop fuel i parts chars).2 (mergeLoop fuel i parts chars).1.length := by
  induction fuel generalizing i parts chars with
  | zero => exact ⟨hne, hv⟩
  | succ f ih =>
    unfold mergeLoop
    split
    · rename_i hi
      simp only
      have e1 : chars.getD i 0 = chars[i] := by
        rw [List.getD_eq_getElem?_getD, List.getElem?_eq_getElem (by omega)]; rfl
      have e2 : chars.getD (i + 1) 0 = chars[i + 1] := by
        rw [List.getD_eq_getElem?_getD, List.getElem?_eq_getElem hi]; rfl
      have h12 : chars[i] < chars[i + 1] := (List.pairwise_iff_getElem.mp hv.1) i (i + 1) (by omega) hi (by omega)
      have h2n : chars[i + 1] < parts.length := hv.2 _ (List.getElem_mem hi)
      rw [e1, e2]
      generalize hc1 : chars[i] = c1 at *
      generalize hc2 : chars[i + 1] = c2 at *
      split
      · rename_i hgap
        apply ih
        · -- the merged gap is a non-empty part
          have hlen : ((parts.drop (c1 + 1)).take (c2 - c1 - 1)).length = c2 - c1 - 1 := by
            rw [List.length_take, List.length_drop]; omega
          have hmid : ((parts.drop (c1 + 1)).take (c2 - c1 - 1)).flatten ≠ [] :=
            flatten_ne _ (by intro h0; rw [h0] at hlen; simp at hlen; omega) (ne_take _ _ (ne_drop _ _ hne))
          exact ne_append _ _ (ne_append _ _ (ne_take _ _ hne) (ne_single _ hmid)) (ne_drop _ _ hne)
        · have hle := sorted_take_le chars hv.1 i (by omega)
          have hge := sorted_drop_ge chars hv.1 i hi
          rw [hc1] at hle
          rw [hc2] at hge
          have hnewlen : (parts.take (c1 + 1) ++ [((parts.drop (c1 + 1)).take (c2 - c1 - 1)).flatten] ++ parts.drop c2).length
              = parts.length - (c2 - c1 - 2) := by
            simp only [List.length_append, List.length_take, List.length_drop, List.length_singleton]
            omega
          rw [hnewlen]
          refine ⟨?_, ?_⟩
          · rw [List.pairwise_append]
            refine ⟨hv.1.sublist (List.take_sublist _ _), ?_, ?_⟩
            · rw [List.pairwise_map]
              refine (hv.1.sublist (List.drop_sublist _ _)).imp_of_mem ?_
              intro a b ha hb hab
              have := hge a ha
              have := hge b hb
              omega
            · intro a ha b hb
              obtain ⟨y, hy, rfl⟩ := List.mem_map.mp hb
              have := hle a ha
              have := hge y hy
              omega
          · intro c hc
            rcases List.mem_append.mp hc with h | h
            · have := hle c h
              omega
            · obtain ⟨y, hy, rfl⟩ := List.mem_map.mp h
              have := hge y hy
              have := hv.2 y (List.mem_of_mem_drop hy)
              omega
      · exact ih _ _ _ hne hv
    · exact ⟨hne, hv⟩

/-- cutting the header (parts before the first char) and the footer (parts after the last char)
keeps the char indices valid -/
theorem header_footer_valid (c0 : Nat) (rest : List Nat) (parts : List Bytes) (ov : Valid (c0 :: rest) parts.length) :
    (∀ c ∈ c0 :: rest, c0 ≤ c) ∧
    Valid ((c0 :: rest).map (· - c0)) (parts.drop c0).length ∧
    (∀ c ∈ (c0 :: rest).map (· - c0), c ≤ ((c0 :: rest).map (· - c0)).getLast?.getD 0) ∧
    Valid ((c0 :: rest).map (· - c0))
      ((parts.drop c0).take (((c0 :: rest).map (· - c0)).getLast?.getD 0 + 1)).length := by
  have hc0 : ∀ c ∈ c0 :: rest, c0 ≤ c := by
    intro c hc
    simp only [List.mem_cons] at hc
    rcases hc with rfl | hc
    · exact Nat.le_refl _
    · exact Nat.le_of_lt ((List.pairwise_cons.mp ov.1).1 c hc)
  have hv1 : Valid ((c0 :: rest).map (· - c0)) (parts.drop c0).length := by
    refine ⟨?_, ?_⟩
    · rw [List.pairwise_map]
      refine ov.1.imp_of_mem ?_
      intro a b ha hb hab
      have := hc0 a ha
      have := hc0 b hb
      omega
    · intro c hc
      obtain ⟨y, hy, rfl⟩ := List.mem_map.mp hc
      have := hc0 y hy
      have := ov.2 y hy
      rw [List.length_drop]
      omega
  have hlast : ∀ c ∈ (c0 :: rest).map (· - c0), c ≤ ((c0 :: rest).map (· - c0)).getLast?.getD 0 := by
    intro c hc
    generalize hl : (c0 :: rest).map (· - c0) = l at hc hv1
    have hlne : l ≠ [] := by rw [← hl]; simp
    rw [List.getLast?_eq_getLast hlne]
    simp only [Option.getD_some]
    obtain ⟨k, hk, rfl⟩ := List.mem_iff_getElem.mp hc
    rw [List.getLast_eq_getElem]
    rcases Nat.lt_or_ge k (l.length - 1) with hlt | hge
    · exact Nat.le_of_lt ((List.pairwise_iff_getElem.mp hv1.1) k (l.length - 1) hk (by omega) hlt)
    · have : k = l.length - 1 := by omega
      subst this; exact Nat.le_refl _
  refine ⟨hc0, hv1, hlast, hv1.1, ?_⟩
  intro c hc
  have h1 := hlast c hc
  have hmem : ((c0 :: rest).map (· - c0)).getLast?.getD 0 ∈ (c0 :: rest).map (· - c0) := by
    generalize hl : (c0 :: rest).map (· - c0) = l
    have hlne : l ≠ [] := by rw [← hl]; simp
    rw [List.getLast?_eq_getLast hlne]
    simp only [Option.getD_some]
    exact List.getLast_mem hlne
  have h2 := hv1.2 _ hmem
  rw [List.length_take]
  omega

/-- the JS-string splitter meets the full contract: round trip, non-empty parts, one flag each -/
theorem splitJs_ok : Load.SplitOK splitJs := by
  intro d s h
  obtain ⟨hcat, hlen⟩ := splitJs_cat d s h
  refine ⟨hcat, ?_, hlen⟩
  unfold splitJs at h
  cases ho : outer (d.length + 2) d [] [] with
  | error e => rw [ho] at h; simp at h
  | ok r =>
    obtain ⟨chars, parts⟩ := r
    rw [ho] at h
    simp only at h
    obtain ⟨one, ov⟩ := outer_inv _ _ _ _ _ _ (by intro p hp; simp at hp) ⟨List.Pairwise.nil, by intro c hc; simp at hc⟩ ho
    cases chars with
    | nil =>
      simp only [Except.ok.injEq] at h
      subst h
      exact one
    | cons c0 rest =>
      simp only [Except.ok.injEq] at h
      subst h
      simp only
      obtain ⟨-, -, -, hv2⟩ := header_footer_valid c0 rest parts ov
      exact (mergeLoop_inv _ 0 _ _ (ne_take _ _ (ne_drop _ _ one)) hv2).1

/-! ### the parts indexed by `chars` satisfy any predicate that holds of in-string tokens -/

/-- `T` holds of every part a char index points to -/
def CharsSat (T : Bytes → Prop) (chars : List Nat) (parts : List Bytes) : Prop :=
  ∀ c ∈ chars, T ((parts[c]?).getD [])

theorem charsSat_append (T : Bytes → Prop) (chars : List Nat) (parts extra : List Bytes)
    (hv : Valid chars parts.length) (h : CharsSat T chars parts) : CharsSat T chars (parts ++ extra) := by
  intro c hc
  rw [List.getElem?_append_left (hv.2 c hc)]
  exact h c hc

theorem scan_sat (T : Bytes → Prop) (hT : ∀ d : Bytes, tokLen d ≠ 0 → T (d.take (tokLen d)))
    (fuel : Nat) (s : Scan) (hv : Valid s.chars s.parts.length) (h : CharsSat T s.chars s.parts) :
    CharsSat T (scan fuel s).chars (scan fuel s).parts := by
  induction fuel generalizing s with
  | zero => exact h
  | succ f ih =>
    unfold scan
    split
    · simp only
      split
      · exact h
      · rename_i hk
        split
        · apply ih
          · simp only [List.length_append, List.length_singleton]
            exact valid_mono _ _ _ hv (Nat.le_succ _)
          · exact charsSat_append T _ _ _ hv h
        · apply ih
          · simp only [List.length_append, List.length_singleton]
            exact valid_snoc _ _ hv
          · intro c hc
            rcases List.mem_append.mp hc with h1 | h1
            · rw [List.getElem?_append_left (hv.2 c h1)]
              exact h c h1
            · simp only [List.mem_singleton] at h1
              subst h1
              simp only [List.getElem?_append_right (Nat.le_refl _), Nat.sub_self, List.getElem?_cons_zero, Option.getD_some]
              exact hT _ hk
    · split
      · exact h
      · apply ih
        · simp only [List.length_append, List.length_singleton]
          exact valid_mono _ _ _ hv (Nat.le_succ _)
        · exact charsSat_append T _ _ _ hv h

theorem outer_sat (T : Bytes → Prop) (hT : ∀ d : Bytes, tokLen d ≠ 0 → T (d.take (tokLen d)))
    (fuel : Nat) (data : Bytes) (chars : List Nat) (parts : List Bytes) (cs : List Nat) (ps : List Bytes)
    (hne : NE parts) (hv : Valid chars parts.length) (hs : CharsSat T chars parts)
    (h : outer fuel data chars parts = .ok (cs, ps)) : CharsSat T cs ps := by
  induction fuel generalizing data chars parts with
  | zero => simp [outer] at h
  | succ f ih =>
    unfold outer at h
    simp only at h
    obtain ⟨sne, sv⟩ := scan_inv (data.length + 1) { rest := data, instr := none, chars := chars, parts := parts } hne hv
    have ssat := scan_sat T hT (data.length + 1) { rest := data, instr := none, chars := chars, parts := parts } hv hs
    generalize scan (data.length + 1) { rest := data, instr := none, chars := chars, parts := parts } = s at h sne sv ssat
    have hparts : NE (if s.rest.isEmpty then s.parts else s.parts ++ [s.rest]) ∧
        Valid s.chars (if s.rest.isEmpty then s.parts else s.parts ++ [s.rest]).length ∧
        CharsSat T s.chars (if s.rest.isEmpty then s.parts else s.parts ++ [s.rest]) := by
      split
      · exact ⟨sne, sv, ssat⟩
      · rename_i he
        refine ⟨ne_append _ _ sne (ne_single _ (by intro h0; rw [h0] at he; simp at he)), ?_, charsSat_append T _ _ _ sv ssat⟩
        simp only [List.length_append, List.length_singleton]
        exact valid_mono _ _ _ sv (Nat.le_succ _)
    generalize (if s.rest.isEmpty then s.parts else s.parts ++ [s.rest]) = parts' at h hparts
    split at h
    · injection h with h
      injection h with h1 h2
      subst h1; subst h2
      exact hparts.2.2
    · split at h
      · exact absurd h (by simp)
      · rename_i idx hidx
        have hlt := rewindIdx_lt parts' s.chars _ idx hidx
        apply ih _ _ _ (ne_take _ _ hparts.1) _ _ h
        · refine ⟨hparts.2.1.1.filter _, ?_⟩
          intro c hc
          have := (List.mem_filter.mp hc).2
          simp only [decide_eq_true_eq] at this
          rw [List.length_take]
          omega
        · intro c hc
          have hm := List.mem_filter.mp hc
          have hci : c < idx := by simpa using hm.2
          rw [List.getElem?_take_of_lt (by omega)]
          exact hparts.2.2 c hm.1

theorem mergeLoop_sat (T : Bytes → Prop) (fuel i : Nat) (parts : List Bytes) (chars : List Nat)
    (hv : Valid chars parts.length) (hs : CharsSat T chars parts) :
    CharsSat T (mergeLoop fuel i parts chars).2 (mergeLoop fuel i parts chars).1 := by
  induction fuel generalizing i parts chars with
  | zero => exact hs
  | succ f ih =>
    unfold mergeLoop
    split
    · rename_i hi
      simp only
      have e1 : chars.getD i 0 = chars[i] := by
        rw [List.getD_eq_getElem?_getD, List.getElem?_eq_getElem (by omega)]; rfl
      have e2 : chars.getD (i + 1) 0 = chars[i + 1] := by
        rw [List.getD_eq_getElem?_getD, List.getElem?_eq_getElem hi]; rfl
      have h12 : chars[i] < chars[i + 1] := (List.pairwise_iff_getElem.mp hv.1) i (i + 1) (by omega) hi (by omega)
      have h2n : chars[i + 1] < parts.length := hv.2 _ (List.getElem_mem hi)
      rw [e1, e2]
      generalize hc1 : chars[i] = c1 at *
      generalize hc2 : chars[i + 1] = c2 at *
      split
      · rename_i hgap
        have hle := sorted_take_le chars hv.1 i (by omega)
        have hge := sorted_drop_ge chars hv.1 i hi
        rw [hc1] at hle
        rw [hc2] at hge
        have hv' : Valid (chars.take (i + 1) ++ (chars.drop (i + 1)).map (· - (c2 - c1 - 2)))
            (parts.take (c1 + 1) ++ [((parts.drop (c1 + 1)).take (c2 - c1 - 1)).flatten] ++ parts.drop c2).length := by
          have hnewlen : (parts.take (c1 + 1) ++ [((parts.drop (c1 + 1)).take (c2 - c1 - 1)).flatten] ++ parts.drop c2).length
              = parts.length - (c2 - c1 - 2) := by
            simp only [List.length_append, List.length_take, List.length_drop, List.length_singleton]
            omega
          rw [hnewlen]
          refine ⟨?_, ?_⟩
          · rw [List.pairwise_append]
            refine ⟨hv.1.sublist (List.take_sublist _ _), ?_, ?_⟩
            · rw [List.pairwise_map]
              refine (hv.1.sublist (List.drop_sublist _ _)).imp_of_mem ?_
              intro a b ha hb hab
              have := hge a ha
              have := hge b hb
              omega
            · intro a ha b hb
              obtain ⟨y, hy, rfl⟩ := List.mem_map.mp hb
              have := hle a ha
              have := hge y hy
              omega
          · intro c hc
            rcases List.mem_append.mp hc with h | h
            · have := hle c h
              omega
            · obtain ⟨y, hy, rfl⟩ := List.mem_map.mp h
              have := hge y hy
              have := hv.2 y (List.mem_of_mem_drop hy)
              omega
        apply ih _ _ _ hv'
        intro c hc
        rcases List.mem_append.mp hc with h | h
        · -- an index up to c1: the part is in the untouched prefix
          have hcle := hle c h
          have hmem : c ∈ chars := List.mem_of_mem_take h
          have : (parts.take (c1 + 1) ++ [((parts.drop (c1 + 1)).take (c2 - c1 - 1)).flatten] ++ parts.drop c2)[c]? = parts[c]? := by
            rw [List.append_assoc, List.getElem?_append_left (by rw [List.length_take]; omega),
              List.getElem?_take_of_lt (by omega)]
          rw [this]
          exact hs c hmem
        · -- an index from c2 on: shifted down by the merged gap
          obtain ⟨y, hy, rfl⟩ := List.mem_map.mp h
          have hyge := hge y hy
          have hmem : y ∈ chars := List.mem_of_mem_drop hy
          have hylt := hv.2 y hmem
          have : (parts.take (c1 + 1) ++ [((parts.drop (c1 + 1)).take (c2 - c1 - 1)).flatten] ++ parts.drop c2)[y - (c2 - c1 - 2)]?
              = parts[y]? := by
            have hl : (parts.take (c1 + 1) ++ [((parts.drop (c1 + 1)).take (c2 - c1 - 1)).flatten]).length = c1 + 2 := by
              simp only [List.length_append, List.length_take, List.length_singleton]; omega
            rw [List.getElem?_append_right (by rw [hl]; omega), hl, List.getElem?_drop]
            congr 1; omega
          rw [this]
          exact hs y hmem
      · exact ih _ _ _ hv hs
    · exact hs

/-- Every part flagged reducible by the JS-string splitter satisfies any predicate `T` that holds
of the tokens the in-string scanner cuts off. -/
theorem splitJs_sat (T : Bytes → Prop) (hT : ∀ d : Bytes, tokLen d ≠ 0 → T (d.take (tokLen d)))
    (d : Bytes) (s : Load.Split) (h : splitJs d = .ok s) :
    ∀ x ∈ s.parts.zip s.reducible, x.2 = true → T x.1 := by
  unfold splitJs at h
  cases ho : outer (d.length + 2) d [] [] with
  | error e => rw [ho] at h; simp at h
  | ok r =>
    obtain ⟨chars, parts⟩ := r
    rw [ho] at h
    simp only at h
    have hv0 : Valid ([] : List Nat) ([] : List Bytes).length := ⟨List.Pairwise.nil, by intro c hc; simp at hc⟩
    obtain ⟨one, ov⟩ := outer_inv _ _ _ _ _ _ (by intro p hp; simp at hp) hv0 ho
    have osat := outer_sat T hT _ _ _ _ _ _ (by intro p hp; simp at hp) hv0 (by intro c hc; simp at hc) ho
    cases chars with
    | nil =>
      simp only [Except.ok.injEq] at h
      subst h
      intro x hx hr
      have := (List.of_mem_zip hx).2
      simp only [List.mem_replicate] at this
      rw [this.2] at hr
      exact absurd hr (by simp)
    | cons c0 rest =>
      simp only [Except.ok.injEq] at h
      subst h
      simp only
      obtain ⟨hc0, hv1, hlast, hv2⟩ := header_footer_valid c0 rest parts ov
      -- CharsSat survives cutting the header and the footer
      have hs2 : CharsSat T ((c0 :: rest).map (· - c0))
          ((parts.drop c0).take (((c0 :: rest).map (· - c0)).getLast?.getD 0 + 1)) := by
        intro c hc
        have hle := hlast c hc
        obtain ⟨y, hy, rfl⟩ := List.mem_map.mp hc
        have hy0 := hc0 y hy
        rw [List.getElem?_take_of_lt (by omega), List.getElem?_drop]
        have : c0 + (y - c0) = y := by omega
        rw [this]
        exact osat y hy
      have msat := mergeLoop_sat T ((c0 :: rest).map (· - c0)).length 0 _ _ hv2 hs2
      generalize mergeLoop ((c0 :: rest).map (· - c0)).length 0
        ((parts.drop c0).take (((c0 :: rest).map (· - c0)).getLast?.getD 0 + 1)) ((c0 :: rest).map (· - c0)) = m at msat ⊢
      intro x hx hr
      obtain ⟨k, hk, rfl⟩ := List.mem_iff_getElem.mp hx
      simp only [List.length_zip, List.length_map, List.length_range, Nat.min_self] at hk
      simp only [List.getElem_zip, List.getElem_map, List.getElem_range] at hr ⊢
      have hmem : k ∈ m.2 := by simpa using hr
      have := msat k hmem
      rw [List.getElem?_eq_getElem hk] at this
      exact this

/-! ### what a token is -/

/-- one string character or one complete escape sequence -/
def IsTok (p : Bytes) : Prop :=
  (∃ c, p = [c] ∧ c ≠ 0x5C) ∨
  (∃ a b c d, p = [0x5C, 0x75, a, b, c, d] ∧ isHex a = true ∧ isHex b = true ∧ isHex c = true ∧ isHex d = true) ∨
  (∃ a b, p = [0x5C, 0x78, a, b] ∧ isHex a = true ∧ isHex b = true) ∨
  (∃ hs, hs ≠ [] ∧ (∀ h ∈ hs, isHex h = true) ∧ p = [0x5C, 0x75, 0x7B] ++ hs ++ [0x7D]) ∨
  (∃ c, p = [0x5C, c]) ∨
  p = [0x5C]      -- a backslash that is the very last byte of the data

theorem takeWhile_all' {α} (p : α → Bool) (l : List α) : ∀ b ∈ l.takeWhile p, p b = true := by
  induction l with
  | nil => intro b hb; simp at hb
  | cons a t ih =>
    intro b hb
    simp only [List.takeWhile_cons] at hb
    split at hb
    · rename_i ha
      simp only [List.mem_cons] at hb
      rcases hb with rfl | hb
      · exact ha
      · exact ih b hb
    · simp at hb

theorem take_length_takeWhile' {α} (p : α → Bool) (l : List α) : l.take (l.takeWhile p).length = l.takeWhile p := by
  induction l with
  | nil => rfl
  | cons a t ih =>
    simp only [List.takeWhile_cons]
    split
    · simp [ih]
    · simp

theorem tokLen_take_tok (d : Bytes) (h : tokLen d ≠ 0) : IsTok (d.take (tokLen d)) := by
  cases d with
  | nil => simp [tokLen] at h
  | cons c rest =>
    unfold tokLen
    simp only
    by_cases hc : (c != 0x5C) = true
    · rw [if_pos hc]
      left
      exact ⟨c, by simp, by simpa using hc⟩
    · rw [if_neg hc]
      have hc' : c = 0x5C := by simpa using hc
      subst hc'
      by_cases hu4 : isU4 rest = true
      · rw [if_pos hu4]
        right; left
        unfold isU4 at hu4
        split at hu4
        · rename_i a b c d tl
          simp only [Bool.and_eq_true] at hu4
          exact ⟨a, b, c, d, by simp, hu4.1.1.1, hu4.1.1.2, hu4.1.2, hu4.2⟩
        · exact absurd hu4 (by simp)
      · rw [if_neg hu4]
        by_cases hx2 : isX2 rest = true
        · rw [if_pos hx2]
          right; right; left
          unfold isX2 at hx2
          split at hx2
          · rename_i a b tl
            simp only [Bool.and_eq_true] at hx2
            exact ⟨a, b, by simp, hx2.1, hx2.2⟩
          · exact absurd hx2 (by simp)
        · rw [if_neg hx2]
          cases hub : uBrace rest with
          | some k =>
            simp only
            right; right; right; left
            unfold uBrace at hub
            split at hub
            · rename_i r2
              simp only at hub
              split at hub
              · exact absurd hub (by simp)
              · rename_i hne
                split at hub
                · rename_i tl hdrop
                  injection hub with hub
                  subst hub
                  refine ⟨r2.takeWhile isHex, by intro h0; rw [h0] at hne; simp at hne, takeWhile_all' _ _, ?_⟩
                  have h1 : (0x5C :: 0x75 :: 0x7B :: r2).take ((r2.takeWhile isHex).length + 4)
                      = 0x5C :: 0x75 :: 0x7B :: r2.take ((r2.takeWhile isHex).length + 1) := by simp
                  rw [h1, List.take_add, take_length_takeWhile', hdrop]
                  simp
                · exact absurd hub (by simp)
            · exact absurd hub (by simp)
          | none =>
            simp only
            by_cases he : rest.isEmpty = true
            · rw [if_pos he]
              right; right; right; right; right
              have : rest = [] := by simpa using he
              subst this
              rfl
            · rw [if_neg he]
              right; right; right; right; left
              cases rest with
              | nil => simp at he
              | cons x tl => exact ⟨x, by simp⟩

/-- every reducible atom of the JS-string splitter is one character or one complete escape -/
theorem splitJs_tokens (d : Bytes) (s : Load.Split) (h : splitJs d = .ok s) :
    ∀ x ∈ s.parts.zip s.reducible, x.2 = true → IsTok x.1 :=
  splitJs_sat IsTok tokLen_take_tok d s h

end Js
