/-
Every part the JS-string splitter produces is non-empty (C06), via the invariant that the
`chars` list is strictly increasing and indexes existing parts.
-/
import LithiumProofs.SplitJs

namespace Js

def NE (parts : List Bytes) : Prop := ∀ p ∈ parts, p ≠ []

/-- `chars` is strictly increasing and every entry indexes a part -/
def Valid (chars : List Nat) (n : Nat) : Prop := chars.Pairwise (· < ·) ∧ ∀ c ∈ chars, c < n

theorem ne_append (a b : List Bytes) (ha : NE a) (hb : NE b) : NE (a ++ b) := by
  intro p hp
  rcases List.mem_append.mp hp with h | h
  · exact ha p h
  · exact hb p h

theorem ne_single (p : Bytes) (h : p ≠ []) : NE [p] := by
  intro q hq
  simp only [List.mem_singleton] at hq
  rw [hq]; exact h

theorem valid_mono (chars : List Nat) (n m : Nat) (h : Valid chars n) (hnm : n ≤ m) : Valid chars m :=
  ⟨h.1, fun c hc => Nat.lt_of_lt_of_le (h.2 c hc) hnm⟩

theorem valid_snoc (chars : List Nat) (n : Nat) (h : Valid chars n) : Valid (chars ++ [n]) (n + 1) := by
  refine ⟨?_, ?_⟩
  · rw [List.pairwise_append]
    refine ⟨h.1, List.pairwise_singleton _ _, ?_⟩
    intro a ha b hb
    simp only [List.mem_singleton] at hb
    rw [hb]; exact h.2 a ha
  · intro c hc
    rcases List.mem_append.mp hc with h1 | h1
    · exact Nat.lt_succ_of_lt (h.2 c h1)
    · simp only [List.mem_singleton] at h1
      rw [h1]; exact Nat.lt_succ_self _

theorem tokLen_pos (d : Bytes) (h : tokLen d ≠ 0) : d ≠ [] ∧ 1 ≤ tokLen d := by
  cases d with
  | nil => simp [tokLen] at h
  | cons c rest => exact ⟨by simp, by omega⟩

theorem take_ne (d : Bytes) (k : Nat) (hd : d ≠ []) (hk : 1 ≤ k) : d.take k ≠ [] := by
  cases d with
  | nil => exact absurd rfl hd
  | cons c rest =>
    cases k with
    | zero => omega
    | succ k => simp

theorem scan_inv (fuel : Nat) (s : Scan) (hne : NE s.parts) (hv : Valid s.chars s.parts.length) :
    NE (scan fuel s).parts ∧ Valid (scan fuel s).chars (scan fuel s).parts.length := by
  induction fuel generalizing s with
  | zero => exact ⟨hne, hv⟩
  | succ f ih =>
    unfold scan
    split
    · simp only
      split
      · exact ⟨hne, hv⟩
      · rename_i hk
        obtain ⟨hd, hk1⟩ := tokLen_pos s.rest hk
        have htok := take_ne s.rest (tokLen s.rest) hd hk1
        split
        · apply ih
          · exact ne_append _ _ hne (ne_single _ htok)
          · simp only [List.length_append, List.length_singleton]
            exact valid_mono _ _ _ hv (Nat.le_succ _)
        · apply ih
          · exact ne_append _ _ hne (ne_single _ htok)
          · simp only [List.length_append, List.length_singleton]
            exact valid_snoc _ _ hv
    · split
      · exact ⟨hne, hv⟩
      · rename_i i hi
        have hlt : i < s.rest.length := by
          have := List.findIdx?_eq_some_iff_getElem.mp hi
          exact this.1
        apply ih
        · refine ne_append _ _ hne (ne_single _ ?_)
          exact take_ne s.rest (i + 1) (by intro h; rw [h] at hlt; simp at hlt) (by omega)
        · simp only [List.length_append, List.length_singleton]
          exact valid_mono _ _ _ hv (Nat.le_succ _)

theorem rewindIdx_lt (parts : List Bytes) (chars : List Nat) (q : UInt8) (idx : Nat)
    (h : rewindIdx parts chars q = some idx) : idx < parts.length := by
  unfold rewindIdx at h
  simp only [Option.map_eq_some_iff] at h
  obtain ⟨x, hx, rfl⟩ := h
  have hm := List.mem_of_getLast? hx
  have := (List.mem_filter.mp hm).1
  have := List.snd_lt_of_mem_zipIdx this
  omega

theorem ne_take (parts : List Bytes) (k : Nat) (h : NE parts) : NE (parts.take k) :=
  fun p hp => h p (List.mem_of_mem_take hp)

theorem ne_drop (parts : List Bytes) (k : Nat) (h : NE parts) : NE (parts.drop k) :=
  fun p hp => h p (List.mem_of_mem_drop hp)

theorem outer_inv (fuel : Nat) (data : Bytes) (chars : List Nat) (parts : List Bytes) (cs : List Nat) (ps : List Bytes)
    (hne : NE parts) (hv : Valid chars parts.length) (h : outer fuel data chars parts = .ok (cs, ps)) :
    NE ps ∧ Valid cs ps.length := by
  induction fuel generalizing data chars parts with
  | zero => simp [outer] at h
  | succ f ih =>
    unfold outer at h
    simp only at h
    obtain ⟨sne, sv⟩ := scan_inv (data.length + 1) { rest := data, instr := none, chars := chars, parts := parts } hne hv
    generalize scan (data.length + 1) { rest := data, instr := none, chars := chars, parts := parts } = s at h sne sv
    have hparts : NE (if s.rest.isEmpty then s.parts else s.parts ++ [s.rest]) ∧
        Valid s.chars (if s.rest.isEmpty then s.parts else s.parts ++ [s.rest]).length := by
      split
      · exact ⟨sne, sv⟩
      · rename_i he
        refine ⟨ne_append _ _ sne (ne_single _ (by intro h0; rw [h0] at he; simp at he)), ?_⟩
        simp only [List.length_append, List.length_singleton]
        exact valid_mono _ _ _ sv (Nat.le_succ _)
    generalize (if s.rest.isEmpty then s.parts else s.parts ++ [s.rest]) = parts' at h hparts
    split at h
    · injection h with h
      injection h with h1 h2
      subst h1; subst h2
      exact hparts
    · split at h
      · exact absurd h (by simp)
      · rename_i idx hidx
        have hlt := rewindIdx_lt parts' s.chars _ idx hidx
        apply ih _ _ _ (ne_take _ _ hparts.1) _ h
        refine ⟨hparts.2.1.filter _, ?_⟩
        intro c hc
        have := (List.mem_filter.mp hc).2
        simp only [decide_eq_true_eq] at this
        rw [List.length_take]
        omega

/-! ### sorted lists of indices -/

theorem sorted_take_le (l : List Nat) (hp : l.Pairwise (· < ·)) (i : Nat) (hi : i < l.length) :
    ∀ x ∈ l.take (i + 1), x ≤ l[i] := by
  intro x hx
  obtain ⟨k, hk, rfl⟩ := List.mem_iff_getElem.mp hx
  rw [List.length_take] at hk
  rw [List.getElem_take]
  rcases Nat.lt_or_ge k i with hlt | hge
  · exact Nat.le_of_lt ((List.pairwise_iff_getElem.mp hp) k i (by omega) hi hlt)
  · have : k = i := by omega
    subst this; exact Nat.le_refl _

theorem sorted_drop_ge (l : List Nat) (hp : l.Pairwise (· < ·)) (i : Nat) (hi : i + 1 < l.length) :
    ∀ y ∈ l.drop (i + 1), l[i + 1] ≤ y := by
  intro y hy
  obtain ⟨k, hk, rfl⟩ := List.mem_iff_getElem.mp hy
  rw [List.length_drop] at hk
  rw [List.getElem_drop]
  rcases Nat.eq_zero_or_pos k with h0 | hpos
  · subst h0; exact Nat.le_refl _
  · exact Nat.le_of_lt ((List.pairwise_iff_getElem.mp hp) (i + 1) (i + 1 + k) hi (by omega) (by omega))

theorem flatten_ne (l : List Bytes) (hl : l ≠ []) (hne : NE l) : l.flatten ≠ [] := by
  cases l with
  | nil => exact absurd rfl hl
  | cons a t =>
    have : a ≠ [] := hne a (by simp)
    intro h
    simp only [List.flatten_cons, List.append_eq_nil_iff] at h
    exact this h.1

theorem mergeLoop_inv (fuel i : Nat) (parts : List Bytes) (chars : List Nat) (hne : NE parts)
    (hv : Valid chars parts.length) :
    NE (mergeLoop fuel i parts chars).1 ∧
    Valid (mergeLoop fuel i parts chars).2 (mergeLoop fuel i parts chars).1.length := by
  induction fuel generalizing i parts chars with
  | zero => exact ⟨hne, hv⟩
  | succ f ih =>
    unfold mergeLoop
    split
    · rename_i hi
      simp only
      have e1 : chars.getD i 0 = chars[i] := by
        rw [List.getD_eq_getElem?_getD, List.getElem?_eq_getElem (by omega)]; rfl
      have e2 : chars.getD (i + 1) 0 = chars[i + 1] := by
        rw [List.getD_eq_getElem?_getD, List.getElem?_eq_getElem hi]; rfl
      have h12 : chars[i] < chars[i + 1] := (List.pairwise_iff_getElem.mp hv.1) i (i + 1) (by omega) hi (by omega)
      have h2n : chars[i + 1] < parts.length := hv.2 _ (List.getElem_mem hi)
      rw [e1, e2]
      generalize hc1 : chars[i] = c1 at *
      generalize hc2 : chars[i + 1] = c2 at *
      split
      · rename_i hgap
        apply ih
        · -- the merged gap is a non-empty part
          have hlen : ((parts.drop (c1 + 1)).take (c2 - c1 - 1)).length = c2 - c1 - 1 := by
            rw [List.length_take, List.length_drop]; omega
          have hmid : ((parts.drop (c1 + 1)).take (c2 - c1 - 1)).flatten ≠ [] :=
            flatten_ne _ (by intro h0; rw [h0] at hlen; simp at hlen; omega) (ne_take _ _ (ne_drop _ _ hne))
          exact ne_append _ _ (ne_append _ _ (ne_take _ _ hne) (ne_single _ hmid)) (ne_drop _ _ hne)
        · have hle := sorted_take_le chars hv.1 i (by omega)
          have hge := sorted_drop_ge chars hv.1 i hi
          rw [hc1] at hle
          rw [hc2] at hge
          have hnewlen : (parts.take (c1 + 1) ++ [((parts.drop (c1 + 1)).take (c2 - c1 - 1)).flatten] ++ parts.drop c2).length
              = parts.length - (c2 - c1 - 2) := by
            simp only [List.length_append, List.length_take, List.length_drop, List.length_singleton]
            omega
          rw [hnewlen]
          refine ⟨?_, ?_⟩
          · rw [List.pairwise_append]
            refine ⟨hv.1.sublist (List.take_sublist _ _), ?_, ?_⟩
            · rw [List.pairwise_map]
              refine (hv.1.sublist (List.drop_sublist _ _)).imp_of_mem ?_
              intro a b ha hb hab
              have := hge a ha
              have := hge b hb
              omega
            · intro a ha b hb
              obtain ⟨y, hy, rfl⟩ := List.mem_map.mp hb
              have := hle a ha
              have := hge y hy
              omega
          · intro c hc
            rcases List.mem_append.mp hc with h | h
            · have := hle c h
              omega
            · obtain ⟨y, hy, rfl⟩ := List.mem_map.mp h
              have := hge y hy
              have := hv.2 y (List.mem_of_mem_drop hy)
              omega
      · exact ih _ _ _ hne hv
    · exact ⟨hne, hv⟩

/-- the JS-string splitter meets the full contract: round trip, non-empty parts, one flag each -/
theorem splitJs_ok : Load.SplitOK splitJs := by
  intro d s h
  obtain ⟨hcat, hlen⟩ := splitJs_cat d s h
  refine ⟨hcat, ?_, hlen⟩
  unfold splitJs at h
  cases ho : outer (d.length + 2) d [] [] with
  | error e => rw [ho] at h; simp at h
  | ok r =>
    obtain ⟨chars, parts⟩ := r
    rw [ho] at h
    simp only at h
    obtain ⟨one, ov⟩ := outer_inv _ _ _ _ _ _ (by intro p hp; simp at hp) ⟨List.Pairwise.nil, by intro c hc; simp at hc⟩ ho
    cases chars with
    | nil =>
      simp only [Except.ok.injEq] at h
      subst h
      exact one
    | cons c0 rest =>
      simp only [Except.ok.injEq] at h
      subst h
      simp only
      -- after cutting the header and the footer the char indices are still valid
      have hc0 : ∀ c ∈ c0 :: rest, c0 ≤ c := by
        intro c hc
        simp only [List.mem_cons] at hc
        rcases hc with rfl | hc
        · exact Nat.le_refl _
        · exact Nat.le_of_lt ((List.pairwise_cons.mp ov.1).1 c hc)
      have hv1 : Valid ((c0 :: rest).map (· - c0)) (parts.drop c0).length := by
        refine ⟨?_, ?_⟩
        · rw [List.pairwise_map]
          refine ov.1.imp_of_mem ?_
          intro a b ha hb hab
          have := hc0 a ha
          have := hc0 b hb
          omega
        · intro c hc
          obtain ⟨y, hy, rfl⟩ := List.mem_map.mp hc
          have := hc0 y hy
          have := ov.2 y hy
          rw [List.length_drop]
          omega
      -- every index is at most the last one
      have hlast : ∀ c ∈ (c0 :: rest).map (· - c0), c ≤ ((c0 :: rest).map (· - c0)).getLast?.getD 0 := by
        intro c hc
        generalize hl : (c0 :: rest).map (· - c0) = l at hc hv1
        have hlne : l ≠ [] := by rw [← hl]; simp
        rw [List.getLast?_eq_getLast hlne]
        simp only [Option.getD_some]
        obtain ⟨k, hk, rfl⟩ := List.mem_iff_getElem.mp hc
        rw [List.getLast_eq_getElem]
        rcases Nat.lt_or_ge k (l.length - 1) with hlt | hge
        · exact Nat.le_of_lt ((List.pairwise_iff_getElem.mp hv1.1) k (l.length - 1) hk (by omega) hlt)
        · have : k = l.length - 1 := by omega
          subst this; exact Nat.le_refl _
      have hv2 : Valid ((c0 :: rest).map (· - c0))
          ((parts.drop c0).take (((c0 :: rest).map (· - c0)).getLast?.getD 0 + 1)).length := by
        refine ⟨hv1.1, ?_⟩
        intro c hc
        have h1 := hlast c hc
        have hmem : ((c0 :: rest).map (· - c0)).getLast?.getD 0 ∈ (c0 :: rest).map (· - c0) := by
          generalize hl : (c0 :: rest).map (· - c0) = l
          have hlne : l ≠ [] := by rw [← hl]; simp
          rw [List.getLast?_eq_getLast hlne]
          simp only [Option.getD_some]
          exact List.getLast_mem hlne
        have h2 := hv1.2 _ hmem
        rw [List.length_take]
        omega
      exact (mergeLoop_inv _ 0 _ _ (ne_take _ _ (ne_drop _ _ one)) hv2).1

end Js
