/-
The round skeleton of the rewriting strategies ends after at most `B + log2 cs + 2` passes when the
passes cannot report more than `B` removed characters in total (C09).
-/
import LithiumModel.Rewrite
import LithiumProofs.Minimize

namespace Strat

def rwMeasure (final B : Nat) (pass : Nat → Nat × Nat) (k cs : Nat) : Nat :=
  (B - removedSum pass k) + (if cs ≤ final then 0 else Nat.log2 cs + 1)

theorem log2_halve (cs : Nat) (h : 2 ≤ cs) : Nat.log2 (cs / 2) + 1 = Nat.log2 cs := by
  have := Nat.log2_def cs
  rw [if_pos h] at this
  omega

theorem rwLoop_bound (rep : Repeat) (final B P : Nat) (pass : Nat → Nat × Nat) (hf : 1 ≤ final)
    (hP : ∀ k, (pass k).1 ≤ P) (hB : ∀ k, removedSum pass k ≤ B) :
    ∀ (fuel k cs tests : Nat), rwMeasure final B pass k cs < fuel →
      (rwLoop rep final pass fuel k cs tests).2.2 = true ∧
      (rwLoop rep final pass fuel k cs tests).1 ≤ tests + P * (rwMeasure final B pass k cs + 1) ∧
      (rwLoop rep final pass fuel k cs tests).2.1 ≤ k + rwMeasure final B pass k cs + 1 := by
  intro fuel
  induction fuel with
  | zero => intro k cs tests h; omega
  | succ f ih =>
    intro k cs tests hm
    unfold rwLoop
    simp only
    have hp := hP k
    have hb1 := hB (k + 1)
    have hsum : removedSum pass (k + 1) = removedSum pass k + (pass k).2 := rfl
    by_cases hrep : (pass k).2 ≠ 0 ∧ (rep = .always ∨ (rep = .last ∧ decide (cs ≤ final) = true))
    · rw [if_pos hrep]
      -- a pass that removed something uses up budget
      have hdec : rwMeasure final B pass (k + 1) cs + 1 ≤ rwMeasure final B pass k cs := by
        unfold rwMeasure
        have := hrep.1
        omega
      obtain ⟨i1, i2, i3⟩ := ih (k + 1) cs (tests + (pass k).1) (by omega)
      refine ⟨i1, ?_, by omega⟩
      have : P * (rwMeasure final B pass (k + 1) cs + 1) + P ≤ P * (rwMeasure final B pass k cs + 1) := by
        have := Nat.mul_le_mul_left P hdec
        rw [Nat.mul_add, Nat.mul_one] at this
        rw [Nat.mul_add, Nat.mul_one, Nat.mul_add, Nat.mul_one]
        omega
      omega
    · rw [if_neg hrep]
      by_cases hlast : cs ≤ final
      · simp only [hlast, decide_true, if_true]
        refine ⟨trivial, ?_, by omega⟩
        have : P ≤ P * (rwMeasure final B pass k cs + 1) := Nat.le_mul_of_pos_right P (by omega)
        omega
      · simp only [hlast, decide_false, Bool.false_eq_true, if_false]
        have hcs2 : 2 ≤ cs := by omega
        have hdec : rwMeasure final B pass (k + 1) (cs / 2) + 1 ≤ rwMeasure final B pass k cs := by
          unfold rwMeasure
          rw [if_neg hlast]
          have hl := log2_halve cs hcs2
          split <;> omega
        obtain ⟨i1, i2, i3⟩ := ih (k + 1) (cs / 2) (tests + (pass k).1) (by omega)
        refine ⟨i1, ?_, by omega⟩
        have : P * (rwMeasure final B pass (k + 1) (cs / 2) + 1) + P ≤ P * (rwMeasure final B pass k cs + 1) := by
          have := Nat.mul_le_mul_left P hdec
          rw [Nat.mul_add, Nat.mul_one] at this
          rw [Nat.mul_add, Nat.mul_one, Nat.mul_add, Nat.mul_one]
          omega
        omega

end Strat
