/-
The time limit in minimize-around / minimize-balanced: every proposal (hence every test) is made
right after a check that the clock has not passed the limit (C14).
-/
import LithiumProofs.PairsLoop
import LithiumProofs.MinimizeLog

namespace Strat
open Testcase

def OnTime (stopAt : Option Nat) (clk : Clock) (it : It) : Prop :=
  ∀ a ∈ it.atts, deadlineAt stopAt clk a.tIdx = false

theorem pLoop_onTime {σ : Type} (pd : PassDef σ) (o : Oracle) (clk : Clock) (stopAt : Option Nat)
    (hact : ∀ st it c mk, pd.act st it = .propose c mk → ∀ r, (mk r).tIdx = it.nTests)
    (fuel : Nat) (st : σ) (it : It) (any : Bool) (h : OnTime stopAt clk it) :
    OnTime stopAt clk (pLoop pd o clk stopAt fuel st it any).1 :=
  pLoop_induct pd o clk stopAt (fun _ it _ => OnTime stopAt clk it) (fun it _ => OnTime stopAt clk it)
    (fun _ _ _ h => h) (fun _ _ _ h => h) (fun _ _ _ h _ _ => h) (fun _ _ _ _ h _ _ _ _ => h)
    (fun st it _ c mk h _ hd ha => by
      have key : OnTime stopAt clk (it.try o c mk).2 := by
        intro a hmem
        obtain ⟨-, -, -, f4⟩ := try_flags it o c mk
        rw [f4] at hmem
        simp only [List.mem_cons] at hmem
        rcases hmem with rfl | hmem
        · rw [hact st it c mk ha, ← deadlinePassed_eq]; exact hd
        · exact h a hmem
      exact ⟨key, fun _ _ => key⟩)
    fuel st it any h

theorem aroundPass_onTime (o : Oracle) (clk : Clock) (stopAt : Option Nat) (cs : Nat) (it : It)
    (h : OnTime stopAt clk it) : OnTime stopAt clk (aroundPass o clk stopAt cs it).1 := by
  unfold aroundPass
  simp only
  split
  · exact h
  · unfold aroundLoop
    apply pLoop_onTime _ o clk stopAt _ _ _ _ _ h
    intro st it c mk ha r
    simp only [aroundDef, PAct.propose.injEq] at ha
    obtain ⟨-, rfl⟩ := ha
    rfl

theorem balPass_onTime (o : Oracle) (clk : Clock) (stopAt : Option Nat) (cs : Nat) (it : It)
    (h : OnTime stopAt clk it) : OnTime stopAt clk (balPass o clk stopAt cs it).1 := by
  unfold balPass
  simp only
  split
  · exact h
  · unfold balLoop
    apply pLoop_onTime _ o clk stopAt _ _ _ _ _ h
    intro st it c mk ha r
    simp only [balDef, balAct] at ha
    split at ha
    · exact absurd ha (by simp)
    · split at ha
      · simp only [PAct.propose.injEq] at ha
        obtain ⟨-, rfl⟩ := ha
        rfl
      · split at ha
        · exact absurd ha (by simp)
        · simp only [PAct.propose.injEq] at ha
          obtain ⟨-, rfl⟩ := ha
          rfl

theorem pairsOuter_onTime (cfg : Cfg) (clk : Clock) (stopAt : Option Nat)
    (pass : Nat → It → It × Bool) (final : Nat)
    (hpass : ∀ cs it, OnTime stopAt clk it → OnTime stopAt clk (pass cs it).1) (fuel cs : Nat) (it : It)
    (h : OnTime stopAt clk it) : OnTime stopAt clk (pairsOuter cfg clk stopAt pass final fuel cs it) :=
  pairsOuter_induct cfg clk stopAt pass final (fun _ it => OnTime stopAt clk it) (OnTime stopAt clk)
    (fun _ _ h => h) (fun cs it h _ => hpass cs it h) (fun cs it h _ => hpass cs it h)
    (fun cs it h _ _ _ _ => hpass cs it h) (fun cs it h _ _ => hpass cs it h) (fun cs it h _ _ => hpass cs it h)
    fuel cs it h

theorem around_onTime (cfg : Cfg) (o : Oracle) (clk : Clock) (t : Testcase) :
    OnTime (stopAt cfg clk) clk (around cfg o clk t) := by
  unfold around
  exact pairsOuter_onTime cfg clk _ _ _ (fun cs it h => aroundPass_onTime o clk _ cs it h) _ _ _
    (by intro a ha; simp at ha)

theorem balanced_onTime (cfg : Cfg) (o : Oracle) (clk : Clock) (t : Testcase) :
    OnTime (stopAt cfg clk) clk (balanced cfg o clk t) := by
  unfold balanced
  exact pairsOuter_onTime cfg clk _ _ _ (fun cs it h => balPass_onTime o clk _ cs it h) _ _ _
    (by intro a ha; simp at ha)

end Strat
