/-
The test log of the driver world is write-only (frame lemmas), hence a run on a used object can be
reasoned about as a run with an empty log: C01 for a NEW JOB on an object in any prior state.
-/
import LithiumProofs.World

namespace World

/-- put `pre` in front of the test log -/
def pfx (pre : List TestRec) (w : W) : W := { w with tests := pre ++ w.tests }

theorem pfx_interesting (pre : List TestRec) (w : W) (c : Testcase) (wi : Bool) (out : Outcome) :
    interesting (pfx pre w) c wi out = (pfx pre (interesting w c wi out).1, (interesting w c wi out).2) := by
  cases out <;> cases wi <;> simp [interesting, pfx, List.append_assoc]

theorem pfx_stepEv (pre : List TestRec) (w : W) (e : Ev) : stepEv (pfx pre w) e = pfx pre (stepEv w e) := by
  cases e with
  | write b => rfl
  | strategyError => rfl
  | propose c out =>
    by_cases hc : c.content ∈ w.tried
    · simp [stepEv, pfx, hc]
    · cases out <;> simp [stepEv, pfx, hc, interesting, List.append_assoc]

theorem pfx_loop (pre : List TestRec) (w : W) (evs : List Ev) : loop (pfx pre w) evs = pfx pre (loop w evs) := by
  induction evs generalizing w with
  | nil => rfl
  | cons e es ih =>
    simp only [loop]
    have he : (pfx pre w).exit = w.exit := rfl
    rw [he]
    cases w.exit with
    | running => simp only; rw [pfx_stepEv, ih]
    | returned s => rfl
    | raised => rfl

theorem pfx_finish (pre : List TestRec) (w : W) : finish (pfx pre w) = pfx pre (finish w) := by
  cases hli : w.lastInteresting with
  | none => simp [finish, pfx, hli]
  | some t =>
    by_cases hd : w.disk = t.content <;> simp [finish, pfx, hli, hd]

theorem pfx_afterLoop (pre : List TestRec) (w : W) : afterLoop (pfx pre w) = pfx pre (afterLoop w) := by
  simp only [afterLoop]
  have he : (pfx pre w).exit = w.exit := rfl
  rw [he]
  cases w.exit with
  | running => simp only; rw [← pfx_finish]; rfl
  | returned s => simp only; rw [← pfx_finish]
  | raised => simp only; rw [← pfx_finish]

/-- the test log is write-only: a run on an object whose log already holds `pre` is the run on the same object with an
empty log, with `pre` in front of what it logs -/
theorem pfx_runMainW (pre : List TestRec) (w : W) (evs : List Ev) (first : Outcome) :
    runMainW (pfx pre w) evs first = pfx pre (runMainW w evs first) := by
  simp only [runMainW]
  have h1 : dumpOriginal (beginRun (pfx pre w)) = pfx pre (dumpOriginal (beginRun w)) := rfl
  rw [h1]
  have h2 : (pfx pre (dumpOriginal (beginRun w))).testcase = (dumpOriginal (beginRun w)).testcase := rfl
  rw [h2]
  split
  · show finish (pfx pre { dumpOriginal (beginRun w) with exit := .returned 0 }) = pfx pre (finish { dumpOriginal (beginRun w) with exit := .returned 0 })
    exact pfx_finish pre _
  · rw [pfx_interesting]
    rcases interesting (dumpOriginal (beginRun w)) (dumpOriginal (beginRun w)).testcase false first with ⟨wi, r⟩
    cases r with
    | none =>
      show finish (pfx pre { wi with exit := .raised }) = pfx pre (finish { wi with exit := .raised })
      exact pfx_finish pre _
    | some b =>
      cases b with
      | false =>
        show finish (pfx pre { wi with exit := .returned 1 }) = pfx pre (finish { wi with exit := .returned 1 })
        exact pfx_finish pre _
      | true =>
        show afterLoop (loop (pfx pre wi) evs) = pfx pre (afterLoop (loop wi evs))
        rw [pfx_loop, pfx_afterLoop]

/-- a NEW JOB on a used object: whatever state `w0` earlier runs left behind (log, counters, remembered testcases), if
the testcase was loaded afresh (`testcase.content = disk`), the run ends with the file equal to the last version
accepted IN THIS RUN — the file as loaded if none was -/
theorem new_job_final (w0 : W) (evs : List Ev) (first : Outcome) (htc : w0.testcase.content = w0.disk) :
    (runMainW w0 evs first).disk = lastAccepted ((runMainW w0 evs first).tests.drop w0.tests.length) w0.disk := by
  have hb : beginRun { w0 with lastInteresting := none } = beginRun w0 := rfl
  have hli : runMainW w0 evs first = runMainW { w0 with lastInteresting := none } evs first := by
    unfold runMainW
    rw [hb]
  have hp : ({ w0 with lastInteresting := none } : W) = pfx w0.tests { w0 with tests := [], lastInteresting := none } := by
    simp [pfx]
  rw [hli, hp, pfx_runMainW]
  have hr : Rest w0.disk { w0 with tests := [], lastInteresting := none } :=
    ⟨rfl, htc, by intro t ht; simp at ht⟩
  have hd := (rest_runMainW w0.disk _ evs first hr).disk
  simp only [pfx, List.drop_left]
  exact hd

end World
