/-
minimize-collapse-brace terminates against every test (C09): the re-load of a collapsed text may
have MORE atoms than the testcase it replaces (finding `collapse-regrows-atoms`), so the measure of
`Minimize.lean` (which uses the number of atoms) does not work.  The number of BYTES of the file
does: deleting a non-empty block of non-empty atoms makes the file shorter, collapsing never makes
it longer, and there are never more atoms than bytes.
-/
import LithiumProofs.MinimizeMin

namespace Strat
open Testcase

/-! ### collapsing never adds a byte -/

theorem collapseSub_length (f : Nat) (d : Bytes) : (collapseSub f d).length ≤ d.length := by
  induction f generalizing d with
  | zero => simp [collapseSub]
  | succ f ih =>
    cases d with
    | nil => simp [collapseSub]
    | cons c rest =>
      unfold collapseSub
      split
      · simp only
        split
        · rename_i hlt
          split
          · rename_i r' hr
            have := ih r'
            rw [hr] at hlt
            simp only [List.length_cons] at hlt ⊢
            omega
          · have := ih rest
            simp only [List.length_cons]; omega
        · have := ih rest
          simp only [List.length_cons]; omega
      · have := ih rest
        simp only [List.length_cons]; omega

/-! ### never more atoms than bytes -/

theorem flatten_length_ge (l : List Bytes) (hne : ∀ p ∈ l, p ≠ []) : l.length ≤ l.flatten.length := by
  induction l with
  | nil => simp
  | cons x t ih =>
    have hx : 1 ≤ x.length := List.length_pos_iff.mpr (hne x (by simp))
    have := ih (fun p hp => hne p (by simp [hp]))
    simp only [List.flatten_cons, List.length_append, List.length_cons]
    omega

theorem len_le_content (t : Testcase) (hne : ∀ p ∈ t.parts, p ≠ []) : t.len ≤ t.content.length := by
  have h1 : t.len ≤ t.parts.length := by unfold len; omega
  have h2 := flatten_length_ge t.parts hne
  unfold content
  simp only [List.length_append]
  omega

/-- what the proof needs of the loader that re-splits the collapsed text: it partitions its input
into non-empty atoms with one flag each (C06) -/
def ReloadOK (reload : Bytes → Option Testcase) : Prop :=
  ∀ d t', reload d = some t' → t'.WF ∧ (∀ p ∈ t'.parts, p ≠ []) ∧ t'.content = d

/-! ### the invariant and the measure -/

structure CInv (C : Nat) (st : MinSt) (it : It) : Prop where
  wf : it.best.WF
  ne : ∀ p ∈ it.best.parts, p ≠ []
  cs : 1 ≤ st.chunkSize
  mc : 1 ≤ st.minChunk
  ce : st.chunkEnd ≤ (it.best.len : Int)
  sz : it.best.content.length ≤ C

def phiC (C : Nat) (st : MinSt) (it : It) : Nat :=
  (it.best.content.length + Nat.log2 st.chunkSize + (if st.removed then 1 else 0)) * (C + 1)
    + (st.chunkEnd + 1).toNat

/-- the post-round callback: at most one test, flags untouched, the file not longer, and when the
best testcase changed its content is in the set of tried contents -/
theorem collapsePost_spec (reload : Bytes → Option Testcase) (hr : ReloadOK reload) (o : Oracle) (it : It)
    (hwf : it.best.WF) (hne : ∀ p ∈ it.best.parts, p ≠ []) :
    let it' := collapsePost reload o it
    it'.best.WF ∧ (∀ p ∈ it'.best.parts, p ≠ []) ∧ it'.best.content.length ≤ it.best.content.length ∧
    it'.nTests ≤ it.nTests + 1 ∧ it.nTests ≤ it'.nTests ∧ it'.outOfFuel = it.outOfFuel ∧
    it'.internalError = it.internalError ∧
    (it'.best = it.best ∨ it'.tried.contains it'.best.content = true) := by
  simp only
  unfold collapsePost
  simp only
  split
  · exact ⟨hwf, hne, Nat.le_refl _, by omega, Nat.le_refl _, rfl, rfl, Or.inl rfl⟩
  · split
    · exact ⟨hwf, hne, Nat.le_refl _, by omega, Nat.le_refl _, rfl, rfl, Or.inl rfl⟩
    · rename_i newTc hre
      obtain ⟨r1, r2, r3⟩ := hr _ _ hre
      have hlen : newTc.content.length ≤ it.best.content.length := by
        rw [r3]
        have := collapseSub_length (it.best.parts.flatten.length + 1) it.best.parts.flatten
        unfold content
        simp only [List.length_append]
        omega
      obtain ⟨f1, f2, -, -⟩ := try_flags it o newTc
        (fun r => { tag := 3, lo := 0, hi := 0, size := 0, bestLen := 0, base := it.best,
                    tIdx := it.nTests, cand := newTc, resp := r })
      rcases try_spec it o newTc
        (fun r => { tag := 3, lo := 0, hi := 0, size := 0, bestLen := 0, base := it.best,
                    tIdx := it.nTests, cand := newTc, resp := r })
        with ⟨-, -, hb, hn, -⟩ | ⟨-, -, -, hb, hn, ht⟩ | ⟨-, -, -, hb, hn, -⟩
      · exact ⟨by rw [hb]; exact hwf, by rw [hb]; exact hne, by rw [hb]; exact Nat.le_refl _, by omega, by omega, f1, f2, Or.inl hb⟩
      · refine ⟨by rw [hb]; exact r1, by rw [hb]; exact r2, by rw [hb]; exact hlen, by omega, by omega, f1, f2, Or.inr ?_⟩
        rw [hb, ht]; simp
      · exact ⟨by rw [hb]; exact hwf, by rw [hb]; exact hne, by rw [hb]; exact Nat.le_refl _, by omega, by omega, f1, f2, Or.inl hb⟩

/-- first half of an iteration with the collapse as post-round callback -/
theorem roundPhaseC_spec (cfg : Cfg) (clk : Clock) (stopAt : Option Nat) (reload : Bytes → Option Testcase)
    (hr : ReloadOK reload) (o : Oracle) (C : Nat) (st : MinSt) (it : It) (h : CInv C st it) :
    (∀ it', roundPhase cfg clk stopAt (collapsePost reload o) st it = .inl it' →
      it'.nTests ≤ it.nTests + 1 ∧ it'.outOfFuel = it.outOfFuel ∧ it'.internalError = it.internalError) ∧
    (∀ st' it', roundPhase cfg clk stopAt (collapsePost reload o) st it = .inr (st', it') →
      CInv C st' it' ∧ phiC C st' it' ≤ phiC C st it ∧ it'.nTests ≤ it.nTests + 1 ∧
      it'.outOfFuel = it.outOfFuel ∧ it'.internalError = it.internalError ∧
      (1 ≤ st'.chunkEnd ∨ (st'.chunkEnd = 0 ∧ it'.tried.contains it'.best.content = true))) := by
  unfold roundPhase
  by_cases hd : deadlinePassed stopAt clk it = true
  · simp only [hd, if_true]
    exact ⟨by intro it' h'; injection h' with h'; subst h'; simp, by intro _ _ h'; simp at h'⟩
  · simp only [hd, Bool.false_eq_true, if_false]
    by_cases hre : st.chunkEnd - (st.chunkSize : Int) < 0
    · simp only [hre, decide_true, if_true]
      by_cases h0 : (it.best.len == 0) = true
      · simp only [h0, if_true]
        exact ⟨by intro it' h'; injection h' with h'; subst h'; simp, by intro _ _ h'; simp at h'⟩
      · simp only [h0, Bool.false_eq_true, if_false]
        have hlen : it.best.len ≠ 0 := by simpa using h0
        obtain ⟨p1, p2, p3, p4, p5, p6, p7, p8⟩ := collapsePost_spec reload hr o it h.wf h.ne
        generalize collapsePost reload o it = it1 at *
        cases hrd : roundDecision cfg st it1.best.len with
        | none =>
          simp only
          exact ⟨by intro it' h'; injection h' with h'; subst h'; exact ⟨p4, p6, p7⟩, by intro _ _ h'; simp at h'⟩
        | some st1 =>
          simp only
          refine ⟨by intro _ h'; simp at h', ?_⟩
          intro st' it' h'
          injection h' with h'; injection h' with h1 h2
          subst h1; subst h2
          obtain ⟨e1, e2, e3, e4, e5⟩ := roundDecision_spec cfg st st1 it1.best.len h.cs h.mc hrd
          have hlc := len_le_content it1.best p2
          have hsz : it1.best.content.length ≤ C := Nat.le_trans p3 h.sz
          refine ⟨⟨p1, p2, e3, by rw [e4]; exact h.mc, by rw [e1]; exact Int.le_refl _, hsz⟩, ?_, p4, p6, p7, ?_⟩
          · unfold phiC
            rw [e1, e2]
            simp only [Bool.false_eq_true, if_false, Nat.add_zero]
            have hce : ((it1.best.len : Int) + 1).toNat ≤ C + 1 := by omega
            rcases e5 with ⟨e5, e6⟩ | e5
            · rw [e5, e6]
              simp only [if_true]
              have h1 : (it1.best.content.length + Nat.log2 st.chunkSize) * (C + 1)
                  ≤ (it.best.content.length + Nat.log2 st.chunkSize) * (C + 1) :=
                Nat.mul_le_mul_right _ (by omega)
              have : (it.best.content.length + Nat.log2 st.chunkSize + 1) * (C + 1)
                  = (it.best.content.length + Nat.log2 st.chunkSize) * (C + 1) + (C + 1) := Nat.succ_mul _ _
              omega
            · have h1 : (it1.best.content.length + Nat.log2 st1.chunkSize + 1) * (C + 1)
                  ≤ (it.best.content.length + Nat.log2 st.chunkSize + (if st.removed then 1 else 0)) * (C + 1) :=
                Nat.mul_le_mul_right _ (by split <;> omega)
              have : (it1.best.content.length + Nat.log2 st1.chunkSize + 1) * (C + 1)
                  = (it1.best.content.length + Nat.log2 st1.chunkSize) * (C + 1) + (C + 1) := Nat.succ_mul _ _
              omega
          · rw [e1]
            by_cases hz : it1.best.len = 0
            · right
              refine ⟨by omega, ?_⟩
              rcases p8 with p8 | p8
              · rw [p8] at hz; exact absurd hz hlen
              · exact p8
            · left; omega
    · simp only [hre, decide_false, Bool.false_eq_true, if_false]
      refine ⟨by intro _ h'; simp at h', ?_⟩
      intro st' it' h'
      injection h' with h'; injection h' with h1 h2
      subst h1; subst h2
      exact ⟨h, Nat.le_refl _, by omega, rfl, rfl, Or.inl (by have := h.cs; omega)⟩

theorem eraseRanks_empty (a r : Nat) (l : List (Bytes × Bool)) : eraseRanks a a r l = l := by
  induction l generalizing r with
  | nil => rfl
  | cons x t ih =>
    obtain ⟨p, fl⟩ := x
    cases fl with
    | false => simp only [eraseRanks, ih]
    | true =>
      simp only [eraseRanks]
      rw [if_neg (by omega), ih]

/-- deleting the empty block changes nothing in the bytes -/
theorem rmslice_zero_content (t : Testcase) (h : t.WF) : (t.rmslice 0 0).content = t.content := by
  obtain ⟨c1, c2, c3, c4, -⟩ := rmslice_int t h 0 0 (by omega) (by omega) (by omega)
  simp only [Int.toNat_zero, eraseRanks_empty] at c4
  have hp : (t.rmslice 0 0).parts = t.parts := by
    have := congrArg (List.map (·.1)) c4
    rw [map_fst_zip' _ _ c1, map_fst_zip' _ _ h] at this
    exact this
  unfold content
  rw [c2, c3, hp]

/-- second half of an iteration -/
theorem attemptC_spec (o : Oracle) (C : Nat) (st : MinSt) (it : It) (h : CInv C st it)
    (h1 : 1 ≤ st.chunkEnd ∨ (st.chunkEnd = 0 ∧ it.tried.contains it.best.content = true)) :
    CInv C (attempt o st it).1 (attempt o st it).2 ∧
    phiC C (attempt o st it).1 (attempt o st it).2 + 1 ≤ phiC C st it ∧
    (attempt o st it).2.nTests ≤ it.nTests + 1 ∧
    (attempt o st it).2.outOfFuel = it.outOfFuel ∧
    (attempt o st it).2.internalError = it.internalError := by
  have hcs := h.cs
  have hmc := h.mc
  have hce := h.ce
  have hsz := h.sz
  have hs0 : (0 : Int) ≤ max 0 (st.chunkEnd - st.chunkSize) := by omega
  obtain ⟨f1, f2, -, -⟩ := try_flags it o (it.best.rmslice (max 0 (st.chunkEnd - st.chunkSize)) st.chunkEnd)
    (fun r => { tag := 0, lo := (max 0 (st.chunkEnd - (st.chunkSize : Int))).toNat, hi := st.chunkEnd.toNat,
                size := st.chunkSize, bestLen := it.best.len, base := it.best, tIdx := it.nTests,
                cand := it.best.rmslice (max 0 (st.chunkEnd - st.chunkSize)) st.chunkEnd, resp := r })
  have hspec := try_spec it o (it.best.rmslice (max 0 (st.chunkEnd - st.chunkSize)) st.chunkEnd)
    (fun r => { tag := 0, lo := (max 0 (st.chunkEnd - (st.chunkSize : Int))).toNat, hi := st.chunkEnd.toNat,
                size := st.chunkSize, bestLen := it.best.len, base := it.best, tIdx := it.nTests,
                cand := it.best.rmslice (max 0 (st.chunkEnd - st.chunkSize)) st.chunkEnd, resp := r })
  -- a rejected or skipped candidate: the sweep moves on
  have hstep : ∀ it2 : It, it2.best = it.best →
      CInv C { st with chunkEnd := st.chunkEnd - (if st.chunkSize ≤ 2 then 1 else (st.chunkSize : Int)) } it2 ∧
      phiC C { st with chunkEnd := st.chunkEnd - (if st.chunkSize ≤ 2 then 1 else (st.chunkSize : Int)) } it2 + 1
        ≤ phiC C st it := by
    intro it2 hb
    refine ⟨⟨by rw [hb]; exact h.wf, by rw [hb]; exact h.ne, hcs, hmc, by rw [hb]; dsimp only; split <;> omega,
      by rw [hb]; exact hsz⟩, ?_⟩
    unfold phiC
    rw [hb]
    dsimp only
    have : (st.chunkEnd - (if st.chunkSize ≤ 2 then (1 : Int) else (st.chunkSize : Int)) + 1).toNat + 1
        ≤ (st.chunkEnd + 1).toNat := by
      rcases h1 with h1 | ⟨h1, -⟩ <;> split <;> omega
    omega
  rcases h1 with h1 | ⟨h1, htr⟩
  · -- a real block
    have hse : max 0 (st.chunkEnd - (st.chunkSize : Int)) < st.chunkEnd := by omega
    obtain ⟨c1, -, -, -, c5⟩ := rmslice_int it.best h.wf _ _ hs0 (by omega) hce
    obtain ⟨hshort, hne'⟩ := rmslice_shorter it.best h.wf h.ne _ _ hs0 hse hce
    unfold attempt
    simp only
    generalize hT : It.try it o (it.best.rmslice (max 0 (st.chunkEnd - st.chunkSize)) st.chunkEnd)
      (fun r => { tag := 0, lo := (max 0 (st.chunkEnd - (st.chunkSize : Int))).toNat, hi := st.chunkEnd.toNat,
                  size := st.chunkSize, bestLen := it.best.len, base := it.best, tIdx := it.nTests,
                  cand := it.best.rmslice (max 0 (st.chunkEnd - st.chunkSize)) st.chunkEnd, resp := r }) = T at *
    obtain ⟨r, it2⟩ := T
    simp only at hspec f1 f2
    rcases hspec with ⟨hr, -, hb, hn, -⟩ | ⟨hr, -, -, hb, hn, -⟩ | ⟨hr, -, -, hb, hn, -⟩
    · subst hr
      obtain ⟨q1, q2⟩ := hstep it2 hb
      exact ⟨q1, q2, by show it2.nTests ≤ _; omega, f1, f2⟩
    · subst hr
      simp only
      have hlen' : it2.best.len = it.best.len - (st.chunkEnd.toNat - (max 0 (st.chunkEnd - (st.chunkSize : Int))).toNat) := by
        rw [hb]; exact c5
      refine ⟨⟨by rw [hb]; exact c1, by rw [hb]; exact hne', hcs, hmc, by rw [hlen']; dsimp only; omega,
        by rw [hb]; omega⟩, ?_, by omega, f1, f2⟩
      unfold phiC
      dsimp only
      simp only [if_true]
      have hdrop : it2.best.content.length + 1 ≤ it.best.content.length := by rw [hb]; omega
      have h2 : (it2.best.content.length + Nat.log2 st.chunkSize + 1) * (C + 1)
          ≤ (it.best.content.length + Nat.log2 st.chunkSize + (if st.removed then 1 else 0)) * (C + 1) :=
        Nat.mul_le_mul_right _ (by split <;> omega)
      have : (max 0 (st.chunkEnd - (st.chunkSize : Int)) + 1).toNat + 1 ≤ (st.chunkEnd + 1).toNat := by omega
      omega
    · subst hr
      obtain ⟨q1, q2⟩ := hstep it2 hb
      exact ⟨q1, q2, by show it2.nTests ≤ _; omega, f1, f2⟩
  · -- `chunk_end = 0` right after a collapse that left no atom: the candidate is the testcase itself, known already
    have hcand : (it.best.rmslice (max 0 (st.chunkEnd - (st.chunkSize : Int))) st.chunkEnd).content = it.best.content := by
      have e1 : max 0 (st.chunkEnd - (st.chunkSize : Int)) = 0 := by omega
      rw [e1, h1]
      exact rmslice_zero_content it.best h.wf
    unfold attempt
    simp only
    generalize hT : It.try it o (it.best.rmslice (max 0 (st.chunkEnd - st.chunkSize)) st.chunkEnd)
      (fun r => { tag := 0, lo := (max 0 (st.chunkEnd - (st.chunkSize : Int))).toNat, hi := st.chunkEnd.toNat,
                  size := st.chunkSize, bestLen := it.best.len, base := it.best, tIdx := it.nTests,
                  cand := it.best.rmslice (max 0 (st.chunkEnd - st.chunkSize)) st.chunkEnd, resp := r }) = T at *
    obtain ⟨r, it2⟩ := T
    simp only at hspec f1 f2
    rw [hcand] at hspec
    rcases hspec with ⟨hr, -, hb, hn, -⟩ | ⟨-, hc, -⟩ | ⟨-, hc, -⟩
    · subst hr
      obtain ⟨q1, q2⟩ := hstep it2 hb
      exact ⟨q1, q2, by show it2.nTests ≤ _; omega, f1, f2⟩
    · rw [htr] at hc; exact absurd hc (by simp)
    · rw [htr] at hc; exact absurd hc (by simp)

/-- the loop with the brace collapse never runs out of fuel when given more than the measure,
flags no internal error and makes at most `2·phiC + 1` tests -/
theorem minLoopC_bound (cfg : Cfg) (o : Oracle) (clk : Clock) (stopAt : Option Nat)
    (reload : Bytes → Option Testcase) (hr : ReloadOK reload) (C : Nat) :
    ∀ (fuel : Nat) (st : MinSt) (it : It), CInv C st it → phiC C st it < fuel →
      (minLoop cfg o clk stopAt (collapsePost reload o) fuel st it).outOfFuel = it.outOfFuel ∧
      (minLoop cfg o clk stopAt (collapsePost reload o) fuel st it).internalError = it.internalError ∧
      (minLoop cfg o clk stopAt (collapsePost reload o) fuel st it).nTests ≤ it.nTests + 2 * phiC C st it + 1 := by
  intro fuel
  induction fuel with
  | zero => intro st it _ h; omega
  | succ f ih =>
    intro st it hinv hphi
    unfold minLoop minStep
    obtain ⟨r1, r2⟩ := roundPhaseC_spec cfg clk stopAt reload hr o C st it hinv
    cases hrp : roundPhase cfg clk stopAt (collapsePost reload o) st it with
    | inl it' =>
      obtain ⟨e2, e3, e4⟩ := r1 it' hrp
      simp only
      exact ⟨e3, e4, by omega⟩
    | inr p =>
      obtain ⟨st1, it1⟩ := p
      obtain ⟨e1, e2, e3, e4, e5, e6⟩ := r2 st1 it1 hrp
      simp only
      obtain ⟨a1, a2, a3, a4, a5⟩ := attemptC_spec o C st1 it1 e1 e6
      obtain ⟨b1, b2, b3⟩ := ih _ _ a1 (by omega)
      exact ⟨by rw [b1, a4, e4], by rw [b2, a5, e5], by omega⟩

/-- minimize-collapse-brace, for a loader that partitions its input into non-empty atoms: against
EVERY test the strategy terminates by itself, raises no internal error, and makes at most
`2·(C+1)·(C+log2(C+1)+2) + 2` tests (initial check included), `C` = number of bytes of the file -/
theorem collapse_bound (reload : Bytes → Option Testcase) (hr : ReloadOK reload) (cfg : Cfg) (o : Oracle)
    (clk : Clock) (t : Testcase) (h : t.WF) (hne : ∀ p ∈ t.parts, p ≠ []) (hmax : 1 ≤ cfg.max) :
    (collapse reload cfg o clk t).outOfFuel = false ∧ (collapse reload cfg o clk t).internalError = false ∧
    (collapse reload cfg o clk t).nTests + 1
      ≤ 2 * ((t.content.length + Nat.log2 (t.content.length + 1) + 2) * (t.content.length + 1)) + 2 := by
  obtain ⟨hcs, hl1, -⟩ := log2_start_le' cfg.max t.len hmax
  have hlc := len_le_content t hne
  have hinv : CInv t.content.length (minInit cfg t) { best := t } := by
    refine ⟨h, hne, hcs, ?_, by simp [minInit], Nat.le_refl _⟩
    show 1 ≤ min (min cfg.max (Util.lp2 t.len)) (max cfg.min 1)
    omega
  have hlog : Nat.log2 (min cfg.max (Util.lp2 t.len)) ≤ Nat.log2 (t.content.length + 1) :=
    Nat.le_trans hl1 (log2_mono (by omega) (by omega))
  have hphi : phiC t.content.length (minInit cfg t) { best := t }
      ≤ (t.content.length + Nat.log2 (t.content.length + 1) + 2) * (t.content.length + 1) := by
    unfold phiC
    show (t.content.length + Nat.log2 (min cfg.max (Util.lp2 t.len)) + (if cfg.repeatFirst then 1 else 0)) * (t.content.length + 1)
        + ((t.len : Int) + 1).toNat ≤ _
    have h1 : (t.content.length + Nat.log2 (min cfg.max (Util.lp2 t.len)) + (if cfg.repeatFirst then 1 else 0)) * (t.content.length + 1)
        ≤ (t.content.length + Nat.log2 (t.content.length + 1) + 1) * (t.content.length + 1) :=
      Nat.mul_le_mul_right _ (by split <;> omega)
    have h2 : (t.content.length + Nat.log2 (t.content.length + 1) + 2) * (t.content.length + 1)
        = (t.content.length + Nat.log2 (t.content.length + 1) + 1) * (t.content.length + 1) + (t.content.length + 1) :=
      Nat.succ_mul _ _
    omega
  have hfuel : phiC t.content.length (minInit cfg t) { best := t } < collapseFuel t := by
    unfold collapseFuel
    simp only
    have h3 : (t.content.length + Nat.log2 (t.content.length + 1) + 2) * (t.content.length + 1)
        ≤ (t.content.length + 2) * (t.content.length + Nat.log2 (t.content.length + 1) + 6) := by
      rw [Nat.mul_comm]
      exact Nat.mul_le_mul (by omega) (by omega)
    omega
  obtain ⟨b1, b2, b3⟩ := minLoopC_bound cfg o clk (stopAt cfg clk) reload hr t.content.length
    (collapseFuel t) (minInit cfg t) { best := t } hinv hfuel
  unfold collapse
  refine ⟨b1, b2, ?_⟩
  have h0 : ({ best := t } : It).nTests = 0 := rfl
  rw [h0] at b3
  omega

end Strat
