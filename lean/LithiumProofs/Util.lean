/-
Facts about the power-of-two helpers of util.py (C09, C10, C14).
-/
import LithiumModel.Util

namespace Util

theorem pow_log2_le (n : Nat) (h : n ≠ 0) : 1 <<< (bitLength n - 1) = 2 ^ Nat.log2 n := by
  simp [bitLength, h, Nat.one_shiftLeft]

theorem lp2_pos (n : Nat) : 1 ≤ lp2 n := by
  unfold lp2
  by_cases h0 : n = 0
  · subst h0; decide
  · simp only [pow_log2_le n h0]
    have hle := Nat.log2_self_le h0
    split
    · rename_i hc
      simp only [Bool.and_eq_true, beq_iff_eq, decide_eq_true_eq] at hc
      rw [Nat.shiftRight_eq_div_pow]
      simp only [Nat.pow_one]
      omega
    · exact Nat.one_le_two_pow

/-- `largest_power_of_two_smaller_than(n)` is below `n` for `n ≥ 2` -/
theorem lp2_lt (n : Nat) (h : 2 ≤ n) : lp2 n ≤ n - 1 := by
  unfold lp2
  have h0 : n ≠ 0 := by omega
  simp only [pow_log2_le n h0]
  have hle := Nat.log2_self_le h0
  split
  · rw [Nat.shiftRight_eq_div_pow]
    simp only [Nat.pow_one]
    omega
  · rename_i hc
    simp only [Bool.and_eq_true, beq_iff_eq, decide_eq_true_eq, not_and] at hc
    have : 2 ^ Nat.log2 n ≠ n := fun he => hc he (by omega)
    omega

theorem lp2_le_one (n : Nat) (h : n ≤ 1) : lp2 n = 1 := by
  have : n = 0 ∨ n = 1 := by omega
  rcases this with rfl | rfl <;> decide

end Util
