/-
Facts about the power-of-two helpers of util.py (C09, C10, C14).
-/
import LithiumModel.Util

namespace Util

theorem pow_log2_le (n : Nat) (h : n ≠ 0) : 1 <<< (bitLength n - 1) = 2 ^ Nat.log2 n := by
  simp [bitLength, h, Nat.one_shiftLeft]

theorem lp2_pos (n : Nat) : 1 ≤ lp2 n := by
  unfold lp2
  by_cases h0 : n = 0
  · subst h0; decide
  · simp only [pow_log2_le n h0]
    have hle := Nat.log2_self_le h0
    split
    · rename_i hc
      simp only [Bool.and_eq_true, beq_iff_eq, decide_eq_true_eq] at hc
      rw [Nat.shiftRight_eq_div_pow]
      simp only [Nat.pow_one]
      omega
    · exact Nat.one_le_two_pow

/-- `largest_power_of_two_smaller_than(n)` is below `n` for `n ≥ 2` -/
theorem lp2_lt (n : Nat) (h : 2 ≤ n) : lp2 n ≤ n - 1 := by
  unfold lp2
  have h0 : n ≠ 0 := by omega
  simp only [pow_log2_le n h0]
  have hle := Nat.log2_self_le h0
  split
  · rw [Nat.shiftRight_eq_div_pow]
    simp only [Nat.pow_one]
    omega
  · rename_i hc
    simp only [Bool.and_eq_true, beq_iff_eq, decide_eq_true_eq, not_and] at hc
    have : 2 ^ Nat.log2 n ≠ n := fun he => hc he (by omega)
    omega

theorem lp2_le_one (n : Nat) (h : n ≤ 1) : lp2 n = 1 := by
  have : n = 0 ∨ n = 1 := by omega
  rcases this with rfl | rfl <;> decide

theorem lp2_pow2 (n : Nat) : ∃ j, lp2 n = 2 ^ j := by
  unfold lp2
  by_cases h0 : n = 0
  · subst h0; exact ⟨0, by decide⟩
  · simp only [pow_log2_le n h0]
    split
    · rename_i hc
      simp only [Bool.and_eq_true, beq_iff_eq, decide_eq_true_eq] at hc
      have h1 : 1 ≤ Nat.log2 n := by
        rw [Nat.le_log2 h0]; omega
      refine ⟨Nat.log2 n - 1, ?_⟩
      rw [Nat.shiftRight_eq_div_pow]
      obtain ⟨k, hk⟩ : ∃ k, Nat.log2 n = k + 1 := ⟨Nat.log2 n - 1, by omega⟩
      rw [hk, Nat.pow_succ]
      simp
    · exact ⟨_, rfl⟩

/-- `is_power_of_two` is exactly "is 2^j for some j", for every (also negative, zero, huge) integer -/
theorem isPowerOfTwo_iff (i : Int) : isPowerOfTwo i = true ↔ ∃ j : Nat, i = (2 : Int) ^ j := by
  unfold isPowerOfTwo
  simp only [beq_iff_eq, Nat.one_shiftLeft]
  constructor
  · intro h
    obtain ⟨k, hk⟩ : ∃ k, k = bitLength i.natAbs - 1 := ⟨_, rfl⟩
    rw [← hk] at h
    exact ⟨k, by rw [← h]; simp⟩
  · rintro ⟨j, rfl⟩
    have hn : ((2 : Int) ^ j).natAbs = 2 ^ j := by
      rw [Int.natAbs_pow]; rfl
    have hne : (2 : Nat) ^ j ≠ 0 := by
      have := Nat.one_le_two_pow (n := j); omega
    rw [hn]
    simp [bitLength, hne, Nat.log2_two_pow]

/-- `n ≤ 2 * largest_power_of_two_smaller_than(n)` -/
theorem le_two_lp2 (n : Nat) : n ≤ 2 * lp2 n := by
  unfold lp2
  by_cases h0 : n = 0
  · subst h0; decide
  · simp only [pow_log2_le n h0]
    have hlt : n < 2 ^ (Nat.log2 n + 1) := Nat.lt_log2_self
    rw [Nat.pow_succ] at hlt
    split
    · rename_i hc
      simp only [Bool.and_eq_true, beq_iff_eq, decide_eq_true_eq] at hc
      have h1 : 1 ≤ Nat.log2 n := by
        rw [Nat.le_log2 h0]; omega
      obtain ⟨k, hk⟩ : ∃ k, Nat.log2 n = k + 1 := ⟨Nat.log2 n - 1, by omega⟩
      rw [Nat.shiftRight_eq_div_pow]
      have h2 : 2 ^ Nat.log2 n = 2 ^ k * 2 := by rw [hk, Nat.pow_succ]
      rw [h2] at hc ⊢
      simp only [Nat.pow_one, Nat.mul_div_cancel _ (by omega : 0 < 2)]
      omega
    · omega

/-- a power-of-two bound above `lp2 n` is a bound on `n` -/
theorem le_of_lp2_lt_pow (n j : Nat) (h : lp2 n < 2 ^ j) : n ≤ 2 ^ j := by
  obtain ⟨i, hi⟩ := lp2_pow2 n
  rw [hi] at h
  have hij : i < j := (Nat.pow_lt_pow_iff_right (by omega)).mp h
  have h1 : 2 ^ (i + 1) ≤ 2 ^ j := Nat.pow_le_pow_right (by omega) (by omega)
  have h2 := le_two_lp2 n
  rw [hi] at h2
  rw [Nat.pow_succ] at h1
  omega

end Util
