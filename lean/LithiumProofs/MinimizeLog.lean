/-
What every proposal of the minimize loop looks like (C04, C14).
-/
import LithiumProofs.Minimize
import LithiumProofs.Util

namespace Strat
open Testcase

/-- `ceil(log2 n)` -/
def clog2 (n : Nat) : Nat := if n ≤ 1 then 0 else Nat.log2 (n - 1) + 1

/-- the chunk size minimize starts with has `log2 ≤ ceil(log2 n)` -/
theorem log2_start_le' (mx n : Nat) (hmx : 1 ≤ mx) :
    1 ≤ min mx (Util.lp2 n) ∧ Nat.log2 (min mx (Util.lp2 n)) ≤ Nat.log2 (n + 1) ∧
    Nat.log2 (min mx (Util.lp2 n)) ≤ clog2 n := by
  have hp := Util.lp2_pos n
  have h1 : 1 ≤ min mx (Util.lp2 n) := by omega
  have hle : min mx (Util.lp2 n) ≤ Util.lp2 n := by omega
  have l1 : Nat.log2 1 = 0 := by rw [Nat.log2_def]; simp
  by_cases hn : n ≤ 1
  · have := Util.lp2_le_one n hn
    have h2 : min mx (Util.lp2 n) = 1 := by omega
    rw [h2]
    exact ⟨by omega, by omega, by omega⟩
  · have hlt := Util.lp2_lt n (by omega)
    have hm := log2_mono (a := min mx (Util.lp2 n)) (b := n - 1) (by omega) (by omega)
    have hm2 := log2_mono (a := n - 1) (b := n + 1) (by omega) (by omega)
    refine ⟨h1, by omega, ?_⟩
    unfold clog2
    rw [if_neg hn]; omega


/-! ### "the original with zero or more reducible atoms deleted" -/

def IsDel (orig t : Testcase) : Prop :=
  t.before = orig.before ∧ t.after = orig.after ∧ t.WF ∧
  (t.parts.zip t.reducible).Sublist (orig.parts.zip orig.reducible) ∧
  (t.parts.zip t.reducible).filter (fun x => !x.2) = (orig.parts.zip orig.reducible).filter (fun x => !x.2)

theorem isDel_refl (t : Testcase) (h : t.WF) : IsDel t t :=
  ⟨rfl, rfl, h, List.Sublist.refl _, rfl⟩

theorem eraseRanks_sublist (a b r : Nat) (l : List (Bytes × Bool)) : (eraseRanks a b r l).Sublist l := by
  induction l generalizing r with
  | nil => exact List.Sublist.refl _
  | cons e t ih =>
    obtain ⟨p, f⟩ := e
    cases f with
    | false => simp only [eraseRanks]; exact (ih r).cons_cons _
    | true =>
      simp only [eraseRanks]
      split
      · exact (ih (r + 1)).cons _
      · exact (ih (r + 1)).cons_cons _

theorem eraseRanks_filter (a b r : Nat) (l : List (Bytes × Bool)) :
    (eraseRanks a b r l).filter (fun x => !x.2) = l.filter (fun x => !x.2) := by
  induction l generalizing r with
  | nil => rfl
  | cons e t ih =>
    obtain ⟨p, f⟩ := e
    cases f with
    | false => simp [eraseRanks, ih r]
    | true =>
      simp only [eraseRanks]
      split <;> simp [ih (r + 1)]

theorem isDel_rmslice (orig t : Testcase) (h : IsDel orig t) (s e : Int) (h0 : 0 ≤ s) (hse : s ≤ e)
    (hel : e ≤ (t.len : Int)) : IsDel orig (t.rmslice s e) := by
  obtain ⟨h1, h2, h3, h4, h5⟩ := h
  obtain ⟨c1, c2, c3, c4, -⟩ := rmslice_int t h3 s e h0 hse hel
  refine ⟨by rw [c2, h1], by rw [c3, h2], c1, ?_, ?_⟩
  · rw [c4]; exact (eraseRanks_sublist _ _ _ _).trans h4
  · rw [c4, eraseRanks_filter]; exact h5

/-! ### the shape of a proposal -/

structure AttOK (orig : Testcase) (cs0 : Nat) (a : Att) : Prop where
  base : IsDel orig a.base
  len : a.bestLen = a.base.len
  lo_hi : a.lo < a.hi
  hi_le : a.hi ≤ a.bestLen
  cand : a.cand = a.base.rmslice a.lo a.hi
  block : a.hi - a.lo = a.size ∨ (a.lo = 0 ∧ a.hi = a.bestLen ∧ a.bestLen < a.size)
  pow2 : ∃ k, a.size = 2 ^ k
  le : a.size ≤ cs0

structure LInv (orig : Testcase) (cs0 : Nat) (st : MinSt) (it : It) : Prop where
  best : IsDel orig it.best
  atts : ∀ a ∈ it.atts, AttOK orig cs0 a ∧ st.chunkSize ≤ a.size
  sorted : it.atts.Pairwise (fun newer older => newer.size ≤ older.size)
  pow2 : ∃ k, st.chunkSize = 2 ^ k
  le : st.chunkSize ≤ cs0

theorem halveBelow_pow2 (f k n : Nat) : ∃ j, halveBelow f (2 ^ k) n = 2 ^ j ∧ 2 ^ j ≤ 2 ^ k := by
  induction f generalizing k with
  | zero => exact ⟨k, rfl, Nat.le_refl _⟩
  | succ f ih =>
    unfold halveBelow
    by_cases h1 : 2 ^ k > 1
    · rw [if_pos h1]
      have hk : k ≠ 0 := by intro h0; subst h0; simp at h1
      obtain ⟨k', rfl⟩ : ∃ k', k = k' + 1 := ⟨k - 1, by omega⟩
      have hhalf : 2 ^ (k' + 1) / 2 = 2 ^ k' := by rw [Nat.pow_succ]; omega
      simp only [hhalf]
      have hle : 2 ^ k' ≤ 2 ^ (k' + 1) := by rw [Nat.pow_succ]; omega
      split
      · exact ⟨k', rfl, hle⟩
      · obtain ⟨j, hj, hj2⟩ := ih k'
        exact ⟨j, hj, Nat.le_trans hj2 hle⟩
    · rw [if_neg h1]; exact ⟨k, rfl, Nat.le_refl _⟩

theorem roundDecision_pow2 (cfg : Cfg) (st st' : MinSt) (n : Nat) (hp : ∃ k, st.chunkSize = 2 ^ k)
    (h : roundDecision cfg st n = some st') :
    (∃ k, st'.chunkSize = 2 ^ k) ∧ st'.chunkSize ≤ st.chunkSize := by
  unfold roundDecision at h
  split at h
  · split at h
    · injection h with h; subst h; exact ⟨hp, Nat.le_refl _⟩
    · exact absurd h (by simp)
  · split at h
    · injection h with h; subst h; exact ⟨hp, Nat.le_refl _⟩
    · injection h with h; subst h
      obtain ⟨k, hk⟩ := hp
      simp only [hk]
      obtain ⟨j, hj, hj2⟩ := halveBelow_pow2 (2 ^ k) k n
      exact ⟨⟨j, hj⟩, by rw [hj]; exact hj2⟩

theorem linv_round (cfg : Cfg) (clk : Clock) (stopAt : Option Nat) (orig : Testcase) (cs0 : Nat)
    (st : MinSt) (it : It) (st' : MinSt) (h : LInv orig cs0 st it)
    (hr : roundPhase cfg clk stopAt id st it = .inr (st', it)) : LInv orig cs0 st' it := by
  have key : (∃ k, st'.chunkSize = 2 ^ k) ∧ st'.chunkSize ≤ st.chunkSize := by
    obtain ⟨-, -, hc⟩ := roundPhase_inr cfg clk stopAt st st' it it hr
    rcases hc with ⟨rfl, -⟩ | ⟨-, -, hrd⟩
    · exact ⟨h.pow2, Nat.le_refl _⟩
    · exact roundDecision_pow2 cfg st st' _ h.pow2 hrd
  refine ⟨h.best, ?_, h.sorted, key.1, Nat.le_trans key.2 h.le⟩
  intro a ha
  exact ⟨(h.atts a ha).1, Nat.le_trans key.2 (h.atts a ha).2⟩

theorem linv_attempt (o : Oracle) (orig : Testcase) (cs0 n0 : Nat) (st : MinSt) (it : It)
    (ha : AInv n0 st it) (h : LInv orig cs0 st it) :
    LInv orig cs0 (attempt o st it).1 (attempt o st it).2 := by
  have hcs := ha.cs
  have hce := ha.ce
  have hce1 := ha.ce1
  have hs0 : (0 : Int) ≤ max 0 (st.chunkEnd - st.chunkSize) := by omega
  have hse : max 0 (st.chunkEnd - (st.chunkSize : Int)) ≤ st.chunkEnd := by omega
  have hdel := isDel_rmslice orig it.best h.best _ _ hs0 hse hce
  -- the new proposal
  have hnew : ∀ r, AttOK orig cs0
      { tag := 0, lo := (max 0 (st.chunkEnd - (st.chunkSize : Int))).toNat, hi := st.chunkEnd.toNat,
        size := st.chunkSize, bestLen := it.best.len, base := it.best, tIdx := it.nTests,
        cand := it.best.rmslice (max 0 (st.chunkEnd - st.chunkSize)) st.chunkEnd, resp := r } := by
    intro r
    refine ⟨h.best, rfl, by simp only; omega, by simp only; omega, ?_, ?_, h.pow2, h.le⟩
    · simp only
      rw [Int.toNat_of_nonneg hs0, Int.toNat_of_nonneg (by omega : (0 : Int) ≤ st.chunkEnd)]
    · simp only
      by_cases hneg : st.chunkEnd - (st.chunkSize : Int) < 0
      · right
        have := ha.edge hneg
        omega
      · left; omega
  obtain ⟨-, -, -, f4⟩ := try_flags it o (it.best.rmslice (max 0 (st.chunkEnd - st.chunkSize)) st.chunkEnd)
    (fun r => { tag := 0, lo := (max 0 (st.chunkEnd - (st.chunkSize : Int))).toNat, hi := st.chunkEnd.toNat,
                size := st.chunkSize, bestLen := it.best.len, base := it.best, tIdx := it.nTests,
                cand := it.best.rmslice (max 0 (st.chunkEnd - st.chunkSize)) st.chunkEnd, resp := r })
  have hspec := try_spec it o (it.best.rmslice (max 0 (st.chunkEnd - st.chunkSize)) st.chunkEnd)
    (fun r => { tag := 0, lo := (max 0 (st.chunkEnd - (st.chunkSize : Int))).toNat, hi := st.chunkEnd.toNat,
                size := st.chunkSize, bestLen := it.best.len, base := it.best, tIdx := it.nTests,
                cand := it.best.rmslice (max 0 (st.chunkEnd - st.chunkSize)) st.chunkEnd, resp := r })
  unfold attempt
  simp only
  generalize hT : It.try it o (it.best.rmslice (max 0 (st.chunkEnd - st.chunkSize)) st.chunkEnd)
    (fun r => { tag := 0, lo := (max 0 (st.chunkEnd - (st.chunkSize : Int))).toNat, hi := st.chunkEnd.toNat,
                size := st.chunkSize, bestLen := it.best.len, base := it.best, tIdx := it.nTests,
                cand := it.best.rmslice (max 0 (st.chunkEnd - st.chunkSize)) st.chunkEnd, resp := r }) = T at *
  obtain ⟨r, it2⟩ := T
  simp only at hspec f4
  have hatts : ∀ (cs : Nat), cs = st.chunkSize → ∀ a ∈ it2.atts, AttOK orig cs0 a ∧ cs ≤ a.size := by
    intro cs hcs' a ha'
    rw [f4] at ha'
    simp only [List.mem_cons] at ha'
    rcases ha' with rfl | ha'
    · exact ⟨hnew r, by simp [hcs']⟩
    · rw [hcs']; exact h.atts a ha'
  have hsorted : it2.atts.Pairwise (fun newer older => newer.size ≤ older.size) := by
    rw [f4, List.pairwise_cons]
    exact ⟨fun a ha' => (h.atts a ha').2, h.sorted⟩
  rcases hspec with ⟨hr, -, hb, -, -⟩ | ⟨hr, -, -, hb, -, -⟩ | ⟨hr, -, -, hb, -, -⟩
  · subst hr
    exact ⟨by rw [hb]; exact h.best, hatts _ rfl, hsorted, h.pow2, h.le⟩
  · subst hr
    exact ⟨by rw [hb]; exact hdel, hatts _ rfl, hsorted, h.pow2, h.le⟩
  · subst hr
    exact ⟨by rw [hb]; exact h.best, hatts _ rfl, hsorted, h.pow2, h.le⟩

/-! ### C04 alone: no assumption on the option values -/

structure DInv (orig : Testcase) (it : It) : Prop where
  best : IsDel orig it.best
  atts : ∀ a ∈ it.atts, IsDel orig a.base ∧ IsDel orig a.cand ∧ a.cand = a.base.rmslice a.lo a.hi ∧
    a.lo < a.hi ∧ a.hi ≤ a.base.len

theorem dinv_attempt (o : Oracle) (orig : Testcase) (n0 : Nat) (st : MinSt) (it : It)
    (ha : AInv n0 st it) (h : DInv orig it) : DInv orig (attempt o st it).2 := by
  have hcs := ha.cs
  have hce := ha.ce
  have hce1 := ha.ce1
  have hs0 : (0 : Int) ≤ max 0 (st.chunkEnd - st.chunkSize) := by omega
  have hse : max 0 (st.chunkEnd - (st.chunkSize : Int)) ≤ st.chunkEnd := by omega
  have hdel := isDel_rmslice orig it.best h.best _ _ hs0 hse hce
  obtain ⟨-, -, -, f4⟩ := try_flags it o (it.best.rmslice (max 0 (st.chunkEnd - st.chunkSize)) st.chunkEnd)
    (fun r => { tag := 0, lo := (max 0 (st.chunkEnd - (st.chunkSize : Int))).toNat, hi := st.chunkEnd.toNat,
                size := st.chunkSize, bestLen := it.best.len, base := it.best, tIdx := it.nTests,
                cand := it.best.rmslice (max 0 (st.chunkEnd - st.chunkSize)) st.chunkEnd, resp := r })
  have hspec := try_spec it o (it.best.rmslice (max 0 (st.chunkEnd - st.chunkSize)) st.chunkEnd)
    (fun r => { tag := 0, lo := (max 0 (st.chunkEnd - (st.chunkSize : Int))).toNat, hi := st.chunkEnd.toNat,
                size := st.chunkSize, bestLen := it.best.len, base := it.best, tIdx := it.nTests,
                cand := it.best.rmslice (max 0 (st.chunkEnd - st.chunkSize)) st.chunkEnd, resp := r })
  unfold attempt
  simp only
  generalize hT : It.try it o (it.best.rmslice (max 0 (st.chunkEnd - st.chunkSize)) st.chunkEnd)
    (fun r => { tag := 0, lo := (max 0 (st.chunkEnd - (st.chunkSize : Int))).toNat, hi := st.chunkEnd.toNat,
                size := st.chunkSize, bestLen := it.best.len, base := it.best, tIdx := it.nTests,
                cand := it.best.rmslice (max 0 (st.chunkEnd - st.chunkSize)) st.chunkEnd, resp := r }) = T at *
  obtain ⟨r, it2⟩ := T
  simp only at hspec f4
  have hatts : ∀ a ∈ it2.atts, IsDel orig a.base ∧ IsDel orig a.cand ∧ a.cand = a.base.rmslice a.lo a.hi ∧
      a.lo < a.hi ∧ a.hi ≤ a.base.len := by
    intro a ha'
    rw [f4] at ha'
    simp only [List.mem_cons] at ha'
    rcases ha' with rfl | ha'
    · refine ⟨h.best, hdel, ?_, by simp only; omega, by simp only; omega⟩
      simp only
      rw [Int.toNat_of_nonneg hs0, Int.toNat_of_nonneg (by omega : (0 : Int) ≤ st.chunkEnd)]
    · exact h.atts a ha'
  rcases hspec with ⟨hr, -, hb, -, -⟩ | ⟨hr, -, -, hb, -, -⟩ | ⟨hr, -, -, hb, -, -⟩
  · subst hr; exact ⟨by rw [hb]; exact h.best, hatts⟩
  · subst hr; exact ⟨by rw [hb]; exact hdel, hatts⟩
  · subst hr; exact ⟨by rw [hb]; exact h.best, hatts⟩

/-! ### the time limit -/

def deadlineAt (stopAt : Option Nat) (clk : Clock) (k : Nat) : Bool :=
  match stopAt with
  | none => false
  | some t => clk k > t

theorem deadlinePassed_eq (stopAt : Option Nat) (clk : Clock) (it : It) :
    deadlinePassed stopAt clk it = deadlineAt stopAt clk it.nTests := by
  cases stopAt <;> rfl

theorem tinv_attempt (o : Oracle) (stopAt : Option Nat) (clk : Clock) (st : MinSt) (it : It)
    (h : ∀ a ∈ it.atts, deadlineAt stopAt clk a.tIdx = false)
    (hnow : deadlineAt stopAt clk it.nTests = false) :
    ∀ a ∈ (attempt o st it).2.atts, deadlineAt stopAt clk a.tIdx = false := by
  obtain ⟨-, -, -, f4⟩ := try_flags it o (it.best.rmslice (max 0 (st.chunkEnd - st.chunkSize)) st.chunkEnd)
    (fun r => { tag := 0, lo := (max 0 (st.chunkEnd - (st.chunkSize : Int))).toNat, hi := st.chunkEnd.toNat,
                size := st.chunkSize, bestLen := it.best.len, base := it.best, tIdx := it.nTests,
                cand := it.best.rmslice (max 0 (st.chunkEnd - st.chunkSize)) st.chunkEnd, resp := r })
  unfold attempt
  simp only
  generalize hT : It.try it o (it.best.rmslice (max 0 (st.chunkEnd - st.chunkSize)) st.chunkEnd)
    (fun r => { tag := 0, lo := (max 0 (st.chunkEnd - (st.chunkSize : Int))).toNat, hi := st.chunkEnd.toNat,
                size := st.chunkSize, bestLen := it.best.len, base := it.best, tIdx := it.nTests,
                cand := it.best.rmslice (max 0 (st.chunkEnd - st.chunkSize)) st.chunkEnd, resp := r }) = T at *
  obtain ⟨r, it2⟩ := T
  simp only at f4
  have key : ∀ a ∈ it2.atts, deadlineAt stopAt clk a.tIdx = false := by
    intro a ha
    rw [f4] at ha
    simp only [List.mem_cons] at ha
    rcases ha with rfl | ha
    · exact hnow
    · exact h a ha
  cases r <;> exact key

end Strat
