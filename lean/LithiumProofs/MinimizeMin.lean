/-
1-minimality of the result of minimize under a deterministic test (C03).
-/
import LithiumProofs.MinimizeLog

namespace Strat
open Testcase

/-! ### deleting a non-empty block of non-empty atoms makes the file strictly shorter -/

def flatLen (l : List (Bytes × Bool)) : Nat := ((l.map (·.1)).flatten).length

theorem eraseRanks_flatLen (a b r : Nat) (l : List (Bytes × Bool)) (hne : ∀ x ∈ l, x.1 ≠ []) :
    flatLen (eraseRanks a b r l) + (l.length - (eraseRanks a b r l).length) ≤ flatLen l ∧
    (eraseRanks a b r l).length ≤ l.length := by
  induction l generalizing r with
  | nil => simp [eraseRanks, flatLen]
  | cons e t ih =>
    obtain ⟨p, f⟩ := e
    have hne' : ∀ x ∈ t, x.1 ≠ [] := fun x hx => hne x (by simp [hx])
    have hp : 1 ≤ p.length := by
      have := hne (p, f) (by simp)
      exact List.length_pos_iff.mpr this
    cases f with
    | false =>
      obtain ⟨i1, i2⟩ := ih r hne'
      simp only [eraseRanks, flatLen, List.map_cons, List.flatten_cons, List.length_append, List.length_cons] at i1 i2 ⊢
      omega
    | true =>
      obtain ⟨i1, i2⟩ := ih (r + 1) hne'
      unfold flatLen at i1
      simp only [eraseRanks]
      split
      · simp only [flatLen, List.map_cons, List.flatten_cons, List.length_append, List.length_cons]
        omega
      · simp only [flatLen, List.map_cons, List.flatten_cons, List.length_append, List.length_cons]
        omega

theorem map_fst_zip' (p : List Bytes) (r : List Bool) (h : p.length = r.length) :
    (p.zip r).map (·.1) = p := by
  induction p generalizing r with
  | nil => simp
  | cons x t ih =>
    cases r with
    | nil => simp at h
    | cons y u => simp at h; simp [ih u h]

theorem content_length (t : Testcase) (h : t.WF) :
    t.content.length = t.before.length + flatLen (t.parts.zip t.reducible) + t.after.length := by
  unfold content flatLen
  rw [map_fst_zip' _ _ h]
  simp [List.length_append]
  omega

/-- the candidate built from a non-empty range is strictly shorter and keeps atoms non-empty -/
theorem rmslice_shorter (t : Testcase) (h : t.WF) (hne : ∀ p ∈ t.parts, p ≠ []) (s e : Int)
    (h0 : 0 ≤ s) (hse : s < e) (hel : e ≤ (t.len : Int)) :
    (t.rmslice s e).content.length < t.content.length ∧ (∀ p ∈ (t.rmslice s e).parts, p ≠ []) := by
  obtain ⟨c1, c2, c3, c4, c5⟩ := rmslice_int t h s e h0 (by omega) hel
  have hz : ∀ x ∈ t.parts.zip t.reducible, x.1 ≠ [] := by
    intro x hx
    exact hne x.1 (List.of_mem_zip hx).1
  obtain ⟨i1, i2⟩ := eraseRanks_flatLen s.toNat e.toNat 0 _ hz
  rw [← c4] at i1 i2
  -- the number of parts drops by e - s
  have hlen' : ((t.rmslice s e).parts.zip (t.rmslice s e).reducible).length + (e.toNat - s.toNat)
      = (t.parts.zip t.reducible).length := by
    have hf := eraseRanks_filter s.toNat e.toNat 0 (t.parts.zip t.reducible)
    rw [← c4] at hf
    have hw : t.parts.length = t.reducible.length := h
    have hw' : (t.rmslice s e).parts.length = (t.rmslice s e).reducible.length := c1
    have l1 := len_eq_count t h
    have l2 := len_eq_count _ c1
    have c1' := count_true_add_false t.reducible
    have c2' := count_true_add_false (t.rmslice s e).reducible
    -- the non-reducible entries are the same on both sides
    have hcf : (t.rmslice s e).reducible.count false = t.reducible.count false := by
      have e1 : ((t.rmslice s e).parts.zip (t.rmslice s e).reducible).map (·.2) = (t.rmslice s e).reducible :=
        map_snd_zip _ _ hw'
      have e2 : (t.parts.zip t.reducible).map (·.2) = t.reducible := map_snd_zip _ _ hw
      have key : ∀ l : List (Bytes × Bool), (l.map (·.2)).count false = (l.filter (fun x => !x.2)).length := by
        intro l
        induction l with
        | nil => rfl
        | cons x t ih => obtain ⟨p, f⟩ := x; cases f <;> simp [ih]
      rw [← e1, ← e2, key, key, hf]
    simp only [List.length_zip]
    omega
  refine ⟨?_, ?_⟩
  · rw [content_length _ c1, content_length _ h, c2, c3]
    omega
  · intro p hp
    have hsub := eraseRanks_sublist s.toNat e.toNat 0 (t.parts.zip t.reducible)
    rw [← c4] at hsub
    have hmem : p ∈ ((t.rmslice s e).parts.zip (t.rmslice s e).reducible).map (·.1) := by
      rw [map_fst_zip' _ _ c1]; exact hp
    obtain ⟨x, hx, rfl⟩ := List.mem_map.mp hmem
    exact hz x (hsub.subset hx)

/-! ### the invariants -/

/-- single-atom deletion number `i` -/
def rm1 (t : Testcase) (i : Nat) : Testcase := t.rmslice (i : Int) ((i : Int) + 1)

structure OneInv (f : Bytes → Bool) (st : MinSt) (it : It) : Prop where
  tried : ∀ c ∈ it.tried, f c = true → it.best.content.length ≤ c.length
  nonempty : ∀ p ∈ it.best.parts, p ≠ []
  mc : st.minChunk = 1
  last : st.chunkSize = 1 → st.removed = false →
    ∀ i : Nat, st.chunkEnd ≤ (i : Int) → i < it.best.len → f (rm1 it.best i).content = false

theorem oneInv_round (cfg : Cfg) (clk : Clock) (stopAt : Option Nat) (f : Bytes → Bool)
    (st : MinSt) (it : It) (st' : MinSt) (h : OneInv f st it)
    (hr : roundPhase cfg clk stopAt id st it = .inr (st', it)) : OneInv f st' it := by
  obtain ⟨-, -, hc⟩ := roundPhase_inr cfg clk stopAt st st' it it hr
  rcases hc with ⟨rfl, -⟩ | ⟨-, -, hrd⟩
  · exact h
  · -- a new round starts at chunk_end = len: nothing to show for `last`
    have hfields : st'.chunkEnd = (it.best.len : Int) ∧ st'.minChunk = st.minChunk := by
      unfold roundDecision at hrd
      split at hrd
      · split at hrd
        · injection hrd with hrd; subst hrd; exact ⟨rfl, rfl⟩
        · exact absurd hrd (by simp)
      · split at hrd
        · injection hrd with hrd; subst hrd; exact ⟨rfl, rfl⟩
        · injection hrd with hrd; subst hrd; exact ⟨rfl, rfl⟩
    refine ⟨h.tried, h.nonempty, by rw [hfields.2]; exact h.mc, ?_⟩
    intro _ _ i hi hlt
    rw [hfields.1] at hi
    omega

theorem oneInv_attempt (f : Bytes → Bool) (n0 : Nat) (st : MinSt) (it : It) (ha : AInv n0 st it)
    (h : OneInv f st it) :
    OneInv f (attempt (fun _ c => f c) st it).1 (attempt (fun _ c => f c) st it).2 := by
  have hcs := ha.cs
  have hce := ha.ce
  have hce1 := ha.ce1
  have hs0 : (0 : Int) ≤ max 0 (st.chunkEnd - st.chunkSize) := by omega
  have hse : max 0 (st.chunkEnd - (st.chunkSize : Int)) < st.chunkEnd := by omega
  obtain ⟨hshort, hne'⟩ := rmslice_shorter it.best ha.wf h.nonempty _ _ hs0 hse hce
  have hspec := try_spec it (fun _ c => f c) (it.best.rmslice (max 0 (st.chunkEnd - st.chunkSize)) st.chunkEnd)
    (fun r => { tag := 0, lo := (max 0 (st.chunkEnd - (st.chunkSize : Int))).toNat, hi := st.chunkEnd.toNat,
                size := st.chunkSize, bestLen := it.best.len, base := it.best, tIdx := it.nTests,
                cand := it.best.rmslice (max 0 (st.chunkEnd - st.chunkSize)) st.chunkEnd, resp := r })
  -- the candidate, when the chunk size is 1, is the single deletion of atom chunk_end - 1
  have hcand1 : st.chunkSize = 1 →
      it.best.rmslice (max 0 (st.chunkEnd - (st.chunkSize : Int))) st.chunkEnd = rm1 it.best (st.chunkEnd.toNat - 1) := by
    intro h1
    unfold rm1
    congr 1
    · omega
    · omega
  -- a skipped or rejected candidate is one the test rejects
  have hrej : (it.tried.contains (it.best.rmslice (max 0 (st.chunkEnd - (st.chunkSize : Int))) st.chunkEnd).content = true) →
      f (it.best.rmslice (max 0 (st.chunkEnd - (st.chunkSize : Int))) st.chunkEnd).content = false := by
    intro hin
    have hmem : (it.best.rmslice (max 0 (st.chunkEnd - (st.chunkSize : Int))) st.chunkEnd).content ∈ it.tried := by
      simpa using hin
    cases hf : f (it.best.rmslice (max 0 (st.chunkEnd - (st.chunkSize : Int))) st.chunkEnd).content with
    | false => rfl
    | true =>
      have := h.tried _ hmem hf
      omega
  unfold attempt
  simp only
  generalize hT : It.try it (fun _ c => f c) (it.best.rmslice (max 0 (st.chunkEnd - st.chunkSize)) st.chunkEnd)
    (fun r => { tag := 0, lo := (max 0 (st.chunkEnd - (st.chunkSize : Int))).toNat, hi := st.chunkEnd.toNat,
                size := st.chunkSize, bestLen := it.best.len, base := it.best, tIdx := it.nTests,
                cand := it.best.rmslice (max 0 (st.chunkEnd - st.chunkSize)) st.chunkEnd, resp := r }) = T at *
  obtain ⟨r, it2⟩ := T
  simp only at hspec
  -- what a non-accepting answer does to the `last` clause
  have hlast_keep : it2.best = it.best →
      f (it.best.rmslice (max 0 (st.chunkEnd - (st.chunkSize : Int))) st.chunkEnd).content = false →
      (st.chunkSize = 1 → st.removed = false →
        ∀ i : Nat, st.chunkEnd - (if st.chunkSize ≤ 2 then (1 : Int) else (st.chunkSize : Int)) ≤ (i : Int) →
          i < it2.best.len → f (rm1 it2.best i).content = false) := by
    intro hb hfalse h1 hrm i hi hlt
    rw [hb] at hlt ⊢
    rw [h1] at hi
    rw [if_pos (by omega)] at hi
    by_cases hieq : (i : Int) = st.chunkEnd - 1
    · have : i = st.chunkEnd.toNat - 1 := by omega
      rw [this, ← hcand1 h1]; exact hfalse
    · exact h.last h1 hrm i (by omega) hlt
  rcases hspec with ⟨hr, hin, hb, -, htr⟩ | ⟨hr, -, hv, hb, -, htr⟩ | ⟨hr, -, hv, hb, -, htr⟩
  · subst hr
    simp only
    refine ⟨by rw [hb, htr]; exact h.tried, by rw [hb]; exact h.nonempty, h.mc, ?_⟩
    exact hlast_keep hb (hrej hin)
  · subst hr
    simp only
    refine ⟨?_, by rw [hb]; exact hne', h.mc, by intro _ hrm; simp at hrm⟩
    intro c hc hfc
    rw [htr] at hc
    rw [hb]
    simp only [List.mem_cons] at hc
    rcases hc with rfl | hc
    · exact Nat.le_refl _
    · have := h.tried c hc hfc
      omega
  · subst hr
    simp only
    refine ⟨?_, by rw [hb]; exact h.nonempty, h.mc, hlast_keep hb hv⟩
    intro c hc hfc
    rw [htr] at hc
    rw [hb]
    simp only [List.mem_cons] at hc
    rcases hc with rfl | hc
    · rw [hv] at hfc; exact absurd hfc (by simp)
    · exact h.tried c hc hfc

/-- at chunk size 1, a candidate the test rejects (tested now, or de-duplicated) leaves best alone -/
theorem attempt_keeps_best (f : Bytes → Bool) (st : MinSt) (it : It) (hcs : st.chunkSize = 1)
    (hce1 : 1 ≤ st.chunkEnd)
    (hrej : f (rm1 it.best (st.chunkEnd.toNat - 1)).content = false) :
    (attempt (fun _ c => f c) st it).2.best = it.best := by
  have hspec := try_spec it (fun _ c => f c) (it.best.rmslice (max 0 (st.chunkEnd - st.chunkSize)) st.chunkEnd)
    (fun r => { tag := 0, lo := (max 0 (st.chunkEnd - (st.chunkSize : Int))).toNat, hi := st.chunkEnd.toNat,
                size := st.chunkSize, bestLen := it.best.len, base := it.best, tIdx := it.nTests,
                cand := it.best.rmslice (max 0 (st.chunkEnd - st.chunkSize)) st.chunkEnd, resp := r })
  have hcand : it.best.rmslice (max 0 (st.chunkEnd - (st.chunkSize : Int))) st.chunkEnd
      = rm1 it.best (st.chunkEnd.toNat - 1) := by
    rw [hcs]; unfold rm1; congr 1 <;> omega
  unfold attempt
  simp only
  generalize hT : It.try it (fun _ c => f c) (it.best.rmslice (max 0 (st.chunkEnd - st.chunkSize)) st.chunkEnd)
    (fun r => { tag := 0, lo := (max 0 (st.chunkEnd - (st.chunkSize : Int))).toNat, hi := st.chunkEnd.toNat,
                size := st.chunkSize, bestLen := it.best.len, base := it.best, tIdx := it.nTests,
                cand := it.best.rmslice (max 0 (st.chunkEnd - st.chunkSize)) st.chunkEnd, resp := r }) = T at *
  obtain ⟨r, it2⟩ := T
  simp only at hspec
  rcases hspec with ⟨hr, -, hb, -, -⟩ | ⟨hr, -, hv, -, -, -⟩ | ⟨hr, -, -, hb, -, -⟩
  · subst hr; exact hb
  · rw [hcand, hrej] at hv
    exact absurd hv (by simp)
  · subst hr; exact hb

end Strat
