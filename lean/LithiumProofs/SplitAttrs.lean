/-
The attribute splitter partitions its input into non-empty parts with one flag each (C06, C16).
-/
import LithiumModel.SplitAttrs
import LithiumProofs.Load

namespace Attrs
open Strat (isWs)

structure Inv (orig : Bytes) (s : St) : Prop where
  cat : s.parts.flatten ++ s.data = orig
  ne : ∀ p ∈ s.parts, p ≠ []
  len : s.parts.length = s.red.length

theorem inv_flag (orig : Bytes) (s : St) (b : Bool) (h : Inv orig s) : Inv orig { s with inTag := b } :=
  ⟨h.cat, h.ne, h.len⟩

/-- appending the first `k ≥ 1` bytes of the remaining data as a part -/
theorem inv_push (orig : Bytes) (s : St) (k : Nat) (r : Bool) (h : Inv orig s) (hk : 1 ≤ k)
    (hd : s.data ≠ []) : Inv orig (push s (s.data.take k) r (s.data.drop k)) := by
  refine ⟨?_, ?_, ?_⟩
  · simp only [push, List.flatten_append, List.flatten_cons, List.flatten_nil, List.append_nil, List.append_assoc,
      List.take_append_drop]
    exact h.cat
  · intro p hp
    simp only [push, List.mem_append, List.mem_singleton] at hp
    rcases hp with hp | hp
    · exact h.ne p hp
    · subst hp
      cases hdd : s.data with
      | nil => exact absurd hdd hd
      | cons c cs =>
        obtain ⟨k', rfl⟩ : ∃ k', k = k' + 1 := ⟨k - 1, by omega⟩
        simp
  · simp [push, h.len]

theorem inv_push' (orig : Bytes) (s : St) (p rest : Bytes) (r : Bool) (h : Inv orig s)
    (hcat : p ++ rest = s.data) (hp : p ≠ []) : Inv orig (push s p r rest) := by
  refine ⟨?_, ?_, ?_⟩
  · simp only [push, List.flatten_append, List.flatten_cons, List.flatten_nil, List.append_nil, List.append_assoc, hcat]
    exact h.cat
  · intro x hx
    simp only [push, List.mem_append, List.mem_singleton] at hx
    rcases hx with hx | hx
    · exact h.ne x hx
    · subst hx; exact hp
  · simp [push, h.len]

theorem nameTerm_pos (d : Bytes) (k : Nat) (h : nameTerm d = some k) : 2 ≤ k := by
  unfold nameTerm at h
  split at h
  · split at h
    · simp only at h
      split at h
      · split at h
        · injection h with h; omega
        · exact absurd h (by simp)
      · exact absurd h (by simp)
    · exact absurd h (by simp)
  · exact absurd h (by simp)

theorem attrA1_pos (d : Bytes) (ls : Bool) (k : Nat) (h : attrA1 d ls = some k) : 2 ≤ k := by
  unfold attrA1 at h
  simp only at h
  split at h
  · cases hn : nameTerm (d.drop (d.takeWhile isWs).length) with
    | none => simp [hn] at h
    | some j =>
      have := nameTerm_pos _ j hn
      simp only [hn, Option.map_some, Option.some.injEq] at h
      omega
  · split at h
    · exact nameTerm_pos d k h
    · exact absurd h (by simp)

theorem attrA2_pos (d : Bytes) (k : Nat) (h : attrA2 d = some k) : 1 ≤ k := by
  unfold attrA2 at h
  simp only at h
  split at h
  · injection h with h; omega
  · exact absurd h (by simp)

theorem attrMatch_pos (d : Bytes) (k : Nat) (b : Bool) (h : attrMatch d = some (k, b)) :
    1 ≤ k ∧ (b = true → 2 ≤ k) ∧ (b = false → attrA2 d = some k) := by
  unfold attrMatch at h
  cases h1 : attrA1 d true with
  | some j =>
    simp only [h1, Option.some.injEq, Prod.mk.injEq] at h
    obtain ⟨rfl, rfl⟩ := h
    have := attrA1_pos d true j h1
    exact ⟨by omega, fun _ => this, fun hb => absurd hb (by simp)⟩
  | none =>
    simp only [h1] at h
    cases h2 : attrA2 d with
    | none => simp [h2] at h
    | some j =>
      simp only [h2, Option.map_some, Option.some.injEq, Prod.mk.injEq] at h
      obtain ⟨rfl, rfl⟩ := h
      exact ⟨attrA2_pos d j h2, fun hb => absurd hb (by simp), fun _ => rfl⟩

theorem attrSearch_pos (d : Bytes) (prev : Option UInt8) (pos start len : Nat) (b : Bool)
    (h : attrSearch d prev pos = some (start, len, b)) : pos ≤ start ∧ 1 ≤ len := by
  induction d generalizing prev pos with
  | nil => simp [attrSearch] at h
  | cons c rest ih =>
    unfold attrSearch at h
    simp only at h
    split at h
    · rename_i k hk
      simp only [Option.some.injEq, Prod.mk.injEq] at h
      obtain ⟨rfl, rfl, rfl⟩ := h
      have := attrA1_pos _ _ _ hk
      exact ⟨Nat.le_refl _, by omega⟩
    · split at h
      · rename_i k hk
        simp only [Option.some.injEq, Prod.mk.injEq] at h
        obtain ⟨rfl, rfl, rfl⟩ := h
        exact ⟨Nat.le_refl _, attrA2_pos _ _ hk⟩
      · have := ih _ _ h
        exact ⟨by omega, this.2⟩

theorem tagSearch_pos (d : Bytes) (pos e : Nat) (h : tagSearch d pos = some e) : pos + 2 ≤ e := by
  induction d generalizing pos with
  | nil => simp [tagSearch] at h
  | cons c rest ih =>
    unfold tagSearch at h
    split at h
    · simp only at h
      split at h
      · split at h
        · injection h with h; omega
        · have := ih _ h; omega
      · have := ih _ h; omega
    · have := ih _ h; omega

/-- one iteration keeps the invariant -/
theorem step_inv (orig : Bytes) (s s' : St) (h : Inv orig s) (hd : s.data ≠ []) (hs : step s = some s') :
    Inv orig s' := by
  unfold step at hs
  simp only at hs
  split at hs
  · -- in a tag
    cases hm : attrMatch s.data with
    | none =>
      rw [hm] at hs
      simp only at hs
      cases hsr : attrSearch s.data none 0 with
      | none =>
        rw [hsr] at hs
        injection hs with hs; subst hs; exact inv_flag orig s false h
      | some r =>
        obtain ⟨start, len, b⟩ := r
        rw [hsr] at hs
        simp only at hs
        obtain ⟨-, hlen⟩ := attrSearch_pos _ _ _ _ _ _ hsr
        split at hs
        · injection hs with hs; subst hs
          -- the skipped text is non-empty: the search cannot succeed at position 0, where `match` failed
          by_cases h0 : start = 0
          · exfalso
            subst h0
            cases hdd : s.data with
            | nil => exact hd hdd
            | cons c rest =>
              rw [hdd] at hsr hm
              unfold attrSearch at hsr
              simp only at hsr
              unfold attrMatch at hm
              split at hsr
              · rename_i k hk; rw [hk] at hm; simp at hm
              · rename_i hk
                rw [hk] at hm
                simp only at hm
                split at hsr
                · rename_i k hk2; rw [hk2] at hm; simp at hm
                · have := attrSearch_pos _ _ _ _ _ _ hsr; omega
          · exact inv_push orig s start false h (by omega) hd
        · injection hs with hs; subst hs
          exact inv_push orig { s with inTag := false } (start + len) false (inv_flag orig s false h) (by omega) hd
    | some r =>
      obtain ⟨len, b⟩ := r
      rw [hm] at hs
      simp only at hs
      obtain ⟨h1, h2, h3⟩ := attrMatch_pos _ _ _ hm
      split at hs
      · injection hs with hs; subst hs
        exact inv_push orig { s with inTag := false } len false (inv_flag orig s false h) h1 hd
      · rename_i hng
        split at hs
        · injection hs with hs; subst hs
          -- value-less attribute: the match has at least two bytes (a one-byte match is a bare `>`)
          have hlen2 : 2 ≤ len := by
            rcases Nat.lt_or_ge len 2 with hlt | hge
            · exfalso
              have hl1 : len = 1 := by omega
              subst hl1
              cases b with
              | true => have := h2 rfl; omega
              | false =>
                have ha2 := h3 rfl
                unfold attrA2 at ha2
                simp only at ha2
                split at ha2
                · rename_i rest' hdrop
                  injection ha2 with ha2
                  have hws : (s.data.takeWhile isWs).length = 0 := by omega
                  rw [hws] at hdrop
                  simp only [List.drop_zero] at hdrop
                  apply hng
                  rw [hdrop]
                  have : List.take 1 (0x3E :: rest') = [0x3E] := rfl
                  rw [this]
                  decide
                · exact absurd ha2 (by simp)
            · exact hge
          exact inv_push orig s (len - 1) true h (by omega) hd
        · -- attribute with a value
          have hg : s.data.take len ++ s.data.drop len = s.data := List.take_append_drop _ _
          have hgne : s.data.take len ≠ [] := by
            cases hdd : s.data with
            | nil => exact absurd hdd hd
            | cons c cs =>
              obtain ⟨k', rfl⟩ : ∃ k', len = k' + 1 := ⟨len - 1, by omega⟩
              simp
          cases hrest : s.data.drop len with
          | nil =>
            rw [hrest] at hs
            injection hs with hs; subst hs; exact inv_flag orig s false h
          | cons q rest' =>
            rw [hrest] at hs
            simp only at hs
            split at hs
            · cases hi : rest'.findIdx? (fun x => x == q) with
              | none => rw [hi] at hs; injection hs with hs; subst hs; exact inv_flag orig s false h
              | some i =>
                rw [hi] at hs
                injection hs with hs; subst hs
                refine inv_push' orig s _ _ true h ?_ (by simp [hgne])
                have hcat : s.data.take len ++ (q :: rest') = s.data := by rw [← hrest]; exact hg
                rw [show (s.data.take len ++ [q] ++ rest'.take (i + 1)) ++ rest'.drop (i + 1)
                  = s.data.take len ++ (q :: rest') from by simp [List.take_append_drop]]
                exact hcat
            · cases hi : (q :: rest').findIdx? (fun b => isWs b || b == 0x3E) with
              | none => rw [hi] at hs; injection hs with hs; subst hs; exact inv_flag orig s false h
              | some i =>
                rw [hi] at hs
                injection hs with hs; subst hs
                refine inv_push' orig s _ _ true h ?_ (by simp [hgne])
                have hcat : s.data.take len ++ (q :: rest') = s.data := by rw [← hrest]; exact hg
                rw [show (s.data.take len ++ (q :: rest').take i) ++ (q :: rest').drop i
                  = s.data.take len ++ (q :: rest') from by rw [List.append_assoc, List.take_append_drop]]
                exact hcat
  · -- looking for the next tag
    split at hs
    · exact absurd hs (by simp)
    · rename_i e he
      injection hs with hs; subst hs
      have := tagSearch_pos _ _ _ he
      exact inv_push orig { s with inTag := true } e false (inv_flag orig s true h) (by omega) hd

theorem loop_inv (orig : Bytes) (fuel : Nat) (s : St) (h : Inv orig s) : Inv orig (loop fuel s) := by
  induction fuel generalizing s with
  | zero => exact h
  | succ f ih =>
    unfold loop
    split
    · exact h
    · rename_i hne
      have hd : s.data ≠ [] := by
        intro he; rw [he] at hne; simp at hne
      cases hs : step s with
      | none => exact h
      | some s' => exact ih s' (step_inv orig s s' h hd hs)

theorem splitAttrs_ok : Load.SplitOK splitAttrs := by
  intro d sp hsp
  unfold splitAttrs at hsp
  simp only at hsp
  have hinv := loop_inv d (2 * d.length + 2) { data := d, inTag := false, parts := [], red := [] }
    ⟨by simp, by simp, by simp⟩
  split at hsp
  · rename_i hemp
    injection hsp with hsp; subst hsp
    have hd : (loop (2 * d.length + 2) { data := d, inTag := false, parts := [], red := [] }).data = [] := by
      simpa using hemp
    refine ⟨?_, hinv.ne, hinv.len⟩
    have := hinv.cat
    rw [hd] at this
    simpa using this
  · rename_i hemp
    injection hsp with hsp; subst hsp
    refine ⟨?_, ?_, by simp [hinv.len]⟩
    · have := hinv.cat
      simpa using this
    · intro p hp
      simp only [List.mem_append, List.mem_singleton] at hp
      rcases hp with hp | hp
      · exact hinv.ne p hp
      · subst hp
        intro he; rw [he] at hemp; simp at hemp

end Attrs
