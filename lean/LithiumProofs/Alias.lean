/-
No two testcase objects ever share a list (heap model `Alias`), hence an operation on one object — also an
in-place edit of one of its lists — never changes what another object holds (C07, last clause).
-/
import LithiumModel.Alias

namespace Alias

/-- no sharing, and every address in use is below the allocation counter -/
structure Inv (h : Heap) : Prop where
  sep : ∀ (i j : Nat) (a b : Obj), h.objs[i]? = some a → h.objs[j]? = some b → i ≠ j → a.p ≠ b.p ∧ a.r ≠ b.r
  low : ∀ (i : Nat) (a : Obj), h.objs[i]? = some a → a.p < h.next ∧ a.r < h.next

theorem inv_init (parts : List Bytes) (flags : List Bool) : Inv (init parts flags) := by
  refine ⟨?_, ?_⟩
  · intro i j a b hi hj hne
    simp only [init] at hi hj
    cases i with
    | zero =>
      cases j with
      | zero => exact absurd rfl hne
      | succ j => simp at hj
    | succ i => simp at hi
  · intro i a hi
    simp only [init] at hi ⊢
    cases i with
    | zero => simp at hi; subst hi; exact ⟨by decide, by decide⟩
    | succ i => simp at hi

theorem upd_ne {α} (f : Nat → α) (a x : Nat) (v : α) (h : x ≠ a) : upd f a v x = f x := by
  simp [upd, h]

theorem upd_eq {α} (f : Nat → α) (a : Nat) (v : α) : upd f a v a = v := by
  simp [upd]

theorem getElem?_snoc_some {α} (l : List α) (x a : α) (i : Nat) (h : (l ++ [x])[i]? = some a) :
    (i < l.length ∧ l[i]? = some a) ∨ (i = l.length ∧ a = x) := by
  by_cases hi : i < l.length
  · rw [List.getElem?_append_left hi] at h
    exact Or.inl ⟨hi, h⟩
  · rw [List.getElem?_append_right (by omega)] at h
    have : i - l.length = 0 := by
      rcases Nat.lt_or_ge (i - l.length) 1 with h1 | h1
      · omega
      · rw [List.getElem?_eq_none (by simpa using h1)] at h; simp at h
    rw [this] at h
    simp at h
    exact Or.inr ⟨by omega, h.symm⟩

theorem getElem?_set_some {α} (l : List α) (o : Nat) (x a : α) (i : Nat) (h : (l.set o x)[i]? = some a) :
    (i ≠ o ∧ l[i]? = some a) ∨ (i = o ∧ a = x ∧ o < l.length) := by
  by_cases hio : i = o
  · subst hio
    rw [List.getElem?_set_self'] at h
    cases hl : l[i]? with
    | none => rw [hl] at h; simp at h
    | some y =>
      rw [hl] at h
      simp at h
      have := (List.getElem?_eq_some_iff.mp hl).1
      exact Or.inr ⟨rfl, h.symm, this⟩
  · rw [List.getElem?_set_ne (Ne.symm hio)] at h
    exact Or.inl ⟨hio, h⟩

theorem step_inv (h : Heap) (op : Op) (hi : Inv h) : Inv (step h op) := by
  cases op with
  | copy o =>
    simp only [step]
    cases ho : h.objs[o]? with
    | none => exact hi
    | some ob =>
      simp only
      refine ⟨?_, ?_⟩
      · intro i j a b h1 h2 hne
        rcases getElem?_snoc_some _ _ _ _ h1 with ⟨-, h1'⟩ | ⟨e1, rfl⟩
        · rcases getElem?_snoc_some _ _ _ _ h2 with ⟨-, h2'⟩ | ⟨e2, rfl⟩
          · exact hi.sep i j a b h1' h2' hne
          · have := hi.low i a h1'
            exact ⟨by simp only; omega, by simp only; omega⟩
        · rcases getElem?_snoc_some _ _ _ _ h2 with ⟨-, h2'⟩ | ⟨e2, rfl⟩
          · have := hi.low j b h2'
            exact ⟨by simp only; omega, by simp only; omega⟩
          · omega
      · intro i a h1
        rcases getElem?_snoc_some _ _ _ _ h1 with ⟨-, h1'⟩ | ⟨-, rfl⟩
        · have := hi.low i a h1'
          exact ⟨by simp only; omega, by simp only; omega⟩
        · exact ⟨by simp only; omega, by simp only; omega⟩
  | rmslice o a b =>
    simp only [step]
    cases ho : h.objs[o]? with
    | none => exact hi
    | some ob =>
      simp only
      split
      · exact hi
      · refine ⟨?_, ?_⟩
        · intro i j x y h1 h2 hne
          rcases getElem?_set_some _ _ _ _ _ h1 with ⟨-, h1'⟩ | ⟨e1, rfl, -⟩
          · rcases getElem?_set_some _ _ _ _ _ h2 with ⟨-, h2'⟩ | ⟨e2, rfl, -⟩
            · exact hi.sep i j x y h1' h2' hne
            · have := hi.low i x h1'
              exact ⟨by simp only; omega, by simp only; omega⟩
          · rcases getElem?_set_some _ _ _ _ _ h2 with ⟨-, h2'⟩ | ⟨e2, rfl, -⟩
            · have := hi.low j y h2'
              exact ⟨by simp only; omega, by simp only; omega⟩
            · omega
        · intro i x h1
          rcases getElem?_set_some _ _ _ _ _ h1 with ⟨-, h1'⟩ | ⟨-, rfl, -⟩
          · have := hi.low i x h1'
            exact ⟨by simp only; omega, by simp only; omega⟩
          · exact ⟨by simp only; omega, by simp only; omega⟩
  | setFlag o i v =>
    simp only [step]
    cases ho : h.objs[o]? with
    | none => exact hi
    | some ob => exact ⟨hi.sep, hi.low⟩
  | setPart o i v =>
    simp only [step]
    cases ho : h.objs[o]? with
    | none => exact hi
    | some ob => exact ⟨hi.sep, hi.low⟩

theorem run_inv (h : Heap) (ops : List Op) (hi : Inv h) : Inv (run h ops) := by
  induction ops generalizing h with
  | nil => exact hi
  | cons op ops ih => exact ih (step h op) (step_inv h op hi)

/-- one operation leaves every OTHER existing object as it was — for `copy` also the object copied from -/
theorem step_others (h : Heap) (op : Op) (hi : Inv h) (j : Nat) (hj : j < h.objs.length)
    (hne : j ≠ target op ∨ ∃ o, op = .copy o) : view (step h op) j = view h j := by
  obtain ⟨objj, hoj⟩ : ∃ x, h.objs[j]? = some x := ⟨h.objs[j], List.getElem?_eq_getElem hj⟩
  have hlow := hi.low j objj hoj
  cases op with
  | copy o =>
    simp only [step]
    cases ho : h.objs[o]? with
    | none => rfl
    | some ob =>
      simp only [view]
      rw [List.getElem?_append_left hj, hoj]
      simp only [Option.map_some]
      rw [upd_ne _ _ _ _ (by omega), upd_ne _ _ _ _ (by omega)]
  | rmslice o a b =>
    have hjo : j ≠ o := by
      rcases hne with h1 | ⟨o', h1⟩
      · exact h1
      · cases h1
    simp only [step]
    cases ho : h.objs[o]? with
    | none => rfl
    | some ob =>
      simp only
      split
      · rfl
      · simp only [view]
        rw [List.getElem?_set_ne (Ne.symm hjo), hoj]
        simp only [Option.map_some]
        rw [upd_ne _ _ _ _ (by omega), upd_ne _ _ _ _ (by omega)]
  | setFlag o i v =>
    have hjo : j ≠ o := by
      rcases hne with h1 | ⟨o', h1⟩
      · exact h1
      · cases h1
    simp only [step]
    cases ho : h.objs[o]? with
    | none => rfl
    | some ob =>
      simp only [view, hoj, Option.map_some]
      have := (hi.sep j o objj ob hoj ho hjo).2
      rw [upd_ne _ _ _ _ this]
  | setPart o i v =>
    have hjo : j ≠ o := by
      rcases hne with h1 | ⟨o', h1⟩
      · exact h1
      · cases h1
    simp only [step]
    cases ho : h.objs[o]? with
    | none => rfl
    | some ob =>
      simp only [view, hoj, Option.map_some]
      have := (hi.sep j o objj ob hoj ho hjo).1
      rw [upd_ne _ _ _ _ this]

/-- what `copy` creates: a new last object that looks like the original -/
theorem copy_view (h : Heap) (o : Nat) (ob : Obj) (ho : h.objs[o]? = some ob) :
    view (step h (.copy o)) h.objs.length = view h o := by
  simp only [step, ho, view]
  rw [List.getElem?_append_right (Nat.le_refl _)]
  simp [upd_eq]

/-- what `rmslice` does to its own object: the pure function of the C07 theorems -/
theorem rmslice_view (h : Heap) (o : Nat) (a b : Option Int) (ps : List Bytes) (fs : List Bool) (t' : Testcase)
    (hv : view h o = some (ps, fs))
    (hr : ({ before := [], parts := ps, reducible := fs, after := [] } : Testcase).rmslice? a b = some t') :
    view (step h (.rmslice o a b)) o = some (t'.parts, t'.reducible) := by
  simp only [view] at hv
  cases ho : h.objs[o]? with
  | none => rw [ho] at hv; simp at hv
  | some ob =>
    rw [ho] at hv
    simp only [Option.map_some, Option.some.injEq, Prod.mk.injEq] at hv
    obtain ⟨rfl, rfl⟩ := hv
    have hlt : o < h.objs.length := (List.getElem?_eq_some_iff.mp ho).1
    simp only [step, ho, hr, view]
    rw [List.getElem?_set_self hlt]
    simp [upd_eq]

end Alias
