/-
The JS-string splitter: header ++ parts ++ footer is the input, one flag per part (C06, C16).
-/
import LithiumModel.SplitJs
import LithiumProofs.Load

namespace Js

theorem scan_cat (fuel : Nat) (s : Scan) : (scan fuel s).parts.flatten ++ (scan fuel s).rest = s.parts.flatten ++ s.rest := by
  induction fuel generalizing s with
  | zero => rfl
  | succ f ih =>
    unfold scan
    split
    · simp only
      split
      · rfl
      · split
        · rw [ih]; simp [List.take_append_drop]
        · rw [ih]; simp [List.take_append_drop]
    · split
      · rfl
      · rw [ih]; simp [List.take_append_drop]

theorem outer_cat (fuel : Nat) (data : Bytes) (chars : List Nat) (parts : List Bytes) (cs : List Nat) (ps : List Bytes)
    (h : outer fuel data chars parts = .ok (cs, ps)) : ps.flatten = parts.flatten ++ data := by
  induction fuel generalizing data chars parts with
  | zero => simp [outer] at h
  | succ f ih =>
    unfold outer at h
    simp only at h
    have hscan := scan_cat (data.length + 1) { rest := data, instr := none, chars := chars, parts := parts }
    simp only at hscan
    generalize scan (data.length + 1) { rest := data, instr := none, chars := chars, parts := parts } = s at h hscan
    have hparts : (if s.rest.isEmpty then s.parts else s.parts ++ [s.rest]).flatten = parts.flatten ++ data := by
      split
      · rename_i he
        have : s.rest = [] := by simpa using he
        rw [this] at hscan; simpa using hscan
      · simpa using hscan
    split at h
    · injection h with h
      injection h with h1 h2
      subst h2
      exact hparts
    · split at h
      · exact absurd h (by simp)
      · rename_i idx _
        have := ih _ _ _ h
        rw [this, ← hparts]
        rw [← List.flatten_append, List.take_append_drop]

theorem mergeLoop_cat (fuel i : Nat) (parts : List Bytes) (chars : List Nat) :
    (mergeLoop fuel i parts chars).1.flatten = parts.flatten := by
  induction fuel generalizing i parts chars with
  | zero => rfl
  | succ f ih =>
    unfold mergeLoop
    split
    · simp only
      split
      · rename_i hgap
        rw [ih]
        -- take (c1+1) ++ [flatten (take (c2-c1-1) (drop (c1+1)))] ++ drop c2, with c1+1+(c2-c1-1) = c2
        generalize chars.getD i 0 = c1 at hgap ⊢
        generalize chars.getD (i + 1) 0 = c2 at hgap ⊢
        have hdrop : parts.drop c2 = (parts.drop (c1 + 1)).drop (c2 - c1 - 1) := by
          rw [List.drop_drop]; congr 1; omega
        simp only [List.flatten_append, List.flatten_cons, List.flatten_nil, List.append_nil, List.append_assoc]
        rw [hdrop, ← List.flatten_append, List.take_append_drop, ← List.flatten_append, List.take_append_drop]
      · exact ih _ _ _
    · rfl

theorem mergeLoop_len (fuel i : Nat) (parts : List Bytes) (chars : List Nat) : True := trivial

/-- round trip and one flag per part; non-emptiness of JS-string atoms is checked by the monitor -/
theorem splitJs_cat (d : Bytes) (s : Load.Split) (h : splitJs d = .ok s) :
    s.header ++ s.parts.flatten ++ s.footer = d ∧ s.parts.length = s.reducible.length := by
  unfold splitJs at h
  cases ho : outer (d.length + 2) d [] [] with
  | error e => rw [ho] at h; simp at h
  | ok r =>
    obtain ⟨chars, parts⟩ := r
    rw [ho] at h
    simp only at h
    have hcat := outer_cat _ _ _ _ _ _ ho
    simp only [List.flatten_nil, List.nil_append] at hcat
    cases chars with
    | nil =>
      simp only [Except.ok.injEq] at h
      subst h
      simp [hcat]
    | cons c0 rest =>
      simp only [Except.ok.injEq] at h
      subst h
      simp only
      refine ⟨?_, by simp⟩
      rw [mergeLoop_cat]
      rw [← hcat]
      generalize ((c0 :: rest).map (· - c0)).getLast?.getD 0 + 1 = off
      rw [List.append_assoc, ← List.flatten_append, List.take_append_drop, ← List.flatten_append, List.take_append_drop]

end Js
