/-
Lemmas about `Testcase.load` (marker scanning, round trip) used by C05, C06, C08.
-/
import LithiumModel.Load
import LithiumProofs.Lines

namespace Load

/-- the line mentions one of the two marker words -/
def mentionsAny (l : Bytes) : Bool := hasSub DDBEGIN l || hasSub DDEND l

theorem scan1_spec (ls : List Bytes) (acc : Bytes) :
    scan1 ls acc =
      match ls.dropWhile (fun l => !mentionsAny l) with
      | [] => .noMarker
      | m :: rest =>
        if hasSub DDBEGIN m then
          .begin (acc ++ (ls.takeWhile (fun l => !mentionsAny l)).flatten ++ m) rest
        else .endFirst := by
  induction ls generalizing acc with
  | nil => simp [scan1]
  | cons l ls ih =>
    unfold scan1
    by_cases hb : hasSub DDBEGIN l = true
    · have hm : mentionsAny l = true := by simp [mentionsAny, hb]
      simp [hb, hm, List.dropWhile_cons, List.takeWhile_cons]
    · by_cases he : hasSub DDEND l = true
      · have hm : mentionsAny l = true := by simp [mentionsAny, he]
        simp [hb, he, hm, List.dropWhile_cons]
      · have hm : mentionsAny l = false := by
          simp only [mentionsAny]; simp [Bool.not_eq_true _ ▸ hb, Bool.not_eq_true _ ▸ he]
        simp only [hb, he, if_false, Bool.false_eq_true]
        rw [ih]
        simp only [List.dropWhile_cons, List.takeWhile_cons, hm, Bool.not_false, if_true,
          List.flatten_cons, List.append_assoc]

theorem scan2_spec (ls : List Bytes) (acc : Bytes) :
    scan2 ls acc =
      match ls.dropWhile (fun l => !hasSub DDEND l) with
      | [] => none
      | e :: post =>
        some (acc ++ (ls.takeWhile (fun l => !hasSub DDEND l)).flatten, e ++ post.flatten) := by
  induction ls generalizing acc with
  | nil => simp [scan2]
  | cons l ls ih =>
    unfold scan2
    by_cases he : hasSub DDEND l = true
    · simp [he, List.dropWhile_cons, List.takeWhile_cons]
    · have he' : hasSub DDEND l = false := by simpa using he
      simp only [he, if_false, Bool.false_eq_true]
      rw [ih]
      simp only [List.dropWhile_cons, List.takeWhile_cons, he', Bool.not_false, if_true,
        List.flatten_cons, List.append_assoc]

/-- what every `split_parts` must guarantee for the round trip -/
def SplitOK (sp : Splitter) : Prop :=
  ∀ d s, sp d = .ok s →
    s.header ++ s.parts.flatten ++ s.footer = d ∧ (∀ p ∈ s.parts, p ≠ []) ∧
      s.parts.length = s.reducible.length

theorem flatten_takeWhile_dropWhile (p : Bytes → Bool) (ls : List Bytes) :
    (ls.takeWhile p).flatten ++ (ls.dropWhile p).flatten = ls.flatten := by
  rw [← List.flatten_append, List.takeWhile_append_dropWhile]

theorem loadWith_ok (sp : Splitter) (hsp : SplitOK sp) (d : Bytes) (t : Testcase)
    (h : loadWith sp d = .ok t) :
    t.content = d ∧ (∀ p ∈ t.parts, p ≠ []) ∧ t.WF := by
  unfold loadWith at h
  have hfl := Lines.splitLines_flatten d
  rw [scan1_spec] at h
  generalize Lines.splitLines d = ls at h hfl
  have htd := flatten_takeWhile_dropWhile (fun l => !mentionsAny l) ls
  cases hdw : ls.dropWhile (fun l => !mentionsAny l) with
  | nil =>
    simp only [hdw] at h
    cases hs : sp ls.flatten with
    | error e => simp [hs] at h
    | ok s =>
      simp only [hs, Except.ok.injEq] at h
      subst h
      obtain ⟨h1, h2, h3⟩ := hsp _ _ hs
      refine ⟨?_, h2, h3⟩
      simp only [Testcase.content, mk, List.nil_append, List.append_nil]
      rw [h1, hfl]
  | cons m rest =>
    simp only [hdw] at h
    by_cases hb : hasSub DDBEGIN m = true
    · simp only [hb, if_true] at h
      rw [scan2_spec] at h
      have htd2 := flatten_takeWhile_dropWhile (fun l => !hasSub DDEND l) rest
      cases hdw2 : rest.dropWhile (fun l => !hasSub DDEND l) with
      | nil => simp [hdw2] at h
      | cons e post =>
        simp only [hdw2, List.nil_append] at h
        cases hs : sp (rest.takeWhile (fun l => !hasSub DDEND l)).flatten with
        | error e => simp [hs] at h
        | ok s =>
          simp only [hs, Except.ok.injEq] at h
          subst h
          obtain ⟨h1, h2, h3⟩ := hsp _ _ hs
          refine ⟨?_, h2, h3⟩
          simp only [Testcase.content, mk]
          rw [hdw] at htd
          rw [hdw2] at htd2
          simp only [List.flatten_cons, List.nil_append] at htd htd2 h1
          rw [← hfl, ← htd, ← htd2, ← h1]
          simp only [List.append_assoc, List.nil_append]
    · simp [hb] at h

/-- the testcase (or internal error) a `split_parts` result turns into -/
def finish (before after : Bytes) : Except String Split → Except Err Testcase
  | .ok s => .ok (mk before after s)
  | .error e => .error (.internal e)

theorem loadWith_spec (sp : Splitter) (d : Bytes) :
    loadWith sp d =
      (let ls := Lines.splitLines d
       match ls.dropWhile (fun l => !mentionsAny l) with
       | [] => finish [] [] (sp ls.flatten)
       | m :: rest =>
         if hasSub DDBEGIN m then
           match rest.dropWhile (fun l => !hasSub DDEND l) with
           | [] => .error .beginWithoutEnd
           | e :: post =>
             finish ((ls.takeWhile (fun l => !mentionsAny l)).flatten ++ m) (e ++ post.flatten)
               (sp (rest.takeWhile (fun l => !hasSub DDEND l)).flatten)
         else .error .endWithoutBegin) := by
  unfold loadWith
  rw [scan1_spec]
  simp only
  cases hdw : (Lines.splitLines d).dropWhile (fun l => !mentionsAny l) with
  | nil =>
    simp only
    cases sp (Lines.splitLines d).flatten <;> rfl
  | cons m rest =>
    simp only
    by_cases hb : hasSub DDBEGIN m = true
    · simp only [hb, if_true]
      rw [scan2_spec]
      cases hdw2 : rest.dropWhile (fun l => !hasSub DDEND l) with
      | nil => rfl
      | cons e post =>
        simp only [List.nil_append]
        cases sp (rest.takeWhile (fun l => !hasSub DDEND l)).flatten <;> rfl
    · simp only [hb, if_false, Bool.false_eq_true]

theorem dropWhile_eq_nil_of_all {α} (p : α → Bool) (l : List α) (h : ∀ a ∈ l, p a = true) :
    l.dropWhile p = [] := by
  induction l with
  | nil => rfl
  | cons a t ih =>
    have ha := h a (by simp)
    simp only [List.dropWhile_cons, ha, if_true]
    exact ih (fun b hb => h b (by simp [hb]))

theorem loadWith_no_internal (sp : Splitter) (hsp : ∀ x, ∃ s, sp x = .ok s) (d : Bytes) (w : String) :
    loadWith sp d ≠ .error (.internal w) := by
  have hfin : ∀ b a x, finish b a (sp x) ≠ .error (.internal w) := by
    intro b a x
    obtain ⟨s, hs⟩ := hsp x
    rw [hs]; simp [finish]
  rw [loadWith_spec]
  simp only
  split
  · exact hfin _ _ _
  · split
    · split
      · simp
      · exact hfin _ _ _
    · simp

/-- the weaker contract (no claim about empty parts) -/
def SplitCat (sp : Splitter) : Prop :=
  ∀ d s, sp d = .ok s → s.header ++ s.parts.flatten ++ s.footer = d ∧ s.parts.length = s.reducible.length

theorem loadWith_cat (sp : Splitter) (hsp : SplitCat sp) (d : Bytes) (t : Testcase)
    (h : loadWith sp d = .ok t) : t.content = d ∧ t.WF := by
  rw [loadWith_spec] at h
  simp only at h
  have hfl := Lines.splitLines_flatten d
  generalize Lines.splitLines d = ls at h hfl
  have htd := flatten_takeWhile_dropWhile (fun l => !mentionsAny l) ls
  cases hdw : ls.dropWhile (fun l => !mentionsAny l) with
  | nil =>
    rw [hdw] at h
    simp only at h
    cases hs : sp ls.flatten with
    | error e => simp [hs, finish] at h
    | ok s =>
      simp only [hs, finish, Except.ok.injEq] at h
      subst h
      obtain ⟨h1, h3⟩ := hsp _ _ hs
      refine ⟨?_, h3⟩
      simp only [Testcase.content, mk, List.nil_append, List.append_nil]
      rw [h1, hfl]
  | cons m rest =>
    rw [hdw] at h
    simp only at h
    by_cases hb : hasSub DDBEGIN m = true
    · simp only [hb, if_true] at h
      have htd2 := flatten_takeWhile_dropWhile (fun l => !hasSub DDEND l) rest
      cases hdw2 : rest.dropWhile (fun l => !hasSub DDEND l) with
      | nil => simp [hdw2] at h
      | cons e post =>
        rw [hdw2] at h
        simp only at h
        cases hs : sp (rest.takeWhile (fun l => !hasSub DDEND l)).flatten with
        | error e => simp [hs, finish] at h
        | ok s =>
          simp only [hs, finish, Except.ok.injEq] at h
          subst h
          obtain ⟨h1, h3⟩ := hsp _ _ hs
          refine ⟨?_, h3⟩
          simp only [Testcase.content, mk]
          rw [hdw] at htd
          rw [hdw2] at htd2
          simp only [List.flatten_cons] at htd htd2
          rw [← hfl, ← htd, ← htd2, ← h1]
          simp only [List.append_assoc]
    · simp [hb] at h

/-! ### the three simple splitters -/

theorem splitLine_ok : SplitOK splitLine := by
  intro d s h
  simp only [splitLine, Except.ok.injEq] at h
  subst h
  refine ⟨by simp [Lines.splitLines_flatten], Lines.splitLines_nonempty d, by simp⟩

theorem flatten_map_singleton (d : Bytes) : (d.map (fun b => [b])).flatten = d := by
  induction d with
  | nil => rfl
  | cons a t ih => simp [ih]

theorem splitChar_ok : SplitOK splitChar := by
  intro d s h
  simp only [splitChar, Except.ok.injEq] at h
  subst h
  refine ⟨by simp [flatten_map_singleton], ?_, by simp⟩
  intro p hp
  simp only [List.mem_map] at hp
  obtain ⟨b, _, rfl⟩ := hp
  simp

theorem symRun_append (B A : List UInt8) (d : Bytes) :
    (symRun B A d).1 ++ (symRun B A d).2 = d := by
  induction d with
  | nil => rfl
  | cons c cs ih =>
    unfold symRun
    split
    · rfl
    · simp [ih]

theorem symRun_fst_nil (B A : List UInt8) (c : UInt8) (cs : Bytes)
    (h : (symRun B A (c :: cs)).1 = []) : (B.contains c || A.contains c) = true := by
  unfold symRun at h
  split at h
  · assumption
  · simp at h

/-- a match consumes a non-empty prefix of a non-empty input -/
theorem symTok_spec (B A : List UInt8) (c : UInt8) (cs : Bytes) :
    (symTok B A (c :: cs)).1 ++ (symTok B A (c :: cs)).2 = c :: cs ∧
      (symTok B A (c :: cs)).1 ≠ [] := by
  unfold symTok symClose
  by_cases hB : B.contains c = true
  · simp only [hB, if_true]
    have hr := symRun_append B A cs
    cases h2 : (symRun B A cs).2 with
    | nil =>
      rw [h2] at hr
      simp only [List.append_nil] at hr
      simp [hr]
    | cons x xs =>
      rw [h2] at hr
      simp only
      split
      · simp [hr]
      · simp [hr]
  · simp only [hB, if_false, Bool.false_eq_true]
    have hr := symRun_append B A (c :: cs)
    cases h2 : (symRun B A (c :: cs)).2 with
    | nil =>
      rw [h2] at hr
      simp only [List.nil_append, List.append_nil] at hr ⊢
      refine ⟨hr, ?_⟩
      rw [hr]; simp
    | cons x xs =>
      rw [h2] at hr
      simp only [List.nil_append]
      split
      · refine ⟨by simp [hr], by simp⟩
      · rename_i hA
        refine ⟨by simp [hr], ?_⟩
        -- the run is non-empty: otherwise `c` itself is a delimiter, not in B, hence in A,
        -- and the `[A]` branch would have been taken
        intro h1
        have hd := symRun_fst_nil B A c cs h1
        rw [h1] at hr
        simp only [List.nil_append, List.cons.injEq] at hr
        obtain ⟨hxc, _⟩ := hr
        subst hxc
        simp only [Bool.or_eq_true] at hd
        rcases hd with h | h
        · exact hB h
        · exact hA h

theorem symSplit_spec (B A : List UInt8) (fuel : Nat) (d : Bytes) (h : d.length < fuel) :
    (symSplit B A fuel d).flatten = d ∧ ∀ x ∈ symSplit B A fuel d, x ≠ [] := by
  induction fuel generalizing d with
  | zero => omega
  | succ n ih =>
    cases d with
    | nil => simp [symSplit]
    | cons c cs =>
      obtain ⟨h1, h2⟩ := symTok_spec B A c cs
      have hlen : (symTok B A (c :: cs)).2.length < n := by
        have : ((symTok B A (c :: cs)).1 ++ (symTok B A (c :: cs)).2).length = (c :: cs).length := by
          rw [h1]
        simp only [List.length_append, List.length_cons] at this h
        have : 0 < (symTok B A (c :: cs)).1.length := List.length_pos_iff.mpr h2
        omega
      obtain ⟨ih1, ih2⟩ := ih _ hlen
      have hne : (symTok B A (c :: cs)).1.isEmpty = false := by
        cases h3 : (symTok B A (c :: cs)).1 with
        | nil => exact absurd h3 h2
        | cons _ _ => rfl
      simp only [symSplit, hne, Bool.false_eq_true, if_false, List.flatten_cons, ih1, h1,
        List.mem_cons, true_and]
      rintro x (rfl | hx)
      · exact h2
      · exact ih2 x hx

theorem splitSymbol_ok (B A : List UInt8) : SplitOK (splitSymbol B A) := by
  intro d s h
  simp only [splitSymbol, Except.ok.injEq] at h
  subst h
  obtain ⟨h1, h2⟩ := symSplit_spec B A (d.length + 1) d (by omega)
  exact ⟨by simp [h1], h2, by simp⟩

/-! ### char mode post-step -/

theorem charPost_ok (t : Testcase) (d : Bytes)
    (h : t.content = d ∧ (∀ p ∈ t.parts, p ≠ []) ∧ t.WF) :
    (charPost t).content = d ∧ (∀ p ∈ (charPost t).parts, p ≠ []) ∧ (charPost t).WF := by
  obtain ⟨h1, h2, h3⟩ := h
  unfold charPost
  split
  · rename_i hc
    simp only [Bool.and_eq_true, Bool.not_eq_true', List.isEmpty_eq_false_iff] at hc
    have hne : t.parts ≠ [] := hc.2
    refine ⟨?_, ?_, ?_⟩
    · simp only [Testcase.content]
      rw [← h1, Testcase.content]
      have := List.dropLast_concat_getLast hne
      conv => rhs; rw [← this]
      rw [List.getLast?_eq_some_getLast hne]
      simp [List.flatten_append]
    · intro p hp
      exact h2 p (List.dropLast_subset _ hp)
    · simp only [Testcase.WF, List.length_dropLast]
      unfold Testcase.WF at h3; omega
  · exact ⟨h1, h2, h3⟩

end Load
