/-
The shape of the reducible atoms of the attribute splitter (C16): every one is optional leading
whitespace, an attribute name, and nothing / `=` quoted value including its closing quote /
`=` unquoted value without whitespace or `>`.
-/
import LithiumProofs.SplitAttrs

namespace Attrs
open Strat (isWs)

/-- `[A-Za-z][A-Za-z0-9:-]*` -/
def IsName (n : Bytes) : Prop := ∃ c run, n = c :: run ∧ isAlpha c = true ∧ ∀ b ∈ run, isNameChar b = true

/-- one complete attribute -/
def IsAttr (p : Bytes) : Prop :=
  ∃ ws name val, p = ws ++ name ++ val ∧ (∀ b ∈ ws, isWs b = true) ∧ IsName name ∧
    (val = [] ∨
     (∃ q body, (q = 0x27 ∨ q = 0x22) ∧ val = 0x3D :: q :: (body ++ [q]) ∧ ∀ b ∈ body, (b == q) = false) ∨
     (∃ body, val = 0x3D :: body ∧ (∀ b ∈ body, (isWs b || b == 0x3E) = false) ∧
       ∀ c rest, body = c :: rest → (c == 0x27 || c == 0x22) = false))

theorem takeWhile_all {α} (p : α → Bool) (l : List α) : ∀ b ∈ l.takeWhile p, p b = true := by
  induction l with
  | nil => intro b hb; simp at hb
  | cons a t ih =>
    intro b hb
    simp only [List.takeWhile_cons] at hb
    split at hb
    · rename_i ha
      simp only [List.mem_cons] at hb
      rcases hb with rfl | hb
      · exact ha
      · exact ih b hb
    · simp at hb

theorem take_length_takeWhile {α} (p : α → Bool) (l : List α) : l.take (l.takeWhile p).length = l.takeWhile p := by
  induction l with
  | nil => rfl
  | cons a t ih =>
    simp only [List.takeWhile_cons]
    split
    · simp [ih]
    · simp

theorem take_takeWhile_succ {α} (p : α → Bool) (l : List α) (t : α) (more : List α)
    (h : l.drop (l.takeWhile p).length = t :: more) :
    l.take ((l.takeWhile p).length + 1) = l.takeWhile p ++ [t] := by
  rw [List.take_add, take_length_takeWhile, h]
  rfl

/-- what `nameTerm` matches: a name followed by one terminator byte -/
theorem nameTerm_shape (d : Bytes) (k : Nat) (h : nameTerm d = some k) :
    ∃ name t, d.take k = name ++ [t] ∧ IsName name ∧ isTerm t = true ∧ k = name.length + 1 := by
  unfold nameTerm at h
  split at h
  · rename_i c rest
    split at h
    · rename_i hc
      simp only at h
      split at h
      · rename_i t more hdrop
        split at h
        · rename_i ht
          injection h with h
          subst h
          refine ⟨c :: rest.takeWhile isNameChar, t, ?_, ⟨c, _, rfl, hc, takeWhile_all _ _⟩, ht, by simp⟩
          have : (c :: rest).take ((rest.takeWhile isNameChar).length + 2)
              = c :: (rest.take ((rest.takeWhile isNameChar).length + 1)) := by simp
          rw [this, take_takeWhile_succ _ _ _ _ hdrop]
          rfl
        · exact absurd h (by simp)
      · exact absurd h (by simp)
    · exact absurd h (by simp)
  · exact absurd h (by simp)

theorem attrA1_shape (d : Bytes) (ls : Bool) (k : Nat) (h : attrA1 d ls = some k) :
    ∃ ws name t, d.take k = ws ++ name ++ [t] ∧ (∀ b ∈ ws, isWs b = true) ∧ IsName name ∧ isTerm t = true ∧
      k = ws.length + name.length + 1 := by
  unfold attrA1 at h
  simp only at h
  split at h
  · simp only [Option.map_eq_some_iff] at h
    obtain ⟨k', hk', rfl⟩ := h
    obtain ⟨name, t, h1, h2, h3, h4⟩ := nameTerm_shape _ _ hk'
    refine ⟨d.takeWhile isWs, name, t, ?_, takeWhile_all _ _, h2, h3, by omega⟩
    have : d.take (k' + (d.takeWhile isWs).length)
        = d.take (d.takeWhile isWs).length ++ (d.drop (d.takeWhile isWs).length).take k' := by
      rw [Nat.add_comm, List.take_add]
    rw [this, take_length_takeWhile, h1, List.append_assoc]
  · split at h
    · obtain ⟨name, t, h1, h2, h3, h4⟩ := nameTerm_shape _ _ h
      exact ⟨[], name, t, by simpa using h1, by intro b hb; simp at hb, h2, h3, by simp; omega⟩
    · exact absurd h (by simp)

theorem attrA2_shape (d : Bytes) (k : Nat) (h : attrA2 d = some k) :
    ∃ ws, d.take k = ws ++ [0x3E] ∧ ∀ b ∈ ws, isWs b = true := by
  unfold attrA2 at h
  simp only at h
  split at h
  · rename_i more hdrop
    injection h with h
    subst h
    exact ⟨d.takeWhile isWs, take_takeWhile_succ _ _ _ _ hdrop, takeWhile_all _ _⟩
  · exact absurd h (by simp)

theorem dropWhile_all {α} (p : α → Bool) (l : List α) (r : List α) (h : ∀ b ∈ l, p b = true) :
    (l ++ r).dropWhile p = r.dropWhile p := by
  induction l with
  | nil => rfl
  | cons a t ih =>
    have ha := h a (by simp)
    simp only [List.cons_append, List.dropWhile_cons, ha, if_true]
    exact ih (fun b hb => h b (by simp [hb]))

theorem stripIsGt_ws_gt (ws : Bytes) (h : ∀ b ∈ ws, isWs b = true) : stripIsGt (ws ++ [0x3E]) = true := by
  unfold stripIsGt
  simp only
  rw [dropWhile_all _ _ _ h]
  decide

/-- a match that contains a name is not "just `>`" -/
theorem stripIsGt_name (ws name : Bytes) (t : UInt8) (hws : ∀ b ∈ ws, isWs b = true) (hn : IsName name) :
    stripIsGt (ws ++ name ++ [t]) = false := by
  obtain ⟨c, run, rfl, hc, -⟩ := hn
  unfold stripIsGt
  simp only
  rw [List.append_assoc, dropWhile_all _ _ _ hws]
  have hcw : isWs c = false := by
    unfold isAlpha at hc
    unfold Strat.isWs
    simp only [Bool.or_eq_true, Bool.and_eq_true, decide_eq_true_eq] at hc
    simp only [Bool.or_eq_false_iff, beq_eq_false_iff_ne, ne_eq]
    rcases hc with h | h <;> refine ⟨⟨⟨⟨⟨?_, ?_⟩, ?_⟩, ?_⟩, ?_⟩, ?_⟩ <;> intro he <;> rw [he] at h <;> exact absurd h (by decide)
  simp only [List.cons_append, List.dropWhile_cons, hcw, Bool.false_eq_true, if_false]
  -- the stripped text starts with `c` and has at least two bytes, or is `[c]`: never `[>]`
  generalize hrev : ((c :: (run ++ [t])).reverse.dropWhile isWs).reverse = s
  cases hs : s with
  | nil => rfl
  | cons a rest =>
    -- `s` is a prefix of `c :: run ++ [t]` obtained by dropping trailing whitespace, so it starts with `c`
    have hpre : s <+: c :: (run ++ [t]) := by
      rw [← hrev]
      have := List.dropWhile_suffix isWs (l := (c :: (run ++ [t])).reverse)
      have h2 := List.reverse_prefix.mpr this
      simpa using h2
    rw [hs] at hpre
    obtain ⟨u, hu⟩ := hpre
    simp only [List.cons_append, List.cons.injEq] at hu
    have hac : a = c := hu.1
    subst hac
    cases hb : ((a :: rest) == [0x3E]) with
    | false => rfl
    | true =>
      have he := beq_iff_eq.mp hb
      simp only [List.cons.injEq] at he
      rw [he.1] at hc
      exact absurd hc (by decide)

/-- reducible parts are attributes -/
def Shape (s : St) : Prop := ∀ x ∈ s.parts.zip s.red, x.2 = true → IsAttr x.1

theorem shape_flag (s : St) (b : Bool) (h : Shape s) : Shape { s with inTag := b } := h

theorem shape_push (s : St) (p rest : Bytes) (r : Bool) (hl : s.parts.length = s.red.length) (h : Shape s)
    (hp : r = true → IsAttr p) : Shape (push s p r rest) := by
  intro x hx hr
  simp only [push] at hx
  rw [List.zip_append hl] at hx
  rcases List.mem_append.mp hx with h1 | h1
  · exact h x h1 hr
  · simp only [List.zip_cons_cons, List.zip_nil_right, List.mem_singleton] at h1
    subst h1
    exact hp hr

theorem findIdx_split {p : UInt8 → Bool} (l : Bytes) (i : Nat) (h : l.findIdx? p = some i) :
    ∃ hlt : i < l.length, p l[i] = true ∧ (∀ b ∈ l.take i, p b = false) ∧ l.take (i + 1) = l.take i ++ [l[i]] := by
  obtain ⟨hlt, hp, hbefore⟩ := List.findIdx?_eq_some_iff_getElem.mp h
  refine ⟨hlt, hp, ?_, List.take_succ_eq_append_getElem hlt⟩
  intro b hb
  obtain ⟨j, hj, rfl⟩ := List.mem_iff_getElem.mp hb
  rw [List.length_take] at hj
  rw [List.getElem_take]
  have := hbefore j (by omega)
  simpa using this

theorem step_shape (s s' : St) (hl : s.parts.length = s.red.length) (h : Shape s) (hs : step s = some s') :
    Shape s' := by
  unfold step at hs
  simp only at hs
  split at hs
  · cases hm : attrMatch s.data with
    | none =>
      rw [hm] at hs
      simp only at hs
      cases hsr : attrSearch s.data none 0 with
      | none =>
        rw [hsr] at hs
        injection hs with hs; subst hs; exact h
      | some r =>
        obtain ⟨start, len, b⟩ := r
        rw [hsr] at hs
        simp only at hs
        split at hs
        · injection hs with hs; subst hs
          exact shape_push s _ _ false hl h (fun hr => absurd hr (by simp))
        · injection hs with hs; subst hs
          exact shape_push { s with inTag := false } _ _ false hl h (fun hr => absurd hr (by simp))
    | some r =>
      obtain ⟨len, b⟩ := r
      rw [hm] at hs
      simp only at hs
      -- the matched text
      have hmatch : (b = true ∧ ∃ ws name t, s.data.take len = ws ++ name ++ [t] ∧ (∀ x ∈ ws, isWs x = true) ∧
            IsName name ∧ isTerm t = true ∧ len = ws.length + name.length + 1) ∨
          (b = false ∧ stripIsGt (s.data.take len) = true) := by
        unfold attrMatch at hm
        cases h1 : attrA1 s.data true with
        | some k =>
          rw [h1] at hm
          simp only [Option.some.injEq, Prod.mk.injEq] at hm
          obtain ⟨rfl, rfl⟩ := hm
          exact Or.inl ⟨rfl, attrA1_shape _ _ _ h1⟩
        | none =>
          rw [h1] at hm
          simp only [Option.map_eq_some_iff, Prod.mk.injEq] at hm
          obtain ⟨k, hk, rfl, rfl⟩ := hm
          obtain ⟨ws, e, hws⟩ := attrA2_shape _ _ hk
          exact Or.inr ⟨rfl, by rw [e]; exact stripIsGt_ws_gt ws hws⟩
      split at hs
      · injection hs with hs; subst hs
        exact shape_push { s with inTag := false } _ _ false hl h (fun hr => absurd hr (by simp))
      · rename_i hng
        rcases hmatch with ⟨-, ws, name, t, hg, hws, hname, hterm, hlen⟩ | ⟨-, hgt⟩
        · split at hs
          · -- value-less attribute: the part is the match without its terminator
            injection hs with hs; subst hs
            apply shape_push s _ _ true hl h
            intro _
            refine ⟨ws, name, [], ?_, hws, hname, Or.inl rfl⟩
            have : s.data.take (len - 1) = (s.data.take len).take (len - 1) := by
              rw [List.take_take]; congr 1; omega
            have hl1 : (ws ++ name).length = len - 1 := by rw [List.length_append, hlen]; omega
            rw [this, hg, List.append_nil]
            exact List.take_left' hl1
          · rename_i heq
            -- the terminator is `=`
            have ht : t = 0x3D := by
              have : (s.data.take len).getLast? = some t := by rw [hg]; simp
              rw [this] at heq
              simpa using heq
            subst ht
            split at hs
            · rename_i q rest' hrest
              split at hs
              · rename_i hq
                split at hs
                · injection hs with hs; subst hs; exact h
                · rename_i i hi
                  injection hs with hs; subst hs
                  apply shape_push s _ _ true hl h
                  intro _
                  obtain ⟨hlt, hp, hbefore, htake⟩ := findIdx_split rest' i hi
                  have hqi : rest'[i] = q := by simpa using hp
                  refine ⟨ws, name, 0x3D :: q :: (rest'.take i ++ [q]), ?_, hws, hname, Or.inr (Or.inl ⟨q, rest'.take i, ?_, rfl, hbefore⟩)⟩
                  · rw [hg, htake, hqi]; simp
                  · simpa using hq
              · rename_i hq
                split at hs
                · injection hs with hs; subst hs; exact h
                · rename_i i hi
                  injection hs with hs; subst hs
                  apply shape_push s _ _ true hl h
                  intro _
                  rw [hrest] at hi
                  obtain ⟨hlt, hp, hbefore, -⟩ := findIdx_split (q :: rest') i hi
                  refine ⟨ws, name, 0x3D :: (q :: rest').take i, ?_, hws, hname, Or.inr (Or.inr ⟨(q :: rest').take i, rfl, hbefore, ?_⟩)⟩
                  · rw [hg, hrest]; simp
                  · intro c rest hc
                    cases i with
                    | zero => simp at hc
                    | succ i =>
                      simp only [List.take_succ_cons, List.cons.injEq] at hc
                      rw [← hc.1]
                      simpa using hq
            · injection hs with hs; subst hs; exact h
        · exact absurd hgt hng
  · split at hs
    · exact absurd hs (by simp)
    · injection hs with hs; subst hs
      exact shape_push { s with inTag := true } _ _ false hl h (fun hr => absurd hr (by simp))

theorem loop_shape (orig : Bytes) (fuel : Nat) (s : St) (hi : Inv orig s) (h : Shape s) : Shape (loop fuel s) := by
  induction fuel generalizing s with
  | zero => exact h
  | succ f ih =>
    unfold loop
    split
    · exact h
    · rename_i hne
      have hd : s.data ≠ [] := by
        intro he; rw [he] at hne; simp at hne
      cases hs : step s with
      | none => exact h
      | some s' => exact ih s' (step_inv orig s s' hi hd hs) (step_shape s s' hi.len h hs)

/-- every reducible atom of the attribute splitter is one complete attribute -/
theorem splitAttrs_shape (d : Bytes) (sp : Load.Split) (hsp : splitAttrs d = .ok sp) :
    ∀ x ∈ sp.parts.zip sp.reducible, x.2 = true → IsAttr x.1 := by
  unfold splitAttrs at hsp
  simp only at hsp
  have hinv := loop_inv d (2 * d.length + 2) { data := d, inTag := false, parts := [], red := [] }
    ⟨by simp, by simp, by simp⟩
  have hsh := loop_shape d (2 * d.length + 2) { data := d, inTag := false, parts := [], red := [] }
    ⟨by simp, by simp, by simp⟩ (by intro x hx; simp at hx)
  split at hsp
  · injection hsp with hsp; subst hsp
    exact hsh
  · injection hsp with hsp; subst hsp
    intro x hx hr
    simp only at hx
    rw [List.zip_append hinv.len] at hx
    rcases List.mem_append.mp hx with h1 | h1
    · exact hsh x h1 hr
    · simp only [List.zip_cons_cons, List.zip_nil_right, List.mem_singleton] at h1
      subst h1
      exact absurd hr (by simp)

end Attrs
