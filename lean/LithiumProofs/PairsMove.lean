/-
minimize-balanced WITH the experimental move (model `PairsMove`): the protected prefix and suffix
(C05) and the time limit (C14).
-/
import LithiumModel.PairsMove
import LithiumProofs.Frame
import LithiumProofs.PairsTime

namespace Strat
open Testcase

/-- what `act` proposes in either mode is built on the current best and keeps `before`/`after` -/
theorem balMAct_frame (orig : Testcase) (cs nc : Nat) (st : BalMSt) (it : It) (c : Testcase) (mk : Resp → Att)
    (hb : it.best.before = orig.before ∧ it.best.after = orig.after)
    (hg : (balMDef cs nc).guard st it = true) (ha : (balMDef cs nc).act st it = .propose c mk) :
    (c.before = orig.before ∧ c.after = orig.after) ∧ ∀ r, (mk r).cand = c ∧ (mk r).base = it.best ∧ (mk r).tIdx = it.nTests := by
  simp only [balMDef, balMAct] at ha hg
  cases hm : st.mode with
  | none =>
    rw [hm] at ha hg
    simp only at ha hg
    have hg' : st.plain.chunkStart < it.best.len := by simpa [BalMSt.plain] using hg
    simp only [balAct] at ha
    split at ha
    · exact absurd ha (by simp)
    · split at ha
      · simp only [PAct.propose.injEq] at ha
        obtain ⟨rfl, rfl⟩ := ha
        exact ⟨(balCand_T _ (frame_closed orig) cs st.plain it 0 hb hg').1, fun _ => ⟨rfl, rfl, rfl⟩⟩
      · split at ha
        · exact absurd ha (by simp)
        · simp only [PAct.propose.injEq] at ha
          obtain ⟨rfl, rfl⟩ := ha
          exact ⟨(balCand_T _ (frame_closed orig) cs st.plain it _ hb hg').2, fun _ => ⟨rfl, rfl, rfl⟩⟩
  | some m =>
    rw [hm] at ha
    simp only at ha
    split at ha
    · exact absurd ha (by simp)
    · split at ha
      · exact absurd ha (by simp)
      · split at ha
        · exact absurd ha (by simp)
        · simp only [PAct.propose.injEq] at ha
          obtain ⟨rfl, rfl⟩ := ha
          refine ⟨?_, fun _ => ⟨rfl, rfl, rfl⟩⟩
          unfold moveCand
          cases m.phase <;> exact hb

theorem balMPass_frame (orig : Testcase) (o : Oracle) (clk : Clock) (stopAt : Option Nat) (cs : Nat) (it : It)
    (h : AllT (fun t => t.before = orig.before ∧ t.after = orig.after) it) :
    AllT (fun t => t.before = orig.before ∧ t.after = orig.after) (balMPass o clk stopAt cs it).1 := by
  unfold balMPass
  simp only
  split
  · exact h
  · apply pLoop_allT _ _ o clk stopAt _ _ _ _ _ h
    intro st it c mk hb hg ha
    obtain ⟨h1, h2⟩ := balMAct_frame orig cs _ st it c mk hb hg ha
    exact ⟨h1, fun r => ⟨(h2 r).1, (h2 r).2.1⟩⟩

theorem balMPass_onTime (o : Oracle) (clk : Clock) (stopAt : Option Nat) (cs : Nat) (it : It)
    (h : OnTime stopAt clk it) : OnTime stopAt clk (balMPass o clk stopAt cs it).1 := by
  unfold balMPass
  simp only
  split
  · exact h
  · apply pLoop_onTime _ o clk stopAt _ _ _ _ _ h
    intro st it c mk ha r
    simp only [balMDef, balMAct] at ha
    cases hm : st.mode with
    | none =>
      rw [hm] at ha
      simp only [balAct] at ha
      split at ha
      · exact absurd ha (by simp)
      · split at ha
        · simp only [PAct.propose.injEq] at ha
          obtain ⟨-, rfl⟩ := ha
          rfl
        · split at ha
          · exact absurd ha (by simp)
          · simp only [PAct.propose.injEq] at ha
            obtain ⟨-, rfl⟩ := ha
            rfl
    | some m =>
      rw [hm] at ha
      simp only at ha
      split at ha
      · exact absurd ha (by simp)
      · split at ha
        · exact absurd ha (by simp)
        · split at ha
          · exact absurd ha (by simp)
          · simp only [PAct.propose.injEq] at ha
            obtain ⟨-, rfl⟩ := ha
            rfl

theorem balancedMove_frame (cfg : Cfg) (o : Oracle) (clk : Clock) (t : Testcase) :
    Frame t (balancedMove cfg o clk t) := by
  unfold balancedMove
  exact frame_of_allT t _ (pairsOuter_allT _ cfg clk _ _ _ (fun cs it h => balMPass_frame t o clk _ cs it h) _ _ _
    ⟨⟨rfl, rfl⟩, by intro a ha; simp at ha⟩)

theorem balancedMove_onTime (cfg : Cfg) (o : Oracle) (clk : Clock) (t : Testcase) :
    OnTime (stopAt cfg clk) clk (balancedMove cfg o clk t) := by
  unfold balancedMove
  exact pairsOuter_onTime cfg clk _ _ _ (fun cs it h => balMPass_onTime o clk _ cs it h) _ _ _
    (by intro a ha; simp at ha)

end Strat
