/-
Invariants of the driver model (C01, C02, C11, C12).
-/
import LithiumModel.World

namespace World

/-- the bytes the testcase file held during the most recent accepting test (`dflt` if none) -/
def lastAccepted (tests : List TestRec) (dflt : Bytes) : Bytes :=
  tests.foldl (fun acc r => if r.out = .accept then r.disk else acc) dflt

theorem lastAccepted_snoc (ts : List TestRec) (r : TestRec) (d : Bytes) :
    lastAccepted (ts ++ [r]) d = if r.out = .accept then r.disk else lastAccepted ts d := by
  simp [lastAccepted, List.foldl_append]

@[simp] theorem lastAccepted_nil (d : Bytes) : lastAccepted [] d = d := rfl

/-- the tagged copy written after a test that did not raise -/
def tagOf (r : TestRec) : TmpName × Bytes := (.numbered r.idx (r.out == .accept), r.disk)

/-! ### what one call of `Lithium.interesting` does -/

theorem interesting_fields (w : W) (c : Testcase) (wr : Bool) (out : Outcome) :
    let d := if wr then c.content else w.disk
    let w' := (interesting w c wr out).1
    w'.tests = w.tests ++ [{ idx := w.tmpCounter, disk := d, tmp := w.tmp, out := out }] ∧
    w'.trace = w.trace ++ [Hook.test w.tmpCounter] ∧
    w'.testCount = w.testCount + 1 ∧ w'.disk = d ∧ w'.best = w.best ∧ w'.tried = w.tried ∧
    w'.anySuccess = w.anySuccess ∧ w'.exit = w.exit ∧
    w'.diskWrites = (if wr then w.diskWrites + 1 else w.diskWrites) := by
  cases out <;> cases wr <;> simp [interesting]

theorem interesting_raise (w : W) (c : Testcase) (wr : Bool) :
    (interesting w c wr .raise).2 = none ∧
    (interesting w c wr .raise).1.tmp = w.tmp ∧
    (interesting w c wr .raise).1.tmpCounter = w.tmpCounter ∧
    (interesting w c wr .raise).1.lastInteresting = w.lastInteresting ∧
    (interesting w c wr .raise).1.testcase = w.testcase := by
  cases wr <;> simp [interesting]

theorem interesting_accept (w : W) (c : Testcase) (wr : Bool) :
    (interesting w c wr .accept).2 = some true ∧
    (interesting w c wr .accept).1.tmp = w.tmp ++ [(.numbered w.tmpCounter true, c.content)] ∧
    (interesting w c wr .accept).1.tmpCounter = w.tmpCounter + 1 ∧
    (interesting w c wr .accept).1.lastInteresting = some c ∧
    (interesting w c wr .accept).1.testcase = c := by
  cases wr <;> simp [interesting]

theorem interesting_reject (w : W) (c : Testcase) (wr : Bool) :
    (interesting w c wr .reject).2 = some false ∧
    (interesting w c wr .reject).1.tmp = w.tmp ++ [(.numbered w.tmpCounter false, c.content)] ∧
    (interesting w c wr .reject).1.tmpCounter = w.tmpCounter + 1 ∧
    (interesting w c wr .reject).1.lastInteresting = w.lastInteresting ∧
    (interesting w c wr .reject).1.testcase = w.testcase := by
  cases wr <;> simp [interesting]

/-! ### the reduction loop, one event at a time -/

/-- the four shapes a step can take -/
inductive StepShape (w : W) : Ev → W → Prop where
  | write (b : Bytes) : StepShape w (.write b) { w with disk := b, diskWrites := w.diskWrites + 1 }
  | err : StepShape w .strategyError { w with exit := .raised }
  | skip (c : Testcase) (out : Outcome) (h : w.tried.contains c.content = true) :
      StepShape w (.propose c out) w
  | raise (c : Testcase) (h : w.tried.contains c.content = false) :
      StepShape w (.propose c .raise)
        { (interesting { w with tried := c.content :: w.tried } c true .raise).1 with exit := .raised }
  | accept (c : Testcase) (h : w.tried.contains c.content = false) :
      StepShape w (.propose c .accept)
        { (interesting { w with tried := c.content :: w.tried } c true .accept).1 with
            best := c, anySuccess := true }
  | reject (c : Testcase) (h : w.tried.contains c.content = false) :
      StepShape w (.propose c .reject)
        (interesting { w with tried := c.content :: w.tried } c true .reject).1

theorem stepEv_shape (w : W) (e : Ev) : StepShape w e (stepEv w e) := by
  cases e with
  | write b => exact .write b
  | strategyError => exact .err
  | propose c out =>
    by_cases h : w.tried.contains c.content = true
    · have : stepEv w (.propose c out) = w := by simp only [stepEv, h, if_true]
      rw [this]; exact .skip c out h
    · have h' : w.tried.contains c.content = false := by simpa using h
      cases out with
      | raise =>
        have : stepEv w (.propose c .raise) =
            { (interesting { w with tried := c.content :: w.tried } c true .raise).1 with exit := .raised } := by
          simp only [stepEv, h', Bool.false_eq_true, if_false]
          rw [show (interesting { w with tried := c.content :: w.tried } c true .raise)
            = ((interesting { w with tried := c.content :: w.tried } c true .raise).1, none) from by
              simp [interesting]]
        rw [this]; exact .raise c h'
      | accept =>
        have : stepEv w (.propose c .accept) =
            { (interesting { w with tried := c.content :: w.tried } c true .accept).1 with
                best := c, anySuccess := true } := by
          simp only [stepEv, h', Bool.false_eq_true, if_false]
          rw [show (interesting { w with tried := c.content :: w.tried } c true .accept)
            = ((interesting { w with tried := c.content :: w.tried } c true .accept).1, some true) from by
              simp [interesting]]
        rw [this]; exact .accept c h'
      | reject =>
        have : stepEv w (.propose c .reject) =
            (interesting { w with tried := c.content :: w.tried } c true .reject).1 := by
          simp only [stepEv, h', Bool.false_eq_true, if_false]
          rw [show (interesting { w with tried := c.content :: w.tried } c true .reject)
            = ((interesting { w with tried := c.content :: w.tried } c true .reject).1, some false) from by
              simp [interesting]]
        rw [this]; exact .reject c h'

/-- an invariant of single steps is an invariant of the loop -/
theorem loop_induction (P : W → Prop) (hstep : ∀ w e, P w → w.exit = .running → P (stepEv w e))
    (w : W) (evs : List Ev) (h : P w) : P (loop w evs) := by
  induction evs generalizing w with
  | nil => exact h
  | cons e es ih =>
    unfold loop
    cases hx : w.exit with
    | running => exact ih _ (hstep w e h hx)
    | returned s => exact h
    | raised => exact h

/-! ### invariant 1: best = lastInteresting = Lithium.testcase = the last accepted version -/

structure Core (d0 : Bytes) (w : W) : Prop where
  best : w.best.content = lastAccepted w.tests d0
  li : w.lastInteresting = some w.best
  tc : w.testcase = w.best

theorem core_step (d0 : Bytes) (w w' : W) (e : Ev) (h : Core d0 w) (s : StepShape w e w') :
    Core d0 w' := by
  cases s with
  | write b => exact ⟨h.best, h.li, h.tc⟩
  | err => exact ⟨h.best, h.li, h.tc⟩
  | skip c out _ => exact h
  | raise c hc =>
    obtain ⟨ht, -, -, -, hb, -, -, -, -⟩ := interesting_fields { w with tried := c.content :: w.tried } c true .raise
    obtain ⟨-, -, -, hli, htc⟩ := interesting_raise { w with tried := c.content :: w.tried } c true
    refine ⟨?_, ?_, ?_⟩
    · simp only [ht, hb, lastAccepted_snoc]; simpa using h.best
    · simp only [hli, hb]; exact h.li
    · simp only [htc, hb]; exact h.tc
  | accept c hc =>
    obtain ⟨ht, -, -, -, -, -, -, -, -⟩ := interesting_fields { w with tried := c.content :: w.tried } c true .accept
    obtain ⟨-, -, -, hli, htc⟩ := interesting_accept { w with tried := c.content :: w.tried } c true
    refine ⟨?_, ?_, ?_⟩
    · simp only [ht, lastAccepted_snoc]; simp
    · simp only [hli]
    · simp only [htc]
  | reject c hc =>
    obtain ⟨ht, -, -, -, hb, -, -, -, -⟩ := interesting_fields { w with tried := c.content :: w.tried } c true .reject
    obtain ⟨-, -, -, hli, htc⟩ := interesting_reject { w with tried := c.content :: w.tried } c true
    refine ⟨?_, ?_, ?_⟩
    · simp only [ht, hb, lastAccepted_snoc]; simpa using h.best
    · simp only [hli, hb]; exact h.li
    · simp only [htc, hb]; exact h.tc

theorem core_loop (d0 : Bytes) (w : W) (evs : List Ev) (h : Core d0 w) : Core d0 (loop w evs) :=
  loop_induction (Core d0) (fun w e hw _ => core_step d0 w _ e hw (stepEv_shape w e)) w evs h

/-- the state a `Lithium` object is in between two `run()` calls -/
structure Rest (d0 : Bytes) (w : W) : Prop where
  disk : w.disk = lastAccepted w.tests d0
  tc : w.testcase.content = w.disk
  li : ∀ t, w.lastInteresting = some t → t.content = w.disk

theorem finish_fields (w : W) :
    (finish w).tests = w.tests ∧ (finish w).testcase = w.testcase ∧
    (finish w).lastInteresting = w.lastInteresting ∧ (finish w).exit = w.exit ∧
    (finish w).trace = w.trace ++ [Hook.cleanup] ∧ (finish w).tmp = w.tmp ∧
    (finish w).testCount = w.testCount ∧
    (finish w).disk = (match w.lastInteresting with | some t => t.content | none => w.disk) := by
  unfold finish
  cases hli : w.lastInteresting with
  | none => simp
  | some t =>
    simp only
    by_cases hd : w.disk = t.content
    · simp [hd]
    · simp [hd]

/-- after `finally`, whatever happened in the loop, the file holds the last accepted version -/
theorem finish_core (d0 : Bytes) (w : W) (h : Core d0 w) : Rest d0 (finish w) := by
  obtain ⟨ht, htc, hli, -, -, -, -, hd⟩ := finish_fields w
  rw [h.li] at hd
  refine ⟨?_, ?_, ?_⟩
  · rw [hd, ht]; exact h.best
  · rw [htc, hd, h.tc]
  · intro t hlt
    rw [hli, h.li] at hlt
    injection hlt with hlt
    rw [hd, ← hlt]

/-- `finally` when nothing was accepted in this run and the file was not touched -/
theorem finish_rest (d0 : Bytes) (w : W) (h : Rest d0 w) : Rest d0 (finish w) := by
  obtain ⟨ht, htc, hli, -, -, -, -, hd⟩ := finish_fields w
  have hdisk : (finish w).disk = w.disk := by
    rw [hd]
    cases hl : w.lastInteresting with
    | none => rfl
    | some t => exact h.li t hl
  refine ⟨?_, ?_, ?_⟩
  · rw [hdisk, ht]; exact h.disk
  · rw [htc, hdisk]; exact h.tc
  · intro t hlt
    rw [hli] at hlt
    rw [hdisk]; exact h.li t hlt

theorem rest_fresh (orig : Testcase) (d0 : Bytes) (h : orig.content = d0) : Rest d0 (fresh orig d0) :=
  ⟨rfl, h, by intro t ht; simp [fresh] at ht⟩

/-- the initial test of a run (`write_it = False`) on a resting object whose iterator has just
been reset: either nothing changes for `Rest`, or the original was accepted and `Core` holds -/
theorem initial_test (d0 : Bytes) (w : W) (first : Outcome) (h : Rest d0 w) (hb : w.best = w.testcase) :
    (first ≠ .accept → Rest d0 (interesting w w.testcase false first).1) ∧
    (first = .accept → Core d0 (interesting w w.testcase false first).1) := by
  obtain ⟨ht, -, -, hd, hbest, -, -, -, -⟩ := interesting_fields w w.testcase false first
  simp only [Bool.false_eq_true, if_false] at ht hd
  constructor
  · intro hne
    cases first with
    | accept => exact absurd rfl hne
    | raise =>
      obtain ⟨-, -, -, hli, htc⟩ := interesting_raise w w.testcase false
      refine ⟨?_, ?_, ?_⟩
      · rw [hd, ht, lastAccepted_snoc]; simpa using h.disk
      · rw [htc, hd]; exact h.tc
      · intro t hlt; rw [hli] at hlt; rw [hd]; exact h.li t hlt
    | reject =>
      obtain ⟨-, -, -, hli, htc⟩ := interesting_reject w w.testcase false
      refine ⟨?_, ?_, ?_⟩
      · rw [hd, ht, lastAccepted_snoc]; simpa using h.disk
      · rw [htc, hd]; exact h.tc
      · intro t hlt; rw [hli] at hlt; rw [hd]; exact h.li t hlt
  · intro hacc
    subst hacc
    obtain ⟨-, -, -, hli, htc⟩ := interesting_accept w w.testcase false
    refine ⟨?_, ?_, ?_⟩
    · rw [hbest, hb, ht, lastAccepted_snoc]; simpa using h.tc
    · rw [hli, hbest, hb]
    · rw [htc, hbest, hb]

theorem rest_beginRun (d0 : Bytes) (w0 : W) (h : Rest d0 w0) :
    Rest d0 (beginRun w0) ∧ (beginRun w0).best = (beginRun w0).testcase :=
  ⟨⟨h.disk, h.tc, by intro t ht; simp [beginRun] at ht⟩, rfl⟩

theorem rest_dumpOriginal (d0 : Bytes) (w : W) (h : Rest d0 w) (hb : w.best = w.testcase) :
    Rest d0 (dumpOriginal w) ∧ (dumpOriginal w).best = (dumpOriginal w).testcase :=
  ⟨⟨h.disk, h.tc, h.li⟩, hb⟩

theorem afterLoop_core (d0 : Bytes) (w : W) (h : Core d0 w) : Rest d0 (afterLoop w) := by
  unfold afterLoop
  split
  · exact finish_core d0 _ ⟨h.best, h.li, h.tc⟩
  · exact finish_core d0 _ h

theorem rest_runMainW (d0 : Bytes) (w0 : W) (evs : List Ev) (first : Outcome) (h : Rest d0 w0) :
    Rest d0 (runMainW w0 evs first) := by
  unfold runMainW
  obtain ⟨hr0, hb0⟩ := rest_beginRun d0 w0 h
  obtain ⟨hr, hb⟩ := rest_dumpOriginal d0 _ hr0 hb0
  generalize dumpOriginal (beginRun w0) = w at hr hb
  simp only
  split
  · exact finish_rest d0 _ ⟨hr.disk, hr.tc, hr.li⟩
  · obtain ⟨h1, h2⟩ := initial_test d0 w first hr hb
    cases first with
    | raise =>
      have := h1 (by simp)
      rw [show interesting w w.testcase false .raise = ((interesting w w.testcase false .raise).1, none) from by
        simp [interesting]]
      exact finish_rest d0 _ ⟨this.disk, this.tc, this.li⟩
    | reject =>
      have := h1 (by simp)
      rw [show interesting w w.testcase false .reject = ((interesting w w.testcase false .reject).1, some false) from by
        simp [interesting]]
      exact finish_rest d0 _ ⟨this.disk, this.tc, this.li⟩
    | accept =>
      have hc := h2 rfl
      rw [show interesting w w.testcase false .accept = ((interesting w w.testcase false .accept).1, some true) from by
        simp [interesting]]
      exact afterLoop_core d0 _ (core_loop d0 _ evs hc)

theorem rest_runCheckOnlyW (d0 : Bytes) (w0 : W) (first : Outcome) (h : Rest d0 w0) :
    Rest d0 (runCheckOnlyW w0 first) := by
  unfold runCheckOnlyW
  obtain ⟨hr, hb⟩ := rest_beginRun d0 w0 h
  generalize beginRun w0 = w at hr hb
  simp only
  obtain ⟨h1, h2⟩ := initial_test d0 w first hr hb
  cases first with
  | raise =>
    have := h1 (by simp)
    rw [show interesting w w.testcase false .raise = ((interesting w w.testcase false .raise).1, none) from by
      simp [interesting]]
    exact finish_rest d0 _ ⟨this.disk, this.tc, this.li⟩
  | reject =>
    have := h1 (by simp)
    rw [show interesting w w.testcase false .reject = ((interesting w w.testcase false .reject).1, some false) from by
      simp [interesting]]
    exact finish_rest d0 _ ⟨this.disk, this.tc, this.li⟩
  | accept =>
    have hc := h2 rfl
    rw [show interesting w w.testcase false .accept = ((interesting w w.testcase false .accept).1, some true) from by
      simp [interesting]]
    exact finish_core d0 _ ⟨hc.best, hc.li, hc.tc⟩

/-! ### invariant 2: bookkeeping of one run on a fresh object (C02 hooks, C11 status, C12 log) -/

structure Log (oc : Bytes) (w : W) : Prop where
  ne : w.tests ≠ []
  trace : w.trace = Hook.init :: w.tests.map (fun r => Hook.test r.idx)
  idx : ∀ k (h : k < w.tests.length), w.tests[k].idx = k + 1
  ctr : w.exit = .running → w.tmpCounter = w.tests.length + 1
  tmp : w.tmp = (.original, oc) :: (w.tests.filter (fun r => r.out != .raise)).map tagOf
  count : w.testCount = w.tests.length
  succ : w.anySuccess = w.tests.tail.any (fun r => r.out == .accept)
  tried : w.tried = (w.tests.tail.map (·.disk)).reverse
  nodup : (w.tests.tail.map (·.disk)).Nodup

/-- the part of the step that is common to the three testing shapes -/
theorem log_test (oc : Bytes) (w : W) (c : Testcase) (out : Outcome) (h : Log oc w)
    (hrun : w.exit = .running) (hc : w.tried.contains c.content = false)
    (w' : W)
    (ht : w'.tests = w.tests ++ [{ idx := w.tmpCounter, disk := c.content, tmp := w.tmp, out := out }])
    (htr : w'.trace = w.trace ++ [Hook.test w.tmpCounter])
    (hcnt : w'.testCount = w.testCount + 1)
    (htried : w'.tried = c.content :: w.tried)
    (hctr : w'.exit = .running → w'.tmpCounter = w.tmpCounter + 1)
    (htmp : w'.tmp = if out = .raise then w.tmp else w.tmp ++ [(.numbered w.tmpCounter (out == .accept), c.content)])
    (hsucc : w'.anySuccess = (w.anySuccess || out == .accept)) : Log oc w' := by
  have hne := h.ne
  have hnot : c.content ∉ w.tests.tail.map (·.disk) := by
    intro hm
    have : c.content ∈ w.tried := by rw [h.tried]; simpa using hm
    have : w.tried.contains c.content = true := by simpa using this
    rw [hc] at this; exact absurd this (by simp)
  refine ⟨?_, ?_, ?_, ?_, ?_, ?_, ?_, ?_, ?_⟩
  · rw [ht]; simp
  · rw [htr, ht, h.trace]; simp
  · intro k hk
    rw [ht] at hk
    simp only [List.length_append, List.length_cons, List.length_nil] at hk
    by_cases hlt : k < w.tests.length
    · have := h.idx k hlt
      simp only [ht, List.getElem_append_left hlt]
      exact this
    · have hk' : k = w.tests.length := by omega
      subst hk'
      simp only [ht, List.getElem_append_right (Nat.le_refl _), Nat.sub_self, List.getElem_cons_zero]
      exact h.ctr hrun
  · intro hr
    rw [hctr hr, h.ctr hrun, ht]; simp
  · rw [htmp, ht, List.filter_append, List.map_append, h.tmp]
    cases out <;> simp [tagOf]
  · rw [hcnt, ht, h.count]; simp
  · rw [hsucc, ht, List.tail_append_of_ne_nil hne, List.any_append, h.succ]; simp
  · rw [htried, ht, List.tail_append_of_ne_nil hne, h.tried]; simp
  · rw [ht, List.tail_append_of_ne_nil hne, List.map_append, List.nodup_append]
    refine ⟨h.nodup, by simp, ?_⟩
    intro a ha b hb
    simp only [List.map_cons, List.map_nil, List.mem_singleton] at hb
    subst hb
    intro hab; subst hab
    exact hnot ha

theorem log_step (oc : Bytes) (w w' : W) (e : Ev) (h : Log oc w) (hrun : w.exit = .running)
    (s : StepShape w e w') : Log oc w' := by
  cases s with
  | write b => exact ⟨h.ne, h.trace, h.idx, h.ctr, h.tmp, h.count, h.succ, h.tried, h.nodup⟩
  | err => exact ⟨h.ne, h.trace, h.idx, fun hr => by simp at hr, h.tmp, h.count, h.succ, h.tried, h.nodup⟩
  | skip c out _ => exact h
  | raise c hc =>
    obtain ⟨ht, htr, hcnt, -, -, htried, hany, -, -⟩ :=
      interesting_fields { w with tried := c.content :: w.tried } c true .raise
    obtain ⟨-, htmp, -, -, -⟩ := interesting_raise { w with tried := c.content :: w.tried } c true
    exact log_test oc w c .raise h hrun hc _ (by simpa using ht) htr hcnt htried (fun hr => by simp at hr)
      (by simpa using htmp)
      (by rw [hany, show (Outcome.raise == Outcome.accept) = false from by decide, Bool.or_false])
  | accept c hc =>
    obtain ⟨ht, htr, hcnt, -, -, htried, -, hexit, -⟩ :=
      interesting_fields { w with tried := c.content :: w.tried } c true .accept
    obtain ⟨-, htmp, hctr, -, -⟩ := interesting_accept { w with tried := c.content :: w.tried } c true
    exact log_test oc w c .accept h hrun hc _ (by simpa using ht) htr hcnt htried (fun _ => hctr)
      (by simpa using htmp) (by simp)
  | reject c hc =>
    obtain ⟨ht, htr, hcnt, -, -, htried, hany, hexit, -⟩ :=
      interesting_fields { w with tried := c.content :: w.tried } c true .reject
    obtain ⟨-, htmp, hctr, -, -⟩ := interesting_reject { w with tried := c.content :: w.tried } c true
    exact log_test oc w c .reject h hrun hc _ (by simpa using ht) htr hcnt htried (fun _ => hctr)
      (by rw [htmp, show (Outcome.reject == Outcome.accept) = false from by decide]; simp)
      (by rw [hany, show (Outcome.reject == Outcome.accept) = false from by decide, Bool.or_false])

theorem log_loop (oc : Bytes) (w : W) (evs : List Ev) (h : Log oc w) : Log oc (loop w evs) :=
  loop_induction (Log oc) (fun w e hw hr => log_step oc w _ e hw hr (stepEv_shape w e)) w evs h

/-! ### invariant 3: what a killed process leaves behind (C02) -/

def pickMax (acc : Option (Nat × Bytes)) (x : TmpName × Bytes) : Option (Nat × Bytes) :=
  match x.1 with
  | .numbered i true =>
    (match acc with
     | some (j, b) => if j ≤ i then some (i, x.2) else some (j, b)
     | none => some (i, x.2))
  | _ => acc

/-- the `*-interesting` entry with the highest number -/
def maxInteresting (tmp : List (TmpName × Bytes)) : Option (Nat × Bytes) := tmp.foldl pickMax none

/-- what a user recovers from the temp dir: the highest-numbered `*-interesting` copy, or
`original` when there is none -/
def recover (tmp : List (TmpName × Bytes)) : Option Bytes :=
  match maxInteresting tmp with
  | some (_, b) => some b
  | none => (tmp.find? (fun x => x.1 == .original)).map (·.2)

theorem foldl_pickMax_mem (l : List (TmpName × Bytes)) (acc : Option (Nat × Bytes)) (j : Nat) (b : Bytes)
    (h : l.foldl pickMax acc = some (j, b)) :
    acc = some (j, b) ∨ ∃ x ∈ l, x.1 = .numbered j true := by
  induction l generalizing acc with
  | nil => exact Or.inl h
  | cons x t ih =>
    simp only [List.foldl_cons] at h
    rcases ih _ h with h1 | ⟨y, hy, hy2⟩
    · -- the accumulator after `x`
      unfold pickMax at h1
      split at h1
      · rename_i i hxi
        split at h1
        · rename_i j' b' 
          split at h1
          · injection h1 with h1; injection h1 with h1a h1b
            exact Or.inr ⟨x, by simp, by rw [hxi, h1a]⟩
          · exact Or.inl h1
        · injection h1 with h1; injection h1 with h1a h1b
          exact Or.inr ⟨x, by simp, by rw [hxi, h1a]⟩
      · exact Or.inl h1
    · exact Or.inr ⟨y, by simp [hy], hy2⟩

theorem maxInteresting_snoc_boring (l : List (TmpName × Bytes)) (i : Nat) (b : Bytes) :
    maxInteresting (l ++ [(.numbered i false, b)]) = maxInteresting l := by
  simp [maxInteresting, List.foldl_append, pickMax]

theorem maxInteresting_snoc_interesting (l : List (TmpName × Bytes)) (i : Nat) (b : Bytes)
    (hb : ∀ x ∈ l, ∀ j f, x.1 = .numbered j f → j < i) :
    maxInteresting (l ++ [(.numbered i true, b)]) = some (i, b) := by
  simp only [maxInteresting, List.foldl_append, List.foldl_cons, List.foldl_nil]
  cases hm : l.foldl pickMax none with
  | none => simp [pickMax]
  | some p =>
    obtain ⟨j, b'⟩ := p
    rcases foldl_pickMax_mem l none j b' hm with h | ⟨x, hx, hx2⟩
    · simp at h
    · have := hb x hx j true hx2
      simp only [pickMax]
      rw [if_pos (Nat.le_of_lt this)]

theorem recover_snoc_boring (l : List (TmpName × Bytes)) (i : Nat) (b : Bytes) :
    recover (l ++ [(.numbered i false, b)]) = recover l := by
  unfold recover
  rw [maxInteresting_snoc_boring]
  cases maxInteresting l with
  | some p => rfl
  | none =>
    simp only [List.find?_append]
    have : (TmpName.numbered i false == TmpName.original) = false := by
      simp [BEq.beq, instBEqOfDecidableEq]
    cases l.find? (fun x => x.1 == .original) <;> simp [List.find?, this]

theorem recover_snoc_interesting (l : List (TmpName × Bytes)) (i : Nat) (b : Bytes)
    (hb : ∀ x ∈ l, ∀ j f, x.1 = .numbered j f → j < i) :
    recover (l ++ [(.numbered i true, b)]) = some b := by
  unfold recover
  rw [maxInteresting_snoc_interesting l i b hb]

structure Kill (d0 : Bytes) (w : W) : Prop where
  cur : recover w.tmp = some (lastAccepted w.tests d0)
  recs : ∀ k (h : k < w.tests.length), recover w.tests[k].tmp = some (lastAccepted (w.tests.take k) d0)
  bound : ∀ x ∈ w.tmp, ∀ i f, x.1 = .numbered i f → i < w.tmpCounter

theorem kill_test (d0 : Bytes) (w : W) (c : Testcase) (out : Outcome) (h : Kill d0 w) (w' : W)
    (ht : w'.tests = w.tests ++ [{ idx := w.tmpCounter, disk := c.content, tmp := w.tmp, out := out }])
    (hctr : w.tmpCounter ≤ w'.tmpCounter ∧ (out ≠ .raise → w'.tmpCounter = w.tmpCounter + 1))
    (htmp : w'.tmp = if out = .raise then w.tmp else w.tmp ++ [(.numbered w.tmpCounter (out == .accept), c.content)]) :
    Kill d0 w' := by
  refine ⟨?_, ?_, ?_⟩
  · rw [htmp, ht, lastAccepted_snoc]
    cases out with
    | raise => simpa using h.cur
    | reject =>
      rw [show (Outcome.reject == Outcome.accept) = false from by decide]
      simp only [reduceCtorEq, if_false]
      rw [recover_snoc_boring]; exact h.cur
    | accept =>
      rw [show (Outcome.accept == Outcome.accept) = true from by decide]
      simp only [reduceCtorEq, if_false, if_true]
      exact recover_snoc_interesting _ _ _ h.bound
  · intro k hk
    rw [ht] at hk
    simp only [List.length_append, List.length_cons, List.length_nil] at hk
    by_cases hlt : k < w.tests.length
    · simp only [ht, List.getElem_append_left hlt]
      rw [List.take_append_of_le_length (Nat.le_of_lt hlt)]
      exact h.recs k hlt
    · have hk' : k = w.tests.length := by omega
      subst hk'
      simp only [ht, List.getElem_append_right (Nat.le_refl _), Nat.sub_self, List.getElem_cons_zero,
        List.take_append_length]
      exact h.cur
  · intro x hx i f hxi
    rw [htmp] at hx
    by_cases hr : out = .raise
    · simp only [hr, if_true] at hx
      exact Nat.lt_of_lt_of_le (h.bound x hx i f hxi) hctr.1
    · simp only [hr, if_false, List.mem_append, List.mem_singleton] at hx
      rw [hctr.2 hr]
      rcases hx with hx | hx
      · exact Nat.lt_succ_of_lt (h.bound x hx i f hxi)
      · subst hx
        simp only [TmpName.numbered.injEq] at hxi
        omega

theorem kill_step (d0 : Bytes) (w w' : W) (e : Ev) (h : Kill d0 w) (s : StepShape w e w') :
    Kill d0 w' := by
  cases s with
  | write b => exact ⟨h.cur, h.recs, h.bound⟩
  | err => exact ⟨h.cur, h.recs, h.bound⟩
  | skip c out _ => exact h
  | raise c hc =>
    obtain ⟨ht, -, -, -, -, -, -, -, -⟩ := interesting_fields { w with tried := c.content :: w.tried } c true .raise
    obtain ⟨-, htmp, hctr, -, -⟩ := interesting_raise { w with tried := c.content :: w.tried } c true
    exact kill_test d0 w c .raise h _ (by simpa using ht) ⟨by simp [hctr], by simp⟩ (by simpa using htmp)
  | accept c hc =>
    obtain ⟨ht, -, -, -, -, -, -, -, -⟩ := interesting_fields { w with tried := c.content :: w.tried } c true .accept
    obtain ⟨-, htmp, hctr, -, -⟩ := interesting_accept { w with tried := c.content :: w.tried } c true
    exact kill_test d0 w c .accept h _ (by simpa using ht) ⟨by simp [hctr], fun _ => hctr⟩ (by simpa using htmp)
  | reject c hc =>
    obtain ⟨ht, -, -, -, -, -, -, -, -⟩ := interesting_fields { w with tried := c.content :: w.tried } c true .reject
    obtain ⟨-, htmp, hctr, -, -⟩ := interesting_reject { w with tried := c.content :: w.tried } c true
    exact kill_test d0 w c .reject h _ (by simpa using ht) ⟨by simp [hctr], fun _ => hctr⟩
      (by rw [htmp, show (Outcome.reject == Outcome.accept) = false from by decide]; simp)

theorem kill_loop (d0 : Bytes) (w : W) (evs : List Ev) (h : Kill d0 w) : Kill d0 (loop w evs) :=
  loop_induction (Kill d0) (fun w e hw _ => kill_step d0 w _ e hw (stepEv_shape w e)) w evs h

/-! ### one `run()` on a fresh object: everything that is observable -/

def start (orig : Testcase) (d0 : Bytes) : W := dumpOriginal (beginRun (fresh orig d0))

theorem start_fields (orig : Testcase) (d0 : Bytes) :
    (start orig d0).tests = [] ∧ (start orig d0).trace = [Hook.init] ∧ (start orig d0).tmpCounter = 1 ∧
    (start orig d0).tmp = [(.original, orig.content)] ∧ (start orig d0).testCount = 0 ∧
    (start orig d0).tried = [] ∧ (start orig d0).anySuccess = false ∧ (start orig d0).exit = .running ∧
    (start orig d0).best = orig ∧ (start orig d0).testcase = orig ∧
    (start orig d0).lastInteresting = none ∧ (start orig d0).disk = d0 ∧ (start orig d0).diskWrites = 0 := by
  simp [start, dumpOriginal, beginRun, fresh, upsert]

theorem afterLoop_fields (w : W) :
    (afterLoop w).tests = w.tests ∧ (afterLoop w).tmp = w.tmp ∧
    (afterLoop w).trace = w.trace ++ [Hook.cleanup] ∧ (afterLoop w).testCount = w.testCount ∧
    (afterLoop w).exit = (match w.exit with
      | .running => .returned (if w.anySuccess then 0 else 1) | e => e) := by
  unfold afterLoop
  cases he : w.exit with
  | running =>
    obtain ⟨h1, -, -, h4, h5, h6, h7, -⟩ :=
      finish_fields { w with disk := w.best.content, diskWrites := w.diskWrites + 1,
                             exit := .returned (if w.anySuccess then 0 else 1) }
    exact ⟨h1, h6, h5, h7, h4⟩
  | returned s =>
    obtain ⟨h1, -, -, h4, h5, h6, h7, -⟩ := finish_fields w
    exact ⟨h1, h6, h5, h7, by rw [h4, he]⟩
  | raised =>
    obtain ⟨h1, -, -, h4, h5, h6, h7, -⟩ := finish_fields w
    exact ⟨h1, h6, h5, h7, by rw [h4, he]⟩

/-- the four ways a run on a fresh object goes -/
theorem runMain_cases (orig : Testcase) (d0 : Bytes) (evs : List Ev) (first : Outcome) :
    (orig.len = 0 → runMain orig d0 evs first = finish { start orig d0 with exit := .returned 0 }) ∧
    (orig.len ≠ 0 → first = .raise → runMain orig d0 evs first =
        finish { (interesting (start orig d0) orig false .raise).1 with exit := .raised }) ∧
    (orig.len ≠ 0 → first = .reject → runMain orig d0 evs first =
        finish { (interesting (start orig d0) orig false .reject).1 with exit := .returned 1 }) ∧
    (orig.len ≠ 0 → first = .accept → runMain orig d0 evs first =
        afterLoop (loop (interesting (start orig d0) orig false .accept).1 evs)) := by
  have htc : (start orig d0).testcase = orig := (start_fields orig d0).2.2.2.2.2.2.2.2.2.1
  refine ⟨?_, ?_, ?_, ?_⟩
  · intro h0
    simp only [runMain, runMainW]
    rw [show dumpOriginal (beginRun (fresh orig d0)) = start orig d0 from rfl, htc, if_pos h0]
  · intro h0 hf; subst hf
    simp only [runMain, runMainW]
    rw [show dumpOriginal (beginRun (fresh orig d0)) = start orig d0 from rfl, htc, if_neg h0]
    rw [show interesting (start orig d0) orig false .raise
      = ((interesting (start orig d0) orig false .raise).1, none) from by simp [interesting]]
  · intro h0 hf; subst hf
    simp only [runMain, runMainW]
    rw [show dumpOriginal (beginRun (fresh orig d0)) = start orig d0 from rfl, htc, if_neg h0]
    rw [show interesting (start orig d0) orig false .reject
      = ((interesting (start orig d0) orig false .reject).1, some false) from by simp [interesting]]
  · intro h0 hf; subst hf
    simp only [runMain, runMainW]
    rw [show dumpOriginal (beginRun (fresh orig d0)) = start orig d0 from rfl, htc, if_neg h0]
    rw [show interesting (start orig d0) orig false .accept
      = ((interesting (start orig d0) orig false .accept).1, some true) from by simp [interesting]]

/-- after an accepted original the two loop invariants hold -/
theorem after_first_accept (orig : Testcase) (d0 : Bytes) (h : orig.content = d0) :
    Log orig.content (interesting (start orig d0) orig false .accept).1 ∧
    Kill d0 (interesting (start orig d0) orig false .accept).1 ∧
    (interesting (start orig d0) orig false .accept).1.exit = .running ∧
    (interesting (start orig d0) orig false .accept).1.diskWrites = 0 := by
  obtain ⟨s1, s2, s3, s4, s5, s6, s7, s8, s9, s10, s11, s12, s13⟩ := start_fields orig d0
  obtain ⟨ht, htr, hcnt, hd, hb, htried, hany, hexit, hdw⟩ := interesting_fields (start orig d0) orig false .accept
  obtain ⟨-, htmp, hctr, hli, htc⟩ := interesting_accept (start orig d0) orig false
  simp only [Bool.false_eq_true, if_false, s1, s2, s3, s4, s5, s6, s7, s8, s12, s13, List.nil_append] at ht htr hcnt hd htried hany hexit hdw htmp hctr
  refine ⟨⟨?_, ?_, ?_, ?_, ?_, ?_, ?_, ?_, ?_⟩, ⟨?_, ?_, ?_⟩, hexit, hdw⟩
  · rw [ht]; simp
  · rw [htr, ht]; simp
  · intro k hk
    rw [ht] at hk
    simp only [List.length_cons, List.length_nil] at hk
    have : k = 0 := by omega
    subst this
    simp [ht]
  · intro _; rw [hctr, ht]; simp
  · rw [htmp, ht]
    simp [tagOf, h, show (Outcome.accept == Outcome.accept) = true from by decide,
      show (Outcome.accept != Outcome.raise) = true from by decide]
  · rw [hcnt, ht]; simp
  · rw [hany, ht]; simp
  · rw [htried, ht]; simp
  · rw [ht]; simp
  · rw [htmp, ht]
    have := recover_snoc_interesting [(TmpName.original, orig.content)] 1 orig.content (by
      intro x hx j f hxj
      simp only [List.mem_singleton] at hx
      subst hx
      simp at hxj)
    simp only [List.singleton_append] at this ⊢
    rw [this]
    simp [lastAccepted, h]
  · intro k hk
    rw [ht] at hk
    simp only [List.length_cons, List.length_nil] at hk
    have : k = 0 := by omega
    subst this
    simp [ht, recover, maxInteresting, pickMax, List.find?, h]
  · intro x hx i f hxi
    rw [htmp] at hx
    simp only [List.mem_cons, List.mem_nil_iff, or_false, List.mem_append, List.mem_singleton] at hx
    rw [hctr]
    rcases hx with hx | hx <;> subst hx <;> simp at hxi
    omega

end World
