/-
Candidates of the pair strategies keep the protected prefix and suffix (C05).
-/
import LithiumModel.Pairs
import LithiumProofs.Minimize

namespace Strat
open Testcase

theorem rmslice_frame (t : Testcase) (s e : Int) :
    (t.rmslice s e).before = t.before ∧ (t.rmslice s e).after = t.after := by
  unfold Testcase.rmslice Testcase.rmslice?
  cases t.sliceXlat (some s) (some e) with
  | none => exact ⟨rfl, rfl⟩
  | some p => exact ⟨rfl, rfl⟩

structure Frame (orig : Testcase) (it : It) : Prop where
  best : it.best.before = orig.before ∧ it.best.after = orig.after
  atts : ∀ a ∈ it.atts, a.cand.before = orig.before ∧ a.cand.after = orig.after

theorem try_frame (orig : Testcase) (it : It) (o : Oracle) (c : Testcase) (mk : Resp → Att)
    (h : Frame orig it) (hc : c.before = orig.before ∧ c.after = orig.after) (hmk : ∀ r, (mk r).cand = c) :
    Frame orig (it.try o c mk).2 := by
  obtain ⟨-, -, -, f4⟩ := try_flags it o c mk
  have hatts : ∀ a ∈ (it.try o c mk).2.atts, a.cand.before = orig.before ∧ a.cand.after = orig.after := by
    intro a ha
    rw [f4] at ha
    simp only [List.mem_cons] at ha
    rcases ha with rfl | ha
    · rw [hmk]; exact hc
    · exact h.atts a ha
  rcases try_spec it o c mk with ⟨-, -, hb, -, -⟩ | ⟨-, -, -, hb, -, -⟩ | ⟨-, -, -, hb, -, -⟩
  · exact ⟨by rw [hb]; exact h.best, hatts⟩
  · exact ⟨by rw [hb]; exact hc, hatts⟩
  · exact ⟨by rw [hb]; exact h.best, hatts⟩

theorem frame_flag (orig : Testcase) (it : It) (h : Frame orig it) (b : Bool) :
    Frame orig { it with outOfFuel := b } ∧ Frame orig { it with internalError := b } ∧
    Frame orig { it with deadlineStop := b } :=
  ⟨⟨h.best, h.atts⟩, ⟨h.best, h.atts⟩, ⟨h.best, h.atts⟩⟩

theorem aroundCand_frame (orig : Testcase) (cs : Nat) (st : AroundSt) (it : It) (h : Frame orig it) :
    (aroundCand cs st it).before = orig.before ∧ (aroundCand cs st it).after = orig.after := by
  unfold aroundCand
  simp only
  obtain ⟨a1, a2⟩ := rmslice_frame (it.best.rmslice ((min it.best.len (st.chunkStart + cs) : Nat) : Int)
    ((min it.best.len (min it.best.len (st.chunkStart + cs) + cs) : Nat) : Int)) (max 0 ((st.chunkStart : Int) - cs)) (st.chunkStart : Int)
  obtain ⟨b1, b2⟩ := rmslice_frame it.best ((min it.best.len (st.chunkStart + cs) : Nat) : Int)
    ((min it.best.len (min it.best.len (st.chunkStart + cs) + cs) : Nat) : Int)
  exact ⟨by rw [a1, b1]; exact h.best.1, by rw [a2, b2]; exact h.best.2⟩

theorem aroundLoop_frame (orig : Testcase) (o : Oracle) (clk : Clock) (stopAt : Option Nat) (cs nc : Nat) :
    ∀ (fuel : Nat) (st : AroundSt) (it : It) (any : Bool), Frame orig it →
      Frame orig (aroundLoop o clk stopAt cs nc fuel st it any).1 := by
  intro fuel
  induction fuel with
  | zero => intro st it any h; exact (frame_flag orig it h true).1
  | succ f ih =>
    intro st it any h
    unfold aroundLoop
    simp only
    split
    · exact h
    · split
      · exact h
      · have key := try_frame orig it o (aroundCand cs st it) (aroundMk cs nc st it) h
          (aroundCand_frame orig cs st it h) (fun _ => rfl)
        split
        · rename_i it2 heq
          rw [heq] at key
          split
          · split
            · exact ih _ _ _ key
            · exact key
          · split
            · exact key
            · split
              · exact ih _ _ _ key
              · exact key
        · rename_i r it2 hne heq
          rw [heq] at key
          split
          · exact ih _ _ _ key
          · exact key

theorem aroundPass_frame (orig : Testcase) (o : Oracle) (clk : Clock) (stopAt : Option Nat) (cs : Nat) (it : It)
    (h : Frame orig it) : Frame orig (aroundPass o clk stopAt cs it).1 := by
  unfold aroundPass
  simp only
  split
  · exact h
  · exact aroundLoop_frame orig o clk stopAt cs _ _ _ _ _ h

theorem balCand_frame (orig : Testcase) (cs : Nat) (st : BalSt) (it : It) (rhs : Nat) (h : Frame orig it) :
    ((balCand1 cs st it).before = orig.before ∧ (balCand1 cs st it).after = orig.after) ∧
    ((balCand2 cs st it rhs).before = orig.before ∧ (balCand2 cs st it rhs).after = orig.after) := by
  unfold balCand1 balCand2
  simp only
  refine ⟨?_, ?_⟩
  · obtain ⟨b1, b2⟩ := rmslice_frame it.best ((st.chunkStart : Nat) : Int) ((min it.best.len (st.chunkStart + cs) : Nat) : Int)
    exact ⟨by rw [b1]; exact h.best.1, by rw [b2]; exact h.best.2⟩
  · obtain ⟨a1, a2⟩ := rmslice_frame
      (it.best.rmslice ((min it.best.len (st.chunkStart + cs * countS st.summary st.lhs rhs) : Nat) : Int)
        ((min it.best.len (min it.best.len (st.chunkStart + cs * countS st.summary st.lhs rhs) + cs) : Nat) : Int))
      ((st.chunkStart : Nat) : Int) ((min it.best.len (st.chunkStart + cs) : Nat) : Int)
    obtain ⟨b1, b2⟩ := rmslice_frame it.best
      ((min it.best.len (st.chunkStart + cs * countS st.summary st.lhs rhs) : Nat) : Int)
      ((min it.best.len (min it.best.len (st.chunkStart + cs * countS st.summary st.lhs rhs) + cs) : Nat) : Int)
    exact ⟨by rw [a1, b1]; exact h.best.1, by rw [a2, b2]; exact h.best.2⟩

theorem balLoop_frame (orig : Testcase) (o : Oracle) (clk : Clock) (stopAt : Option Nat) (cs nc : Nat)
    (curly square normal : List Int) :
    ∀ (fuel : Nat) (st : BalSt) (it : It) (any : Bool), Frame orig it →
      Frame orig (balLoop o clk stopAt cs nc curly square normal fuel st it any).1 := by
  intro fuel
  induction fuel with
  | zero => intro st it any h; exact (frame_flag orig it h true).1
  | succ f ih =>
    intro st it any h
    unfold balLoop
    simp only
    split
    · exact h
    · split
      · exact h
      · split
        · exact (frame_flag orig it h true).2.1
        · split
          · -- a balanced chunk alone
            have key := try_frame orig it o (balCand1 cs st it) (balMk1 cs nc st it) h
              (balCand_frame orig cs st it 0 h).1 (fun _ => rfl)
            split
            · rename_i it2 heq
              rw [heq] at key
              split
              · exact ih _ _ _ key
              · exact key
            · rename_i r it2 hne heq
              rw [heq] at key
              split
              · exact ih _ _ _ key
              · exact key
          · split
            · split
              · exact ih _ _ _ h
              · exact h
            · generalize (findRhs st.summary curly square normal (List.drop (st.lhs + 1) st.summary) st.lhs
                (curly.getD st.lhs 0, square.getD st.lhs 0, normal.getD st.lhs 0)).1 = rhs
              have key := try_frame orig it o (balCand2 cs st it rhs) (balMk2 cs nc st it rhs) h
                (balCand_frame orig cs st it rhs h).2 (fun _ => rfl)
              split
              · rename_i it2 heq
                rw [heq] at key
                split
                · exact ih _ _ _ key
                · exact key
              · rename_i r it2 hne heq
                rw [heq] at key
                split
                · exact ih _ _ _ key
                · exact key

theorem balPass_frame (orig : Testcase) (o : Oracle) (clk : Clock) (stopAt : Option Nat) (cs : Nat) (it : It)
    (h : Frame orig it) : Frame orig (balPass o clk stopAt cs it).1 := by
  unfold balPass
  simp only
  split
  · exact h
  · exact balLoop_frame orig o clk stopAt cs _ _ _ _ _ _ _ _ h

theorem pairsOuter_frame (orig : Testcase) (cfg : Cfg) (clk : Clock) (stopAt : Option Nat)
    (pass : Nat → It → It × Bool) (final : Nat)
    (hpass : ∀ cs it, Frame orig it → Frame orig (pass cs it).1) :
    ∀ (fuel cs : Nat) (it : It), Frame orig it → Frame orig (pairsOuter cfg clk stopAt pass final fuel cs it) := by
  intro fuel
  induction fuel with
  | zero => intro cs it h; exact (frame_flag orig it h true).1
  | succ f ih =>
    intro cs it h
    unfold pairsOuter
    simp only
    have hp := hpass cs it h
    split
    · exact hp
    · split
      · exact (frame_flag orig _ hp true).2.2
      · split
        · exact ih _ _ hp
        · split
          · exact hp
          · exact ih _ _ hp

end Strat
