/-
Testcase-level invariants of the pair strategies: every proposal, every basis and the final best
satisfy any predicate `T` that holds of the original and is closed under `rmslice` with ordered
non-negative bounds.  Instances: the protected prefix/suffix (C05) and "the original with
reducible atoms deleted" (C04).
-/
import LithiumProofs.PairsLoop
import LithiumProofs.MinimizeLog

namespace Strat
open Testcase

theorem rmslice_frame (t : Testcase) (s e : Int) :
    (t.rmslice s e).before = t.before ∧ (t.rmslice s e).after = t.after := by
  unfold Testcase.rmslice Testcase.rmslice?
  cases t.sliceXlat (some s) (some e) with
  | none => exact ⟨rfl, rfl⟩
  | some p => exact ⟨rfl, rfl⟩

/-- `T` holds of the best testcase and of the candidate and basis of every proposal -/
structure AllT (T : Testcase → Prop) (it : It) : Prop where
  best : T it.best
  atts : ∀ a ∈ it.atts, T a.cand ∧ T a.base

/-- closed under the deletions the strategies perform -/
def RmClosed (T : Testcase → Prop) : Prop :=
  ∀ t s e, T t → (0 : Int) ≤ s → s ≤ e → T (t.rmslice s e)

theorem allT_flag (T : Testcase → Prop) (it : It) (h : AllT T it) (b : Bool) :
    AllT T { it with outOfFuel := b } ∧ AllT T { it with internalError := b } ∧
    AllT T { it with deadlineStop := b } :=
  ⟨⟨h.best, h.atts⟩, ⟨h.best, h.atts⟩, ⟨h.best, h.atts⟩⟩

theorem try_allT (T : Testcase → Prop) (it : It) (o : Oracle) (c : Testcase) (mk : Resp → Att)
    (h : AllT T it) (hc : T c) (hmk : ∀ r, (mk r).cand = c ∧ (mk r).base = it.best) :
    AllT T (it.try o c mk).2 := by
  obtain ⟨-, -, -, f4⟩ := try_flags it o c mk
  have hatts : ∀ a ∈ (it.try o c mk).2.atts, T a.cand ∧ T a.base := by
    intro a ha
    rw [f4] at ha
    simp only [List.mem_cons] at ha
    rcases ha with rfl | ha
    · rw [(hmk _).1, (hmk _).2]; exact ⟨hc, h.best⟩
    · exact h.atts a ha
  rcases try_spec it o c mk with ⟨-, -, hb, -, -⟩ | ⟨-, -, -, hb, -, -⟩ | ⟨-, -, -, hb, -, -⟩
  · exact ⟨by rw [hb]; exact h.best, hatts⟩
  · exact ⟨by rw [hb]; exact hc, hatts⟩
  · exact ⟨by rw [hb]; exact h.best, hatts⟩

theorem aroundCand_T (T : Testcase → Prop) (hT : RmClosed T) (cs : Nat) (st : AroundSt) (it : It)
    (h : T it.best) : T (aroundCand cs st it) := by
  unfold aroundCand
  simp only
  apply hT _ _ _ (hT _ _ _ h (by omega) (by omega)) (by omega) (by omega)

theorem balCand_T (T : Testcase → Prop) (hT : RmClosed T) (cs : Nat) (st : BalSt) (it : It) (rhs : Nat)
    (h : T it.best) (hg : st.chunkStart < it.best.len) :
    T (balCand1 cs st it) ∧ T (balCand2 cs st it rhs) := by
  unfold balCand1 balCand2
  simp only
  refine ⟨hT _ _ _ h (by omega) (by omega), ?_⟩
  exact hT _ _ _ (hT _ _ _ h (by omega) (by omega)) (by omega) (by omega)

/-- any pass whose proposals satisfy `T` and are built on the current best keeps `AllT` -/
theorem pLoop_allT {σ : Type} (T : Testcase → Prop) (pd : PassDef σ) (o : Oracle) (clk : Clock)
    (stopAt : Option Nat)
    (hact : ∀ st it c mk, T it.best → pd.guard st it = true → pd.act st it = .propose c mk →
      T c ∧ ∀ r, (mk r).cand = c ∧ (mk r).base = it.best)
    (fuel : Nat) (st : σ) (it : It) (any : Bool) (h : AllT T it) :
    AllT T (pLoop pd o clk stopAt fuel st it any).1 :=
  pLoop_induct pd o clk stopAt (fun _ it _ => AllT T it) (fun it _ => AllT T it)
    (fun _ _ _ h => h) (fun _ it _ h => (allT_flag T it h true).1)
    (fun _ it _ h _ _ => (allT_flag T it h true).2.1)
    (fun _ _ _ _ h _ _ _ _ => h)
    (fun st it _ c mk h hg _ ha =>
      have k := hact st it c mk h.best hg ha
      have r := try_allT T it o c mk h k.1 k.2
      ⟨r, fun _ _ => r⟩)
    fuel st it any h

theorem aroundPass_allT (T : Testcase → Prop) (hT : RmClosed T) (o : Oracle) (clk : Clock)
    (stopAt : Option Nat) (cs : Nat) (it : It) (h : AllT T it) : AllT T (aroundPass o clk stopAt cs it).1 := by
  unfold aroundPass
  simp only
  split
  · exact h
  · unfold aroundLoop
    apply pLoop_allT T _ o clk stopAt _ _ _ _ _ h
    intro st it c mk hb _ ha
    simp only [aroundDef, PAct.propose.injEq] at ha
    obtain ⟨rfl, rfl⟩ := ha
    exact ⟨aroundCand_T T hT cs st it hb, fun _ => ⟨rfl, rfl⟩⟩

theorem balPass_allT (T : Testcase → Prop) (hT : RmClosed T) (o : Oracle) (clk : Clock)
    (stopAt : Option Nat) (cs : Nat) (it : It) (h : AllT T it) : AllT T (balPass o clk stopAt cs it).1 := by
  unfold balPass
  simp only
  split
  · exact h
  · unfold balLoop
    apply pLoop_allT T _ o clk stopAt _ _ _ _ _ h
    intro st it c mk hb hg ha
    have hg' : st.chunkStart < it.best.len := by simpa [balDef] using hg
    simp only [balDef, balAct] at ha
    split at ha
    · exact absurd ha (by simp)
    · split at ha
      · simp only [PAct.propose.injEq] at ha
        obtain ⟨rfl, rfl⟩ := ha
        exact ⟨(balCand_T T hT cs st it 0 hb hg').1, fun _ => ⟨rfl, rfl⟩⟩
      · split at ha
        · exact absurd ha (by simp)
        · simp only [PAct.propose.injEq] at ha
          obtain ⟨rfl, rfl⟩ := ha
          exact ⟨(balCand_T T hT cs st it _ hb hg').2, fun _ => ⟨rfl, rfl⟩⟩

theorem pairsOuter_allT (T : Testcase → Prop) (cfg : Cfg) (clk : Clock) (stopAt : Option Nat)
    (pass : Nat → It → It × Bool) (final : Nat)
    (hpass : ∀ cs it, AllT T it → AllT T (pass cs it).1) (fuel cs : Nat) (it : It) (h : AllT T it) :
    AllT T (pairsOuter cfg clk stopAt pass final fuel cs it) :=
  pairsOuter_induct cfg clk stopAt pass final (fun _ it => AllT T it) (AllT T)
    (fun _ it h => (allT_flag T it h true).1)
    (fun cs it h _ => hpass cs it h)
    (fun cs it h _ => (allT_flag T _ (hpass cs it h) true).2.2)
    (fun cs it h _ _ _ _ => hpass cs it h)
    (fun cs it h _ _ => hpass cs it h)
    (fun cs it h _ _ => hpass cs it h)
    fuel cs it h

theorem around_allT (T : Testcase → Prop) (hT : RmClosed T) (cfg : Cfg) (o : Oracle) (clk : Clock)
    (t : Testcase) (h : T t) : AllT T (around cfg o clk t) := by
  unfold around
  exact pairsOuter_allT T cfg clk _ _ _ (fun cs it h => aroundPass_allT T hT o clk _ cs it h) _ _ _
    ⟨h, by intro a ha; simp at ha⟩

theorem balanced_allT (T : Testcase → Prop) (hT : RmClosed T) (cfg : Cfg) (o : Oracle) (clk : Clock)
    (t : Testcase) (h : T t) : AllT T (balanced cfg o clk t) := by
  unfold balanced
  exact pairsOuter_allT T cfg clk _ _ _ (fun cs it h => balPass_allT T hT o clk _ cs it h) _ _ _
    ⟨h, by intro a ha; simp at ha⟩

/-! ### the two instances -/

theorem frame_closed (orig : Testcase) :
    RmClosed (fun t => t.before = orig.before ∧ t.after = orig.after) := by
  intro t s e h _ _
  obtain ⟨a, b⟩ := rmslice_frame t s e
  exact ⟨by rw [a]; exact h.1, by rw [b]; exact h.2⟩

/-- `isDel_rmslice` without the upper bound on `e` (out-of-range values are clamped) -/
theorem isDel_rmslice' (orig t : Testcase) (h : IsDel orig t) (s e : Int) (h0 : 0 ≤ s) (hse : s ≤ e) :
    IsDel orig (t.rmslice s e) := by
  obtain ⟨h1, h2, h3, h4, h5⟩ := h
  have hab : clamp t.len (some s) 0 ≤ clamp t.len (some e) t.len := by
    simp only [clamp]
    rw [if_neg (by omega : ¬ s < 0), if_neg (by omega : ¬ e < 0)]
    split <;> split <;> omega
  obtain ⟨t', e1, c2, c3, c1, c4, -⟩ := rmslice_spec t h3 (some s) (some e) hab
  have : t.rmslice s e = t' := by simp [rmslice, e1]
  rw [this]
  refine ⟨by rw [c2, h1], by rw [c3, h2], c1, ?_, ?_⟩
  · rw [c4]; exact (eraseRanks_sublist _ _ _ _).trans h4
  · rw [c4, eraseRanks_filter]; exact h5

theorem isDel_closed (orig : Testcase) : RmClosed (IsDel orig) :=
  fun t s e h h0 hse => isDel_rmslice' orig t h s e h0 hse

structure Frame (orig : Testcase) (it : It) : Prop where
  best : it.best.before = orig.before ∧ it.best.after = orig.after
  atts : ∀ a ∈ it.atts, a.cand.before = orig.before ∧ a.cand.after = orig.after

theorem frame_of_allT (orig : Testcase) (it : It)
    (h : AllT (fun t => t.before = orig.before ∧ t.after = orig.after) it) : Frame orig it :=
  ⟨h.best, fun a ha => (h.atts a ha).1⟩

end Strat
