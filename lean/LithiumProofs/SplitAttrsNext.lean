/-
Attribute atoms are COMPLETE in the sense of "not continued" (C16): behind a reducible atom that is
not an attribute with a quoted value, the next byte of the file is white space or `>` — an unquoted
value (or a value-less name) is never cut short.
-/
import LithiumProofs.SplitAttrsShape

namespace Attrs
open Strat (isWs)

/-- the text starts with white space or `>` -/
def HeadTerm (d : Bytes) : Prop := ∃ c rest, d = c :: rest ∧ (isWs c || c == 0x3E) = true

/-- the atom ends with a quoted value: `…=q body q`, `q` a quote that does not occur in `body` -/
def QuotedEnd (p : Bytes) : Prop :=
  ∃ g q body, p = g ++ [0x3D, q] ++ body ++ [q] ∧ (q = 0x27 ∨ q = 0x22) ∧ ∀ b ∈ body, (b == q) = false

/-- what one iteration does to the part list -/
theorem step_form (s s' : St) (hs : step s = some s') :
    (s'.parts = s.parts ∧ s'.red = s.red ∧ s'.data = s.data) ∨
    ∃ p r, s'.parts = s.parts ++ [p] ∧ s'.red = s.red ++ [r] ∧ (r = true → QuotedEnd p ∨ HeadTerm s'.data) := by
  unfold step at hs
  simp only at hs
  split at hs
  · cases hm : attrMatch s.data with
    | none =>
      rw [hm] at hs
      simp only at hs
      cases hsr : attrSearch s.data none 0 with
      | none =>
        rw [hsr] at hs
        injection hs with hs; subst hs; exact Or.inl ⟨rfl, rfl, rfl⟩
      | some r =>
        obtain ⟨start, len, b⟩ := r
        rw [hsr] at hs
        simp only at hs
        split at hs
        · injection hs with hs; subst hs
          exact Or.inr ⟨_, false, rfl, rfl, fun hr => absurd hr (by simp)⟩
        · injection hs with hs; subst hs
          exact Or.inr ⟨_, false, rfl, rfl, fun hr => absurd hr (by simp)⟩
    | some r =>
      obtain ⟨len, b⟩ := r
      rw [hm] at hs
      simp only at hs
      have hmatch : (b = true ∧ ∃ ws name t, s.data.take len = ws ++ name ++ [t] ∧ (∀ x ∈ ws, isWs x = true) ∧
            IsName name ∧ isTerm t = true ∧ len = ws.length + name.length + 1) ∨
          (b = false ∧ stripIsGt (s.data.take len) = true) := by
        unfold attrMatch at hm
        cases h1 : attrA1 s.data true with
        | some k =>
          rw [h1] at hm
          simp only [Option.some.injEq, Prod.mk.injEq] at hm
          obtain ⟨rfl, rfl⟩ := hm
          exact Or.inl ⟨rfl, attrA1_shape _ _ _ h1⟩
        | none =>
          rw [h1] at hm
          simp only [Option.map_eq_some_iff, Prod.mk.injEq] at hm
          obtain ⟨k, hk, rfl, rfl⟩ := hm
          obtain ⟨ws, e, hws⟩ := attrA2_shape _ _ hk
          exact Or.inr ⟨rfl, by rw [e]; exact stripIsGt_ws_gt ws hws⟩
      split at hs
      · injection hs with hs; subst hs
        exact Or.inr ⟨_, false, rfl, rfl, fun hr => absurd hr (by simp)⟩
      · rename_i hng
        rcases hmatch with ⟨-, ws, name, t, hg, hws, hname, hterm, hlen⟩ | ⟨-, hgt⟩
        · have hlast : (s.data.take len).getLast? = some t := by rw [hg]; simp
          split at hs
          · rename_i hne
            -- value-less attribute: what is left starts with the terminator, which is not `=`
            injection hs with hs; subst hs
            refine Or.inr ⟨_, true, rfl, rfl, fun _ => Or.inr ?_⟩
            have ht : t ≠ 0x3D := by
              rw [hlast] at hne
              simpa using hne
            have hd : s.data = (ws ++ name) ++ (t :: s.data.drop len) := by
              conv => lhs; rw [← List.take_append_drop len s.data, hg]
              simp
            have hl1 : (ws ++ name).length = len - 1 := by rw [List.length_append, hlen]; omega
            refine ⟨t, s.data.drop len, ?_, ?_⟩
            · show s.data.drop (len - 1) = t :: s.data.drop len
              conv => lhs; rw [hd]
              rw [← hl1]
              exact List.drop_left' rfl
            · unfold isTerm at hterm
              have : (t == 0x3D) = false := by simpa using ht
              rw [this] at hterm
              simp only [Bool.false_or] at hterm
              rw [Bool.or_comm]; exact hterm
          · rename_i heq
            have ht : t = 0x3D := by
              rw [hlast] at heq
              simpa using heq
            subst ht
            split at hs
            · rename_i q rest' hrest
              split at hs
              · rename_i hq
                split at hs
                · injection hs with hs; subst hs; exact Or.inl ⟨rfl, rfl, rfl⟩
                · rename_i i hi
                  injection hs with hs; subst hs
                  refine Or.inr ⟨_, true, rfl, rfl, fun _ => Or.inl ?_⟩
                  obtain ⟨hlt, hp, hbefore, htake⟩ := findIdx_split rest' i hi
                  have hqi : rest'[i] = q := by simpa using hp
                  refine ⟨ws ++ name, q, rest'.take i, ?_, by simpa using hq, hbefore⟩
                  rw [hg, htake, hqi]; simp
              · rename_i hq
                split at hs
                · injection hs with hs; subst hs; exact Or.inl ⟨rfl, rfl, rfl⟩
                · rename_i i hi
                  injection hs with hs; subst hs
                  refine Or.inr ⟨_, true, rfl, rfl, fun _ => Or.inr ?_⟩
                  obtain ⟨hlt, hp, -, -⟩ := findIdx_split (s.data.drop len) i hi
                  exact ⟨(s.data.drop len)[i], (s.data.drop len).drop (i + 1), List.drop_eq_getElem_cons hlt, hp⟩
            · injection hs with hs; subst hs; exact Or.inl ⟨rfl, rfl, rfl⟩
        · exact absurd hgt hng
  · split at hs
    · exact absurd hs (by simp)
    · injection hs with hs; subst hs
      exact Or.inr ⟨_, false, rfl, rfl, fun hr => absurd hr (by simp)⟩

/-- index form: behind every reducible atom that does not end with a quoted value the next part starts
with white space or `>` -/
def NotContinued (l : List (Bytes × Bool)) : Prop :=
  ∀ i a b r, l[i]? = some (a, true) → l[i + 1]? = some (b, r) → QuotedEnd a ∨ HeadTerm b

structure NextInv (s : St) : Prop where
  nc : NotContinued (s.parts.zip s.red)
  pend : ∀ a, (s.parts.zip s.red).getLast? = some (a, true) → QuotedEnd a ∨ HeadTerm s.data

theorem headTerm_prefix (p rest : Bytes) (hp : p ≠ []) (h : HeadTerm (p ++ rest)) : HeadTerm p := by
  obtain ⟨c, r, e, hc⟩ := h
  cases p with
  | nil => exact absurd rfl hp
  | cons x xs =>
    simp only [List.cons_append, List.cons.injEq] at e
    exact ⟨x, xs, rfl, by rw [e.1]; exact hc⟩

theorem next_snoc (l : List (Bytes × Bool)) (p : Bytes) (r : Bool) (data : Bytes)
    (hnc : NotContinued l) (hpend : ∀ a, l.getLast? = some (a, true) → QuotedEnd a ∨ HeadTerm data)
    (hp : p ≠ []) (rest : Bytes) (hd : p ++ rest = data) : NotContinued (l ++ [(p, r)]) := by
  intro i a b r' h1 h2
  by_cases hi : i + 1 < l.length
  · rw [List.getElem?_append_left (by omega)] at h1
    rw [List.getElem?_append_left hi] at h2
    exact hnc i a b r' h1 h2
  · have hlen : (l ++ [(p, r)]).length = l.length + 1 := by simp
    have hi2 : i + 1 < l.length + 1 := by
      have := (List.getElem?_eq_some_iff.mp h2).1
      omega
    have hil : i + 1 = l.length := by omega
    rw [List.getElem?_append_left (by omega)] at h1
    rw [List.getElem?_append_right (by omega)] at h2
    have hb : (p, r) = (b, r') := by
      have : i + 1 - l.length = 0 := by omega
      rw [this] at h2
      simpa using h2
    have hlast : l.getLast? = some (a, true) := by
      rw [List.getLast?_eq_getElem?]
      have : l.length - 1 = i := by omega
      rw [this]; exact h1
    rcases hpend a hlast with hq | ht
    · exact Or.inl hq
    · right
      have : b = p := by injection hb with e1 e2; exact e1.symm
      rw [this]
      rw [← hd] at ht
      exact headTerm_prefix p rest hp ht

theorem step_next (orig : Bytes) (s s' : St) (hi : Inv orig s) (hi' : Inv orig s') (h : NextInv s)
    (hs : step s = some s') : NextInv s' := by
  rcases step_form s s' hs with ⟨e1, e2, e3⟩ | ⟨p, r, e1, e2, hnew⟩
  · exact ⟨by rw [e1, e2]; exact h.nc, by rw [e1, e2, e3]; exact h.pend⟩
  · -- the new part is a non-empty prefix of the old data
    have hcat : p ++ s'.data = s.data := by
      have c1 := hi.cat
      have c2 := hi'.cat
      rw [e1] at c2
      simp only [List.flatten_append, List.flatten_cons, List.flatten_nil, List.append_nil, List.append_assoc] at c2
      rw [← c1] at c2
      exact List.append_cancel_left c2
    have hp : p ≠ [] := hi'.ne p (by rw [e1]; simp)
    have hz : s'.parts.zip s'.red = s.parts.zip s.red ++ [(p, r)] := by
      rw [e1, e2, List.zip_append hi.len]; rfl
    refine ⟨?_, ?_⟩
    · rw [hz]
      exact next_snoc _ p r s.data h.nc h.pend hp s'.data hcat
    · intro a ha
      rw [hz] at ha
      simp only [List.getLast?_append, List.getLast?_singleton] at ha
      obtain ⟨rfl, rfl⟩ := ha
      exact hnew rfl

theorem loop_next (orig : Bytes) (fuel : Nat) (s : St) (hi : Inv orig s) (h : NextInv s) : NextInv (loop fuel s) := by
  induction fuel generalizing s with
  | zero => exact h
  | succ f ih =>
    unfold loop
    split
    · exact h
    · rename_i hne
      have hd : s.data ≠ [] := by
        intro he; rw [he] at hne; simp at hne
      cases hs : step s with
      | none => exact h
      | some s' =>
        have hi' := step_inv orig s s' hi hd hs
        exact ih s' hi' (step_next orig s s' hi hi' h hs)

/-- no reducible atom of the attribute splitter is a fragment of a longer attribute -/
theorem splitAttrs_not_continued (d : Bytes) (sp : Load.Split) (hsp : splitAttrs d = .ok sp) :
    NotContinued (sp.parts.zip sp.reducible) := by
  unfold splitAttrs at hsp
  simp only at hsp
  have hinv := loop_inv d (2 * d.length + 2) { data := d, inTag := false, parts := [], red := [] }
    ⟨by simp, by simp, by simp⟩
  have hn := loop_next d (2 * d.length + 2) { data := d, inTag := false, parts := [], red := [] }
    ⟨by simp, by simp, by simp⟩ ⟨by intro i a b r h1; simp at h1, by intro a ha; simp at ha⟩
  split at hsp
  · injection hsp with hsp; subst hsp
    exact hn.nc
  · rename_i hne
    injection hsp with hsp; subst hsp
    simp only
    rw [List.zip_append hinv.len]
    have hp : (loop (2 * d.length + 2) { data := d, inTag := false, parts := [], red := [] }).data ≠ [] := by
      intro he; rw [he] at hne; simp at hne
    exact next_snoc _ _ false _ hn.nc hn.pend hp [] (by simp)

end Attrs
