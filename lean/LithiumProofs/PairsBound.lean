/-
Termination and test bound of minimize-around / minimize-balanced (C09): the passes never run out
of fuel, never fail their `assert`, run at most `num_chunks` tests each, and every accepted
proposal strictly shortens the testcase; the outer loop therefore makes at most
`n + log2 cs0 + 1` passes.
-/
import LithiumProofs.PairsLoop
import LithiumProofs.Summary
import LithiumProofs.Frame

namespace Strat
open Testcase

/-! ### lengths of the candidates -/

theorem rmslice_len (t : Testcase) (h : t.WF) (s e : Int) (h0 : 0 ≤ s) (hse : s ≤ e) :
    (t.rmslice s e).WF ∧ (t.rmslice s e).len = t.len - (min e.toNat t.len - min s.toNat t.len) := by
  have hcs : clamp t.len (some s) 0 = min s.toNat t.len := by
    simp only [clamp]
    rw [if_neg (by omega : ¬ s < 0)]
    split <;> omega
  have hce : clamp t.len (some e) t.len = min e.toNat t.len := by
    simp only [clamp]
    rw [if_neg (by omega : ¬ e < 0)]
    split <;> omega
  obtain ⟨t', e1, -, -, c1, -, c5⟩ := rmslice_spec t h (some s) (some e) (by rw [hcs, hce]; omega)
  have : t.rmslice s e = t' := by simp [rmslice, e1]
  rw [this, ← hcs, ← hce]
  exact ⟨c1, c5⟩

theorem aroundCand_len (cs : Nat) (st : AroundSt) (it : It) (h : it.best.WF) (hcs : 1 ≤ cs)
    (hg : st.chunkStart + cs < it.best.len) :
    (aroundCand cs st it).WF ∧ (aroundCand cs st it).len < it.best.len := by
  unfold aroundCand
  simp only
  obtain ⟨w1, l1⟩ := rmslice_len it.best h ((min it.best.len (st.chunkStart + cs) : Nat) : Int)
    ((min it.best.len (min it.best.len (st.chunkStart + cs) + cs) : Nat) : Int) (by omega) (by omega)
  obtain ⟨w2, l2⟩ := rmslice_len _ w1 (max 0 ((st.chunkStart : Int) - cs)) (st.chunkStart : Int) (by omega) (by omega)
  refine ⟨w2, ?_⟩
  rw [l2, l1]
  simp only [Int.toNat_natCast]
  omega

theorem balCand1_len (cs : Nat) (st : BalSt) (it : It) (h : it.best.WF) (hcs : 1 ≤ cs)
    (hg : st.chunkStart < it.best.len) :
    (balCand1 cs st it).WF ∧ (balCand1 cs st it).len < it.best.len := by
  unfold balCand1
  obtain ⟨w1, l1⟩ := rmslice_len it.best h ((st.chunkStart : Nat) : Int)
    ((min it.best.len (st.chunkStart + cs) : Nat) : Int) (by omega) (by omega)
  refine ⟨w1, ?_⟩
  rw [l1]
  simp only [Int.toNat_natCast]
  omega

theorem balCand2_len (cs : Nat) (st : BalSt) (it : It) (rhs : Nat) (h : it.best.WF) (hcs : 1 ≤ cs)
    (hg : st.chunkStart < it.best.len) :
    (balCand2 cs st it rhs).WF ∧ (balCand2 cs st it rhs).len < it.best.len := by
  unfold balCand2
  simp only
  generalize cs * countS st.summary st.lhs rhs = k
  obtain ⟨w1, l1⟩ := rmslice_len it.best h ((min it.best.len (st.chunkStart + k) : Nat) : Int)
    ((min it.best.len (min it.best.len (st.chunkStart + k) + cs) : Nat) : Int) (by omega) (by omega)
  obtain ⟨w2, l2⟩ := rmslice_len _ w1 ((st.chunkStart : Nat) : Int)
    ((min it.best.len (st.chunkStart + cs) : Nat) : Int) (by omega) (by omega)
  refine ⟨w2, ?_⟩
  rw [l2, l1]
  simp only [Int.toNat_natCast]
  omega

/-! ### what one pass does to the iterator -/

/-- the best testcase stays well-formed and never gets longer; when a proposal of the pass was
accepted it got strictly shorter -/
def Shrinks (n0 : Nat) (it : It) (any : Bool) : Prop :=
  it.best.WF ∧ it.best.len + (if any then 1 else 0) ≤ n0

theorem pLoop_shrinks {σ : Type} (pd : PassDef σ) (o : Oracle) (clk : Clock) (stopAt : Option Nat)
    (hact : ∀ st it c mk, it.best.WF → pd.guard st it = true → pd.act st it = .propose c mk →
      c.WF ∧ c.len < it.best.len)
    (n0 fuel : Nat) (st : σ) (it : It) (any : Bool) (h : Shrinks n0 it any) :
    Shrinks n0 (pLoop pd o clk stopAt fuel st it any).1 (pLoop pd o clk stopAt fuel st it any).2 :=
  pLoop_induct pd o clk stopAt (fun _ it any => Shrinks n0 it any) (fun it any => Shrinks n0 it any)
    (fun _ _ _ h => h) (fun _ _ _ h => h) (fun _ _ _ h _ _ => h) (fun _ _ _ _ h _ _ _ _ => h)
    (fun st it any c mk h hg _ ha => by
      obtain ⟨cw, cl⟩ := hact st it c mk h.1 hg ha
      have key : Shrinks n0 (it.try o c mk).2 (any || ((it.try o c mk).1 == .accepted)) := by
        unfold Shrinks at h ⊢
        rcases try_spec it o c mk with ⟨hr, -, hb, -, -⟩ | ⟨hr, -, -, hb, -, -⟩ | ⟨hr, -, -, hb, -, -⟩
        · rw [hr, hb]; simpa using h
        · rw [hr, hb]
          refine ⟨cw, ?_⟩
          have := h.2
          simp only [beq_self_eq_true, Bool.or_true, if_true]
          split at this <;> omega
        · rw [hr, hb]; simpa using h
      exact ⟨key, fun _ _ => key⟩)
    fuel st it any h

/-! ### minimize-around: the pass -/

structure AroundInv (nc : Nat) (st : AroundSt) : Prop where
  len : st.summary.length = nc
  ka : st.keep < st.after
  an : st.after < nc
  gap : ∀ j, st.keep < j → j < st.after → alive st.summary j = false

theorem aroundNext_inv (cs nc : Nat) (st st' : AroundSt) (r : Option Resp) (h : AroundInv nc st)
    (hn : aroundNext cs st r = some st') : AroundInv nc st' ∧ nc - 1 - st'.after < nc - 1 - st.after := by
  have shift : ∀ a, indexS st.summary (st.after + 1) = some a →
      AroundInv nc { st with chunkStart := st.chunkStart + cs, before := st.keep, keep := st.after, after := a } ∧
      nc - 1 - a < nc - 1 - st.after := by
    intro a ha
    obtain ⟨s1, s2, -, s4⟩ := indexS_spec _ _ _ ha
    have := h.len
    have := h.an
    exact ⟨⟨h.len, by simp only; omega, by simp only; omega, fun j h1 h2 => s4 j (Nat.succ_le_of_lt h1) h2⟩, by omega⟩
  cases r with
  | none =>
    simp only [aroundNext] at hn
    split at hn
    · rename_i a ha
      simp only [Option.some.injEq] at hn
      subst hn
      exact shift a ha
    · exact absurd hn (by simp)
  | some resp =>
    cases resp with
    | rejected =>
      simp only [aroundNext] at hn
      split at hn
      · rename_i a ha
        simp only [Option.some.injEq] at hn
        subst hn
        exact shift a ha
      · exact absurd hn (by simp)
    | skipped =>
      simp only [aroundNext] at hn
      split at hn
      · rename_i a ha
        simp only [Option.some.injEq] at hn
        subst hn
        exact shift a ha
      · exact absurd hn (by simp)
    | accepted =>
      simp only [aroundNext] at hn
      have hlen : (setDead (setDead st.summary st.before) st.after).length = nc := by
        rw [setDead_length, setDead_length]; exact h.len
      -- in the new summary everything in (keep, after] is dead
      have hdead : ∀ j, st.keep < j → j ≤ st.after → alive (setDead (setDead st.summary st.before) st.after) j = false := by
        intro j h1 h2
        rcases Nat.eq_or_lt_of_le h2 with he | hlt
        · subst he; rw [alive_setDead]; simp
        · exact alive_setDead_false _ _ _ (alive_setDead_false _ _ _ (h.gap j h1 hlt))
      have han := h.an
      have hka := h.ka
      split at hn
      · -- a surviving chunk is left before `keep`
        split at hn
        · rename_i b hb a ha
          simp only [Option.some.injEq] at hn
          subst hn
          obtain ⟨s1, s2, s3, s4⟩ := indexS_spec _ _ _ ha
          have hgt : st.after < a := by
            rcases Nat.lt_or_ge st.after a with hlt | hge
            · exact hlt
            · have := hdead a (by omega) hge
              rw [this] at s3; simp at s3
          exact ⟨⟨hlen, by simp only; omega, by simp only; omega, fun j h1 h2 => s4 j (Nat.succ_le_of_lt h1) h2⟩, by simp only; omega⟩
        · exact absurd hn (by simp)
      · split at hn
        · exact absurd hn (by simp)
        · rename_i k hk
          split at hn
          · rename_i a ha
            simp only [Option.some.injEq] at hn
            subst hn
            obtain ⟨k1, k2, k3, -⟩ := indexS_spec _ _ _ hk
            obtain ⟨s1, s2, -, s4⟩ := indexS_spec _ _ _ ha
            have hgt : st.after < k := by
              rcases Nat.lt_or_ge st.after k with hlt | hge
              · exact hlt
              · have := hdead k (by omega) hge
                rw [this] at k3; simp at k3
            exact ⟨⟨hlen, by simp only; omega, by simp only; omega, fun j h1 h2 => s4 j (Nat.succ_le_of_lt h1) h2⟩, by simp only; omega⟩
          · exact absurd hn (by simp)

theorem divUp_le (n cs : Nat) (hcs : 1 ≤ cs) : Util.divUp n cs ≤ n := by
  unfold Util.divUp
  have hq : n / cs ≤ cs * (n / cs) := Nat.le_mul_of_pos_left _ (by omega)
  have hdm := Nat.div_add_mod n cs
  split
  · omega
  · rename_i hne
    have : 0 < n % cs := Nat.pos_of_ne_zero hne
    omega

/-- one pass: flags untouched, at most `len` tests, the best shrinks when something was accepted -/
structure PassOK (it : It) (r : It × Bool) : Prop where
  fuel : r.1.outOfFuel = it.outOfFuel
  err : r.1.internalError = it.internalError
  tests : r.1.nTests ≤ it.nTests + it.best.len
  shrinks : Shrinks it.best.len r.1 r.2

theorem aroundPass_ok (o : Oracle) (clk : Clock) (stopAt : Option Nat) (cs : Nat) (it : It)
    (h : it.best.WF) (hcs : 1 ≤ cs) : PassOK it (aroundPass o clk stopAt cs it) := by
  unfold aroundPass
  simp only
  split
  · exact ⟨rfl, rfl, Nat.le_add_right _ _, ⟨h, by simp⟩⟩
  · rename_i hnc
    have hnc3 : 3 ≤ Util.divUp it.best.len cs := by omega
    have hdl := divUp_le it.best.len cs hcs
    unfold aroundLoop
    have hinv : AroundInv (Util.divUp it.best.len cs)
        { summary := List.replicate (Util.divUp it.best.len cs) true, chunkStart := cs, before := 0, keep := 1, after := 2 } :=
      ⟨by simp, by simp, by simp only; omega, fun j h1 h2 => by simp only at h1 h2; omega⟩
    obtain ⟨b1, b2, -, b4⟩ := pLoop_bound (aroundDef cs (Util.divUp it.best.len cs)) o clk stopAt
      (AroundInv (Util.divUp it.best.len cs)) (fun st => Util.divUp it.best.len cs - 1 - st.after)
      (fun st _ r st' hI hn => aroundNext_inv cs _ st st' r hI hn)
      (fun st it' _ _ => by simp [aroundDef])
      (2 * Util.divUp it.best.len cs + 2) _ it false hinv (by simp only; omega)
    have hs := pLoop_shrinks (aroundDef cs (Util.divUp it.best.len cs)) o clk stopAt
      (fun st it' c mk hw hg ha => by
        simp only [aroundDef, PAct.propose.injEq] at ha
        obtain ⟨rfl, -⟩ := ha
        exact aroundCand_len cs st it' hw hcs (by simpa [aroundDef] using hg))
      it.best.len (2 * Util.divUp it.best.len cs + 2)
      { summary := List.replicate (Util.divUp it.best.len cs) true, chunkStart := cs, before := 0, keep := 1, after := 2 }
      it false ⟨h, by simp⟩
    exact ⟨b1, b2, by simp only at b4; omega, hs⟩

/-! ### minimize-balanced: the pass -/

structure BalInv (cs nc : Nat) (st : BalSt) : Prop where
  len : st.summary.length = nc
  ln : st.lhs < nc
  live : alive st.summary st.lhs = true
  start : countS st.summary 0 st.lhs * cs = st.chunkStart

theorem findRhs_ge (summary : List Bool) (curly square normal : List Int) (l : List Bool) (rhs : Nat)
    (bal : Int × Int × Int) : rhs ≤ (findRhs summary curly square normal l rhs bal).1 := by
  induction l generalizing rhs bal with
  | nil => simp [findRhs]
  | cons x xs ih =>
    unfold findRhs
    simp only
    split
    · exact Nat.le_trans (Nat.le_succ _) (ih _ _)
    · split
      · exact Nat.le_succ _
      · split
        · exact Nat.le_succ _
        · exact Nat.le_trans (Nat.le_succ _) (ih _ _)

theorem balShift_inv (cs nc : Nat) (st st' : BalSt) (h : BalInv cs nc st) (hn : balShift cs st = some st') :
    BalInv cs nc st' ∧ nc - 1 - st'.lhs < nc - 1 - st.lhs := by
  unfold balShift at hn
  split at hn
  · rename_i l hl
    simp only [Option.some.injEq] at hn
    subst hn
    obtain ⟨s1, s2, s3, s4⟩ := indexS_spec _ _ _ hl
    have hlen := h.len
    refine ⟨⟨h.len, by simp only; omega, s3, ?_⟩, by simp only; omega⟩
    simp only
    rw [countS_split st.summary 0 st.lhs l (Nat.zero_le _) (by omega),
      countS_split st.summary st.lhs (st.lhs + 1) l (by omega) (by omega),
      countS_single, h.live, countS_dead st.summary (st.lhs + 1) l s4, ← h.start]
    simp only [if_true, Nat.add_zero, Nat.add_mul, Nat.one_mul]
  · exact absurd hn (by simp)

theorem balNext_inv (cs nc : Nat) (curly square normal : List Int) (st st' : BalSt) (r : Option Resp)
    (h : BalInv cs nc st) (hn : balNext cs curly square normal st r = some st') :
    BalInv cs nc st' ∧ nc - 1 - st'.lhs < nc - 1 - st.lhs := by
  cases r with
  | none => exact balShift_inv cs nc st st' h (by simpa [balNext] using hn)
  | some resp =>
    cases resp with
    | rejected => exact balShift_inv cs nc st st' h (by simpa [balNext] using hn)
    | skipped => exact balShift_inv cs nc st st' h (by simpa [balNext] using hn)
    | accepted =>
      simp only [balNext] at hn
      -- both possible new summaries agree with the old one below `lhs` and are dead at `lhs`
      have key : ∀ s' : List Bool, s'.length = nc → (∀ j, j < st.lhs → alive s' j = alive st.summary j) →
          alive s' st.lhs = false →
          ∀ l, indexS s' (st.lhs + 1) = some l →
            BalInv cs nc { st with summary := s', lhs := l } ∧ nc - 1 - l < nc - 1 - st.lhs := by
        intro s' hlen hlow hdead l hl
        obtain ⟨s1, s2, s3, s4⟩ := indexS_spec _ _ _ hl
        refine ⟨⟨hlen, by simp only; omega, s3, ?_⟩, by omega⟩
        simp only
        rw [countS_split s' 0 st.lhs l (Nat.zero_le _) (by omega),
          countS_split s' st.lhs (st.lhs + 1) l (by omega) (by omega),
          countS_single, hdead, countS_dead s' (st.lhs + 1) l s4, ← h.start]
        have : countS s' 0 st.lhs = countS st.summary 0 st.lhs :=
          countFrom_congr _ _ 0 0 st.lhs (by rw [hlen, h.len])
            (fun j _ _ h3 => by simpa using hlow j h3)
        rw [this]
        simp
      by_cases hz : balZero (balOf curly square normal st.lhs) = true
      · rw [if_pos hz] at hn
        split at hn
        · rename_i l hl
          simp only [Option.some.injEq] at hn
          subst hn
          exact key _ (by rw [setDead_length]; exact h.len)
            (fun j hj => by rw [alive_setDead]; simp [Nat.ne_of_gt hj])
            (by rw [alive_setDead]; simp) l hl
        · exact absurd hn (by simp)
      · rw [if_neg hz] at hn
        split at hn
        · rename_i l hl
          simp only [Option.some.injEq] at hn
          subst hn
          have hge := findRhs_ge st.summary curly square normal (st.summary.drop (st.lhs + 1)) st.lhs
            (balOf curly square normal st.lhs)
          exact key _ (by rw [setDead_length, setDead_length]; exact h.len)
            (fun j hj => by
              rw [alive_setDead, alive_setDead]
              have h1 : (balRhs curly square normal st).1 ≠ j := by unfold balRhs; omega
              have h2 : st.lhs ≠ j := by omega
              simp [h1, h2])
            (by
              rw [alive_setDead]
              split
              · rfl
              · rw [alive_setDead]; simp) l hl
        · exact absurd hn (by simp)

theorem balPass_ok (o : Oracle) (clk : Clock) (stopAt : Option Nat) (cs : Nat) (it : It)
    (h : it.best.WF) (hcs : 1 ≤ cs) : PassOK it (balPass o clk stopAt cs it) := by
  unfold balPass
  simp only
  split
  · exact ⟨rfl, rfl, Nat.le_add_right _ _, ⟨h, by simp⟩⟩
  · rename_i hnc
    have hnc2 : 2 ≤ Util.divUp it.best.len cs := by omega
    have hdl := divUp_le it.best.len cs hcs
    unfold balLoop
    generalize hcu : (List.range (Util.divUp it.best.len cs)).map (fun i => countDiff it.best.parts i 0x7B 0x7D) = curly
    generalize hsq : (List.range (Util.divUp it.best.len cs)).map (fun i => countDiff it.best.parts i 0x5B 0x5D) = square
    generalize hno : (List.range (Util.divUp it.best.len cs)).map (fun i => countDiff it.best.parts i 0x28 0x29) = normal
    have hinv : BalInv cs (Util.divUp it.best.len cs)
        { summary := List.replicate (Util.divUp it.best.len cs) true, chunkStart := 0, lhs := 0 } := by
      refine ⟨by simp, by simp only; omega, ?_, ?_⟩
      · simp only [alive]
        rw [List.getD_eq_getElem?_getD, List.getElem?_replicate, if_pos (by omega)]
        rfl
      · simp [countS_self]
    obtain ⟨b1, b2, -, b4⟩ := pLoop_bound (balDef cs (Util.divUp it.best.len cs) curly square normal) o clk stopAt
      (BalInv cs (Util.divUp it.best.len cs)) (fun st => Util.divUp it.best.len cs - 1 - st.lhs)
      (fun st _ r st' hI hn => balNext_inv cs _ curly square normal st st' r hI hn)
      (fun st it' hI _ => by
        simp only [balDef, balAct]
        rw [if_neg (by simp [hI.start])]
        split
        · simp
        · split <;> simp)
      (2 * Util.divUp it.best.len cs + 2) _ it false hinv (by simp only; omega)
    have hs := pLoop_shrinks (balDef cs (Util.divUp it.best.len cs) curly square normal) o clk stopAt
      (fun st it' c mk hw hg ha => by
        have hg' : st.chunkStart < it'.best.len := by simpa [balDef] using hg
        simp only [balDef, balAct] at ha
        split at ha
        · exact absurd ha (by simp)
        · split at ha
          · simp only [PAct.propose.injEq] at ha
            obtain ⟨rfl, -⟩ := ha
            exact balCand1_len cs st it' hw hcs hg'
          · split at ha
            · exact absurd ha (by simp)
            · simp only [PAct.propose.injEq] at ha
              obtain ⟨rfl, -⟩ := ha
              exact balCand2_len cs st it' _ hw hcs hg')
      it.best.len (2 * Util.divUp it.best.len cs + 2)
      { summary := List.replicate (Util.divUp it.best.len cs) true, chunkStart := 0, lhs := 0 } it false ⟨h, by simp⟩
    exact ⟨b1, b2, by simp only at b4; omega, hs⟩

/-! ### the outer loop -/

theorem pairsOuter_bound (cfg : Cfg) (clk : Clock) (stopAt : Option Nat) (pass : Nat → It → It × Bool)
    (final n0 : Nat) (hfinal : 1 ≤ final)
    (hpass : ∀ cs it, it.best.WF → 1 ≤ cs → PassOK it (pass cs it)) :
    ∀ (fuel cs : Nat) (it : It), it.best.WF → 1 ≤ cs → it.best.len ≤ n0 →
      it.outOfFuel = false → it.internalError = false → it.best.len + Nat.log2 cs < fuel →
      (pairsOuter cfg clk stopAt pass final fuel cs it).outOfFuel = false ∧
      (pairsOuter cfg clk stopAt pass final fuel cs it).internalError = false ∧
      (pairsOuter cfg clk stopAt pass final fuel cs it).nTests
        ≤ it.nTests + (it.best.len + Nat.log2 cs + 1) * n0 := by
  intro fuel
  induction fuel with
  | zero => intro cs it _ _ _ _ _ h; omega
  | succ f ih =>
    intro cs it hw hcs hn0 hf he hfuel
    obtain ⟨p1, p2, p3, p4w, p4⟩ := hpass cs it hw hcs
    have hmul : (it.best.len + Nat.log2 cs + 1) * n0 = (it.best.len + Nat.log2 cs) * n0 + n0 := Nat.succ_mul _ _
    unfold pairsOuter
    simp only
    have hflag : ((pass cs it).1.outOfFuel || (pass cs it).1.internalError) = false := by
      rw [p1, p2, hf, he]; rfl
    rw [if_neg (by simp [hflag])]
    split
    · exact ⟨by rw [p1, hf], by rw [p2, he], by simp only; omega⟩
    · split
      · -- repeat at the same chunk size: something was accepted, so the testcase is shorter
        rename_i hrep
        have hany : (pass cs it).2 = true := by
          cases hp : (pass cs it).2 with
          | true => rfl
          | false => rw [hp] at hrep; simp at hrep
        rw [hany] at p4
        simp only [if_true] at p4
        obtain ⟨i1, i2, i3⟩ := ih cs (pass cs it).1 p4w hcs (by omega) (by rw [p1, hf]) (by rw [p2, he]) (by omega)
        refine ⟨i1, i2, ?_⟩
        have : ((pass cs it).1.best.len + Nat.log2 cs + 1) * n0 ≤ (it.best.len + Nat.log2 cs) * n0 :=
          Nat.mul_le_mul_right _ (by omega)
        omega
      · split
        · exact ⟨by rw [p1, hf], by rw [p2, he], by omega⟩
        · -- halve: cs > final ≥ 1
          rename_i hlast
          have hcs2 : 2 ≤ cs := by
            have : ¬ cs ≤ final := by simpa using hlast
            omega
          have hlog : Nat.log2 (cs / 2) + 1 = Nat.log2 cs := by
            have := Nat.log2_def cs
            rw [if_pos hcs2] at this
            omega
          have hle : (pass cs it).1.best.len ≤ it.best.len := by
            have := p4; split at this <;> omega
          obtain ⟨i1, i2, i3⟩ := ih (cs / 2) (pass cs it).1 p4w (by omega) (by omega) (by rw [p1, hf]) (by rw [p2, he]) (by omega)
          refine ⟨i1, i2, ?_⟩
          have : ((pass cs it).1.best.len + Nat.log2 (cs / 2) + 1) * n0 ≤ (it.best.len + Nat.log2 cs) * n0 :=
            Nat.mul_le_mul_right _ (by omega)
          omega

end Strat
