/-
The `--min` clause of C14: the chunk size of minimize falls below `--min` only once at most
`--min` atoms remain.
-/
import LithiumProofs.MinimizeLog

namespace Strat
open Testcase

/-- halving from a power of two above `M = 2^j` either stops at a size ≥ `M` or skipped `M` because
at most `M` atoms remain -/
theorem halveBelow_min (j : Nat) : ∀ (f k n : Nat), j < k →
    2 ^ j ≤ halveBelow f (2 ^ k) n ∨ n ≤ 2 ^ j := by
  intro f
  induction f with
  | zero =>
    intro k n hk
    left
    simp only [halveBelow]
    exact Nat.pow_le_pow_right (by omega) (by omega)
  | succ f ih =>
    intro k n hk
    unfold halveBelow
    have hk1 : 1 < 2 ^ k := Nat.one_lt_two_pow (by omega)
    rw [if_pos hk1]
    have hhalf : 2 ^ k / 2 = 2 ^ (k - 1) := by
      have : k = (k - 1) + 1 := by omega
      rw [this, Nat.pow_succ]; simp
    simp only [hhalf]
    by_cases hlt : 2 ^ (k - 1) < n
    · rw [if_pos hlt]
      left
      exact Nat.pow_le_pow_right (by omega) (by omega)
    · rw [if_neg hlt]
      rcases Nat.lt_or_ge j (k - 1) with h | h
      · exact ih (k - 1) n h
      · have : k - 1 = j := by omega
        rw [this] at hlt
        right; omega

/-- the chunk size in force is at least `M`, or at most `M` atoms remain -/
def MinOK (M : Nat) (cs len : Nat) : Prop := M ≤ cs ∨ len ≤ M

structure JInv (M : Nat) (st : MinSt) (it : It) : Prop where
  now : MinOK M st.chunkSize it.best.len
  mc : M ≤ st.minChunk ∨ it.best.len ≤ M
  pow : ∃ k, st.chunkSize = 2 ^ k
  atts : ∀ a ∈ it.atts, MinOK M a.size a.bestLen

theorem jinv_round (cfg : Cfg) (clk : Clock) (stopAt : Option Nat) (j : Nat) (st st' : MinSt) (it : It)
    (h : JInv (2 ^ j) st it) (hr : roundPhase cfg clk stopAt id st it = .inr (st', it)) :
    JInv (2 ^ j) st' it := by
  obtain ⟨-, -, hc⟩ := roundPhase_inr cfg clk stopAt st st' it it hr
  rcases hc with ⟨rfl, -⟩ | ⟨-, -, hrd⟩
  · exact h
  · obtain ⟨k, hk⟩ := h.pow
    unfold roundDecision at hrd
    split at hrd
    · split at hrd
      · injection hrd with hrd; subst hrd; exact ⟨h.now, h.mc, h.pow, h.atts⟩
      · exact absurd hrd (by simp)
    · rename_i hgt
      split at hrd
      · injection hrd with hrd; subst hrd; exact ⟨h.now, h.mc, h.pow, h.atts⟩
      · injection hrd with hrd; subst hrd
        refine ⟨?_, h.mc, ?_, h.atts⟩
        · show MinOK (2 ^ j) (halveBelow st.chunkSize st.chunkSize it.best.len) it.best.len
          rcases h.mc with hm | hm
          · -- 2^j ≤ minChunk < chunkSize = 2^k, so j < k
            have hlt : 2 ^ j < 2 ^ k := by rw [← hk]; omega
            have hjk : j < k := (Nat.pow_lt_pow_iff_right (by omega)).mp hlt
            rw [hk]
            exact halveBelow_min j _ k _ hjk
          · exact Or.inr hm
        · show ∃ k', halveBelow st.chunkSize st.chunkSize it.best.len = 2 ^ k'
          rw [hk]
          obtain ⟨j', hj', -⟩ := halveBelow_pow2 (2 ^ k) k it.best.len
          exact ⟨j', hj'⟩

theorem jinv_attempt (o : Oracle) (M n0 : Nat) (st : MinSt) (it : It) (ha : AInv n0 st it)
    (h : JInv M st it) : JInv M (attempt o st it).1 (attempt o st it).2 := by
  have hce := ha.ce
  have hce1 := ha.ce1
  have hs0 : (0 : Int) ≤ max 0 (st.chunkEnd - st.chunkSize) := by omega
  have hse : max 0 (st.chunkEnd - (st.chunkSize : Int)) ≤ st.chunkEnd := by omega
  obtain ⟨-, -, -, -, c5⟩ := rmslice_int it.best ha.wf _ _ hs0 hse hce
  obtain ⟨-, -, -, f4⟩ := try_flags it o (it.best.rmslice (max 0 (st.chunkEnd - st.chunkSize)) st.chunkEnd)
    (fun r => { tag := 0, lo := (max 0 (st.chunkEnd - (st.chunkSize : Int))).toNat, hi := st.chunkEnd.toNat,
                size := st.chunkSize, bestLen := it.best.len, base := it.best, tIdx := it.nTests,
                cand := it.best.rmslice (max 0 (st.chunkEnd - st.chunkSize)) st.chunkEnd, resp := r })
  have hspec := try_spec it o (it.best.rmslice (max 0 (st.chunkEnd - st.chunkSize)) st.chunkEnd)
    (fun r => { tag := 0, lo := (max 0 (st.chunkEnd - (st.chunkSize : Int))).toNat, hi := st.chunkEnd.toNat,
                size := st.chunkSize, bestLen := it.best.len, base := it.best, tIdx := it.nTests,
                cand := it.best.rmslice (max 0 (st.chunkEnd - st.chunkSize)) st.chunkEnd, resp := r })
  unfold attempt
  simp only
  generalize hT : It.try it o (it.best.rmslice (max 0 (st.chunkEnd - st.chunkSize)) st.chunkEnd)
    (fun r => { tag := 0, lo := (max 0 (st.chunkEnd - (st.chunkSize : Int))).toNat, hi := st.chunkEnd.toNat,
                size := st.chunkSize, bestLen := it.best.len, base := it.best, tIdx := it.nTests,
                cand := it.best.rmslice (max 0 (st.chunkEnd - st.chunkSize)) st.chunkEnd, resp := r }) = T at *
  obtain ⟨r, it2⟩ := T
  simp only at hspec f4
  have hatts : ∀ a ∈ it2.atts, MinOK M a.size a.bestLen := by
    intro a ha'
    rw [f4] at ha'
    simp only [List.mem_cons] at ha'
    rcases ha' with rfl | ha'
    · exact h.now
    · exact h.atts a ha'
  have hlen : it2.best.len ≤ it.best.len := by
    rcases hspec with ⟨-, -, hb, -, -⟩ | ⟨-, -, -, hb, -, -⟩ | ⟨-, -, -, hb, -, -⟩
    · rw [hb]; exact Nat.le_refl _
    · rw [hb, c5]; omega
    · rw [hb]; exact Nat.le_refl _
  have hnow : MinOK M st.chunkSize it2.best.len := by
    rcases h.now with h1 | h1
    · exact Or.inl h1
    · exact Or.inr (by omega)
  have hmc : M ≤ st.minChunk ∨ it2.best.len ≤ M := by
    rcases h.mc with h1 | h1
    · exact Or.inl h1
    · exact Or.inr (by omega)
  cases r <;> exact ⟨hnow, hmc, h.pow, hatts⟩

end Strat
