/-
The minimize loop: termination measure, test bound, shape of the proposals (C03, C04, C09, C14).
-/
import LithiumModel.Minimize
import LithiumProofs.Rmslice

namespace Strat
open Testcase

/-! ### the iterator -/

theorem try_spec (it : It) (o : Oracle) (c : Testcase) (mk : Resp → Att) :
    ((it.try o c mk).1 = .skipped ∧ it.tried.contains c.content = true ∧
        (it.try o c mk).2.best = it.best ∧ (it.try o c mk).2.nTests = it.nTests ∧
        (it.try o c mk).2.tried = it.tried) ∨
    ((it.try o c mk).1 = .accepted ∧ it.tried.contains c.content = false ∧
        o it.nTests c.content = true ∧
        (it.try o c mk).2.best = c ∧ (it.try o c mk).2.nTests = it.nTests + 1 ∧
        (it.try o c mk).2.tried = c.content :: it.tried) ∨
    ((it.try o c mk).1 = .rejected ∧ it.tried.contains c.content = false ∧
        o it.nTests c.content = false ∧
        (it.try o c mk).2.best = it.best ∧ (it.try o c mk).2.nTests = it.nTests + 1 ∧
        (it.try o c mk).2.tried = c.content :: it.tried) := by
  unfold It.try
  by_cases h : it.tried.contains c.content = true
  · left; simp only [h, if_true]; simp
  · have h' : it.tried.contains c.content = false := by simpa using h
    by_cases hv : o it.nTests c.content = true
    · right; left; simp only [h', hv, Bool.false_eq_true, if_false, if_true]; simp
    · have hv' : o it.nTests c.content = false := by simpa using hv
      right; right; simp only [h', hv', Bool.false_eq_true, if_false]; simp

theorem try_flags (it : It) (o : Oracle) (c : Testcase) (mk : Resp → Att) :
    (it.try o c mk).2.outOfFuel = it.outOfFuel ∧ (it.try o c mk).2.internalError = it.internalError ∧
    (it.try o c mk).2.deadlineStop = it.deadlineStop ∧
    (it.try o c mk).2.atts = mk (it.try o c mk).1 :: it.atts := by
  unfold It.try
  by_cases h : it.tried.contains c.content = true
  · simp only [h, if_true]; simp
  · have h' : it.tried.contains c.content = false := by simpa using h
    by_cases hv : o it.nTests c.content = true
    · simp only [h', hv, Bool.false_eq_true, if_false, if_true]; simp
    · have hv' : o it.nTests c.content = false := by simpa using hv
      simp only [h', hv', Bool.false_eq_true, if_false]; simp

/-! ### halving -/

theorem halveBelow_spec (f cs n : Nat) (hf : 1 ≤ f) (hcs : 2 ≤ cs) :
    1 ≤ halveBelow f cs n ∧ halveBelow f cs n ≤ cs / 2 := by
  induction f generalizing cs with
  | zero => omega
  | succ f ih =>
    unfold halveBelow
    rw [if_pos (by omega)]
    simp only
    split
    · omega
    · by_cases h2 : 2 ≤ cs / 2
      · by_cases hf0 : 1 ≤ f
        · have := ih (cs / 2) hf0 h2
          omega
        · have : f = 0 := by omega
          subst this
          simp [halveBelow]; omega
      · -- cs / 2 = 1: the inner loop stops
        have h1 : cs / 2 = 1 := by omega
        cases f with
        | zero => simp [halveBelow, h1]
        | succ f' => simp [halveBelow, h1]

theorem log2_mono {a b : Nat} (ha : a ≠ 0) (hab : a ≤ b) : Nat.log2 a ≤ Nat.log2 b := by
  have hb : b ≠ 0 := by omega
  rw [Nat.le_log2 hb]
  exact Nat.le_trans (Nat.log2_self_le ha) hab

theorem log2_half (cs r : Nat) (hcs : 2 ≤ cs) (h1 : 1 ≤ r) (hr : r ≤ cs / 2) :
    Nat.log2 r + 1 ≤ Nat.log2 cs := by
  have := log2_mono (by omega : r ≠ 0) hr
  have h2 := Nat.log2_def cs
  rw [if_pos hcs] at h2
  omega

/-! ### the termination measure -/

/-- what holds at the top of every iteration (`n0` = number of reducible atoms at the start) -/
structure MInv (n0 : Nat) (st : MinSt) (it : It) : Prop where
  wf : it.best.WF
  cs : 1 ≤ st.chunkSize
  mc : 1 ≤ st.minChunk
  ce : st.chunkEnd ≤ (it.best.len : Int)
  len : it.best.len ≤ n0

/-- what holds when a candidate is about to be built -/
structure AInv (n0 : Nat) (st : MinSt) (it : It) : Prop extends MInv n0 st it where
  ce1 : 1 ≤ st.chunkEnd
  edge : st.chunkEnd - (st.chunkSize : Int) < 0 → st.chunkEnd = (it.best.len : Int)

def phi (n0 : Nat) (st : MinSt) (it : It) : Nat :=
  (it.best.len + Nat.log2 st.chunkSize + (if st.removed then 1 else 0)) * (n0 + 1) + st.chunkEnd.toNat

theorem roundDecision_spec (cfg : Cfg) (st st' : MinSt) (n : Nat) (hcs : 1 ≤ st.chunkSize) (hmc : 1 ≤ st.minChunk)
    (h : roundDecision cfg st n = some st') :
    st'.chunkEnd = n ∧ st'.removed = false ∧ 1 ≤ st'.chunkSize ∧ st'.minChunk = st.minChunk ∧
    ((st'.chunkSize = st.chunkSize ∧ st.removed = true) ∨
      Nat.log2 st'.chunkSize + 1 ≤ Nat.log2 st.chunkSize) := by
  unfold roundDecision at h
  split at h
  · split at h
    · rename_i hr
      injection h with h; subst h
      simp only [Bool.and_eq_true] at hr
      exact ⟨rfl, rfl, hcs, rfl, Or.inl ⟨rfl, hr.1⟩⟩
    · exact absurd h (by simp)
  · rename_i hgt
    split at h
    · rename_i hr
      injection h with h; subst h
      simp only [Bool.and_eq_true] at hr
      exact ⟨rfl, rfl, hcs, rfl, Or.inl ⟨rfl, hr.1.1⟩⟩
    · injection h with h; subst h
      have h2 : 2 ≤ st.chunkSize := by
        have : st.minChunk < st.chunkSize := by omega
        omega
      obtain ⟨a, b⟩ := halveBelow_spec st.chunkSize st.chunkSize n (by omega) h2
      exact ⟨rfl, rfl, a, rfl, Or.inr (log2_half _ _ h2 a b)⟩

/-- first half of an iteration, for `postRound = id` -/
theorem roundPhase_spec (cfg : Cfg) (clk : Clock) (stopAt : Option Nat) (n0 : Nat) (st : MinSt) (it : It)
    (h : MInv n0 st it) :
    (∀ it', roundPhase cfg clk stopAt id st it = .inl it' →
      it'.best = it.best ∧ it'.nTests = it.nTests ∧ it'.outOfFuel = it.outOfFuel ∧
      it'.internalError = it.internalError ∧ it'.atts = it.atts ∧ it'.tried = it.tried) ∧
    (∀ st' it', roundPhase cfg clk stopAt id st it = .inr (st', it') →
      it' = it ∧ AInv n0 st' it ∧ phi n0 st' it ≤ phi n0 st it ∧ st'.minChunk = st.minChunk) := by
  unfold roundPhase
  by_cases hd : deadlinePassed stopAt clk it = true
  · simp only [hd, if_true]
    exact ⟨by intro it' h'; injection h' with h'; subst h'; simp, by intro _ _ h'; simp at h'⟩
  · simp only [hd, Bool.false_eq_true, if_false]
    by_cases hre : st.chunkEnd - (st.chunkSize : Int) < 0
    · simp only [hre, decide_true, if_true]
      by_cases h0 : (it.best.len == 0) = true
      · simp only [h0, if_true]
        exact ⟨by intro it' h'; injection h' with h'; subst h'; simp, by intro _ _ h'; simp at h'⟩
      · simp only [h0, Bool.false_eq_true, if_false, id]
        have hlen : it.best.len ≠ 0 := by simpa using h0
        cases hrd : roundDecision cfg st it.best.len with
        | none =>
          simp only
          exact ⟨by intro it' h'; injection h' with h'; subst h'; simp, by intro _ _ h'; simp at h'⟩
        | some st1 =>
          simp only
          refine ⟨by intro _ h'; simp at h', ?_⟩
          intro st' it' h'
          injection h' with h'; injection h' with h1 h2
          subst h1; subst h2
          obtain ⟨e1, e2, e3, e4, e5⟩ := roundDecision_spec cfg st st1 it.best.len h.cs h.mc hrd
          refine ⟨rfl, ⟨⟨h.wf, e3, by rw [e4]; exact h.mc, by rw [e1]; exact Int.le_refl _, h.len⟩, by rw [e1]; omega, fun _ => e1⟩, ?_, e4⟩
          -- the measure does not grow over a round end
          unfold phi
          rw [e1, e2]
          simp only [Bool.false_eq_true, if_false, Nat.add_zero, Int.toNat_natCast]
          have hl := h.len
          rcases e5 with ⟨e5, e6⟩ | e5
          · rw [e5, e6]
            simp only [if_true]
            have : (it.best.len + Nat.log2 st.chunkSize + 1) * (n0 + 1)
                = (it.best.len + Nat.log2 st.chunkSize) * (n0 + 1) + (n0 + 1) := Nat.succ_mul _ _
            omega
          · have h1 : (it.best.len + Nat.log2 st1.chunkSize + 1) * (n0 + 1)
                ≤ (it.best.len + Nat.log2 st.chunkSize + (if st.removed then 1 else 0)) * (n0 + 1) :=
              Nat.mul_le_mul_right _ (by split <;> omega)
            have : (it.best.len + Nat.log2 st1.chunkSize + 1) * (n0 + 1)
                = (it.best.len + Nat.log2 st1.chunkSize) * (n0 + 1) + (n0 + 1) := Nat.succ_mul _ _
            omega
    · simp only [hre, decide_false, Bool.false_eq_true, if_false]
      refine ⟨by intro _ h'; simp at h', ?_⟩
      intro st' it' h'
      injection h' with h'; injection h' with h1 h2
      subst h1; subst h2
      exact ⟨rfl, ⟨h, by have := h.cs; omega, fun hneg => absurd hneg hre⟩, Nat.le_refl _, rfl⟩

/-- when the first half continues, it either left the state alone (not a round end, and then
`chunk_end - chunk_size ≥ 0`) or applied the round decision to the unchanged iterator -/
theorem roundPhase_inr (cfg : Cfg) (clk : Clock) (stopAt : Option Nat) (st st' : MinSt) (it it' : It)
    (hr : roundPhase cfg clk stopAt id st it = .inr (st', it')) :
    it' = it ∧ deadlinePassed stopAt clk it = false ∧
    ((st' = st ∧ ¬ (st.chunkEnd - (st.chunkSize : Int) < 0)) ∨
     (st.chunkEnd - (st.chunkSize : Int) < 0 ∧ it.best.len ≠ 0 ∧ roundDecision cfg st it.best.len = some st')) := by
  unfold roundPhase at hr
  by_cases hd : deadlinePassed stopAt clk it = true
  · simp [hd] at hr
  · have hd' : deadlinePassed stopAt clk it = false := by simpa using hd
    simp only [hd, Bool.false_eq_true, if_false] at hr
    by_cases hre : st.chunkEnd - (st.chunkSize : Int) < 0
    · simp only [hre, decide_true, if_true] at hr
      by_cases h0 : (it.best.len == 0) = true
      · simp [h0] at hr
      · simp only [h0, Bool.false_eq_true, if_false, id] at hr
        have hlen : it.best.len ≠ 0 := by simpa using h0
        cases hrd : roundDecision cfg st it.best.len with
        | none => rw [hrd] at hr; simp at hr
        | some st1 =>
          rw [hrd] at hr
          simp only [Sum.inr.injEq, Prod.mk.injEq] at hr
          obtain ⟨h1, h2⟩ := hr
          subst h1; subst h2
          exact ⟨rfl, hd', Or.inr ⟨hre, hlen, rfl⟩⟩
    · simp only [hre, decide_false, Bool.false_eq_true, if_false, Sum.inr.injEq, Prod.mk.injEq] at hr
      obtain ⟨h1, h2⟩ := hr
      subst h1; subst h2
      exact ⟨rfl, hd', Or.inl ⟨rfl, hre⟩⟩

/-- second half of an iteration -/
theorem attempt_spec (o : Oracle) (n0 : Nat) (st : MinSt) (it : It) (h : AInv n0 st it) :
    MInv n0 (attempt o st it).1 (attempt o st it).2 ∧
    phi n0 (attempt o st it).1 (attempt o st it).2 + 1 ≤ phi n0 st it ∧
    (attempt o st it).2.nTests ≤ it.nTests + 1 ∧
    (attempt o st it).2.outOfFuel = it.outOfFuel ∧
    (attempt o st it).2.internalError = it.internalError ∧
    (attempt o st it).1.minChunk = st.minChunk ∧ 1 ≤ (attempt o st it).1.chunkSize := by
  have hcs := h.cs
  have hmc := h.mc
  have hce := h.ce
  have hce1 := h.ce1
  have hlen := h.len
  -- the block [s, e)
  have hs0 : (0 : Int) ≤ max 0 (st.chunkEnd - st.chunkSize) := by omega
  have hse : max 0 (st.chunkEnd - (st.chunkSize : Int)) ≤ st.chunkEnd := by omega
  obtain ⟨c1, -, -, -, c5⟩ := rmslice_int it.best h.wf _ _ hs0 hse hce
  obtain ⟨f1, f2, -, -⟩ := try_flags it o (it.best.rmslice (max 0 (st.chunkEnd - st.chunkSize)) st.chunkEnd)
    (fun r => { tag := 0, lo := (max 0 (st.chunkEnd - (st.chunkSize : Int))).toNat, hi := st.chunkEnd.toNat,
                size := st.chunkSize, bestLen := it.best.len, base := it.best, tIdx := it.nTests,
                cand := it.best.rmslice (max 0 (st.chunkEnd - st.chunkSize)) st.chunkEnd, resp := r })
  have hspec := try_spec it o (it.best.rmslice (max 0 (st.chunkEnd - st.chunkSize)) st.chunkEnd)
    (fun r => { tag := 0, lo := (max 0 (st.chunkEnd - (st.chunkSize : Int))).toNat, hi := st.chunkEnd.toNat,
                size := st.chunkSize, bestLen := it.best.len, base := it.best, tIdx := it.nTests,
                cand := it.best.rmslice (max 0 (st.chunkEnd - st.chunkSize)) st.chunkEnd, resp := r })
  unfold attempt
  simp only
  generalize hT : It.try it o (it.best.rmslice (max 0 (st.chunkEnd - st.chunkSize)) st.chunkEnd)
    (fun r => { tag := 0, lo := (max 0 (st.chunkEnd - (st.chunkSize : Int))).toNat, hi := st.chunkEnd.toNat,
                size := st.chunkSize, bestLen := it.best.len, base := it.best, tIdx := it.nTests,
                cand := it.best.rmslice (max 0 (st.chunkEnd - st.chunkSize)) st.chunkEnd, resp := r }) = T at *
  obtain ⟨r, it2⟩ := T
  simp only at hspec f1 f2
  rcases hspec with ⟨hr, -, hb, hn, -⟩ | ⟨hr, -, -, hb, hn, -⟩ | ⟨hr, -, -, hb, hn, -⟩
  · -- skipped: like a rejection, without a test
    subst hr
    simp only
    refine ⟨⟨by rw [hb]; exact h.wf, hcs, hmc, by rw [hb]; dsimp only; split <;> omega, by rw [hb]; exact hlen⟩, ?_, by omega, f1, f2,
      by first | rfl | trivial, hcs⟩
    unfold phi
    rw [hb]
    dsimp only
    have : (st.chunkEnd - (if st.chunkSize ≤ 2 then (1 : Int) else (st.chunkSize : Int))).toNat + 1 ≤ st.chunkEnd.toNat := by
      split <;> omega
    omega
  · -- accepted
    subst hr
    simp only
    have hlen' : it2.best.len = it.best.len - (st.chunkEnd.toNat - (max 0 (st.chunkEnd - (st.chunkSize : Int))).toNat) := by
      rw [hb]; exact c5
    refine ⟨⟨by rw [hb]; exact c1, hcs, hmc, by rw [hlen']; dsimp only; omega, by rw [hlen']; omega⟩, ?_, by omega, f1, f2,
      by first | rfl | trivial, hcs⟩
    unfold phi
    dsimp only
    simp only [if_true]
    have hdrop : it2.best.len + 1 ≤ it.best.len := by rw [hlen']; omega
    have h1 : (it2.best.len + Nat.log2 st.chunkSize + 1) * (n0 + 1)
        ≤ (it.best.len + Nat.log2 st.chunkSize + (if st.removed then 1 else 0)) * (n0 + 1) :=
      Nat.mul_le_mul_right _ (by split <;> omega)
    have : (max 0 (st.chunkEnd - (st.chunkSize : Int))).toNat + 1 ≤ st.chunkEnd.toNat := by omega
    omega
  · -- rejected
    subst hr
    simp only
    refine ⟨⟨by rw [hb]; exact h.wf, hcs, hmc, by rw [hb]; dsimp only; split <;> omega, by rw [hb]; exact hlen⟩, ?_, by omega, f1, f2,
      by first | rfl | trivial, hcs⟩
    unfold phi
    rw [hb]
    dsimp only
    have : (st.chunkEnd - (if st.chunkSize ≤ 2 then (1 : Int) else (st.chunkSize : Int))).toNat + 1 ≤ st.chunkEnd.toNat := by
      split <;> omega
    omega

/-- the loop never runs out of fuel when given more than the measure, makes at most `phi`
tests and never flags an internal error -/
theorem minLoop_bound (cfg : Cfg) (o : Oracle) (clk : Clock) (stopAt : Option Nat) (n0 : Nat) :
    ∀ (fuel : Nat) (st : MinSt) (it : It), MInv n0 st it → phi n0 st it < fuel →
      (minLoop cfg o clk stopAt id fuel st it).outOfFuel = it.outOfFuel ∧
      (minLoop cfg o clk stopAt id fuel st it).internalError = it.internalError ∧
      (minLoop cfg o clk stopAt id fuel st it).nTests ≤ it.nTests + phi n0 st it := by
  intro fuel
  induction fuel with
  | zero => intro st it _ h; omega
  | succ f ih =>
    intro st it hinv hphi
    unfold minLoop minStep
    obtain ⟨r1, r2⟩ := roundPhase_spec cfg clk stopAt n0 st it hinv
    cases hrp : roundPhase cfg clk stopAt id st it with
    | inl it' =>
      obtain ⟨-, e2, e3, e4, -, -⟩ := r1 it' hrp
      simp only
      exact ⟨e3, e4, by omega⟩
    | inr p =>
      obtain ⟨st1, it1⟩ := p
      obtain ⟨e1, e2, e3, -⟩ := r2 st1 it1 hrp
      subst e1
      simp only
      obtain ⟨a1, a2, a3, a4, a5, -, -⟩ := attempt_spec o n0 st1 it1 e2
      obtain ⟨b1, b2, b3⟩ := ih _ _ a1 (by omega)
      exact ⟨by rw [b1, a4], by rw [b2, a5], by omega⟩

/-- every invariant of the two half-iterations (`P` at the top of an iteration, `P'` between the
round phase and the attempt) holds of some loop state that agrees with the final result on
everything observable (fuel exhaustion included: it only sets a flag) -/
theorem minLoop_reach2 (cfg : Cfg) (o : Oracle) (clk : Clock) (stopAt : Option Nat) (n0 : Nat)
    (P P' : MinSt → It → Prop)
    (hround : ∀ st it st', MInv n0 st it → P st it →
      roundPhase cfg clk stopAt id st it = .inr (st', it) → P' st' it)
    (hatt : ∀ st it, AInv n0 st it → P' st it → P (attempt o st it).1 (attempt o st it).2) :
    ∀ (fuel : Nat) (st : MinSt) (it : It), MInv n0 st it → P st it →
      ∃ st' it', MInv n0 st' it' ∧ P st' it' ∧
        (minLoop cfg o clk stopAt id fuel st it).best = it'.best ∧
        (minLoop cfg o clk stopAt id fuel st it).atts = it'.atts ∧
        (minLoop cfg o clk stopAt id fuel st it).tried = it'.tried ∧
        (minLoop cfg o clk stopAt id fuel st it).nTests = it'.nTests := by
  intro fuel
  induction fuel with
  | zero => intro st it hi hp; exact ⟨st, it, hi, hp, rfl, rfl, rfl, rfl⟩
  | succ f ih =>
    intro st it hinv hp
    unfold minLoop minStep
    obtain ⟨r1, r2⟩ := roundPhase_spec cfg clk stopAt n0 st it hinv
    cases hrp : roundPhase cfg clk stopAt id st it with
    | inl it' =>
      obtain ⟨e1, e2, -, -, e5, e6⟩ := r1 it' hrp
      exact ⟨st, it, hinv, hp, e1, e5, e6, e2⟩
    | inr p =>
      obtain ⟨st1, it1⟩ := p
      obtain ⟨e1, e2, -, -⟩ := r2 st1 it1 hrp
      subst e1
      simp only
      obtain ⟨a1, -⟩ := attempt_spec o n0 st1 it1 e2
      exact ih _ _ a1 (hatt st1 it1 e2 (hround st it1 st1 hinv hp hrp))

/-- exit form: with enough fuel the loop ends through one of the `break`/`return` exits of the
round phase, in a state where the invariant `P` held -/
theorem minLoop_exit (cfg : Cfg) (o : Oracle) (clk : Clock) (stopAt : Option Nat) (n0 : Nat)
    (P : MinSt → It → Prop) (Q : It → Prop)
    (hround : ∀ st it st', MInv n0 st it → P st it →
      roundPhase cfg clk stopAt id st it = .inr (st', it) → P st' it)
    (hatt : ∀ st it, AInv n0 st it → P st it → P (attempt o st it).1 (attempt o st it).2)
    (hdone : ∀ st it it', MInv n0 st it → P st it →
      roundPhase cfg clk stopAt id st it = .inl it' → Q it') :
    ∀ (fuel : Nat) (st : MinSt) (it : It), MInv n0 st it → P st it → phi n0 st it < fuel →
      Q (minLoop cfg o clk stopAt id fuel st it) := by
  intro fuel
  induction fuel with
  | zero => intro st it _ _ h; omega
  | succ f ih =>
    intro st it hinv hp hphi
    unfold minLoop minStep
    obtain ⟨r1, r2⟩ := roundPhase_spec cfg clk stopAt n0 st it hinv
    cases hrp : roundPhase cfg clk stopAt id st it with
    | inl it' => exact hdone st it it' hinv hp hrp
    | inr p =>
      obtain ⟨st1, it1⟩ := p
      obtain ⟨e1, e2, e3, -⟩ := r2 st1 it1 hrp
      subst e1
      simp only
      obtain ⟨a1, a2, -⟩ := attempt_spec o n0 st1 it1 e2
      exact ih _ _ a1 (hatt st1 it1 e2 (hround st it1 st1 hinv hp hrp)) (by omega)

theorem minLoop_reach (cfg : Cfg) (o : Oracle) (clk : Clock) (stopAt : Option Nat) (n0 : Nat)
    (P : MinSt → It → Prop)
    (hround : ∀ st it st', MInv n0 st it → P st it →
      roundPhase cfg clk stopAt id st it = .inr (st', it) → P st' it)
    (hatt : ∀ st it, AInv n0 st it → P st it → P (attempt o st it).1 (attempt o st it).2) :
    ∀ (fuel : Nat) (st : MinSt) (it : It), MInv n0 st it → P st it →
      ∃ st' it', MInv n0 st' it' ∧ P st' it' ∧
        (minLoop cfg o clk stopAt id fuel st it).best = it'.best ∧
        (minLoop cfg o clk stopAt id fuel st it).atts = it'.atts ∧
        (minLoop cfg o clk stopAt id fuel st it).tried = it'.tried ∧
        (minLoop cfg o clk stopAt id fuel st it).nTests = it'.nTests :=
  minLoop_reach2 cfg o clk stopAt n0 P P hround hatt

end Strat
