/-
Helper lemmas for C10: monotone tests with a unique minimal core.
-/
import LithiumProofs.MinimizeMin
import LithiumProofs.MinimizeLog

namespace Strat
open Testcase

/-- deleting the reducible entry `x` (at its rank): every other entry survives -/
theorem eraseRanks_one (l : List (Bytes × Bool)) (r : Nat) (x : Bytes × Bool) (hx : x ∈ l) (hx2 : x.2 = true) :
    ∃ i, r ≤ i ∧ i < r + (l.map (·.2)).count true ∧
      ∀ y ∈ l, y ≠ x → y ∈ eraseRanks i (i + 1) r l := by
  induction l generalizing r with
  | nil => simp at hx
  | cons e t ih =>
    obtain ⟨p, fl⟩ := e
    by_cases hex : (p, fl) = x
    · -- the head is `x`: erase rank `r`
      subst hex
      simp only at hx2
      subst hx2
      refine ⟨r, Nat.le_refl _, by simp, ?_⟩
      intro y hy hne
      simp only [eraseRanks]
      rw [if_pos (by omega), eraseRanks_above _ _ _ _ (by omega)]
      simp only [List.mem_cons] at hy
      rcases hy with rfl | hy
      · exact absurd rfl hne
      · exact hy
    · have hxt : x ∈ t := by
        simp only [List.mem_cons] at hx
        rcases hx with rfl | hx
        · exact absurd rfl hex
        · exact hx
      cases fl with
      | false =>
        obtain ⟨i, h1, h2, h3⟩ := ih r hxt
        refine ⟨i, h1, by simpa [List.count_cons] using h2, ?_⟩
        intro y hy hne
        simp only [eraseRanks]
        simp only [List.mem_cons] at hy ⊢
        rcases hy with rfl | hy
        · left; rfl
        · right; exact h3 y hy hne
      | true =>
        obtain ⟨i, h1, h2, h3⟩ := ih (r + 1) hxt
        refine ⟨i, by omega, by simp; omega, ?_⟩
        intro y hy hne
        simp only [eraseRanks]
        rw [if_neg (by omega)]
        simp only [List.mem_cons] at hy ⊢
        rcases hy with rfl | hy
        · left; rfl
        · right; exact h3 y hy hne

/-- a sub-list of a duplicate-free list that contains exactly the entries satisfying `P` is the
filter -/
theorem sublist_eq_filter {α} (P : α → Bool) (l' l : List α) (hs : l'.Sublist l) (hn : l.Nodup)
    (h : ∀ x ∈ l, x ∈ l' ↔ P x = true) : l' = l.filter P := by
  induction hs with
  | slnil => rfl
  | @cons l1 l2 a hs ih =>
    rw [List.nodup_cons] at hn
    have hna : a ∉ l1 := fun ha => hn.1 (hs.subset ha)
    have hpa : P a = false := by
      cases hp : P a with
      | false => rfl
      | true => exact absurd ((h a (by simp)).2 hp) hna
    rw [List.filter_cons, hpa]
    simp only [Bool.false_eq_true, if_false]
    exact ih hn.2 (fun x hx => h x (List.mem_cons_of_mem _ hx))
  | @cons_cons l1 l2 a hs ih =>
    rw [List.nodup_cons] at hn
    have hpa : P a = true := (h a (by simp)).1 (by simp)
    rw [List.filter_cons, hpa]
    simp only [if_true]
    congr 1
    apply ih hn.2
    intro x hx
    have hne : x ≠ a := fun e => hn.1 (e ▸ hx)
    have := h x (List.mem_cons_of_mem _ hx)
    simp only [List.mem_cons, hne, false_or] at this
    exact this

/-- in a list whose first components are pairwise distinct, the first component determines the entry -/
theorem fst_inj_of_nodup {α β} (l : List (α × β)) (hn : (l.map (·.1)).Nodup) (x y : α × β)
    (hx : x ∈ l) (hy : y ∈ l) (h : x.1 = y.1) : x = y := by
  induction l with
  | nil => simp at hx
  | cons e t ih =>
    simp only [List.map_cons, List.nodup_cons, List.mem_map, not_exists, not_and] at hn
    simp only [List.mem_cons] at hx hy
    rcases hx with rfl | hx <;> rcases hy with rfl | hy
    · rfl
    · exact absurd h.symm (hn.1 y hy)
    · exact absurd h (hn.1 x hx)
    · exact ih hn.2 hx hy

theorem nodup_of_map {α β} (f : α → β) (l : List α) (h : (l.map f).Nodup) : l.Nodup := by
  induction l with
  | nil => exact List.nodup_nil
  | cons a t ih =>
    simp only [List.map_cons, List.nodup_cons, List.mem_map, not_exists, not_and] at h
    rw [List.nodup_cons]
    exact ⟨fun ha => h.1 a ha rfl, ih h.2⟩

/-- the best testcase is the original or was accepted by the (deterministic) test -/
theorem attempt_best_accepted (f : Bytes → Bool) (st : MinSt) (it : It) :
    (attempt (fun _ c => f c) st it).2.best = it.best ∨
      f (attempt (fun _ c => f c) st it).2.best.content = true := by
  have hspec := try_spec it (fun _ c => f c) (it.best.rmslice (max 0 (st.chunkEnd - st.chunkSize)) st.chunkEnd)
    (fun r => { tag := 0, lo := (max 0 (st.chunkEnd - (st.chunkSize : Int))).toNat, hi := st.chunkEnd.toNat,
                size := st.chunkSize, bestLen := it.best.len, base := it.best, tIdx := it.nTests,
                cand := it.best.rmslice (max 0 (st.chunkEnd - st.chunkSize)) st.chunkEnd, resp := r })
  unfold attempt
  simp only
  generalize hT : It.try it (fun _ c => f c) (it.best.rmslice (max 0 (st.chunkEnd - st.chunkSize)) st.chunkEnd)
    (fun r => { tag := 0, lo := (max 0 (st.chunkEnd - (st.chunkSize : Int))).toNat, hi := st.chunkEnd.toNat,
                size := st.chunkSize, bestLen := it.best.len, base := it.best, tIdx := it.nTests,
                cand := it.best.rmslice (max 0 (st.chunkEnd - st.chunkSize)) st.chunkEnd, resp := r }) = T at *
  obtain ⟨r, it2⟩ := T
  simp only at hspec
  rcases hspec with ⟨hr, -, hb, -, -⟩ | ⟨hr, -, hv, hb, -, -⟩ | ⟨hr, -, -, hb, -, -⟩
  · subst hr; left; exact hb
  · subst hr; right; simp only; rw [hb]; exact hv
  · subst hr; left; exact hb

end Strat
