/-
The exit status of a reducing run for a Lithium object in ANY prior state (C11): the success flag is
reset when the run starts and follows the accepted candidates of this run only.
-/
import LithiumProofs.World

namespace World

/-- bookkeeping of the success flag relative to the log position `k` at which the reduction loop of THIS run started -/
structure SuccInv (k : Nat) (w : W) : Prop where
  le : k ≤ w.tests.length
  succ : w.anySuccess = (w.tests.drop k).any (fun r => r.out == .accept)
  noret : ∀ s, w.exit ≠ .returned s

theorem drop_snoc {α} (l : List α) (x : α) (k : Nat) (h : k ≤ l.length) : (l ++ [x]).drop k = l.drop k ++ [x] := by
  rw [List.drop_append_of_le_length h]

theorem succ_step (k : Nat) (w w' : W) (e : Ev) (h : SuccInv k w) (s : StepShape w e w') : SuccInv k w' := by
  cases s with
  | write b => exact ⟨h.le, h.succ, h.noret⟩
  | err => exact ⟨h.le, h.succ, by intro s hs; cases hs⟩
  | skip c out _ => exact h
  | raise c hc =>
    obtain ⟨ht, -, -, -, -, -, hany, hexit, -⟩ := interesting_fields { w with tried := c.content :: w.tried } c true .raise
    refine ⟨?_, ?_, by intro s hs; cases hs⟩
    · show k ≤ (interesting { w with tried := c.content :: w.tried } c true .raise).1.tests.length
      rw [ht]; simp; have := h.le; omega
    · show (interesting { w with tried := c.content :: w.tried } c true .raise).1.anySuccess = _
      rw [hany]
      show w.anySuccess = ((interesting { w with tried := c.content :: w.tried } c true .raise).1.tests.drop k).any _
      rw [ht, drop_snoc _ _ _ h.le, List.any_append, ← h.succ]; simp
  | accept c hc =>
    obtain ⟨ht, -, -, -, -, -, hany, hexit, -⟩ := interesting_fields { w with tried := c.content :: w.tried } c true .accept
    refine ⟨?_, ?_, ?_⟩
    · show k ≤ (interesting { w with tried := c.content :: w.tried } c true .accept).1.tests.length
      rw [ht]; simp; have := h.le; omega
    · show true = ((interesting { w with tried := c.content :: w.tried } c true .accept).1.tests.drop k).any _
      rw [ht, drop_snoc _ _ _ h.le, List.any_append]; simp
    · intro s
      show (interesting { w with tried := c.content :: w.tried } c true .accept).1.exit ≠ .returned s
      rw [hexit]; exact h.noret s
  | reject c hc =>
    obtain ⟨ht, -, -, -, -, -, hany, hexit, -⟩ := interesting_fields { w with tried := c.content :: w.tried } c true .reject
    refine ⟨?_, ?_, ?_⟩
    · rw [ht]; simp; have := h.le; omega
    · rw [hany]
      show w.anySuccess = _
      rw [ht, drop_snoc _ _ _ h.le, List.any_append, ← h.succ]; simp
    · intro s; rw [hexit]; exact h.noret s

theorem succ_loop (k : Nat) (w : W) (evs : List Ev) (h : SuccInv k w) : SuccInv k (loop w evs) :=
  loop_induction (SuccInv k) (fun w e hw _ => succ_step k w _ e hw (stepEv_shape w e)) w evs h

/-- the exit status for an object in ANY prior state: the original accepted, something to reduce -/
theorem status_any_history (w0 : W) (evs : List Ev) (h0 : w0.testcase.len ≠ 0) :
    let w := runMainW w0 evs .accept
    w.exit = .raised ∨
      w.exit = .returned (if (w.tests.drop (w0.tests.length + 1)).any (fun r => r.out == .accept) then 0 else 1) := by
  simp only
  have hrun : runMainW w0 evs .accept =
      afterLoop (loop (interesting (dumpOriginal (beginRun w0)) (dumpOriginal (beginRun w0)).testcase false .accept).1 evs) := by
    have hl : (dumpOriginal (beginRun w0)).testcase.len ≠ 0 := h0
    simp only [runMainW, if_neg hl]
    rfl
  obtain ⟨ht, -, -, -, -, -, hany, hexit, -⟩ :=
    interesting_fields (dumpOriginal (beginRun w0)) (dumpOriginal (beginRun w0)).testcase false .accept
  have hinv : SuccInv (w0.tests.length + 1)
      (interesting (dumpOriginal (beginRun w0)) (dumpOriginal (beginRun w0)).testcase false .accept).1 := by
    refine ⟨?_, ?_, ?_⟩
    · rw [ht]; simp [dumpOriginal, beginRun]
    · rw [hany, ht]
      have : (dumpOriginal (beginRun w0)).tests = w0.tests := rfl
      rw [this, List.drop_eq_nil_of_le (by simp)]
      simp [dumpOriginal, beginRun]
    · intro s; rw [hexit]; simp [dumpOriginal, beginRun]
  have hl := succ_loop _ _ evs hinv
  obtain ⟨at1, -, -, -, at5⟩ := afterLoop_fields
    (loop (interesting (dumpOriginal (beginRun w0)) (dumpOriginal (beginRun w0)).testcase false .accept).1 evs)
  rw [hrun, at1, at5]
  cases hx : (loop (interesting (dumpOriginal (beginRun w0)) (dumpOriginal (beginRun w0)).testcase false .accept).1 evs).exit with
  | running => right; simp only; rw [hl.succ]
  | raised => left; rfl
  | returned s => exact absurd hx (hl.noret s)

end World
