/-
Model of `Minimize.process_args` (strategies.py:414-432): how the options min, max, chunk-size, repeat,
repeat-first-round and max-run-time become the strategy's settings, and what is refused.
-/
import LithiumModel.Iter

namespace Strat

structure Args where
  chunkSize : Option Int := none
  min : Int := 1
  max : Int := 2 ^ 30
  rep : Repeat := .last
  repeatFirst : Bool := false
  maxRunTime : Option Int := none
deriving Repr, Inhabited

inductive ArgErr where
  | minNotPow2 | maxNotPow2
deriving Repr, DecidableEq, Inhabited

/-- `--chunk-size=n` is a shortcut for min = max = n, repeat = never -/
def effective (a : Args) : Int × Int × Repeat :=
  match a.chunkSize with
  | some c => (c, c, .never)
  | none => (a.min, a.max, a.rep)

def processArgs (a : Args) : Except ArgErr Cfg :=
  let e := effective a
  if !Util.isPowerOfTwo e.1 then .error .minNotPow2
  else if !Util.isPowerOfTwo e.2.1 then .error .maxNotPow2
  else .ok { min := e.1.toNat, max := e.2.1.toNat, rep := e.2.2, repeatFirst := a.repeatFirst,
             stopAfter := a.maxRunTime.map Int.toNat }

end Strat
