/-
Model of `Testcase.load` (testcases.py:109-162), the subclass `split_parts`
of the line / char / symbol splitters and `TestcaseChar.load`'s post-step.
-/
import LithiumModel.Lines

namespace Load

def DDBEGIN : Bytes := [0x44, 0x44, 0x42, 0x45, 0x47, 0x49, 0x4E]
def DDEND : Bytes := [0x44, 0x44, 0x45, 0x4E, 0x44]

/-- `needle` is a prefix of the list -/
def isPrefix : Bytes → Bytes → Bool
  | [], _ => true
  | _ :: _, [] => false
  | a :: as, b :: bs => a == b && isPrefix as bs

/-- `hay.find(needle) != -1` -/
def hasSub (needle : Bytes) : Bytes → Bool
  | [] => isPrefix needle []
  | b :: bs => isPrefix needle (b :: bs) || hasSub needle bs

inductive Err where
  | endWithoutBegin      -- LithiumError: DDEND without DDBEGIN before it
  | beginWithoutEnd      -- LithiumError: DDBEGIN but no DDEND
  | internal (what : String)  -- any other exception (RuntimeError in jsstr backtracking)
deriving Repr, DecidableEq

/-- what a `split_parts` produces: `header`/`footer` are merged into `before`/`after`
(only the JS-string splitter uses them). -/
structure Split where
  header : Bytes := []
  parts : List Bytes
  reducible : List Bool
  footer : Bytes := []
deriving Repr, DecidableEq

abbrev Splitter := Bytes → Except String Split

inductive Scan1 where
  | noMarker
  | begin (before : Bytes) (rest : List Bytes)
  | endFirst
deriving Repr, DecidableEq

/-- first `while lines:` loop; `acc` is `b"".join(before)` so far -/
def scan1 : List Bytes → Bytes → Scan1
  | [], _ => .noMarker
  | l :: ls, acc =>
    if hasSub DDBEGIN l then .begin (acc ++ l) ls
    else if hasSub DDEND l then .endFirst
    else scan1 ls (acc ++ l)

/-- second `while lines:` loop; returns `(b"".join(between), after)` -/
def scan2 : List Bytes → Bytes → Option (Bytes × Bytes)
  | [], _ => none
  | l :: ls, acc =>
    if hasSub DDEND l then some (acc, l ++ ls.flatten)
    else scan2 ls (acc ++ l)

def mk (before after : Bytes) (s : Split) : Testcase :=
  { before := before ++ s.header, parts := s.parts, reducible := s.reducible,
    after := s.footer ++ after }

/-- `Testcase.load` for a given `split_parts` -/
def loadWith (sp : Splitter) (data : Bytes) : Except Err Testcase :=
  match scan1 (Lines.splitLines data) [] with
  | .endFirst => .error .endWithoutBegin
  | .noMarker =>
    -- `self.split_parts(b"".join(before))`: the whole file
    match sp (Lines.splitLines data).flatten with
    | .ok s => .ok (mk [] [] s)
    | .error e => .error (.internal e)
  | .begin before rest =>
    match scan2 rest [] with
    | none => .error .beginWithoutEnd
    | some (between, after) =>
      match sp between with
      | .ok s => .ok (mk before after s)
      | .error e => .error (.internal e)

/-! ### splitters -/

def splitLine : Splitter := fun d =>
  let ls := Lines.splitLines d
  .ok { parts := ls, reducible := List.replicate ls.length true }

def splitChar : Splitter := fun d =>
  .ok { parts := d.map (fun b => [b]), reducible := List.replicate d.length true }

/-- `TestcaseChar.load` post-step (after the fix: the popped byte is kept) -/
def charPost (t : Testcase) : Testcase :=
  if (!t.before.isEmpty || !t.after.isEmpty) && !t.parts.isEmpty then
    { t with
      parts := t.parts.dropLast
      reducible := t.reducible.dropLast
      after := (t.parts.getLast?.getD []) ++ t.after }
  else t

/-! symbol splitter: `[B]?[^BA]*(?:[A]|$|(?=[B]))` as the scanner it denotes -/

/-- longest run of bytes in neither set, and the rest -/
def symRun (B A : List UInt8) : Bytes → Bytes × Bytes
  | [] => ([], [])
  | c :: cs =>
    if B.contains c || A.contains c then ([], c :: cs)
    else let r := symRun B A cs; (c :: r.1, r.2)

/-- the tail of one match: after the optional cut-before byte `pre` and the run `r.1`, take one
cut-after byte if it is next -/
def symClose (A : List UInt8) (pre : Bytes) (r : Bytes × Bytes) : Bytes × Bytes :=
  match r.2 with
  | c :: cs => if A.contains c then (pre ++ r.1 ++ [c], cs) else (pre ++ r.1, r.2)
  | [] => (pre ++ r.1, [])

/-- one match of the pattern at the head of the input: `(group(0), rest)` -/
def symTok (B A : List UInt8) (d : Bytes) : Bytes × Bytes :=
  let p : Bytes × Bytes :=
    match d with
    | c :: cs => if B.contains c then ([c], cs) else ([], d)
    | [] => ([], [])
  symClose A p.1 (symRun B A p.2)

/-- `finditer`, keeping non-empty matches; `fuel` bounds the number of matches -/
def symSplit (B A : List UInt8) : Nat → Bytes → List Bytes
  | 0, _ => []
  | _, [] => []
  | fuel + 1, d =>
    let t := symTok B A d
    -- an empty match is dropped by `if statement.group(0)` and finditer moves on one byte
    if t.1.isEmpty then symSplit B A fuel d.tail else t.1 :: symSplit B A fuel t.2

def DEFAULT_CUT_AFTER : List UInt8 := [0x3F, 0x3D, 0x3B, 0x7B, 0x5B, 0x0A]   -- ?=;{[\n
def DEFAULT_CUT_BEFORE : List UInt8 := [0x5D, 0x7D, 0x3A]                     -- ]}:

def splitSymbol (B A : List UInt8) : Splitter := fun d =>
  let ps := symSplit B A (d.length + 1) d
  .ok { parts := ps, reducible := List.replicate ps.length true }

def loadLine (d : Bytes) := loadWith splitLine d
def loadChar (d : Bytes) := (loadWith splitChar d).map charPost
def loadSymbol (B A : List UInt8) (d : Bytes) := loadWith (splitSymbol B A) d

end Load
