/-
Reference segmentation for JS-string mode (C16): what "a character inside a properly terminated
single- or double-quoted string" means, written without the scanner's index lists.  Proved equal to
what `Js.splitJs` flags reducible in `LithiumProofs/SplitJsSpec.lean`; compared with an
independently written Python tokenizer by `harness/props/c16.py` on every run.
-/
import LithiumModel.SplitJs

namespace Js

/-- tokens of a string body up to its closing quote `q`: the tokens and the data behind the closing
quote; `none` when the data ends before a closing quote -/
def strBody (q : UInt8) : Nat → Bytes → Option (List Bytes × Bytes)
  | 0, _ => none
  | f + 1, d =>
    if tokLen d = 0 then none
    else if d.take (tokLen d) == [q] then some ([], d.drop (tokLen d))
    else (strBody q f (d.drop (tokLen d))).map (fun r => (d.take (tokLen d) :: r.1, r.2))

/-- the reference segmentation: pieces of the data, flagged `true` when they are one character (or
escape sequence) inside a properly terminated string -/
def specJs : Nat → Bytes → List (Bytes × Bool)
  | 0, _ => []
  | f + 1, d =>
    match d.findIdx? isQuote with
    | none => if d.isEmpty then [] else [(d, false)]
    | some i =>
      let q := (d[i]?).getD 0
      match strBody q (d.length + 1) (d.drop (i + 1)) with
      | some (toks, rest) => (d.take (i + 1), false) :: (toks.map (·, true) ++ ([q], false) :: specJs f rest)
      | none => (d.take (i + 1), false) :: specJs f (d.drop (i + 1))

/-- `specJs` with enough fuel -/
def SP (d : Bytes) := specJs (d.length + 1) d

/-- the pieces flagged `true`, with their byte offsets (`off` = offset of the first piece) -/
def spans : List (Bytes × Bool) → Nat → List (Nat × Bytes)
  | [], _ => []
  | (p, true) :: t, off => (off, p) :: spans t (off + p.length)
  | (p, false) :: t, off => spans t (off + p.length)

/-- the string characters of the reference segmentation, with their byte offsets in the data -/
def strChars (d : Bytes) : List (Nat × Bytes) := spans (SP d) 0


end Js
