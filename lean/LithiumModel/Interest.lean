/-
Models of the built-in interestingness tests' decision logic:
`timed_run` status classification (timed_run.py:201-225), `crashes`, `hangs`, `outputs` (both capture
modes), `diff_test`, `repeat`.
-/
import LithiumModel.Load

namespace Interest

inductive ExitStatus where
  | normal | abnormal | crash | timeout
deriving Repr, DecidableEq, Inhabited

def ERROR_CODE : Int := 77

/-- the `if/elif` chain after `communicate()`; `timedOut` = TimeoutExpired was raised.
Returns `(status, RunData.return_code)`. -/
def classify (timedOut : Bool) (rc : Int) : ExitStatus × Option Int :=
  if timedOut then (.timeout, none)
  else if rc = 0 then (.normal, some rc)
  else if rc ≠ 77 ∧ 0 < rc ∧ rc < 0x80000000 then (.abnormal, some rc)   -- 77 = ERROR_CODE
  else (.crash, some rc)

def crashesInteresting (timedOut : Bool) (rc : Int) : Bool := (classify timedOut rc).1 == .crash
def hangsInteresting (timedOut : Bool) (rc : Int) : Bool := (classify timedOut rc).1 == .timeout

/-! ### output capture: communicate / kill / communicate over an abstract child

A child is a list of writes `(time, toStderr, bytes)` in time order and an optional exit time.
`limit` is the timeout.  A write happens iff its time is before the child's end (its exit, or the
kill at `limit`). -/

structure Child where
  writes : List (Nat × Bool × Bytes)
  exitAt : Option Nat
deriving Repr, Inhabited

def Child.timedOut (c : Child) (limit : Nat) : Bool :=
  match c.exitAt with
  | some t => t > limit
  | none => true

def Child.endTime (c : Child) (limit : Nat) : Nat :=
  match c.exitAt with
  | some t => min t limit
  | none => limit

def written (c : Child) (limit : Nat) (stderr : Bool) : Bytes :=
  ((c.writes.filter (fun w => w.1 ≤ c.endTime limit && w.2.1 == stderr)).map (·.2.2)).flatten

/-- pipes: the first `communicate(timeout)` buffers what arrives before the limit; on
TimeoutExpired the child is killed and the second `communicate()` returns the buffered data
plus what is still in the pipe (nothing more is written after the kill) -/
def capturePipe (c : Child) (limit : Nat) (stderr : Bool) : Bytes :=
  let phase1 := (c.writes.filter (fun w => w.1 ≤ limit && w.1 ≤ c.endTime limit && w.2.1 == stderr)).map (·.2.2)
  let phase2 := if c.timedOut limit then
      (c.writes.filter (fun w => !(w.1 ≤ limit) && w.1 ≤ c.endTime limit && w.2.1 == stderr)).map (·.2.2)
    else []
  (phase1 ++ phase2).flatten

/-- log files: the child writes straight into `<prefix>-out.txt` / `<prefix>-err.txt` -/
def captureFile (c : Child) (limit : Nat) (stderr : Bool) : Bytes := written c limit stderr

/-! ### outputs / diff_test / repeat -/

/-- `outputs` with output captured in memory: for data in (out, err): regex search or `in` -/
def outputsMem (regex : Bool) (rx : Bytes → Bool) (s : Bytes) (out err : Bytes) : Bool :=
  [out, err].any (fun d => if regex then rx d else Load.hasSub s d)

/-- `outputs` with log files: `any(file_contains(prefix + suffix) for suffix in (-out, -err))` -/
def outputsFile (regex : Bool) (rx : Bytes → Bool) (s : Bytes) (outFile errFile : Bytes) : Bool :=
  (if regex then rx outFile else Load.hasSub s outFile) || (if regex then rx errFile else Load.hasSub s errFile)

structure RunData where
  rc : Option Int     -- None on timeout
  out : Bytes
  err : Bytes
deriving Repr, DecidableEq, Inhabited

/-- `diff_test`: different return codes, else different stdout or stderr -/
def diffTest (a b : RunData) : Bool :=
  if a.rc != b.rc then true else (a.out != b.out || a.err != b.err)

/-- `repeat`: run the inner test for i = 1..n until it succeeds; returns (verdict, runs made) -/
def repeatLoop (inner : Nat → Bool) : Nat → Nat → Bool × Nat
  | 0, done => (false, done)
  | k + 1, done => if inner (done + 1) then (true, done + 1) else repeatLoop inner k (done + 1)

def repeatTest (n : Nat) (inner : Nat → Bool) : Bool × Nat := repeatLoop inner n 0

/-- the arguments run `i` receives: the cookie replaced by `i` in every argument -/
def repeatArgs (cookie : String) (args : List String) (i : Nat) : List String :=
  args.map (fun s => s.replace cookie (toString i))

end Interest
