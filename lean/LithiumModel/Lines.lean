/-
Model of `data.decode("utf-8","surrogateescape").splitlines(keepends=True)` re-encoded
line by line (testcases.py:124-129 and 219-224), directly on bytes.

Line boundaries of `str.splitlines`: LF, CR, CRLF, VT, FF, FS, GS, RS, NEL (U+0085 = C2 85),
LS (U+2028 = E2 80 A8), PS (U+2029 = E2 80 A9).  See DESIGN.md §3.1 for why the byte-level
rule is exact also on invalid UTF-8 (validated by the `lines` correspondence).
-/
import LithiumModel.Testcase

namespace Lines

/-- length of the line terminator starting at the head of the input, `0` if there is none -/
def termLen : Bytes → Nat
  | 0x0D :: 0x0A :: _ => 2
  | 0x0A :: _ => 1
  | 0x0D :: _ => 1
  | 0x0B :: _ => 1
  | 0x0C :: _ => 1
  | 0x1C :: _ => 1
  | 0x1D :: _ => 1
  | 0x1E :: _ => 1
  | 0xC2 :: 0x85 :: _ => 2
  | 0xE2 :: 0x80 :: 0xA8 :: _ => 3
  | 0xE2 :: 0x80 :: 0xA9 :: _ => 3
  | _ => 0

/-- `cur` is the line being accumulated; `skip` is the number of bytes of a multi-byte
terminator still to be consumed (the byte that brings it to 0 ends the line). -/
def splitAux : Bytes → Nat → Bytes → List Bytes
  | cur, _, [] => if cur.isEmpty then [] else [cur]
  | cur, skip + 1, b :: rest =>
    if skip = 0 then (cur ++ [b]) :: splitAux [] 0 rest
    else splitAux (cur ++ [b]) skip rest
  | cur, 0, b :: rest =>
    match termLen (b :: rest) with
    | 0 => splitAux (cur ++ [b]) 0 rest
    | 1 => (cur ++ [b]) :: splitAux [] 0 rest
    | k + 2 => splitAux (cur ++ [b]) (k + 1) rest

def splitLines (d : Bytes) : List Bytes := splitAux [] 0 d

end Lines
