/-
Model of `data.decode("utf-8","surrogateescape").splitlines(keepends=True)` re-encoded
line by line (testcases.py:124-129 and 219-224), directly on bytes.

Line boundaries of `str.splitlines`: LF, CR, CRLF, VT, FF, FS, GS, RS, NEL (U+0085 = C2 85),
LS (U+2028 = E2 80 A8), PS (U+2029 = E2 80 A9).  See DESIGN.md §3.1 for why the byte-level
rule is exact also on invalid UTF-8 (validated by the `lines` correspondence).
-/
import LithiumModel.Testcase

namespace Lines

/-- does a line end right after byte `b`, given the bytes `cur` of the line so far and the
rest of the input?  (CR needs one byte of look-ahead, the multi-byte terminators look back.) -/
def endsLine (cur : Bytes) (b : UInt8) (rest : Bytes) : Bool :=
  if b == 0x0A || b == 0x0B || b == 0x0C || b == 0x1C || b == 0x1D || b == 0x1E then true
  else if b == 0x0D then
    match rest with
    | 0x0A :: _ => false     -- CR LF is one terminator, it ends after the LF
    | _ => true
  else if b == 0x85 then cur.getLast? == some 0xC2
  else if b == 0xA8 || b == 0xA9 then
    cur.getLast? == some 0x80 && cur.dropLast.getLast? == some 0xE2
  else false

/-- `cur` is the line being accumulated -/
def splitAux : Bytes → Bytes → List Bytes
  | cur, [] => if cur.isEmpty then [] else [cur]
  | cur, b :: rest =>
    if endsLine cur b rest then (cur ++ [b]) :: splitAux [] rest
    else splitAux (cur ++ [b]) rest

def splitLines (d : Bytes) : List Bytes := splitAux [] d

end Lines
