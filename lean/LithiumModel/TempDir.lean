/-
Model of `Lithium.create_temp_dir` (reducer.py:281-295): `mkdir tmp<i>` for i = 1, 2, ... until it
succeeds; only "the name is taken" is retried (after the fix), any other failure propagates.
The file system is the set of taken names; `mkdir` is atomic.
-/

namespace TempDir

inductive Mkdir where
  | ok | exists
  | fail (errno : Nat)      -- any other OSError: EACCES, ENOENT, ENOSPC, EROFS, ENOTDIR, ...
deriving Repr, DecidableEq, Inhabited

/-- sequential run against a file system in which the names in `taken` exist and `mkdir` of
index `i` fails with `faults i` (if `some`) before even looking at the name -/
def seqLoop (taken : List Nat) (faults : Nat → Option Nat) : Nat → Nat → Except Nat Nat
  | 0, i => .ok i            -- fuel exhausted (proved unreachable when fuel > |taken|)
  | fuel + 1, i =>
    match faults i with
    | some e => .error e
    | none => if taken.contains i then seqLoop taken faults fuel (i + 1) else .ok i

def createTempDir (taken : List Nat) (faults : Nat → Option Nat) : Except Nat Nat :=
  seqLoop taken faults (taken.length + 1) 1

/-! concurrent starts: `k` runs, each with its own counter; a schedule is the order in which
they execute their next `mkdir` -/

structure Proc where
  i : Nat := 1
  got : Option Nat := none
deriving Repr, DecidableEq, Inhabited

structure Sys where
  taken : List Nat                 -- names that exist
  created : List (Nat × Nat)       -- (name, pid) created during the runs
  procs : List Proc
deriving Repr, Inhabited

def stepProc (s : Sys) (pid : Nat) : Sys :=
  match s.procs[pid]? with
  | none => s
  | some p =>
    match p.got with
    | some _ => s
    | none =>
      if s.taken.contains p.i then
        { s with procs := s.procs.set pid { p with i := p.i + 1 } }
      else
        { taken := p.i :: s.taken, created := (p.i, pid) :: s.created,
          procs := s.procs.set pid { p with got := some p.i } }

def runSchedule (s : Sys) (sched : List Nat) : Sys := sched.foldl stepProc s

def initSys (taken : List Nat) (k : Nat) : Sys :=
  { taken := taken, created := [], procs := List.replicate k {} }

end TempDir

/-! ### the same loop one level down: the directory listing is a list of NAMES

`create_temp_dir` never reads the listing; what decides is whether `mkdir("tmp" + str(i))` finds that exact
name.  Entries that merely look like numbered directories (`tmp01`, `tmp1.bak`, `Tmp1`, `tmp`) are just other
names. -/
namespace TempDir

def dirName (i : Nat) : String := "tmp" ++ toString i

def seqLoopN (names : List String) (faults : Nat → Option Nat) : Nat → Nat → Except Nat Nat
  | 0, i => .ok i            -- fuel exhausted (proved unreachable for fuel > |names|)
  | fuel + 1, i =>
    match faults i with
    | some e => .error e
    | none => if names.contains (dirName i) then seqLoopN names faults fuel (i + 1) else .ok i

def createTempDirN (names : List String) (faults : Nat → Option Nat) : Except Nat Nat :=
  seqLoopN names faults (names.length + 1) 1

end TempDir
