/-
Model of src/lithium/util.py: `divide_rounding_up`, `is_power_of_two`,
`largest_power_of_two_smaller_than` (all via `int.bit_length`).
-/

namespace Util

/-- `int.bit_length()` of a non-negative integer -/
def bitLength (n : Nat) : Nat := if n = 0 then 0 else Nat.log2 n + 1

/-- `is_power_of_two(inp)`: `(1 << max(inp.bit_length() - 1, 0)) == inp`, for any Python int
(`bit_length` of a negative number is that of its absolute value) -/
def isPowerOfTwo (i : Int) : Bool :=
  ((1 <<< (bitLength i.natAbs - 1) : Nat) : Int) == i

/-- `largest_power_of_two_smaller_than(inp)` for `inp ≥ 0` -/
def lp2 (n : Nat) : Nat :=
  let r := 1 <<< (bitLength n - 1)
  if r == n && n > 1 then r >>> 1 else r

/-- `divide_rounding_up(a, b)` for `b > 0` -/
def divUp (a b : Nat) : Nat := a / b + (if a % b = 0 then 0 else 1)

end Util
