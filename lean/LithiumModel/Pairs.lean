/-
Models of `MinimizeSurroundingPairs` (strategies.py:538-718) and `MinimizeBalancedPairs`
(strategies.py:721-917, without the experimental move): the shared outer loop `reduce` and the two
`try_removing_chunks` passes.

In the proposal log of these two strategies `Att.lo`/`Att.hi` are the chunk indices shown in the
description ("chunk #lo & #hi"; for a single chunk `hi = lo`) and `Att.bestLen` is `num_chunks`.
-/
import LithiumModel.Minimize

namespace Strat

/-- first surviving chunk at an absolute index ≥ `frm` in a list whose head has index `i` -/
def indexFrom : List Bool → Nat → Nat → Option Nat
  | [], _, _ => none
  | x :: xs, i, frm => if frm ≤ i && x then some i else indexFrom xs (i + 1) frm

/-- `summary.index("S", from)`: first surviving chunk at index ≥ `from` (`none` = ValueError) -/
def indexS (summary : List Bool) (frm : Nat) : Option Nat := indexFrom summary 0 frm

/-- `summary.rindex("S", 0, stop)`: last surviving chunk at index < `stop` -/
def rindexS (summary : List Bool) (stop : Nat) : Option Nat :=
  (((summary.zipIdx).filter (fun x => x.2 < stop && x.1)).getLast?).map (·.2)

/-- surviving chunks at absolute indices in `[a, b)` of a list whose head has index `i` -/
def countFrom : List Bool → Nat → Nat → Nat → Nat
  | [], _, _, _ => 0
  | x :: xs, i, a, b => (if a ≤ i && i < b && x then 1 else 0) + countFrom xs (i + 1) a b

/-- `summary.count("S", a, b)` -/
def countS (summary : List Bool) (a b : Nat) : Nat := countFrom summary 0 a b

def setDead (summary : List Bool) (i : Nat) : List Bool := summary.set i false

structure AroundSt where
  summary : List Bool
  chunkStart : Nat
  before : Nat
  keep : Nat
  after : Nat
deriving Repr, Inhabited

/-- the candidate of `MinimizeSurroundingPairs`: best minus the chunk after and the chunk before -/
def aroundCand (cs : Nat) (st : AroundSt) (it : It) : Testcase :=
  let n := it.best.len
  let befStart : Int := max 0 ((st.chunkStart : Int) - cs)
  let befEnd : Int := st.chunkStart
  let aftStart : Nat := min n (st.chunkStart + cs)
  let aftEnd : Nat := min n (aftStart + cs)
  (it.best.rmslice aftStart aftEnd).rmslice befStart befEnd

def aroundMk (cs numChunks : Nat) (st : AroundSt) (it : It) : Resp → Att := fun r =>
  { tag := 1, lo := st.before, hi := st.after, size := cs, bestLen := numChunks, base := it.best,
    tIdx := it.nTests, cand := aroundCand cs st it, resp := r }

/-! ### the generic pass loop

Both `try_removing_chunks` methods have the same skeleton: `while guard: if deadline: return;
<maybe build a candidate>; <try it>; <move on>` inside `try: ... except ValueError: pass`.
`PassDef` holds the three strategy-specific pieces; `pLoop` is the skeleton. -/

inductive PAct where
  | fail                                   -- an `assert` failed
  | skip                                   -- nothing is proposed in this iteration
  | propose (c : Testcase) (mk : Resp → Att)

structure PassDef (σ : Type) where
  guard : σ → It → Bool                    -- the `while` condition
  act : σ → It → PAct
  next : σ → It → Option Resp → Option σ   -- `none`: a ValueError ended the loop; `It` = the iterator before the proposal

/-- returns the iterator and whether any proposal of the pass was accepted -/
def pLoop {σ : Type} (pd : PassDef σ) (o : Oracle) (clk : Clock) (stopAt : Option Nat) :
    Nat → σ → It → Bool → It × Bool
  | 0, _, it, any => ({ it with outOfFuel := true }, any)
  | fuel + 1, st, it, any =>
    if !pd.guard st it then (it, any) else
    if deadlinePassed stopAt clk it then (it, any) else
    match pd.act st it with
    | .fail => ({ it with internalError := true }, any)
    | .skip =>
      match pd.next st it none with
      | some st' => pLoop pd o clk stopAt fuel st' it any
      | none => (it, any)
    | .propose c mk =>
      let r := it.try o c mk
      let any' := any || (r.1 == .accepted)
      match pd.next st it (some r.1) with
      | some st' => pLoop pd o clk stopAt fuel st' r.2 any'
      | none => (r.2, any')

/-- how `MinimizeSurroundingPairs.try_removing_chunks` moves on after a proposal -/
def aroundNext (cs : Nat) (st : AroundSt) : Option Resp → Option AroundSt
  | some .accepted =>
    let summary := setDead (setDead st.summary st.before) st.after
    let chunkStart := st.chunkStart - cs
    -- try: before = summary.rindex("S", 0, keep)
    match rindexS summary st.keep with
    | some b =>
      match indexS summary (st.keep + 1) with
      | some a => some { summary := summary, chunkStart := chunkStart, before := b, keep := st.keep, after := a }
      | none => none
    | none =>
      -- before = keep; keep = summary.index("S", keep + 1); chunk_start += cs
      match indexS summary (st.keep + 1) with
      | none => none
      | some k =>
        match indexS summary (k + 1) with
        | some a => some { summary := summary, chunkStart := chunkStart + cs, before := st.keep, keep := k, after := a }
        | none => none
  | _ =>
    -- before = keep; keep = after; chunk_start += cs; after = summary.index("S", keep + 1)
    match indexS st.summary (st.after + 1) with
    | some a => some { st with chunkStart := st.chunkStart + cs, before := st.keep, keep := st.after, after := a }
    | none => none

def aroundDef (cs numChunks : Nat) : PassDef AroundSt where
  guard st it := st.chunkStart + cs < it.best.len
  act st it := .propose (aroundCand cs st it) (aroundMk cs numChunks st it)
  next st _ r := aroundNext cs st r

/-- one pass of `MinimizeSurroundingPairs.try_removing_chunks` -/
def aroundLoop (o : Oracle) (clk : Clock) (stopAt : Option Nat) (cs numChunks : Nat) :
    Nat → AroundSt → It → Bool → It × Bool :=
  pLoop (aroundDef cs numChunks) o clk stopAt

def aroundPass (o : Oracle) (clk : Clock) (stopAt : Option Nat) (cs : Nat) (it : It) : It × Bool :=
  let numChunks := Util.divUp it.best.len cs
  if numChunks < 3 then (it, false) else
  aroundLoop o clk stopAt cs numChunks (2 * numChunks + 2)
    { summary := List.replicate numChunks true, chunkStart := cs, before := 0, keep := 1, after := 2 } it false

/-! ### balanced pairs -/

def countByte (b : UInt8) (p : Bytes) : Int := (p.count b : Nat)

/-- `_count_diff(i, ops)` on `iterator.testcase.parts[i]` -/
def countDiff (parts : List Bytes) (i : Nat) (op cl : UInt8) : Int :=
  let p := parts.getD i []
  countByte op p - countByte cl p

structure BalSt where
  summary : List Bool
  chunkStart : Nat
  lhs : Nat
deriving Repr, Inhabited

/-- the `for item in summary[lhs+1:]` search for the matching chunk; returns `(rhs, balance)` -/
def findRhs (summary : List Bool) (curly square normal : List Int) :
    List Bool → Nat → Int × Int × Int → Nat × (Int × Int × Int)
  | [], rhs, bal => (rhs, bal)
  | item :: rest, rhs, bal =>
    let rhs := rhs + 1
    if !item then findRhs summary curly square normal rest rhs bal
    else
      let bal' : Int × Int × Int := (bal.1 + curly.getD rhs 0, bal.2.1 + square.getD rhs 0, bal.2.2 + normal.getD rhs 0)
      if bal'.1 < 0 || bal'.2.1 < 0 || bal'.2.2 < 0 then (rhs, bal')
      else if bal'.1 == 0 && bal'.2.1 == 0 && bal'.2.2 == 0 then (rhs, bal')
      else findRhs summary curly square normal rest rhs bal'

/-- candidates of `MinimizeBalancedPairs`: a balanced chunk alone, or a chunk with its partner -/
def balCand1 (cs : Nat) (st : BalSt) (it : It) : Testcase :=
  it.best.rmslice (st.chunkStart : Nat) (min it.best.len (st.chunkStart + cs) : Nat)

def balMk1 (cs numChunks : Nat) (st : BalSt) (it : It) : Resp → Att := fun r =>
  { tag := 2, lo := st.lhs, hi := st.lhs, size := cs, bestLen := numChunks, base := it.best,
    tIdx := it.nTests, cand := balCand1 cs st it, resp := r }

def balCand2 (cs : Nat) (st : BalSt) (it : It) (rhs : Nat) : Testcase :=
  let n := it.best.len
  let rhsStart : Nat := min n (st.chunkStart + cs * countS st.summary st.lhs rhs)
  let rhsEnd : Nat := min n (rhsStart + cs)
  (it.best.rmslice rhsStart rhsEnd).rmslice (st.chunkStart : Nat) (min n (st.chunkStart + cs) : Nat)

def balMk2 (cs numChunks : Nat) (st : BalSt) (it : It) (rhs : Nat) : Resp → Att := fun r =>
  { tag := 1, lo := st.lhs, hi := rhs, size := cs, bestLen := numChunks, base := it.best,
    tIdx := it.nTests, cand := balCand2 cs st it rhs, resp := r }

def balZero (b : Int × Int × Int) : Bool := b.1 == 0 && b.2.1 == 0 && b.2.2 == 0

def balOf (curly square normal : List Int) (i : Nat) : Int × Int × Int :=
  (curly.getD i 0, square.getD i 0, normal.getD i 0)

def balRhs (curly square normal : List Int) (st : BalSt) : Nat × (Int × Int × Int) :=
  findRhs st.summary curly square normal (st.summary.drop (st.lhs + 1)) st.lhs (balOf curly square normal st.lhs)

def balAct (cs numChunks : Nat) (curly square normal : List Int) (st : BalSt) (it : It) : PAct :=
  -- assert summary.count("S", 0, lhs) * chunk_size == chunk_start
  if countS st.summary 0 st.lhs * cs != st.chunkStart then .fail else
  if balZero (balOf curly square normal st.lhs) then
    -- already balanced: try to remove it alone
    .propose (balCand1 cs st it) (balMk1 cs numChunks st it)
  else
    let r := balRhs curly square normal st
    if !balZero r.2 then .skip   -- no match: skip this chunk
    else .propose (balCand2 cs st it r.1) (balMk2 cs numChunks st it r.1)

def balShift (cs : Nat) (st : BalSt) : Option BalSt :=
  match indexS st.summary (st.lhs + 1) with
  | some l => some { st with chunkStart := st.chunkStart + cs, lhs := l }
  | none => none

def balNext (cs : Nat) (curly square normal : List Int) (st : BalSt) : Option Resp → Option BalSt
  | some .accepted =>
    let summary :=
      if balZero (balOf curly square normal st.lhs) then setDead st.summary st.lhs
      else setDead (setDead st.summary st.lhs) (balRhs curly square normal st).1
    match indexS summary (st.lhs + 1) with
    | some l => some { st with summary := summary, lhs := l }
    | none => none
  | _ => balShift cs st

def balDef (cs numChunks : Nat) (curly square normal : List Int) : PassDef BalSt where
  guard st it := st.chunkStart < it.best.len
  act := balAct cs numChunks curly square normal
  next st _ r := balNext cs curly square normal st r

def balLoop (o : Oracle) (clk : Clock) (stopAt : Option Nat) (cs numChunks : Nat)
    (curly square normal : List Int) : Nat → BalSt → It → Bool → It × Bool :=
  pLoop (balDef cs numChunks curly square normal) o clk stopAt

def balPass (o : Oracle) (clk : Clock) (stopAt : Option Nat) (cs : Nat) (it : It) : It × Bool :=
  let numChunks := Util.divUp it.best.len cs
  if numChunks < 2 then (it, false) else
  let parts := it.best.parts
  let idx := List.range numChunks
  balLoop o clk stopAt cs numChunks
    (idx.map (fun i => countDiff parts i 0x7B 0x7D))
    (idx.map (fun i => countDiff parts i 0x5B 0x5D))
    (idx.map (fun i => countDiff parts i 0x28 0x29))
    (2 * numChunks + 2) { summary := List.replicate numChunks true, chunkStart := 0, lhs := 0 } it false

/-! ### the shared outer loop (`MinimizeSurroundingPairs.reduce`) -/

def pairsOuter (cfg : Cfg) (clk : Clock) (stopAt : Option Nat) (pass : Nat → It → It × Bool) (final : Nat) :
    Nat → Nat → It → It
  | 0, _, it => { it with outOfFuel := true }
  | fuel + 1, cs, it =>
    let r := pass cs it
    let it := r.1
    if it.outOfFuel || it.internalError then it else
    if deadlinePassed stopAt clk it then { it with deadlineStop := true } else
    let last := cs ≤ final
    if r.2 && (cfg.rep == .always || (cfg.rep == .last && last)) then pairsOuter cfg clk stopAt pass final fuel cs it
    else if last then it
    else pairsOuter cfg clk stopAt pass final fuel (cs / 2) it

def pairsFuel (t : Testcase) : Nat := t.len + Nat.log2 (t.len + 1) + 4

def around (cfg : Cfg) (o : Oracle) (clk : Clock) (t : Testcase) : It :=
  let sa := stopAt cfg clk
  pairsOuter cfg clk sa (fun cs it => aroundPass o clk sa cs it) (max cfg.min 1)
    (pairsFuel t) (min cfg.max (Util.lp2 t.len)) { best := t }

def balanced (cfg : Cfg) (o : Oracle) (clk : Clock) (t : Testcase) : It :=
  let sa := stopAt cfg clk
  pairsOuter cfg clk sa (fun cs it => balPass o clk sa cs it) (max cfg.min 1)
    (pairsFuel t) (min cfg.max (Util.lp2 t.len)) { best := t }

end Strat
