/-
Round skeleton of the two rewriting strategies (strategies.py `ReplacePropertiesByGlobals.reduce`,
`ReplaceArgumentsByGlobals.reduce`): which pass follows which.  What a pass does to the text (regular
expressions over the atoms) is NOT modelled: `pass k` is what the k-th call of the pass function
reported — how many tests it ran and how much it removed.  The harness records these numbers from
the real code and checks the hypotheses of `C09_rewrite_skeleton` on them.
-/
import LithiumModel.Iter

namespace Strat

/-- `while True: removed = pass(); last = chunk <= final; if removed and (always or (last-mode and
last)): repeat; elif last: break; else: chunk >>= 1` — returns (tests, passes, ended by `break`).
`ReplaceArgumentsByGlobals` is the case `cs ≤ final` from the start. -/
def rwLoop (rep : Repeat) (final : Nat) (pass : Nat → Nat × Nat) : Nat → Nat → Nat → Nat → Nat × Nat × Bool
  | 0, k, _, tests => (tests, k, false)
  | fuel + 1, k, cs, tests =>
    let tests := tests + (pass k).1
    let last : Bool := cs ≤ final
    if (pass k).2 ≠ 0 ∧ (rep = .always ∨ (rep = .last ∧ last = true)) then rwLoop rep final pass fuel (k + 1) cs tests
    else if last then (tests, k + 1, true)
    else rwLoop rep final pass fuel (k + 1) (cs / 2) tests

/-- what the first `k` passes removed -/
def removedSum (pass : Nat → Nat × Nat) : Nat → Nat
  | 0 => 0
  | k + 1 => removedSum pass k + (pass k).2

end Strat
