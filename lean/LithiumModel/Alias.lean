/-
A heap model of the objects behind `Testcase.copy()` / `Testcase.rmslice()` (testcases.py:73-108): a testcase
object holds REFERENCES to two Python list objects (`parts`, `reducible`).  `copy()` allocates two fresh lists
with the same contents (`self.parts[:]`), `rmslice()` builds two fresh lists and re-binds the attributes (it
never edits a list in place); callers (strategies, embedding tools) may also edit a list IN PLACE
(`tc.reducible[i] = v`, `tc.parts[i] = v`).  The question of C07's last clause — is a copy independent? — is
the question whether two objects ever share a list.
-/
import LithiumModel.Testcase

namespace Alias

structure Obj where
  p : Nat        -- address of the parts list
  r : Nat        -- address of the flag list
deriving Repr, DecidableEq, Inhabited

structure Heap where
  parts : Nat → List Bytes
  flags : Nat → List Bool
  next : Nat                      -- next free address (allocation is a counter)
  objs : List Obj

def upd {α} (f : Nat → α) (a : Nat) (v : α) : Nat → α := fun x => if x = a then v else f x

inductive Op where
  | copy (o : Nat)                               -- `objs.append(objs[o].copy())`
  | rmslice (o : Nat) (a b : Option Int)         -- `objs[o].rmslice(a, b)`
  | setFlag (o i : Nat) (v : Bool)               -- `objs[o].reducible[i] = v`   (in place)
  | setPart (o i : Nat) (v : Bytes)              -- `objs[o].parts[i] = v`       (in place)
deriving Repr

/-- what object `o` looks like: its two lists -/
def view (h : Heap) (o : Nat) : Option (List Bytes × List Bool) :=
  (h.objs[o]?).map (fun ob => (h.parts ob.p, h.flags ob.r))

def target : Op → Nat
  | .copy o => o | .rmslice o _ _ => o | .setFlag o _ _ => o | .setPart o _ _ => o

def step (h : Heap) : Op → Heap
  | .copy o =>
    match h.objs[o]? with
    | none => h
    | some ob =>
      { parts := upd h.parts h.next (h.parts ob.p), flags := upd h.flags h.next (h.flags ob.r),
        next := h.next + 1, objs := h.objs ++ [⟨h.next, h.next⟩] }
  | .rmslice o a b =>
    match h.objs[o]? with
    | none => h
    | some ob =>
      let t : Testcase := { before := [], parts := h.parts ob.p, reducible := h.flags ob.r, after := [] }
      match t.rmslice? a b with
      | none => h                  -- IndexError: nothing assigned
      | some t' =>
        { parts := upd h.parts h.next t'.parts, flags := upd h.flags h.next t'.reducible,
          next := h.next + 1, objs := h.objs.set o ⟨h.next, h.next⟩ }
  | .setFlag o i v =>
    match h.objs[o]? with
    | none => h
    | some ob => { h with flags := upd h.flags ob.r ((h.flags ob.r).set i v) }
  | .setPart o i v =>
    match h.objs[o]? with
    | none => h
    | some ob => { h with parts := upd h.parts ob.p ((h.parts ob.p).set i v) }

def init (parts : List Bytes) (flags : List Bool) : Heap :=
  { parts := fun _ => parts, flags := fun _ => flags, next := 1, objs := [⟨0, 0⟩] }

def run (h : Heap) (ops : List Op) : Heap := ops.foldl step h

end Alias
