/-
Model of `MinimizeBalancedPairs.try_removing_chunks` WITH `--with-experimental-move`
(strategies.py:789-1139): the balanced pass of `Pairs.lean` plus the loop that, after a pair of
brackets could not be removed, tries to move every balanced chunk between the brackets behind the
closing one ("->Moving") or in front of the opening one ("<-Moving").

The bracket-balance lists are permuted by accepted moves, so here they are part of the state.
One iteration of the generic pass loop `pLoop` = one iteration of the outer `while` loop when no
move is in progress, or one step of the inner move loop (the deadline is checked before each).
-/
import LithiumModel.Pairs

namespace Strat

/-- Python `lst[a:b]` for `0 ≤ a, b` -/
def pySlice {α : Type} (l : List α) (a b : Nat) : List α := (l.take b).drop a

/-- `_split_parts(lst, step, ignore_before, start, stop)` -/
def splitFive {α : Type} (l : List α) (step ib start stop : Nat) : List α × List α × List α × List α × List α :=
  (l.take ib, pySlice l ib start, pySlice l start (start + step), pySlice l (start + step) (stop + step), l.drop (stop + step))

def partsAfter {α : Type} (p : List α × List α × List α × List α × List α) : List α :=
  p.1 ++ p.2.1 ++ p.2.2.2.1 ++ p.2.2.1 ++ p.2.2.2.2

def partsBefore {α : Type} (p : List α × List α × List α × List α × List α) : List α :=
  p.1 ++ p.2.2.1 ++ p.2.1 ++ p.2.2.2.1 ++ p.2.2.2.2

inductive MovePhase where
  | after | before
deriving Repr, DecidableEq, Inhabited

/-- the local variables of the move loop -/
structure MoveSt where
  orig : Nat          -- orig_chunk_idx
  stay : Bool         -- stay_on_same_chunk
  lhsIdx : Nat        -- lhs_chunk_idx (changed by "<-Moving")
  rhsIdx : Nat        -- rhs_chunk_idx
  lhsStart : Nat      -- chunk_lhs_start
  midStart : Nat      -- chunk_mid_start
  rhsStart : Nat      -- chunk_rhs_start
  midIdx : Nat        -- mid_chunk_idx
  phase : MovePhase
deriving Repr, Inhabited

structure BalMSt where
  summary : List Bool
  curly : List Int
  square : List Int
  normal : List Int
  chunkStart : Nat
  lhs : Nat
  mode : Option MoveSt := none
deriving Repr, Inhabited

def BalMSt.plain (st : BalMSt) : BalSt := { summary := st.summary, chunkStart := st.chunkStart, lhs := st.lhs }

def moveCand (cs : Nat) (m : MoveSt) (it : It) : Testcase :=
  let five := fun {α : Type} (l : List α) => splitFive l cs m.lhsStart m.midStart m.rhsStart
  match m.phase with
  | .after => { it.best with parts := partsAfter (five it.best.parts), reducible := partsAfter (five it.best.reducible) }
  | .before => { it.best with parts := partsBefore (five it.best.parts), reducible := partsBefore (five it.best.reducible) }

def moveMk (m : MoveSt) (it : It) (cand : Testcase) : Resp → Att := fun r =>
  { tag := 9, lo := 0, hi := 0, size := 0, bestLen := 0, base := it.best, tIdx := it.nTests, cand := cand, resp := r }

def balMAct (cs numChunks : Nat) (st : BalMSt) (it : It) : PAct :=
  match st.mode with
  | none => balAct cs numChunks st.curly st.square st.normal st.plain it
  | some m =>
    if !(m.midStart < m.rhsStart) then .skip      -- the move loop is over: epilogue
    -- assert summary.count("S", 0, mid_chunk_idx) * chunk_size == chunk_mid_start
    else if countS st.summary 0 m.midIdx * cs != m.midStart then .fail
    else if !balZero (balOf st.curly st.square st.normal m.midIdx) then .skip   -- keep an unbalanced chunk
    else .propose (moveCand cs m it) (moveMk m it (moveCand cs m it))

def permute {α : Type} (ph : MovePhase) (l : List α) (ib start stop : Nat) : List α :=
  match ph with
  | .after => partsAfter (splitFive l 1 ib start stop)
  | .before => partsBefore (splitFive l 1 ib start stop)

/-- the end of the move loop: `lhs_chunk_idx = orig_chunk_idx; if not stay_on_same_chunk: ...` -/
def moveEpilogue (cs : Nat) (st : BalMSt) (m : MoveSt) : Option BalMSt :=
  if m.stay then some { st with lhs := m.orig, mode := none }
  else
    match indexS st.summary (m.orig + 1) with
    | some l => some { st with chunkStart := st.chunkStart + cs, lhs := l, mode := none }
    | none => none

def balMNext (cs : Nat) (st : BalMSt) (it : It) (r : Option Resp) : Option BalMSt :=
  match st.mode with
  | none =>
    let zero := balZero (balOf st.curly st.square st.normal st.lhs)
    let rhs := (balRhs st.curly st.square st.normal st.plain).1
    let pairTried := !zero && balZero (balRhs st.curly st.square st.normal st.plain).2
    match r with
    | some .accepted =>
      (balNext cs st.curly st.square st.normal st.plain r).map
        (fun p => { st with summary := p.summary, chunkStart := p.chunkStart, lhs := p.lhs })
    | _ =>
      if pairTried && r.isSome then
        -- the pair could not be removed: enter the move loop
        let n := it.best.len
        let lhsEnd := min n (st.chunkStart + cs)
        let rhsStart := min n (st.chunkStart + cs * countS st.summary st.lhs rhs)
        match indexS st.summary (st.lhs + 1) with
        | none => none
        | some mid =>
          some { st with mode := some { orig := st.lhs, stay := false, lhsIdx := st.lhs, rhsIdx := rhs,
                                        lhsStart := st.chunkStart, midStart := lhsEnd, rhsStart := rhsStart,
                                        midIdx := mid, phase := .after } }
      else
        (balShift cs st.plain).map (fun p => { st with summary := p.summary, chunkStart := p.chunkStart, lhs := p.lhs })
  | some m =>
    if !(m.midStart < m.rhsStart) then moveEpilogue cs st m
    else
      match r with
      | none =>
        -- an unbalanced chunk is kept where it is
        (indexS st.summary (m.midIdx + 1)).map
          (fun i => { st with mode := some { m with midStart := m.midStart + cs, midIdx := i, phase := .after } })
      | some .accepted =>
        let summary := permute m.phase st.summary m.lhsIdx m.midIdx m.rhsIdx
        let st' := { st with summary := summary,
                             curly := permute m.phase st.curly m.lhsIdx m.midIdx m.rhsIdx,
                             square := permute m.phase st.square m.lhsIdx m.midIdx m.rhsIdx,
                             normal := permute m.phase st.normal m.lhsIdx m.midIdx m.rhsIdx }
        (indexS summary (m.midIdx + 1)).map (fun i =>
          match m.phase with
          | .after => { st' with mode := some { m with rhsStart := m.rhsStart - cs, rhsIdx := m.rhsIdx - 1, midIdx := i, phase := .after } }
          | .before => { st' with mode := some { m with lhsStart := m.lhsStart + cs, midStart := m.midStart + cs,
                                                        lhsIdx := m.lhsIdx + 1, midIdx := i, stay := true, phase := .after } })
      | some _ =>
        match m.phase with
        | .after => some { st with mode := some { m with phase := .before } }
        | .before =>
          (indexS st.summary (m.midIdx + 1)).map
            (fun i => { st with mode := some { m with midStart := m.midStart + cs, midIdx := i, phase := .after } })

def balMDef (cs numChunks : Nat) : PassDef BalMSt where
  guard st it := match st.mode with | some _ => true | none => st.chunkStart < it.best.len
  act := balMAct cs numChunks
  next := balMNext cs

def balMPass (o : Oracle) (clk : Clock) (stopAt : Option Nat) (cs : Nat) (it : It) : It × Bool :=
  let numChunks := Util.divUp it.best.len cs
  if numChunks < 2 then (it, false) else
  let parts := it.best.parts
  let idx := List.range numChunks
  pLoop (balMDef cs numChunks) o clk stopAt (8 * numChunks * numChunks + 8 * numChunks + 8)
    { summary := List.replicate numChunks true,
      curly := idx.map (fun i => countDiff parts i 0x7B 0x7D),
      square := idx.map (fun i => countDiff parts i 0x5B 0x5D),
      normal := idx.map (fun i => countDiff parts i 0x28 0x29),
      chunkStart := 0, lhs := 0 } it false

/-- `minimize-balanced --with-experimental-move` -/
def balancedMove (cfg : Cfg) (o : Oracle) (clk : Clock) (t : Testcase) : It :=
  let sa := stopAt cfg clk
  pairsOuter cfg clk sa (fun cs it => balMPass o clk sa cs it) (max cfg.min 1)
    (4 * (t.len + 2) * (t.len + 2) + 16) (min cfg.max (Util.lp2 t.len)) { best := t }

end Strat
