/-
Line-protocol helpers: canonical text encodings shared with harness/proto.py.
  bytes        : lowercase hex, the empty string is "-"
  list of bytes: items joined by ",", the empty list is "."
  list of bool : a string of '1'/'0', the empty list is "."
  int          : decimal, optional leading '-'; "N" is Python's None
-/
import LithiumModel.Testcase

namespace Proto

def hexDigit (n : Nat) : Char :=
  if n < 10 then Char.ofNat (48 + n) else Char.ofNat (87 + n)

def encBytes (b : Bytes) : String :=
  if b.isEmpty then "-" else
  String.ofList (b.foldr (fun x acc => hexDigit (x.toNat / 16) :: hexDigit (x.toNat % 16) :: acc) [])

def hexVal (c : Char) : Option Nat :=
  if '0' ≤ c ∧ c ≤ '9' then some (c.toNat - 48)
  else if 'a' ≤ c ∧ c ≤ 'f' then some (c.toNat - 87)
  else if 'A' ≤ c ∧ c ≤ 'F' then some (c.toNat - 55)
  else none

def decHexAux : List Char → Option Bytes
  | [] => some []
  | [_] => none
  | a :: b :: rest => do
    let x ← hexVal a
    let y ← hexVal b
    let r ← decHexAux rest
    pure (UInt8.ofNat (x * 16 + y) :: r)

def decBytes (s : String) : Option Bytes :=
  if s == "-" then some [] else decHexAux s.toList

def encList (l : List Bytes) : String :=
  if l.isEmpty then "." else ",".intercalate (l.map encBytes)

def decList (s : String) : Option (List Bytes) :=
  if s == "." then some [] else (s.splitOn ",").mapM decBytes

def encBools (l : List Bool) : String :=
  if l.isEmpty then "." else String.ofList (l.map (fun b => if b then '1' else '0'))

def decBools (s : String) : Option (List Bool) :=
  if s == "." then some [] else
  s.toList.mapM (fun c => if c == '1' then some true else if c == '0' then some false else none)

def decOptInt (s : String) : Option (Option Int) :=
  if s == "N" then some none else (s.toInt?).map some

def encTestcase (t : Testcase) : String :=
  s!"{encBytes t.before} {encList t.parts} {encBools t.reducible} {encBytes t.after}"

def decTestcase (b p r a : String) : Option Testcase := do
  pure { before := ← decBytes b, parts := ← decList p, reducible := ← decBools r, after := ← decBytes a }

end Proto
