/-
Model of `Minimize.reduce` (strategies.py:438-535), one `while True` iteration per `step`.
`CollapseEmptyBraces` is the same loop with a non-trivial `_post_round_cb` (`postRound`).
-/
import LithiumModel.Iter
import LithiumModel.Load

namespace Strat

structure MinSt where
  chunkSize : Nat
  minChunk : Nat
  chunkEnd : Int
  removed : Bool
deriving Repr, Inhabited

/-- `while chunk_size > 1: chunk_size >>= 1; if chunk_size < len: break` (fuel = chunk_size) -/
def halveBelow : Nat → Nat → Nat → Nat
  | 0, cs, _ => cs
  | f + 1, cs, n =>
    if cs > 1 then
      let cs' := cs / 2
      if cs' < n then cs' else halveBelow f cs' n
    else cs

/-- the end-of-round block (strategies.py:471-507); `none` is `break` -/
def roundDecision (cfg : Cfg) (st : MinSt) (n : Nat) : Option MinSt :=
  if st.chunkSize ≤ st.minChunk then
    if st.removed && (cfg.rep == .always || cfg.rep == .last) then
      some { st with chunkEnd := n, removed := false }
    else none
  else if st.removed && cfg.rep == .always && st.chunkSize < n then
    some { st with chunkEnd := n, removed := false }
  else
    some { st with chunkSize := halveBelow st.chunkSize st.chunkSize n, chunkEnd := n, removed := false }

def minInit (cfg : Cfg) (t : Testcase) : MinSt :=
  let cs := min cfg.max (Util.lp2 t.len)
  { chunkSize := cs, minChunk := min cs (max cfg.min 1), chunkEnd := t.len, removed := cfg.repeatFirst }

inductive StepR where
  | done (it : It)
  | cont (st : MinSt) (it : It)
deriving Inhabited

/-- first half of an iteration of `while True`: the deadline check and, at the end of a round,
the empty-file check, the post-round callback and the round decision.  `inl` = the loop ends. -/
def roundPhase (cfg : Cfg) (clk : Clock) (stopAt : Option Nat) (postRound : It → It)
    (st : MinSt) (it : It) : Sum It (MinSt × It) :=
  if deadlinePassed stopAt clk it then .inl { it with deadlineStop := true } else
  let roundEnd : Bool := st.chunkEnd - st.chunkSize < 0
  if roundEnd then
    if it.best.len == 0 then .inl it else
    let it := postRound it
    match roundDecision cfg st it.best.len with
    | none => .inl it
    | some st => .inr (st, it)
  else .inr (st, it)

/-- second half: build the candidate `best` minus the chunk `[chunk_start, chunk_end)`, try it,
and move on -/
def attempt (o : Oracle) (st : MinSt) (it : It) : MinSt × It :=
  let s : Int := max 0 (st.chunkEnd - st.chunkSize)
  let cand := it.best.rmslice s st.chunkEnd
  let mk : Resp → Att := fun r =>
    { tag := 0, lo := s.toNat, hi := st.chunkEnd.toNat, size := st.chunkSize, bestLen := it.best.len,
      base := it.best, tIdx := it.nTests, cand := cand, resp := r }
  match it.try o cand mk with
  | (.accepted, it) => ({ st with removed := true, chunkEnd := s }, it)
  | (_, it) =>
    ({ st with chunkEnd := st.chunkEnd - (if st.chunkSize ≤ 2 then 1 else (st.chunkSize : Int)) }, it)

/-- one iteration of `while True` -/
def minStep (cfg : Cfg) (o : Oracle) (clk : Clock) (stopAt : Option Nat) (postRound : It → It)
    (st : MinSt) (it : It) : StepR :=
  match roundPhase cfg clk stopAt postRound st it with
  | .inl it => .done it
  | .inr (st, it) => .cont (attempt o st it).1 (attempt o st it).2

def minLoop (cfg : Cfg) (o : Oracle) (clk : Clock) (stopAt : Option Nat) (postRound : It → It) :
    Nat → MinSt → It → It
  | 0, _, it => { it with outOfFuel := true }
  | fuel + 1, st, it =>
    match minStep cfg o clk stopAt postRound st it with
    | .done it' => it'
    | .cont st' it' => minLoop cfg o clk stopAt postRound fuel st' it'

/-- fuel that is always enough (proved: `C09_fuel_minimize`) -/
def minFuel (t : Testcase) : Nat := (t.len + 2) * (t.len + Nat.log2 (t.len + 1) + 4) + 4

def stopAt (cfg : Cfg) (clk : Clock) : Option Nat := cfg.stopAfter.map (fun s => clk 0 + s)

/-- `Minimize.reduce` -/
def minimize (cfg : Cfg) (o : Oracle) (clk : Clock) (t : Testcase) : It :=
  minLoop cfg o clk (stopAt cfg clk) id (minFuel t) (minInit cfg t) { best := t }

/-! ### CollapseEmptyBraces: the same loop with a post-round callback -/

/-- `\s` of a bytes pattern -/
def isWs (b : UInt8) : Bool :=
  b == 0x20 || b == 0x09 || b == 0x0A || b == 0x0D || b == 0x0C || b == 0x0B

/-- `re.sub(rb"{\s+}", b"{ }", raw)`: leftmost non-overlapping matches (fuel = length + 1) -/
def collapseSub : Nat → Bytes → Bytes
  | 0, d => d
  | _ + 1, [] => []
  | f + 1, c :: rest =>
    if c == 0x7B then
      let r := rest.dropWhile isWs
      if r.length < rest.length then
        match r with
        | 0x7D :: r' => 0x7B :: 0x20 :: 0x7D :: collapseSub f r'
        | _ => c :: collapseSub f rest
      else c :: collapseSub f rest
    else c :: collapseSub f rest

/-- `_post_round_cb`: collapse, write, re-load with the same splitter, try the result -/
def collapsePost (reload : Bytes → Option Testcase) (o : Oracle) (it : It) : It :=
  let raw := it.best.parts.flatten
  let modified := collapseSub (raw.length + 1) raw
  if raw == modified then it else
  match reload (it.best.before ++ modified ++ it.best.after) with
  | none => it    -- load raised LithiumError (a marker word was formed): the collapse is skipped this round
  | some newTc =>
    (it.try o newTc (fun r => { tag := 3, lo := 0, hi := 0, size := 0, bestLen := 0, base := it.best,
                                tIdx := it.nTests, cand := newTc, resp := r })).2

/-- fuel for the loop with the brace collapse: the re-load of a collapsed text can have MORE atoms
than the testcase it replaces (recorded finding `collapse-regrows-atoms`), but never more than the file
has bytes — atoms are non-empty and collapsing never adds a byte (`collapse_bound`) -/
def collapseFuel (t : Testcase) : Nat :=
  let b := t.content.length
  (b + 2) * (b + Nat.log2 (b + 1) + 6) + 8

/-- `CollapseEmptyBraces.reduce` for a given splitter (`reload`) -/
def collapse (reload : Bytes → Option Testcase) (cfg : Cfg) (o : Oracle) (clk : Clock) (t : Testcase) : It :=
  minLoop cfg o clk (stopAt cfg clk) (collapsePost reload o) (collapseFuel t) (minInit cfg t) { best := t }

end Strat
