/-
Model of the command line handling of `Lithium.process_args` (reducer.py:118-259):
* the part of `argparse._parse_known_args` (CPython 3.12) that Lithium's two parsers exercise —
  per-token classification (`_parse_optional`, `_get_option_tuples`), `consume_optional` with
  explicit arguments and single-dash clusters, and a single trailing positional with
  `nargs=REMAINDER` that swallows everything from the first non-option token on;
* the early parser (`_ArgParseTry`, whose `error()` does nothing) that picks the atom type and
  the strategy, the main parser, and what `process_args` derives from the namespace.
The option tables are DATA: they are regenerated from the live parser objects on every run
(`Generated/CmdlineTable.lean`).
-/
import LithiumModel.Args

namespace Cmdline

/-- command-line tokens, option strings, dests and values are lists of characters (so that every
function below is structurally recursive and kernel-reducible) -/
abbrev Tok := List Char

structure Opt where
  names : List Tok
  nargs : Nat                       -- 0 (store_const / store_true) or 1
  dest : Tok
  const : Tok := []                 -- value stored by a 0-argument option
  choices : List Tok := []          -- [] = any
  isInt : Bool := false
  excl : Bool := false              -- member of the mutually exclusive atom group
deriving Repr, DecidableEq, Inhabited

inductive PosKind where
  | remainder      -- one positional, nargs=REMAINDER
  | other          -- anything else (not modelled; `WFTable` is false)
deriving Repr, DecidableEq, Inhabited

structure Table where
  opts : List Opt
  pos : PosKind
  errorsPass : Bool                 -- `_ArgParseTry`: error() returns instead of exiting
  allowAbbrev : Bool := true
  /-- tokens are taken as they are: `prefix_chars == "-"` and no `fromfile_prefix_chars`
  (argparse would replace an `@file` token — anywhere on the line — by the file's lines) -/
  plainArgs : Bool := true
deriving Repr, DecidableEq, Inhabited

/-- all option strings in registration order, with their option -/
def Table.strings (t : Table) : List (Tok × Opt) :=
  t.opts.flatMap (fun o => o.names.map (fun n => (n, o)))

def Table.lookup (t : Table) (name : Tok) : Option Opt :=
  (t.strings.find? (fun x => x.1 == name)).map (·.2)

inductive Cls where
  | arg                                            -- 'A' (also the `--` token, see below)
  | opt (o : Opt) (name : Tok) (explicit : Option Tok)
  | unknown                                        -- looks like an option, is none of ours
  | ambiguous                                      -- prefix of several options: `self.error(...)`
deriving Repr, Inhabited

def isDigits (s : List Char) : Bool := !s.isEmpty && s.all Char.isDigit

/-- `^-\d+$|^-\d*\.\d+$` -/
def negativeNumberLike (s : Tok) : Bool :=
  match s with
  | '-' :: rest =>
    isDigits rest ||
      (match rest.span Char.isDigit with
       | (_, '.' :: frac) => isDigits frac
       | _ => false)
  | _ => false

/-- `arg_string.split('=', 1)` when it contains '=' -/
def splitEq (s : Tok) : Option (Tok × Tok) :=
  match s.span (· != '=') with
  | (a, '=' :: b) => some (a, b)
  | _ => none

/-- `_get_option_tuples` -/
def optionTuples (t : Table) (s : Tok) : List (Opt × Tok × Option Tok) :=
  match s with
  | '-' :: '-' :: _ =>
    let (pre, ex) := match splitEq s with | some (a, b) => (a, some b) | none => (s, none)
    if !t.allowAbbrev then [] else
    (t.strings.filter (fun x => pre.isPrefixOf x.1)).map (fun x => (x.2, x.1, ex))
  | '-' :: c :: tail =>
    let shortP : Tok := ['-', c]
    t.strings.filterMap (fun x =>
      if x.1 == shortP then some (x.2, x.1, some tail)
      else if s.isPrefixOf x.1 then some (x.2, x.1, none)
      else none)
  | _ => []

/-- `_parse_optional` -/
def classify (t : Table) (s : Tok) : Cls :=
  if s.isEmpty then .arg
  else if s.head? != some '-' then .arg
  else match t.lookup s with
  | some o => .opt o s none
  | none =>
    if s.length == 1 then .arg
    else
      match (match splitEq s with
             | some (a, b) => (t.lookup a).map (fun o => (o, a, b))
             | none => none) with
      | some (o, a, b) => .opt o a (some b)
      | none =>
        let tuples := optionTuples t s
        if tuples.length > 1 && !t.errorsPass then .ambiguous
        else if tuples.length == 1 then
          match tuples with
          | [(o, n, ex)] => .opt o n ex
          | _ => .unknown
        else if negativeNumberLike s then .arg
        else if s.contains ' ' then .arg
        else .unknown

structure Parsed where
  ns : List (Tok × Tok) := []              -- assignments (dest, value), in order
  extras : List Tok := []
  remainder : List Tok := []
  seenExcl : Option Tok := none         -- first option string of the exclusive group seen so far
deriving Repr, DecidableEq, Inhabited

inductive Res where
  | ok (p : Parsed)
  | error (what : String) (sofar : Parsed)    -- `sofar`: what had been stored in the namespace before the error
deriving Repr, DecidableEq, Inhabited

/-- a decimal integer literal with optional sign (what the harness feeds to `type=int` options) -/
def isIntLit (v : Tok) : Bool :=
  match v with
  | '-' :: d => isDigits d
  | '+' :: d => isDigits d
  | d => isDigits d

def natOfDigits (d : Tok) : Nat := d.foldl (fun acc c => acc * 10 + (c.toNat - 48)) 0

def intOfLit (v : Tok) : Int :=
  match v with
  | '-' :: d => - (natOfDigits d : Int)
  | '+' :: d => natOfDigits d
  | d => natOfDigits d

/-- `_get_values` checks for a 1-argument option -/
def checkValue (o : Opt) (v : Tok) : Option String :=
  if o.isInt && !isIntLit v then some "invalid int value"
  else if !o.choices.isEmpty && !o.choices.contains v then some "invalid choice"
  else none

/-- the single-dash cluster loop of `consume_optional` (`-xyz` = `-x -y -z`) for 0-argument
options: the options of the cluster in order, or the error argparse raises -/
def clusterOpts (t : Table) : Nat → Opt → Tok → List Opt → Except String (List Opt)
  | 0, _, _, _ => .error "cluster fuel"
  | f + 1, o, explicit, acc =>
    match explicit with
    | [] => .ok (acc ++ [o])
    | c :: tail =>
      match t.lookup ['-', c] with
      | some o2 =>
        if o2.nargs == 0 then clusterOpts t f o2 tail (acc ++ [o])
        else if tail.isEmpty then .error "expected one argument"   -- not reachable with Lithium's tables
        else .error "cluster with an argument-taking option (not modelled)"
      | none => .error "ignored explicit argument"

/-- `take_action`: record the assignments of one option; two different members of the mutually
exclusive group conflict -/
def take (p : Parsed) (o : Opt) (l : List (Tok × Tok)) : Except String Parsed :=
  if o.excl then
    match p.seenExcl with
    | some n => if n == o.names.headD [] then .ok { p with ns := p.ns ++ l } else .error "not allowed with argument"
    | none => .ok { p with ns := p.ns ++ l, seenExcl := some (o.names.headD []) }
  else .ok { p with ns := p.ns ++ l }

/-- the main loop, specialised to one trailing REMAINDER positional -/
def parseLoop (t : Table) : List Tok → Parsed → Res
  | [], p => .ok p                                    -- consume_positionals at the end: REMAINDER = []
  | s :: rest, p =>
    if s == ['-', '-'] then .ok { p with remainder := s :: rest } else
    match classify t s with
    | .arg => .ok { p with remainder := s :: rest }   -- REMAINDER takes everything from here
    | .ambiguous => .error "ambiguous option" p
    | .unknown => parseLoop t rest { p with extras := p.extras ++ [s] }
    | .opt o name explicit =>
      match explicit with
      | some ex =>
        if o.nargs == 1 then
          match checkValue o ex with
          | some e => .error e p
          | none =>
            match take p o [(o.dest, ex)] with
            | .ok p' => parseLoop t rest p'
            | .error e => .error e p
        else if (name.getD 1 '-') != '-' && !ex.isEmpty then
          match clusterOpts t (ex.length + 2) o ex [] with
          | .ok os =>
            match os.foldl (fun (acc : Except String Parsed) o' => Except.bind acc (fun q => take q o' [(o'.dest, o'.const)])) (Except.ok p) with
            | .ok p' => parseLoop t rest p'
            | .error e => .error e p
          | .error e => .error e p
        else .error "ignored explicit argument" p
      | none =>
        if o.nargs == 0 then
          match take p o [(o.dest, o.const)] with
          | .ok p' => parseLoop t rest p'
          | .error e => .error e p
        else
          -- the value is the next token if it is an 'A'
          match rest with
          | v :: rest' =>
            if v == ['-', '-'] then .error "expected one argument" p else
            match classify t v with
            | .arg =>
              match checkValue o v with
              | some e => .error e p
              | none =>
                match take p o [(o.dest, v)] with
                | .ok p' => parseLoop t rest' p'
                | .error e => .error e p
            | .ambiguous => .error "ambiguous option" p
            | _ => .error "expected one argument" p
          | [] => .error "expected one argument" p

/-- ambiguity is reported while classifying ALL tokens up front, also those that the REMAINDER
positional would have swallowed -/
def anyAmbiguous (t : Table) (argv : List Tok) : Bool :=
  let upTo := argv.takeWhile (· != ['-', '-'])
  upTo.any (fun s => match classify t s with | .ambiguous => true | _ => false)

def parse (t : Table) (argv : List Tok) : Res :=
  if anyAmbiguous t argv then .error "ambiguous option" {} else parseLoop t argv {}

def lastValue (ns : List (Tok × Tok)) (dest : Tok) : Option Tok :=
  ((ns.filter (fun x => x.1 == dest)).getLast?).map (·.2)

/-- what the early parser decides: `(atom, strategy)`, the defaults when it gives up -/
def dAtom : Tok := "atom".toList
def dStrategy : Tok := "strategy".toList
def vLine : Tok := "line".toList
def vMinimize : Tok := "minimize".toList

def early (t : Table) (argv : List Tok) : Tok × Tok :=
  -- `_ArgParseTry.error()` returns, so `parse_known_args` hands back the namespace as filled so far
  match parse t argv with
  | .ok p => ((lastValue p.ns dAtom).getD vLine, (lastValue p.ns dStrategy).getD vMinimize)
  | .error _ p => ((lastValue p.ns dAtom).getD vLine, (lastValue p.ns dStrategy).getD vMinimize)

/-- what `process_args` derives once both parsers have run -/
inductive PA where
  | exit (code : Nat)
  | ok (atom strategy : Tok) (ns : List (Tok × Tok)) (testcase : Tok) (cond : Tok) (condArgs : List Tok)
deriving Repr, DecidableEq, Inhabited

def isMinimizeFamily (s : Tok) : Bool := s != "check-only".toList

def intOf (ns : List (Tok × Tok)) (dest : Tok) (dflt : Int) : Int :=
  match lastValue ns dest with
  | some v => if isIntLit v then intOfLit v else dflt
  | none => dflt

/-- `process_args` up to (not including) loading the file and importing the test -/
def processArgs (earlyT : Table) (mainT : Tok → Tok → Table) (argv : List Tok) : PA :=
  let es := early earlyT argv
  let atom := es.1
  let strategy := es.2
  match parse (mainT strategy atom) argv with
  | .error _ _ => .exit 2
  | .ok p =>
    if (lastValue p.ns "help".toList).isSome then .exit 0
    else if !p.extras.isEmpty then .exit 2          -- parse_args: unrecognized arguments
    else
      -- strategy.process_args: powers of two
      let a : Strat.Args :=
        { chunkSize := (lastValue p.ns "chunk_size".toList).map (fun v => if isIntLit v then intOfLit v else 0),
          min := intOf p.ns "min".toList 1, max := intOf p.ns "max".toList (2 ^ 30) }
      if isMinimizeFamily strategy && (match Strat.processArgs a with | .ok _ => false | .error _ => true) then .exit 2
      else
        match p.remainder with
        | [] =>
          (match lastValue p.ns "testcase".toList with
           | some _ => .exit 3      -- extra_args[0] raises IndexError (no condition given)
           | none => .exit 2)
        | c :: cargs =>
          match lastValue p.ns "testcase".toList with
          | some tc => .ok atom strategy p.ns tc c cargs
          | none => .ok atom strategy p.ns ((c :: cargs).getLast?.getD c) c cargs

end Cmdline
