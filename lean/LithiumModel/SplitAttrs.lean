/-
Model of `TestcaseAttrs.split_parts` (testcases.py:429-511): the two-state loop over
`TAG_PATTERN = <\s*[A-Za-z][A-Za-z-]*` and
`ATTR_PATTERN = ((\s+|^)[A-Za-z][A-Za-z0-9:-]*(=|>|\s)|\s*>)`,
each regular expression re-expressed as the matcher it denotes.
-/
import LithiumModel.Minimize

namespace Attrs
open Strat (isWs)

def isAlpha (b : UInt8) : Bool := (0x41 ≤ b && b ≤ 0x5A) || (0x61 ≤ b && b ≤ 0x7A)
def isDigit (b : UInt8) : Bool := 0x30 ≤ b && b ≤ 0x39
def isNameChar (b : UInt8) : Bool := isAlpha b || isDigit b || b == 0x3A || b == 0x2D   -- [A-Za-z0-9:-]
def isTagChar (b : UInt8) : Bool := isAlpha b || b == 0x2D                               -- [A-Za-z-]
def isTerm (b : UInt8) : Bool := b == 0x3D || b == 0x3E || isWs b                        -- (=|>|\s)

/-- `[A-Za-z][A-Za-z0-9:-]*(=|>|\s)` at the head: length of the match -/
def nameTerm (d : Bytes) : Option Nat :=
  match d with
  | c :: rest =>
    if isAlpha c then
      let run := rest.takeWhile isNameChar
      match rest.drop run.length with
      | t :: _ => if isTerm t then some (run.length + 2) else none
      | [] => none
    else none
  | [] => none

/-- first alternative of ATTR_PATTERN at the head; `lineStart` = `^` matches here -/
def attrA1 (d : Bytes) (lineStart : Bool) : Option Nat :=
  let ws := d.takeWhile isWs
  if !ws.isEmpty then
    -- `\s+` (greedy; shorter runs cannot help, the next byte would be whitespace)
    (nameTerm (d.drop ws.length)).map (· + ws.length)
  else if lineStart then nameTerm d
  else none

/-- second alternative `\s*>` -/
def attrA2 (d : Bytes) : Option Nat :=
  let ws := d.takeWhile isWs
  match d.drop ws.length with
  | 0x3E :: _ => some (ws.length + 1)
  | _ => none

/-- `re.match(ATTR_PATTERN, data)`: (length, came from the first alternative) -/
def attrMatch (d : Bytes) : Option (Nat × Bool) :=
  match attrA1 d true with
  | some k => some (k, true)
  | none => (attrA2 d).map (fun k => (k, false))

/-- `re.search(ATTR_PATTERN, data, MULTILINE)`: (start, length, first alternative?) of the leftmost
match; `prev` is the byte before the current position (`none` at the start of the data) -/
def attrSearch : Bytes → Option UInt8 → Nat → Option (Nat × Nat × Bool)
  | [], _, _ => none     -- both alternatives need at least one byte
  | c :: rest, prev, pos =>
    let lineStart := match prev with | none => true | some p => p == 0x0A
    match attrA1 (c :: rest) lineStart with
    | some k => some (pos, k, true)
    | none =>
      match attrA2 (c :: rest) with
      | some k => some (pos, k, false)
      | none => attrSearch rest (some c) (pos + 1)

/-- `re.search(TAG_PATTERN, data)`: end of the leftmost match -/
def tagSearch : Bytes → Nat → Option Nat
  | [], _ => none
  | c :: rest, pos =>
    if c == 0x3C then
      let ws := rest.takeWhile isWs
      match rest.drop ws.length with
      | a :: more =>
        if isAlpha a then some (pos + 1 + ws.length + 1 + (more.takeWhile isTagChar).length)
        else tagSearch rest (pos + 1)
      | [] => tagSearch rest (pos + 1)
    else tagSearch rest (pos + 1)

/-- is the matched text, stripped, exactly `>`? (`match.group(0).strip() == b">"`) -/
def stripIsGt (m : Bytes) : Bool :=
  let a := m.dropWhile isWs
  (a.reverse.dropWhile isWs).reverse == [0x3E]

structure St where
  data : Bytes
  inTag : Bool
  parts : List Bytes
  red : List Bool
deriving Repr, Inhabited

def push (s : St) (p : Bytes) (r : Bool) (rest : Bytes) : St :=
  { s with parts := s.parts ++ [p], red := s.red ++ [r], data := rest }

/-- one iteration of `while data:`; `none` = `break` -/
def step (s : St) : Option St :=
  let data := s.data
  if s.inTag then
    match attrMatch data with
    | none =>
      -- before bailing out of the tag, try consuming up to the next attribute-looking thing
      match attrSearch data none 0 with
      | none => some { s with inTag := false }
      | some (start, len, _) =>
        let g := (data.drop start).take len
        if !stripIsGt g then some (push s (data.take start) false (data.drop start))
        else some (push { s with inTag := false } (data.take (start + len)) false (data.drop (start + len)))
    | some (len, _) =>
      let g := data.take len
      if stripIsGt g then some (push { s with inTag := false } g false (data.drop len))
      else if g.getLast? != some 0x3D then
        -- value-less attribute: leave the terminator for the next round
        some (push s (data.take (len - 1)) true (data.drop (len - 1)))
      else
        let rest := data.drop len
        match rest with
        | q :: rest' =>
          if q == 0x27 || q == 0x22 then
            match rest'.findIdx? (· == q) with
            | none => some { s with inTag := false }      -- EOF looking for the end quote
            | some i => some (push s (g ++ [q] ++ rest'.take (i + 1)) true (rest'.drop (i + 1)))
          else
            match rest.findIdx? (fun b => isWs b || b == 0x3E) with
            | none => some { s with inTag := false }
            | some i => some (push s (g ++ rest.take i) true (rest.drop i))
        | [] => some { s with inTag := false }
  else
    match tagSearch data 0 with
    | none => none
    | some e => some (push { s with inTag := true } (data.take e) false (data.drop e))

def loop : Nat → St → St
  | 0, s => s
  | f + 1, s =>
    if s.data.isEmpty then s else
    match step s with
    | none => s
    | some s' => loop f s'

def splitAttrs : Load.Splitter := fun data =>
  let s := loop (2 * data.length + 2) { data := data, inTag := false, parts := [], red := [] }
  if s.data.isEmpty then .ok { parts := s.parts, reducible := s.red }
  else .ok { parts := s.parts ++ [s.data], reducible := s.red ++ [false] }

def loadAttrs (d : Bytes) := Load.loadWith splitAttrs d

end Attrs
