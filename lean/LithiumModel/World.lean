/-
Model of the driver: `Lithium.run` (reducer.py:80-116), `Lithium.interesting` (reducer.py:298-337),
`Lithium.testcase_temp_filename`, `Strategy.main` (strategies.py:230-305), `CheckOnly.main`
and `ReductionIterator.try_testcase/feedback` (strategies.py:86-126), driven by an arbitrary
script of what a strategy does (`Ev`) and of what the interestingness test answers (`Outcome`).

The file system is the testcase file (`disk`) and the temp directory (`tmp`).
-/
import LithiumModel.Testcase

namespace World

inductive Outcome where
  | accept | reject
  | raise        -- the test raised (any exception class, KeyboardInterrupt, SystemExit, ...)
deriving Repr, DecidableEq, Inhabited

/-- what a strategy can do between two tests -/
inductive Ev where
  | propose (c : Testcase) (out : Outcome)  -- `yield from iterator.try_testcase(c)`; `out` is what
                                            -- the test answers IF the candidate is really tested
  | write (b : Bytes)                       -- the strategy writes the testcase file itself
  | strategyError                           -- the strategy's generator raises
deriving Repr, Inhabited

inductive TmpName where
  | original
  | numbered (i : Nat) (interesting : Bool)  -- "<i>-interesting" / "<i>-boring"
deriving Repr, DecidableEq, Inhabited

inductive Hook where
  | init | test (i : Nat) | cleanup
deriving Repr, DecidableEq, Inhabited

/-- what is observable at the moment a test runs -/
structure TestRec where
  idx : Nat                          -- number in the prefix "<tmpdir>/<idx>" handed to the test
  disk : Bytes                       -- bytes at the testcase path during the test
  tmp : List (TmpName × Bytes)       -- temp-directory content during the test
  out : Outcome
deriving Repr, Inhabited

inductive Exit where
  | running
  | returned (status : Nat)
  | raised                           -- an exception leaves `run()`
deriving Repr, DecidableEq, Inhabited

structure W where
  disk : Bytes
  diskWrites : Nat := 0
  tmp : List (TmpName × Bytes) := []
  tests : List TestRec := []
  testCount : Nat := 0
  testTotal : Nat := 0
  tmpCounter : Nat := 1
  lastInteresting : Option Testcase := none
  trace : List Hook := []
  testcase : Testcase                -- `Lithium.testcase`: adopted on every accepting test
  -- ReductionIterator (per run)
  best : Testcase
  tried : List Bytes := []
  anySuccess : Bool := false
  exit : Exit := .running
deriving Repr, Inhabited

/-- `Lithium.interesting(c, write_it)` with the test answering `out`.
Returns the new world and `none` when the test raised. -/
def interesting (w : W) (c : Testcase) (writeIt : Bool) (out : Outcome) : W × Option Bool :=
  -- if write_it: testcase_suggestion.dump()
  let w := if writeIt then { w with disk := c.content, diskWrites := w.diskWrites + 1 } else w
  -- counters, prefix
  let w := { w with testCount := w.testCount + 1, testTotal := w.testTotal + c.len }
  let rec_ : TestRec := { idx := w.tmpCounter, disk := w.disk, tmp := w.tmp, out := out }
  let w := { w with tests := w.tests ++ [rec_], trace := w.trace ++ [Hook.test w.tmpCounter] }
  match out with
  | .raise => (w, none)
  | .accept =>
    -- tagged copy (numbered with the same counter), counter += 1, adopt
    let w := { w with tmp := w.tmp ++ [(.numbered w.tmpCounter true, c.content)],
                      tmpCounter := w.tmpCounter + 1, lastInteresting := some c, testcase := c }
    (w, some true)
  | .reject =>
    let w := { w with tmp := w.tmp ++ [(.numbered w.tmpCounter false, c.content)],
                      tmpCounter := w.tmpCounter + 1 }
    (w, some false)

/-- one event of the reduction loop of `Strategy.main` (`for attempt in reduction: ...`) -/
def stepEv (w : W) : Ev → W
  | .write b => { w with disk := b, diskWrites := w.diskWrites + 1 }
  | .strategyError => { w with exit := .raised }
  | .propose c out =>
    -- try_testcase: de-dupe on the hash of before+parts+after
    if w.tried.contains c.content then w
    else
      let w := { w with tried := c.content :: w.tried }
      match interesting w c true out with
      | (w, none) => { w with exit := .raised }
      | (w, some true) => { w with best := c, anySuccess := true }   -- feedback(True)
      | (w, some false) => w                                         -- feedback(False)

def loop : W → List Ev → W
  | w, [] => w
  | w, e :: es =>
    match w.exit with
    | .running => loop (stepEv w e) es
    | _ => w

/-- the `finally:` block of `run()` -/
def finish (w : W) : W :=
  let w := { w with trace := w.trace ++ [Hook.cleanup] }
  match w.lastInteresting with
  -- only restore when the file holds something else (`_on_disk`)
  | some t => if w.disk = t.content then w else { w with disk := t.content, diskWrites := w.diskWrites + 1 }
  | none => w

/-- overwrite-or-create a temp file -/
def upsert (n : TmpName) (b : Bytes) : List (TmpName × Bytes) → List (TmpName × Bytes)
  | [] => [(n, b)]
  | (m, x) :: t => if m = n then (n, b) :: t else (m, x) :: upsert n b t

/-- a `Lithium` object on which `run()` has not been called yet -/
def fresh (orig : Testcase) (diskOrig : Bytes) : W :=
  { disk := diskOrig, testcase := orig, best := orig }

/-- entering `run()`: `last_interesting` is reset, the init hook runs; a new `ReductionIterator` will start from `Lithium.testcase` -/
def beginRun (w0 : W) : W :=
  { w0 with best := w0.testcase, tried := [], anySuccess := false, exit := .running,
            lastInteresting := none,      -- `run()` starts by forgetting what an earlier run ended with (fix for the stale restore)
            trace := w0.trace ++ [Hook.init] }

/-- `testcase.dump(temp_filename("original", False))` -/
def dumpOriginal (w : W) : W := { w with tmp := upsert .original w.testcase.content w.tmp }

/-- the end of `Strategy.main` after the reduction loop, then `finally` -/
def afterLoop (w : W) : W :=
  match w.exit with
  | .running =>
    -- testcase = reduction.testcase; testcase.dump(); return int(not reduction.reduced)
    finish { w with disk := w.best.content, diskWrites := w.diskWrites + 1,
                    exit := .returned (if w.anySuccess then 0 else 1) }
  | _ => finish w

/-- `run()` with a strategy that uses `Strategy.main`, on a `Lithium` object in state `w0`
(fresh, or left behind by earlier `run()` calls) -/
def runMainW (w0 : W) (evs : List Ev) (first : Outcome) : W :=
  let w := dumpOriginal (beginRun w0)
  if w.testcase.len = 0 then finish { w with exit := .returned 0 }
  else
    match interesting w w.testcase false first with
    | (w, none) => finish { w with exit := .raised }
    | (w, some false) => finish { w with exit := .returned 1 }
    | (w, some true) => afterLoop (loop w evs)

def runMain (orig : Testcase) (diskOrig : Bytes) (evs : List Ev) (first : Outcome) : W :=
  runMainW (fresh orig diskOrig) evs first

/-- `CheckOnly.main` inside `run()` -/
def runCheckOnlyW (w0 : W) (first : Outcome) : W :=
  let w := beginRun w0
  match interesting w w.testcase false first with
  | (w, none) => finish { w with exit := .raised }
  | (w, some r) => finish { w with exit := .returned (if r then 0 else 1) }

def runCheckOnly (orig : Testcase) (diskOrig : Bytes) (first : Outcome) : W :=
  runCheckOnlyW (fresh orig diskOrig) first

end World
