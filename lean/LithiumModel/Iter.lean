/-
Model of `ReductionIterator` as the strategies see it (strategies.py:42-153): the best testcase,
the set of tried contents, and what `try_testcase` + the driver's `feedback` answer.

`Oracle` is the interestingness test as a function of the number of tests this strategy has
already run and of the bytes the file has during the test: a deterministic test ignores the
index, an arbitrary verdict sequence ignores the bytes.
-/
import LithiumModel.Testcase
import LithiumModel.Util

namespace Strat

abbrev Oracle := Nat → Bytes → Bool

/-- time (in seconds) after `t` tests of this strategy have run (`time.time()` under the
scripted clock of the harness) -/
abbrev Clock := Nat → Nat

inductive Resp where
  | accepted | rejected
  | skipped      -- de-duplicated: nothing was yielded, the `for ... else` branch runs
deriving Repr, DecidableEq, Inhabited

/-- one proposal (`try_testcase` call) -/
structure Att where
  tag : Nat              -- which call site (strategy specific)
  lo : Nat               -- block start (reducible-atom index) as passed to rmslice
  hi : Nat               -- block end
  size : Nat             -- chunk size in force
  bestLen : Nat          -- len(iterator.testcase) when the proposal was built
  base : Testcase        -- iterator.testcase when the proposal was built
  tIdx : Nat             -- number of tests run before this proposal
  cand : Testcase
  resp : Resp
deriving Repr, Inhabited

structure It where
  best : Testcase
  tried : List Bytes := []
  atts : List Att := []          -- newest first
  nTests : Nat := 0
  outOfFuel : Bool := false      -- the executable model ran out of fuel (proved unreachable)
  internalError : Bool := false  -- an `assert` failed / an exception other than the handled ones
  deadlineStop : Bool := false
deriving Repr, Inhabited

/-- `for test in iterator.try_testcase(c): yield test; if iterator.last_feedback: ...` -/
def It.try (it : It) (o : Oracle) (c : Testcase) (mk : Resp → Att) : Resp × It :=
  if it.tried.contains c.content then
    (.skipped, { it with atts := mk .skipped :: it.atts })
  else
    let v := o it.nTests c.content
    let it := { it with tried := c.content :: it.tried, nTests := it.nTests + 1 }
    if v then (.accepted, { it with best := c, atts := mk .accepted :: it.atts })
    else (.rejected, { it with atts := mk .rejected :: it.atts })

/-- `stop_after_time is not None and time.time() > stop_after_time` -/
def deadlinePassed (stopAt : Option Nat) (clk : Clock) (it : It) : Bool :=
  match stopAt with
  | none => false
  | some t => clk it.nTests > t

inductive Repeat where
  | always | last | never
deriving Repr, DecidableEq, Inhabited

structure Cfg where
  min : Nat := 1                 -- minimize_min
  max : Nat := 2 ^ 30            -- minimize_max
  rep : Repeat := .last          -- minimize_repeat
  repeatFirst : Bool := false    -- minimize_repeat_first_round
  stopAfter : Option Nat := none -- stop_after_time (seconds)
  move : Bool := false           -- use_experimental_move (balanced only)
deriving Repr, Inhabited

end Strat
