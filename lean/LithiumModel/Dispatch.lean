/-
Dispatch of line-protocol commands to model functions.
-/
import LithiumModel.Proto
import LithiumModel.Load
import LithiumModel.World
import LithiumModel.Minimize
import LithiumModel.Pairs
import LithiumModel.SplitJs
import LithiumModel.SplitAttrs
import LithiumModel.Cmdline
import Generated.CmdlineTable
import LithiumModel.PairsMove
import LithiumModel.Alias
import LithiumModel.JsSpec
import LithiumModel.Rewrite
import LithiumModel.Interest
import LithiumModel.TempDir

namespace Dispatch
open Proto

def showErr : Load.Err → String
  | .endWithoutBegin => "err endWithoutBegin"
  | .beginWithoutEnd => "err beginWithoutEnd"
  | .internal w => s!"err internal {w}"

def showLoad : Except Load.Err Testcase → String
  | .ok t => s!"ok {encTestcase t}"
  | .error e => showErr e

def cmdLoad (kind : String) (data : String) : String :=
  match decBytes data with
  | none => "bad-op"
  | some d =>
    match kind.splitOn ":" with
    | ["line"] => showLoad (Load.loadLine d)
    | ["char"] => showLoad (Load.loadChar d)
    | ["jsstr"] => showLoad (Js.loadJs d)
    | ["attrs"] => showLoad (Attrs.loadAttrs d)
    | ["symbol"] => showLoad (Load.loadSymbol Load.DEFAULT_CUT_BEFORE Load.DEFAULT_CUT_AFTER d)
    | ["symbol", b, a] =>
      match decBytes b, decBytes a with
      | some b, some a => showLoad (Load.loadSymbol b a d)
      | _, _ => "bad-op"
    | _ => "bad-op"

def cmdRmslice (p r a b : String) : String :=
  match decList p, decBools r, decOptInt a, decOptInt b with
  | some p, some r, some a, some b =>
    let t : Testcase := { before := [], parts := p, reducible := r, after := [] }
    match t.rmslice? a b with
    | some t' => s!"ok {encList t'.parts} {encBools t'.reducible} {t'.len}"
    | none => "indexerror"
  | _, _, _, _ => "bad-op"

/-- `alias <parts> <flags> <ops>`: ops separated by `;`: `c:o`, `r:o:a:b`, `f:o:i:v`, `p:o:i:hex`.  Output per object
`parts flags`, then for every object the first object holding the same parts list / the same flag list. -/
def cmdAlias (p r ops : String) : String :=
  match decList p, decBools r with
  | some p, some r =>
    let decOp (s : String) : Option Alias.Op :=
      match s.splitOn ":" with
      | ["c", o] => o.toNat?.map .copy
      | ["r", o, a, b] => do pure (.rmslice (← o.toNat?) (← decOptInt a) (← decOptInt b))
      | ["f", o, i, v] => do pure (.setFlag (← o.toNat?) (← i.toNat?) (v == "1"))
      | ["p", o, i, v] => do pure (.setPart (← o.toNat?) (← i.toNat?) (← decBytes v))
      | _ => none
    match (if ops == "." then some [] else (ops.splitOn ";").mapM decOp) with
    | some ops =>
      let h := Alias.run (Alias.init p r) ops
      let views := h.objs.map (fun ob => s!"{encList (h.parts ob.p)} {encBools (h.flags ob.r)}")
      let firstP := h.objs.map (fun ob => toString (h.objs.findIdx (fun x => x.p == ob.p)))
      let firstR := h.objs.map (fun ob => toString (h.objs.findIdx (fun x => x.r == ob.r)))
      "|".intercalate views ++ " P=" ++ ",".intercalate firstP ++ " R=" ++ ",".intercalate firstR
    | none => "bad-op"
  | _, _ => "bad-op"

/-! ### driver world -/

def decOutcome : String → Option World.Outcome
  | "a" => some .accept
  | "r" => some .reject
  | "x" => some .raise
  | _ => none

def encOutcome : World.Outcome → String
  | .accept => "a"
  | .reject => "r"
  | .raise => "x"

def decEv (s : String) : Option World.Ev :=
  match s.splitOn "/" with
  | ["p", o, b, p, r, a] => do
    let t ← decTestcase b p r a
    let o ← decOutcome o
    pure (.propose t o)
  | ["w", h] => (decBytes h).map .write
  | ["e"] => some .strategyError
  | _ => none

def decEvs (s : String) : Option (List World.Ev) :=
  if s == "." then some [] else (s.splitOn ";").mapM decEv

def encTmpName : World.TmpName → String
  | .original => "original"
  | .numbered i true => s!"{i}-interesting"
  | .numbered i false => s!"{i}-boring"

/-- canonical order of a directory listing: `original` first, then by number (creation order) -/
def encTmp (l : List (World.TmpName × Bytes)) : String :=
  let l := l.filter (fun x => x.1 == .original) ++ l.filter (fun x => x.1 != .original)
  if l.isEmpty then "." else "+".intercalate (l.map (fun x => encTmpName x.1 ++ "=" ++ encBytes x.2))

def encHook : World.Hook → String
  | .init => "init"
  | .test i => s!"t{i}"
  | .cleanup => "cleanup"

def encTests (l : List World.TestRec) : String :=
  if l.isEmpty then "." else
  ";".intercalate (l.map (fun t => s!"{t.idx}:{encBytes t.disk}:{encOutcome t.out}:{encTmp t.tmp}"))

def encExit : World.Exit → String
  | .running => "running"
  | .returned n => s!"r{n}"
  | .raised => "x"

def encWorld (w0 w : World.W) : String :=
  let wrote := if w.diskWrites > w0.diskWrites then "1" else "0"
  s!"exit={encExit w.exit} disk={encBytes w.disk} wrote={wrote} count={w.testCount} total={w.testTotal} " ++
  s!"tmp={encTmp w.tmp} tests={encTests w.tests} hooks={",".intercalate (w.trace.map encHook)}"

/-- runs are `kind:first:events` joined by `|`; the state is carried from run to run -/
def runAll (w : World.W) : List String → Option (List String)
  | [] => some []
  | r :: rs =>
    match r.splitOn ":" with
    | [kind, first, evs] => do
      let f ← decOutcome first
      let es ← decEvs evs
      let w' ← (if kind == "m" then some (World.runMainW w es f)
                else if kind == "c" then some (World.runCheckOnlyW w f) else none)
      let rest ← runAll w' rs
      pure (encWorld w w' :: rest)
    | [kind, first, evs, rl] => do
      -- a new job for the same object: the file is replaced by another testcase, which is loaded again, then the run
      let t ← (match rl.splitOn "/" with
               | [b, p, r, a] => decTestcase b p r a
               | _ => none)
      let w : World.W := { w with disk := t.content, testcase := t }
      let f ← decOutcome first
      let es ← decEvs evs
      let w' ← (if kind == "m" then some (World.runMainW w es f)
                else if kind == "c" then some (World.runCheckOnlyW w f) else none)
      let rest ← runAll w' rs
      pure (encWorld w w' :: rest)
    | _ => none

def cmdWorld (b p r a disk runs : String) : String :=
  match decTestcase b p r a, decBytes disk with
  | some t, some d =>
    match runAll (World.fresh t d) (runs.splitOn "|") with
    | some outs => " | ".intercalate outs
    | none => "bad-op"
  | _, _ => "bad-op"

/-! ### strategies -/

def decRepeat : String → Option Strat.Repeat
  | "always" => some .always
  | "last" => some .last
  | "never" => some .never
  | _ => none

/-- `min,max,repeat,repeatFirst,stopAfter,move` -/
def decCfg (s : String) : Option Strat.Cfg :=
  match s.splitOn "," with
  | [mn, mx, rp, rf, sa, mv] => do
    let mn ← mn.toNat?
    let mx ← mx.toNat?
    let rp ← decRepeat rp
    let sa ← (if sa == "N" then some none else sa.toNat?.map some)
    pure { min := mn, max := mx, rep := rp, repeatFirst := rf == "1", stopAfter := sa, move := mv == "1" }
  | _ => none

/-- verdict sequence `0110...`; tests beyond the end are rejected -/
def decOracle (s : String) : Strat.Oracle :=
  let l := s.toList
  fun k _ => l.getD k '0' == '1'

/-- clock `N` (constant 0) or `t0,t1,...`: time after k tests, the last entry repeats -/
def decClock (s : String) : Option Strat.Clock :=
  if s == "N" then some (fun _ => 0) else do
    let l ← (s.splitOn ",").mapM String.toNat?
    pure (fun k => l.getD k (l.getLastD 0))

def encResp : Strat.Resp → String
  | .accepted => "a"
  | .rejected => "r"
  | .skipped => "s"

def encAtt (a : Strat.Att) : String :=
  s!"{a.tag}:{a.lo}:{a.hi}:{a.bestLen}:{encResp a.resp}:{encBytes a.cand.content}"

def encIt (it : Strat.It) : String :=
  let atts := it.atts.reverse
  let flags := (if it.outOfFuel then "F" else "") ++ (if it.internalError then "E" else "")
  s!"best={encBytes it.best.before}/{encList it.best.parts}/{encBools it.best.reducible}/{encBytes it.best.after} " ++
  s!"n={it.nTests} flags={flags} atts=" ++ (if atts.isEmpty then "." else ";".intercalate (atts.map encAtt))

def cmdStrategy (name cfg b p r a verdicts clock : String) : String :=
  match decCfg cfg, decTestcase b p r a, decClock clock with
  | some cfg, some t, some clk =>
    let o := decOracle verdicts
    match name.splitOn ":" with
    | ["minimize"] => encIt (Strat.minimize cfg o clk t)
    | ["minimize-around"] => encIt (Strat.around cfg o clk t)
    | ["minimize-balanced"] =>
      if cfg.move then encIt (Strat.balancedMove cfg o clk t) else encIt (Strat.balanced cfg o clk t)
    | ["minimize-collapse-brace", kind] =>
      let reload : Bytes → Option Testcase := fun d =>
        match kind with
        | "line" => (Load.loadLine d).toOption
        | "char" => (Load.loadChar d).toOption
        | "symbol" => (Load.loadSymbol Load.DEFAULT_CUT_BEFORE Load.DEFAULT_CUT_AFTER d).toOption
        | "jsstr" => (Js.loadJs d).toOption
        | "attrs" => (Attrs.loadAttrs d).toOption
        | _ => none
      encIt (Strat.collapse reload cfg o clk t)
    | ["minimize-collapse-brace", "symbol", b, a] =>
      -- the copy made by `_post_round_cb` keeps the cut characters of the testcase
      match decBytes b, decBytes a with
      | some b, some a => encIt (Strat.collapse (fun d => (Load.loadSymbol b a d).toOption) cfg o clk t)
      | _, _ => "bad-op"
    | _ => "bad-op"
  | _, _, _ => "bad-op"

def cmdSummary (name cfg b p r a verdicts clock : String) : String :=
  match decCfg cfg, decTestcase b p r a, decClock clock with
  | some cfg, some t, some clk =>
    let o := decOracle verdicts
    match name with
    | "minimize" =>
      let it := Strat.minimize cfg o clk t
      s!"best={encList it.best.parts} n={it.nTests}"
    | _ => "bad-op"
  | _, _, _ => "bad-op"

def cmdPow2 (s : String) : String :=
  match s.toInt? with
  | some i => if Util.isPowerOfTwo i then "1" else "0"
  | none => "bad-op"

/-! ### interestingness tests, temp dir -/

def encStatus : Interest.ExitStatus → String
  | .normal => "NORMAL"
  | .abnormal => "ABNORMAL"
  | .crash => "CRASH"
  | .timeout => "TIMEOUT"

def cmdClassify (to rc : String) : String :=
  match rc.toInt? with
  | some rc =>
    let t := to == "1"
    let c := Interest.classify t rc
    let r := match c.2 with | some x => toString x | none => "N"
    s!"{encStatus c.1} {r} {if Interest.crashesInteresting t rc then 1 else 0} {if Interest.hangsInteresting t rc then 1 else 0}"
  | none => "bad-op"

def decRun (rc out err : String) : Option Interest.RunData := do
  let rc ← decOptInt rc
  pure { rc := rc, out := ← decBytes out, err := ← decBytes err }

def strOfBytes (b : Bytes) : Option String := String.fromUTF8? (ByteArray.mk b.toArray)

def cmdRepeatArgs (cookie i args : String) : String :=
  match decBytes cookie, i.toNat?, decList args with
  | some c, some i, some l =>
    match strOfBytes c, l.mapM strOfBytes with
    | some c, some l => encList ((Interest.repeatArgs c l i).map (fun s => s.toUTF8.toList))
    | _, _ => "bad-op"
  | _, _, _ => "bad-op"

def decNats (s : String) : Option (List Nat) :=
  if s == "." then some [] else (s.splitOn ",").mapM String.toNat?

def cmdTempdir (taken fault : String) : String :=
  match decNats taken with
  | some t =>
    let f : Nat → Option Nat := match fault.toNat? with | some e => fun _ => some e | none => fun _ => none
    match TempDir.createTempDir t f with
    | .ok n => s!"ok {n}"
    | .error e => s!"err {e}"
  | none => "bad-op"

/-- `tempdir-names <hex,hex,...> <fault|N>`: the listing as names (UTF-8) -/
def cmdTempdirNames (names fault : String) : String :=
  match decList names with
  | some l =>
    match l.mapM (fun b => String.fromUTF8? ⟨b.toArray⟩) with
    | some ns =>
      let f : Nat → Option Nat := match fault.toNat? with | some e => fun _ => some e | none => fun _ => none
      match TempDir.createTempDirN ns f with
      | .ok n => s!"ok {n}"
      | .error e => s!"err {e}"
    | none => "bad-op"
  | none => "bad-op"

def cmdTempdirConc (taken k sched : String) : String :=
  match decNats taken, k.toNat?, decNats sched with
  | some t, some k, some sc =>
    let s := TempDir.runSchedule (TempDir.initSys t k) sc
    ",".intercalate (s.procs.map (fun p => match p.got with | some n => toString n | none => "-"))
  | _, _, _ => "bad-op"

/-! ### command line -/

def encStrs (l : List String) : String := encList (l.map (fun s => s.toUTF8.toList))

def mainTableFor (strategy atom : Cmdline.Tok) : Cmdline.Table :=
  Cmdline.Generated.mainTables.getD (Cmdline.Generated.mainIndex strategy atom) Cmdline.Generated.earlyTable

def encToks (l : List Cmdline.Tok) : String := encList (l.map (fun s => (String.ofList s).toUTF8.toList))

def cmdCmdline (argv : String) : String :=
  match decList argv with
  | none => "bad-op"
  | some toks =>
    match toks.mapM strOfBytes with
    | none => "bad-op"
    | some argv =>
      match Cmdline.processArgs Cmdline.Generated.earlyTable mainTableFor (argv.map String.toList) with
      | .exit c => s!"exit {c}"
      | .ok atom strategy ns tc cond cargs =>
        let lv := fun (d : String) => Cmdline.lastValue ns d.toList
        let eff := Strat.effective
          { chunkSize := (lv "chunk_size").map (fun v => if Cmdline.isIntLit v then Cmdline.intOfLit v else 0),
            min := Cmdline.intOf ns "min".toList 1, max := Cmdline.intOf ns "max".toList (2 ^ 30),
            rep := (match (lv "repeat").map String.ofList with
                    | some "always" => .always
                    | some "never" => .never
                    | _ => .last) }
        let rep := match eff.2.2 with | .always => "always" | .last => "last" | .never => "never"
        let fam := Cmdline.isMinimizeFamily strategy
        let optS := fun (d : String) => ((lv d).map String.ofList).getD "None"
        let mrt := match lv "max_run_time" with
          | some v => toString (Cmdline.intOfLit v)
          | none => "None"
        s!"ok atom={encToks [atom]} strategy={String.ofList strategy} " ++
        (if fam then s!"min={eff.1} max={eff.2.1} rep={rep} rfr={(lv "repeat_first_round").isSome} mrt={mrt} "
         else "") ++
        (if String.ofList strategy == "minimize-balanced" then s!"move={(lv "with_experimental_move").isSome} " else "") ++
        s!"tempdir={encStrs [optS "tempdir"]} testcase={encToks [tc]} cond={encToks [cond]} args={encToks cargs}"

def step (line : String) : String :=
  match line.splitOn " " with
  | ["lines", d] =>
    match decBytes d with
    | some d => encList (Lines.splitLines d)
    | none => "bad-op"
  | ["load", kind, d] => cmdLoad kind d
  | ["rwloop", rep, final, cs, passes] =>
    -- round skeleton of the rewriting strategies: passes = t1:r1,t2:r2,... as recorded from the real pass function
    let rp : Option Strat.Repeat := match rep with
      | "always" => some .always | "last" => some .last | "never" => some .never | _ => none
    let ps : List (Nat × Nat) := (passes.splitOn ",").filterMap (fun x =>
      match x.splitOn ":" with
      | [a, b] => match a.toNat?, b.toNat? with
        | some a, some b => some (a, b)
        | _, _ => none
      | _ => none)
    match rp, final.toNat?, cs.toNat? with
    | some rp, some f, some c =>
      let r := Strat.rwLoop rp f (fun k => ps.getD k (0, 0)) (ps.length + 1) 0 c 0
      s!"{r.1} {r.2.1} {if r.2.2 then 1 else 0}"
    | _, _, _ => "bad-op"
  | ["jsspec", d] =>
    -- the reference segmentation of C16: `offset:length` of every string character
    match decBytes d with
    | some d => ",".intercalate ((Js.strChars d).map (fun x => s!"{x.1}:{x.2.length}")) ++ "."
    | none => "bad-op"
  | ["rmslice", p, r, a, b] => cmdRmslice p r a b
  | ["alias", p, r, ops] => cmdAlias p r ops
  | ["world", b, p, r, a, disk, runs] => cmdWorld b p r a disk runs
  | ["strategy", name, cfg, b, p, r, a, verdicts, clock] => cmdStrategy name cfg b p r a verdicts clock
  | ["summary", name, cfg, b, p, r, a, verdicts, clock] => cmdSummary name cfg b p r a verdicts clock
  | ["pow2", i] => cmdPow2 i
  | ["classify", to, rc] => cmdClassify to rc
  | ["cmdline", argv] => cmdCmdline argv
  | ["outputs", regex, sv, out, err, rxo, rxe] =>
    (match decBytes sv, decBytes out, decBytes err with
     | some sv, some o, some e =>
       let rx : Bytes → Bool := fun d => if d == o then rxo == "1" else rxe == "1"
       let m := Interest.outputsMem (regex == "1") rx sv o e
       let f := Interest.outputsFile (regex == "1") rx sv o e
       s!"{if m then 1 else 0} {if f then 1 else 0}"
     | _, _, _ => "bad-op")
  | ["diff", ra, oa, ea, rb, ob, eb] =>
    (match decRun ra oa ea, decRun rb ob eb with
     | some a, some b => if Interest.diffTest a b then "1" else "0"
     | _, _ => "bad-op")
  | ["repeat", n, verdicts] =>
    (match n.toNat? with
     | some n =>
       let l := verdicts.toList
       let r := Interest.repeatTest n (fun i => l.getD (i - 1) '0' == '1')
       s!"{if r.1 then 1 else 0} {r.2}"
     | none => "bad-op")
  | ["repeatargs", cookie, i, args] => cmdRepeatArgs cookie i args
  | ["tempdir", taken, fault] => cmdTempdir taken fault
  | ["tempdir-names", names, fault] => cmdTempdirNames names fault
  | ["tempdir-conc", taken, k, sched] => cmdTempdirConc taken k sched
  | ["lp2", n] => (n.toNat?.map (fun n => toString (Util.lp2 n))).getD "bad-op"
  | ["divup", a, b] =>
    (match a.toNat?, b.toNat? with
     | some a, some b => if b = 0 then "zerodiv" else toString (Util.divUp a b)
     | _, _ => "bad-op")
  | _ => "bad-op"

end Dispatch
