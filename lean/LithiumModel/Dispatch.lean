/-
Dispatch of line-protocol commands to model functions.
-/
import LithiumModel.Proto
import LithiumModel.Load

namespace Dispatch
open Proto

def showErr : Load.Err → String
  | .endWithoutBegin => "err endWithoutBegin"
  | .beginWithoutEnd => "err beginWithoutEnd"
  | .internal w => s!"err internal {w}"

def showLoad : Except Load.Err Testcase → String
  | .ok t => s!"ok {encTestcase t}"
  | .error e => showErr e

def cmdLoad (kind : String) (data : String) : String :=
  match decBytes data with
  | none => "bad-op"
  | some d =>
    match kind.splitOn ":" with
    | ["line"] => showLoad (Load.loadLine d)
    | ["char"] => showLoad (Load.loadChar d)
    | ["symbol"] => showLoad (Load.loadSymbol Load.DEFAULT_CUT_BEFORE Load.DEFAULT_CUT_AFTER d)
    | ["symbol", b, a] =>
      match decBytes b, decBytes a with
      | some b, some a => showLoad (Load.loadSymbol b a d)
      | _, _ => "bad-op"
    | _ => "bad-op"

def cmdRmslice (p r a b : String) : String :=
  match decList p, decBools r, decOptInt a, decOptInt b with
  | some p, some r, some a, some b =>
    let t : Testcase := { before := [], parts := p, reducible := r, after := [] }
    match t.rmslice? a b with
    | some t' => s!"ok {encList t'.parts} {encBools t'.reducible} {t'.len}"
    | none => "indexerror"
  | _, _, _, _ => "bad-op"

def step (line : String) : String :=
  match line.splitOn " " with
  | ["lines", d] =>
    match decBytes d with
    | some d => encList (Lines.splitLines d)
    | none => "bad-op"
  | ["load", kind, d] => cmdLoad kind d
  | ["rmslice", p, r, a, b] => cmdRmslice p r a b
  | _ => "bad-op"

end Dispatch
