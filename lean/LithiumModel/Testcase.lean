/-
Model of `lithium.testcases.Testcase` (src/lithium/testcases.py:23-107, 188-202):
the in-memory representation, `__len__`, `_slice_xlat`, `rmslice`, `copy`, `dump`.

Core Lean only (no imports) so that the line-protocol driver links.
-/

abbrev Bytes := List UInt8

structure Testcase where
  before    : Bytes
  parts     : List Bytes
  reducible : List Bool
  after     : Bytes
deriving Repr, DecidableEq, Inhabited

namespace Testcase

/-- `reducible` is "a bool array with same length as `parts`". -/
def WF (t : Testcase) : Prop := t.parts.length = t.reducible.length

instance (t : Testcase) : Decidable t.WF := by unfold WF; exact inferInstance

/-- what `dump()` writes: `before`, then every part, then `after`. -/
def content (t : Testcase) : Bytes := t.before ++ t.parts.flatten ++ t.after

/-- `__len__`: `len(self.parts) - self.reducible.count(False)`. -/
def len (t : Testcase) : Nat := t.parts.length - t.reducible.count false

/-- `[i for i in range(len(parts)) if reducible[i]]` (under `WF`). -/
def positions : List Bool → List Nat
  | [] => []
  | true :: t => 0 :: (positions t).map (· + 1)
  | false :: t => (positions t).map (· + 1)

/-- `_clamp` of `_slice_xlat` (testcases.py:55-62); `none` is Python's `None`. -/
def clamp (lenSelf : Nat) (bound : Option Int) (dflt : Nat) : Nat :=
  match bound with
  | none => dflt
  | some b =>
    if b < 0 then (max ((lenSelf : Int) + b) 0).toNat
    else if b > (lenSelf : Int) then lenSelf
    else b.toNat

/-- `opts = [0] + opts[1:] + [len(self.parts)]` -/
def opts (t : Testcase) : List Nat :=
  [0] ++ (positions t.reducible).tail ++ [t.parts.length]

/-- `_slice_xlat`.  The list lookups cannot fail in Python when `WF` holds
(`opts` has `len+1` entries and both indices are clamped to `[0, len]`); here a
failing lookup is made visible as `none` (an `IndexError`). -/
def sliceXlat (t : Testcase) (start stop : Option Int) : Option (Nat × Nat) :=
  let s := clamp t.len start 0
  let e := clamp t.len stop t.len
  match (opts t)[s]?, (opts t)[e]? with
  | some a, some b => some (a, b)
  | _, _ => none

/-- the body of `rmslice` after translation, on raw `parts` indices.
Python slices: `parts[start:stop]` is empty when `stop ≤ start`. -/
def rmsliceRaw (t : Testcase) (start stop : Nat) : Testcase :=
  let mid  := (t.parts.drop start).take (stop - start)
  let midR := (t.reducible.drop start).take (stop - start)
  let keep := ((mid.zip midR).filter (fun x => !x.2)).map (·.1)
  { t with
    parts := t.parts.take start ++ keep ++ t.parts.drop stop
    reducible := t.reducible.take start ++ List.replicate keep.length false ++ t.reducible.drop stop }

/-- `copy()` followed by `rmslice(start, stop)` on the copy; `none` = IndexError. -/
def rmslice? (t : Testcase) (start stop : Option Int) : Option Testcase :=
  match t.sliceXlat start stop with
  | some (a, b) => some (t.rmsliceRaw a b)
  | none => none

/-- total version used by the strategy models (the `none` branch is proved
unreachable for `WF` testcases: `Proofs.Rmslice.rmslice?_isSome`). -/
def rmslice (t : Testcase) (start stop : Int) : Testcase :=
  match t.rmslice? (some start) (some stop) with
  | some r => r
  | none => t

end Testcase
