/-
Model of `TestcaseJsStr.split_parts` (testcases.py:266-351): the scanner with back-tracking on an
unterminated string, the header/footer merge and the gap merge.
-/
import LithiumModel.Load

namespace Js

def isHex (b : UInt8) : Bool :=
  (0x30 ≤ b && b ≤ 0x39) || (0x41 ≤ b && b ≤ 0x46) || (0x61 ≤ b && b ≤ 0x66)

def isU4 : Bytes → Bool
  | 0x75 :: a :: b :: c :: d :: _ => isHex a && isHex b && isHex c && isHex d
  | _ => false

def isX2 : Bytes → Bool
  | 0x78 :: a :: b :: _ => isHex a && isHex b
  | _ => false

/-- `u\{[0-9A-Fa-f]+\}` after the backslash: total token length (with the backslash) if it matches -/
def uBrace : Bytes → Option Nat
  | 0x75 :: 0x7B :: rest =>
    let hs := rest.takeWhile isHex
    if hs.isEmpty then none
    else match rest.drop hs.length with
      | 0x7D :: _ => some (hs.length + 4)
      | _ => none
  | _ => none

/-- length of `(\\u[0-9A-Fa-f]{4}|\\x[0-9A-Fa-f]{2}|\\u\{[0-9A-Fa-f]+\}|\\.|.)` (DOTALL) at the
head of the input; 0 = no match (empty input) -/
def tokLen : Bytes → Nat
  | [] => 0
  | c :: rest =>
    if c != 0x5C then 1
    else if isU4 rest then 6
    else if isX2 rest then 4
    else match uBrace rest with
      | some k => k
      | none => if rest.isEmpty then 1 else 2

def isQuote (b : UInt8) : Bool := b == 0x27 || b == 0x22

structure Scan where
  rest : Bytes
  instr : Option UInt8
  chars : List Nat
  parts : List Bytes
deriving Repr, Inhabited

/-- the inner `while True` loop -/
def scan : Nat → Scan → Scan
  | 0, s => s
  | f + 1, s =>
    match s.instr with
    | some q =>
      let k := tokLen s.rest
      if k = 0 then s else
      let tok := s.rest.take k
      if tok == [q] then
        scan f { rest := s.rest.drop k, instr := none, chars := s.chars, parts := s.parts ++ [tok] }
      else
        scan f { rest := s.rest.drop k, instr := s.instr, chars := s.chars ++ [s.parts.length], parts := s.parts ++ [tok] }
    | none =>
      match s.rest.findIdx? isQuote with
      | none => s
      | some i =>
        scan f { rest := s.rest.drop (i + 1), instr := s.rest[i]?, chars := s.chars,
                 parts := s.parts ++ [s.rest.take (i + 1)] }

def endsWith (p : Bytes) (q : UInt8) : Bool := p.getLast? == some q

/-- `for idx in reversed(range(len(parts))): if parts[idx].endswith(instr) and idx not in chars` -/
def rewindIdx (parts : List Bytes) (chars : List Nat) (q : UInt8) : Option Nat :=
  (((parts.zipIdx).filter (fun x => endsWith x.1 q && !chars.contains x.2)).getLast?).map (·.2)

/-- the outer `while True` loop; `.error` is the `RuntimeError` of the back-tracking -/
def outer : Nat → Bytes → List Nat → List Bytes → Except String (List Nat × List Bytes)
  | 0, _, _, _ => .error "fuel"
  | f + 1, data, chars, parts =>
    let s := scan (data.length + 1) { rest := data, instr := none, chars := chars, parts := parts }
    let parts := if s.rest.isEmpty then s.parts else s.parts ++ [s.rest]
    match s.instr with
    | none => .ok (s.chars, parts)
    | some q =>
      match rewindIdx parts s.chars q with
      | none => .error "RuntimeError"
      | some idx =>
        outer f (parts.drop (idx + 1)).flatten (s.chars.filter (· < idx)) (parts.take (idx + 1))

/-- the gap merge: `for i in range(len(chars) - 1)` with in-place updates -/
def mergeLoop : Nat → Nat → List Bytes → List Nat → List Bytes × List Nat
  | 0, _, parts, chars => (parts, chars)
  | f + 1, i, parts, chars =>
    if i + 1 < chars.length then
      let c1 := chars.getD i 0
      let c2 := chars.getD (i + 1) 0
      if c2 - c1 > 2 then
        let merged := ((parts.drop (c1 + 1)).take (c2 - c1 - 1)).flatten
        let parts' := parts.take (c1 + 1) ++ [merged] ++ parts.drop c2
        let off := c2 - c1 - 2
        let chars' := chars.take (i + 1) ++ (chars.drop (i + 1)).map (· - off)
        mergeLoop f (i + 1) parts' chars'
      else mergeLoop f (i + 1) parts chars
    else (parts, chars)

def splitJs : Load.Splitter := fun data =>
  match outer (data.length + 2) data [] [] with
  | .error e => .error e
  | .ok (chars, parts) =>
    match chars with
    | [] => .ok { parts := parts, reducible := List.replicate parts.length false }
    | c0 :: _ =>
      -- everything before the first char goes to `before`
      let header := (parts.take c0).flatten
      let parts := parts.drop c0
      let chars := chars.map (· - c0)
      -- everything after the last char goes to `after`
      let off := chars.getLast?.getD 0 + 1
      let footer := (parts.drop off).flatten
      let parts := parts.take off
      let m := mergeLoop chars.length 0 parts chars
      let parts := m.1
      let chars := m.2
      .ok { header := header, parts := parts,
            reducible := (List.range parts.length).map (fun i => chars.contains i), footer := footer }

def loadJs (d : Bytes) := Load.loadWith splitJs d

end Js
