/-
Line-protocol driver: one case per input line, one answer line per case.
Used by the correspondence checks (harness/) to run the executable model on exactly the
inputs the real lithium code is run on.  Core Lean only.
-/
import LithiumModel.Dispatch

partial def loop (h : IO.FS.Stream) (out : IO.FS.Stream) : IO Unit := do
  let line ← h.getLine
  if line.isEmpty then return ()
  let l := String.ofList (line.toList.filter (fun c => c != (Char.ofNat 10) && c != (Char.ofNat 13)))
  out.putStrLn (Dispatch.step l)
  loop h out

def main : IO Unit := do
  let out ← IO.getStdout
  loop (← IO.getStdin) out
  out.flush
