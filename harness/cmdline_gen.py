"""regenerate lean/Generated/CmdlineTable.lean from the LIVE argparse parsers that
`Lithium.process_args` builds (captured by intercepting parse_known_args / parse_args)"""
from __future__ import annotations

import argparse
import os
from pathlib import Path

from . import loaders
from .common import LEAN_DIR

STRATEGIES = ["minimize", "minimize-around", "minimize-balanced", "minimize-collapse-brace", "replace-properties-by-globals",
              "replace-arguments-by-globals", "check-only"]
ATOMS = {"line": "--lines", "char": "--char", "jsstr char": "--js", "symbol-delimiter": "--symbol", "attribute": "--attrs"}


def capture(argv):
    """run process_args(argv) and return the two parser objects it built"""
    from lithium.reducer import Lithium

    seen = {}
    real_known = argparse.ArgumentParser.parse_known_args
    real_args = argparse.ArgumentParser.parse_args

    def spy_known(self, args=None, namespace=None):
        if type(self).__name__ == "_ArgParseTry" and "early" not in seen:
            seen["early"] = self
        return real_known(self, args, namespace)

    def spy_args(self, args=None, namespace=None):
        if "main" not in seen and type(self).__name__ != "_ArgParseTry":
            seen["main"] = self
        return real_args(self, args, namespace)

    argparse.ArgumentParser.parse_known_args = spy_known
    argparse.ArgumentParser.parse_args = spy_args
    try:
        try:
            Lithium().process_args(argv)
        except (SystemExit, Exception):  # pylint: disable=broad-except
            pass
    finally:
        argparse.ArgumentParser.parse_known_args = real_known
        argparse.ArgumentParser.parse_args = real_args
    return seen.get("early"), seen.get("main")


def describe(parser, errors_pass):
    opts, positionals = [], []
    excl = set()
    for g in parser._mutually_exclusive_groups:  # pylint: disable=protected-access
        for a in g._group_actions:  # pylint: disable=protected-access
            excl.add(id(a))
    for a in parser._actions:  # pylint: disable=protected-access
        if a.option_strings:
            if a.nargs == 0:
                nargs = 0
            elif a.nargs is None:
                nargs = 1
            else:
                nargs = 99
            const = "" if a.const is None else str(a.const)
            if isinstance(a, argparse._HelpAction):  # pylint: disable=protected-access
                const = "HELP"
            opts.append(dict(names=list(a.option_strings), nargs=nargs, dest=a.dest, const=const,
                             choices=[str(c) for c in a.choices] if a.choices is not None else [], is_int=a.type is int,
                             excl=id(a) in excl))
        else:
            positionals.append("remainder" if a.nargs == argparse.REMAINDER else "other")
    pos = "remainder" if positionals == ["remainder"] else "other"
    return dict(opts=opts, pos=pos, errors_pass=errors_pass, allow_abbrev=parser.allow_abbrev,
                prefix_chars=parser.prefix_chars, plain=(parser.prefix_chars == "-" and not parser.fromfile_prefix_chars))


def lean_str(s):
    """a token as an explicit list of characters (kernel-reducible, unlike String operations)"""
    def ch(c):
        if c == "'":
            return "'\\''"
        if c == "\\":
            return "'\\\\'"
        if c == "\n":
            return "'\\n'"
        return "'" + c + "'"
    return "[" + ", ".join(ch(c) for c in s) + "]"


def lean_table(t):
    opts = []
    for o in t["opts"]:
        opts.append("{ names := [" + ", ".join(lean_str(n) for n in o["names"]) + f"], nargs := {o['nargs']}, dest := {lean_str(o['dest'])}, "
                    f"const := {lean_str(o['const'])}, choices := [" + ", ".join(lean_str(c) for c in o["choices"]) + "], "
                    f"isInt := {'true' if o['is_int'] else 'false'}, excl := {'true' if o['excl'] else 'false'} }}")
    return ("{ opts := [\n      " + ",\n      ".join(opts) + "],\n    pos := ." + t["pos"] +
            f", errorsPass := {'true' if t['errors_pass'] else 'false'}, allowAbbrev := {'true' if t['allow_abbrev'] else 'false'}"
            f", plainArgs := {'true' if t['plain'] else 'false'} }}")


def generate():
    """returns (early_table, {(strategy, atom): main_table}) and rewrites the Lean file when it changed"""
    d = loaders.scratch() / "c17-gen"
    d.mkdir(exist_ok=True)
    (d / "c17_gen_test.py").write_text("def interesting(a, p):\n    return True\n")
    (d / "tc.txt").write_bytes(b"a\n")
    cwd = os.getcwd()
    os.chdir(d)
    try:
        early = None
        mains = {}
        for st in STRATEGIES:
            for atom, flag in ATOMS.items():
                e, m = capture([f"--strategy={st}", flag, "c17_gen_test.py", "tc.txt"])
                if e is None or m is None:
                    raise RuntimeError("could not capture the parsers of process_args")
                early = early or describe(e, True)
                mains[(st, atom)] = describe(m, False)
    finally:
        os.chdir(cwd)
    distinct = []
    index = {}
    for key, t in mains.items():
        if t not in distinct:
            distinct.append(t)
        index[key] = distinct.index(t)
    lines = ["/- GENERATED by harness/cmdline_gen.py from the live argparse parsers of Lithium.process_args; do not edit. -/",
             "import LithiumModel.Cmdline", "", "namespace Cmdline.Generated", "",
             "def earlyTable : Table :=\n  " + lean_table(early), ""]
    for i, t in enumerate(distinct):
        lines.append(f"def mainTable{i} : Table :=\n  " + lean_table(t))
        lines.append("")
    lines.append("def mainTables : List Table := [" + ", ".join(f"mainTable{i}" for i in range(len(distinct))) + "]")
    lines.append("")
    lines.append("/-- which main table `process_args` builds for a (strategy, atom) pair -/")
    lines.append("def mainIndex : Tok → Tok → Nat")
    for (st, atom), i in index.items():
        lines.append(f"  | {lean_str(st)}, {lean_str(atom)} => {i}")
    lines.append("  | _, _ => 0")
    lines.append("")
    lines.append("end Cmdline.Generated")
    text = "\n".join(lines) + "\n"
    path = LEAN_DIR / "Generated" / "CmdlineTable.lean"
    if not path.exists() or path.read_text() != text:
        tmp = path.with_suffix(".tmp")
        tmp.write_text(text)
        os.replace(tmp, path)
        changed = True
    else:
        changed = False
    return early, mains, index, distinct, changed
