"""Shared machinery of the checks: locating /repo, building and driving the Lean model,
the proof stage (build + axiom audit + source grep), evidence, findings, verdict protocol.

Everything here is deterministic given VERIF_SEED."""
from __future__ import annotations

import hashlib
import json
import os
import random
import re
import subprocess
import sys
import time
from pathlib import Path

VERIF = Path(__file__).resolve().parent.parent
LEAN_DIR = VERIF / "lean"
REPO = Path(os.environ.get("LITHIUM_REPO", "/repo"))
# evidence and replay files go to /verif unless a seeded-change run redirects them (tools/seedone.sh, tools/seedpar.sh)
OUT = Path(os.environ.get("VERIF_OUT", str(VERIF)))
DRIVER = LEAN_DIR / ".lake" / "build" / "bin" / "driver"
ALLOWED_AXIOMS = {"propext", "Classical.choice", "Quot.sound"}
FORBIDDEN = re.compile(
    r"\bsorry\b|\badmit\b|^\s*axiom\s|native_decide|bv_decide|implemented_by|\bunsafe\s|maxHeartbeats\s+0\b",
    re.M,
)

TRUSTED_BASE = [
    "Lean 4.33.0 kernel (lake build); axioms per theorem audited with #print axioms, allowed: propext, Classical.choice, Quot.sound",
    "the hand-written Lean model's fidelity to /repo/src/lithium, established only by the correspondence check of this run (differential execution of real code vs compiled model on the cases counted below)",
    "CPython 3.12 / stdlib semantics re-expressed in the model (utf-8+surrogateescape+splitlines, re, argparse, hashlib.sha512 collision-free, subprocess)",
]


class HarnessError(Exception):
    """the harness's own preconditions failed: exit 2, never a verdict"""


def default_signal_dispositions():
    """children inherit IGNORED signal dispositions (a check started under nohup, from a daemon, by some CI runners ignores
    SIGHUP/SIGINT/SIGQUIT): a child that is sent such a signal would then not die, and the check would blame the code.
    Restore the default for every signal that is currently ignored (handlers installed by the harness are left alone)."""
    import signal
    for s in range(1, 65):
        if s in (signal.SIGKILL, signal.SIGSTOP, signal.SIGPIPE, signal.SIGCHLD, signal.SIGURG, signal.SIGWINCH, signal.SIGCONT,
                 signal.SIGTSTP, signal.SIGTTIN, signal.SIGTTOU, 32, 33):
            continue
        try:
            if signal.getsignal(s) == signal.SIG_IGN:
                signal.signal(s, signal.SIG_DFL)
        except (OSError, ValueError, RuntimeError):
            pass


def import_lithium():
    """import lithium from REPO's current working tree and make sure that is what we got"""
    src = str(REPO / "src")
    if sys.path[0] != src:
        sys.path.insert(0, src)
    import lithium  # noqa

    got = Path(lithium.__file__).resolve()
    if not str(got).startswith(str((REPO / "src").resolve())):
        raise HarnessError(f"lithium imported from {got}, not from {REPO}/src")
    import logging

    logging.disable(logging.CRITICAL)
    return lithium


# ----------------------------------------------------------------------------------------
# encodings shared with lean/LithiumModel/Proto.lean


def enc_bytes(b: bytes) -> str:
    return b.hex() if b else "-"


def enc_list(l) -> str:
    return ",".join(enc_bytes(x) for x in l) if l else "."


def enc_bools(l) -> str:
    return "".join("1" if x else "0" for x in l) if l else "."


def enc_optint(x) -> str:
    return "N" if x is None else str(x)


def enc_tc(t) -> str:
    return f"{enc_bytes(t.before)} {enc_list(t.parts)} {enc_bools(t.reducible)} {enc_bytes(t.after)}"


# ----------------------------------------------------------------------------------------
# Lean side


def lake_build(targets=()) -> tuple[bool, str]:
    """`lake build` of the given targets (default: everything).  A check builds only its own property module (and what
    that imports) plus the driver, so that a broken obligation of ANOTHER property never makes this check fail."""
    p = subprocess.run(
        ["lake", "build", *targets], cwd=LEAN_DIR, capture_output=True, text=True, timeout=3000
    )
    return p.returncode == 0, p.stdout + p.stderr


def strip_lean_comments(src: str) -> str:
    src = re.sub(r"/-.*?-/", "", src, flags=re.S)
    return re.sub(r"--.*", "", src)


def theorem_names(pid: str) -> list[str]:
    """fully qualified names of the theorems stated in LithiumProps/<pid>.lean"""
    f = LEAN_DIR / "LithiumProps" / f"{pid}.lean"
    if not f.exists():
        return []
    src = strip_lean_comments(f.read_text())
    ns, out = [], []
    for line in src.splitlines():
        m = re.match(r"^\s*namespace\s+([A-Za-z0-9_.']+)", line)
        if m:
            ns.append(m.group(1))
            continue
        m = re.match(r"^\s*end\s+([A-Za-z0-9_.']+)\s*$", line)
        if m and ns and ns[-1] == m.group(1):
            ns.pop()
            continue
        m = re.match(r"^\s*(?:private\s+|protected\s+)?theorem\s+([A-Za-z0-9_.']+)", line)
        if m:
            out.append(".".join(ns + [m.group(1)]))
    return out


def lean_sources() -> list[Path]:
    out = []
    for sub in ("LithiumModel", "LithiumProofs", "LithiumProps", "Generated"):
        d = LEAN_DIR / sub
        if d.exists():
            out += sorted(d.rglob("*.lean"))
    out += [LEAN_DIR / "Driver.lean"]
    return out


def proof_stage(pid: str, extra_modules: list[str] | None = None) -> dict:
    """build, audit, grep.  Returns dict(obligations, discharged, failures[list of str], log)"""
    failures = []
    ok, log = lake_build([f"LithiumProps.{pid}", "driver"])
    names = theorem_names(pid)
    if not ok:
        return dict(obligations=max(len(names), 1), discharged=0,
                    failures=["lake build failed"], log=log[-4000:], axioms={})
    if not names:
        return dict(obligations=1, discharged=0, failures=[f"no theorems in LithiumProps/{pid}.lean"],
                    log="", axioms={})
    for f in lean_sources():
        m = FORBIDDEN.search(strip_lean_comments(f.read_text()))
        if m:
            failures.append(f"forbidden token {m.group(0).strip()!r} in {f.relative_to(LEAN_DIR)}")
    audit = f"import LithiumProps.{pid}\n" + "".join(f"#print axioms {n}\n" for n in names)
    p = subprocess.run(["lake", "env", "lean", "--stdin"], cwd=LEAN_DIR, input=audit,
                       capture_output=True, text=True, timeout=1200)
    out = p.stdout + p.stderr
    axioms = {}
    for n in names:
        m = re.search(r"'" + re.escape(n) + r"' depends on axioms: \[([^\]]*)\]", out, flags=re.S)
        if m:
            axioms[n] = [a.strip() for a in m.group(1).replace("\n", " ").split(",") if a.strip()]
        elif re.search(r"'" + re.escape(n) + r"' does not depend on any axioms", out):
            axioms[n] = []
        else:
            failures.append(f"theorem {n}: not found by the axiom audit")
    discharged = 0
    for n in names:
        if n in axioms:
            bad = [a for a in axioms[n] if a not in ALLOWED_AXIOMS]
            if bad:
                failures.append(f"theorem {n} depends on non-standard axioms {bad}")
            else:
                discharged += 1
    recheck = None
    if os.environ.get("VERIF_TIER") == "thorough":
        # independent re-check of the compiled property module (and everything it imports) by Lean's external checker
        q = subprocess.run(["lake", "env", "leanchecker", f"LithiumProps.{pid}"], cwd=LEAN_DIR, capture_output=True, text=True, timeout=3000)
        recheck = "accepted" if q.returncode == 0 else "REJECTED"
        if q.returncode != 0:
            failures.append(f"leanchecker rejected LithiumProps.{pid}: {(q.stdout + q.stderr)[-300:]}")
    if failures and discharged == len(names):
        discharged = len(names) - 1
    return dict(obligations=len(names), discharged=discharged, failures=failures,
                log=out[-2000:] if failures else "", axioms=axioms, leanchecker=recheck)


class Model:
    """batch interface to the compiled driver"""

    def __init__(self):
        if not DRIVER.exists():
            ok, log = lake_build()
            if not ok or not DRIVER.exists():
                raise HarnessError("driver executable missing and lake build failed:\n" + log[-2000:])

    def run(self, lines: list[str]) -> list[str]:
        if not lines:
            return []
        p = subprocess.run([str(DRIVER)], input="\n".join(lines) + "\n", capture_output=True,
                           text=True, timeout=3000)
        out = p.stdout.split("\n")
        if out and out[-1] == "":
            out.pop()
        if p.returncode != 0 or len(out) != len(lines):
            raise HarnessError(f"driver returned {p.returncode}, {len(out)} answers for {len(lines)} lines: {p.stderr[-500:]}")
        return out


# ----------------------------------------------------------------------------------------
# run context


class Ctx:
    def __init__(self, pid: str, tier: str, seed: int):
        self.pid, self.tier, self.seed = pid, tier, seed
        self.rng = random.Random(f"{pid}:{seed}")
        self.t0 = time.time()
        self.model = None
        self.pending = []  # (line, expected, case-description, function name)
        self.evaluations = 0
        self.nontrivial = set()
        self.samples = []
        self.hist = {}
        self.disagreements = []  # dict(function, case, line, model, real)
        self.failures = []  # monitor failures: dict(key, what, case); at most 5 kept per key
        self.fail_per_key = {}
        self.exhaustive = []
        self.notes = []
        self.max_pending = 200000

    @property
    def thorough(self):
        return self.tier == "thorough"

    def bump(self, key, n=1):
        self.hist[key] = self.hist.get(key, 0) + n

    def sample(self, s, limit=6):
        if len(self.samples) < limit:
            self.samples.append(s)

    def nontriv(self, *parts):
        """register a distinct non-trivial case (by digest)"""
        h = hashlib.blake2b(repr(parts).encode(), digest_size=8).digest()
        self.nontrivial.add(h)

    def expect(self, fn: str, line: str, expected: str, case=None):
        """queue one correspondence case: model(line) must answer `expected`"""
        self.evaluations += 1
        self.pending.append((line, expected, case, fn))
        if len(self.pending) >= self.max_pending:
            self.flush()

    def flush(self):
        if not self.pending:
            return
        if self.model is None:
            self.model = Model()
        outs = self.model.run([p[0] for p in self.pending])
        for (line, exp, case, fn), got in zip(self.pending, outs):
            if got != exp:
                self.bump("disagreement:" + fn)
                if len(self.disagreements) < 50:
                    self.disagreements.append(dict(function=fn, case=case, line=line, model=got, real=exp))
        self.pending = []

    def fail(self, key: str, what: str, case):
        """a monitor failure: the REAL code breaks the property on `case`"""
        self.bump("monitor-failure:" + key)
        n = self.fail_per_key.get(key, 0)
        self.fail_per_key[key] = n + 1
        if n < 5 and len(self.fail_per_key) <= 200:
            self.failures.append(dict(key=key, what=what, case=case))

    def elapsed(self):
        return time.time() - self.t0


# ----------------------------------------------------------------------------------------
# findings / verdict


def load_findings() -> list[dict]:
    f = VERIF / "known_findings.json"
    if not f.exists():
        return []
    return json.loads(f.read_text())["findings"]


def write_replay(pid: str, payload: dict) -> Path:
    d = OUT / "replays"
    d.mkdir(parents=True, exist_ok=True)
    digest = hashlib.blake2b(json.dumps(payload, sort_keys=True, default=repr).encode(), digest_size=6).hexdigest()
    path = d / f"{pid}-{digest}.json"
    path.write_text(json.dumps(payload, indent=1, sort_keys=True, default=repr))
    return path


def write_evidence(ctx: Ctx, proof: dict, rule: str, extra: dict | None = None, violations: int = 0,
                   assumptions: list[str] | None = None, checker_cmd: str | None = None):
    cov = dict(
        obligations=proof["obligations"],
        discharged=proof["discharged"],
        checker_cmd=checker_cmd or f"cd lean && lake build LithiumProps.{ctx.pid} driver && lake env lean --stdin <<< 'import LithiumProps.{ctx.pid}; #print axioms <each theorem>'",
        trusted_base=TRUSTED_BASE + (assumptions or []),
        theorems=proof.get("axioms", {}),
        evaluations=ctx.evaluations,
        distinct_nontrivial=len(ctx.nontrivial),
        rule=rule,
        samples=ctx.samples or ["(none)"],
        histogram=dict(sorted(ctx.hist.items())),
        correspondence_disagreements=len(ctx.disagreements),
        monitor_failures=len(ctx.failures),
        exhaustive=bool(ctx.exhaustive),
        exhaustive_spaces=ctx.exhaustive,
        notes=ctx.notes,
    )
    if proof.get("leanchecker"):
        cov["leanchecker"] = f"lake env leanchecker LithiumProps.{ctx.pid}: {proof['leanchecker']}"
    if extra:
        cov.update(extra)
    ev = dict(property_id=ctx.pid, tier=ctx.tier, seed=ctx.seed, level="proof", coverage=cov,
              assumptions=assumptions or [], wall_s=round(ctx.elapsed(), 2), violations=violations)
    d = OUT / "evidence"
    d.mkdir(parents=True, exist_ok=True)
    (d / f"{ctx.pid}.json").write_text(json.dumps(ev, indent=1, default=repr))


def decide(ctx: Ctx, proof: dict, rule: str, search=None, extra=None, assumptions=None) -> int:
    """the verdict protocol of DESIGN.md §2; returns the exit status"""
    ctx.flush()
    findings = [f for f in load_findings() if f["property"] == ctx.pid]
    known = {f["key"]: f for f in findings if f.get("status") == "finding"}
    broken = bool(proof["failures"]) or bool(ctx.disagreements)
    if broken and not [f for f in ctx.failures if f["key"] not in known] and search is not None:
        # failing-input search on the real code (monitors only, enlarged input set)
        ctx.notes.append("failing-input search ran")
        try:
            search(ctx)
        except HarnessError:
            raise
        ctx.flush()
    new = [f for f in ctx.failures if f["key"] not in known]
    seen_known = {}
    for f in ctx.failures:
        if f["key"] in known and f["key"] not in seen_known:
            seen_known[f["key"]] = f
    for k, f in seen_known.items():
        print(f"KNOWN-FINDING: property={ctx.pid} {known[k]['what']} [key={k}]")
    status = 0
    violations = 0
    if new:
        f = new[0]
        path = write_replay(ctx.pid, dict(property=ctx.pid, kind="monitor", key=f["key"], what=f["what"],
                                          case=f["case"], seed=ctx.seed, tier=ctx.tier,
                                          also=[dict(key=x["key"], what=x["what"]) for x in new[1:6]]))
        print(f"DETAIL property={ctx.pid} key={f['key']} {str(f['what'])[:400]}")
        print(f"VIOLATION property={ctx.pid} replay={path}")
        status, violations = 1, len(new)
    elif broken:
        payload = dict(property=ctx.pid, kind="proof-or-correspondence", seed=ctx.seed, tier=ctx.tier,
                       proof_failures=proof["failures"], proof_log=proof.get("log", ""),
                       disagreements=ctx.disagreements[:10])
        path = write_replay(ctx.pid, payload)
        for pf in proof["failures"][:3]:
            print(f"DETAIL property={ctx.pid} proof: {pf}")
        for dg in ctx.disagreements[:2]:
            print(f"DETAIL property={ctx.pid} correspondence {dg['function']}: model={str(dg['model'])[:150]} real={str(dg['real'])[:150]}")
        print(f"VIOLATION property={ctx.pid} replay={path} no-failing-input-found")
        status, violations = 1, 1
    write_evidence(ctx, proof, rule, extra=extra, violations=violations, assumptions=assumptions)
    return status


def guarded_iter(it, on_error):
    """iterate `it`; an exception raised by the code under test while producing the next item is reported, not propagated"""
    it = iter(it)
    while True:
        try:
            item = next(it)
        except StopIteration:
            return
        except Exception as exc:  # pylint: disable=broad-except
            on_error(exc)
            return
        yield item
