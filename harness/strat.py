"""in-memory runs of the real strategies (`strategy.reduce(tc)` + `feedback`) under scripted
verdicts and a scripted clock, recording every `try_testcase` proposal (also the de-duplicated
ones), and the model's `strategy` command line for the same case"""
from __future__ import annotations

import re

from . import loaders
from .common import enc_bools, enc_bytes, enc_list
from .driver import content, fields, mk_like

MODELLED = {"minimize", "minimize-around", "minimize-balanced", "minimize-collapse-brace"}


class TestLimit(BaseException):
    pass


class Hang(BaseException):
    """the strategy spent more than the watchdog time without finishing"""


def _alarm(_sig, _frm):
    raise Hang()


class Clock:
    """replaces `lithium.strategies.time`: the time is a function of the tests run so far"""

    def __init__(self, times):
        self.times = times
        self.tests = 0
        self.reads = 0

    def _now(self):
        self.reads += 1
        if not self.times:
            return 0
        return self.times[min(self.tests, len(self.times) - 1)]

    # the three clocks of the `time` module have different epochs, as in reality: code that mixes
    # them (deadline from one, check against another) must not look right under the scripted clock
    def time(self):
        return 1_000_000 + self._now()

    def monotonic(self):
        return 50 + self._now()

    def perf_counter(self):
        return 7 + self._now()

    def sleep(self, _s):
        return None


def make_strategy(name, cfg):
    from . import scripts

    opts = dict(minimize_min=cfg.get("min", 1), minimize_max=cfg.get("max", 2**30), minimize_repeat=cfg.get("rep", "last"),
                minimize_repeat_first_round=cfg.get("repeat_first", False), stop_after_time=cfg.get("stop_after"))
    if cfg.get("move"):
        opts["use_experimental_move"] = True
    return scripts.make_real_strategy(name, opts)


def enc_cfg(cfg):
    sa = cfg.get("stop_after")
    return ",".join([str(cfg.get("min", 1)), str(cfg.get("max", 2**30)), cfg.get("rep", "last"),
                     "1" if cfg.get("repeat_first") else "0", "N" if sa is None else str(sa), "1" if cfg.get("move") else "0"])


DESC = [
    (0, re.compile(r"Removing chunk from (\d+) to (\d+) of (\d+)$")),
    (1, re.compile(r"Removing chunk #(\d+) & #(\d+) of (\d+) chunks of size \d+$")),
    (2, re.compile(r"Removing chunk #(\d+)() of (\d+) chunks of size \d+$")),
    (3, re.compile(r"Collapse empty braces()()()$")),
]


_DUMP_PATH = None


def dumped(tc):
    """the bytes the real `dump()` writes for this testcase (what the test would find in the file)"""
    global _DUMP_PATH
    if _DUMP_PATH is None:
        import os
        _DUMP_PATH = loaders.scratch() / f"dump-{os.getpid()}.bin"
    tc.dump(_DUMP_PATH)
    return _DUMP_PATH.read_bytes()


class Run:
    def __init__(self):
        self.atts = []      # dict(desc, lo, hi, n, resp, cand=fields, best_before=fields, shown=bytes written by dump())
        self.dump_diff = None  # (test index, bytes dump() wrote, before+parts+after) of the first tested candidate where they differ
        self.verdicts = []  # verdict per test actually run
        self.best = None
        self.error = None
        self.late_tests = 0  # tests started although the clock had passed the limit
        self.clock_reads = 0

    def encode(self):
        def one(a):
            return f"{a['tag']}:{a['lo']}:{a['hi']}:{a['n']}:{a['resp']}:{enc_bytes(a.get('shown', content(a['cand'])))}"
        b = self.best
        flags = "E" if self.error else ""
        return (f"best={enc_bytes(b[0])}/{enc_list(b[1])}/{enc_bools(b[2])}/{enc_bytes(b[3])} n={len(self.verdicts)} "
                f"flags={flags} atts=" + (";".join(one(a) for a in self.atts) or "."))


def parse_desc(desc):
    for tag, rx in DESC:
        m = rx.match(desc)
        if m:
            g = [int(x) if x else None for x in m.groups()]
            if tag == 2:
                g[1] = g[0]
            if tag == 3:
                g = [0, 0, 0]
            return tag, g[0], g[1], g[2]
    return 9, 0, 0, 0


HUNG = set()   # strategies that already spun without starting a test in this process: reported, not waited for again


def run_real(name, cfg, tc, decider, clock_times=None, max_tests=100000, watchdog=15.0, strategy=None):
    """decider(k, content_bytes) -> bool for the k-th test of the strategy (0-based)"""
    import signal

    import lithium.strategies as S

    key = (name, bool(cfg.get("move")))
    if key in HUNG:
        r = Run()
        r.best = fields(tc)
        r.error = "hang: (not run again: this strategy already failed to finish earlier in this check)"
        return r

    old_handler = signal.signal(signal.SIGALRM, _alarm)
    signal.setitimer(signal.ITIMER_REAL, watchdog)
    try:
        r = _run_real(S, name, cfg, tc, decider, clock_times, max_tests, watchdog, strategy)
        if r.error and r.error.startswith("hang") and not cfg.get("move"):
            HUNG.add(key)
        return r
    finally:
        signal.setitimer(signal.ITIMER_REAL, 0)
        signal.signal(signal.SIGALRM, old_handler)


def _run_real(S, name, cfg, tc, decider, clock_times, max_tests, watchdog, strategy=None):
    import signal


    st = strategy if strategy is not None else make_strategy(name, cfg)   # `strategy`: an object that has reduced other files before
    clk = Clock(clock_times or [])
    old_time = S.time
    S.time = clk
    run = Run()
    try:
        it = st.reduce(tc)
        real_try = it.try_testcase
        pending = []

        def spy(cand, description="Reduction"):
            tag, lo, hi, n = parse_desc(description)
            rec = dict(tag=tag, lo=lo, hi=hi, n=n, resp="s", cand=fields(cand), desc=description,
                       best_before=fields(it.testcase))
            run.atts.append(rec)
            pending.append(rec)
            yield from real_try(cand, description)

        it.try_testcase = spy
        limit = cfg.get("stop_after")
        start = (clk.times[0] if clk.times else 0) if limit is not None else None
        try:
            for attempt in it:
                k = len(run.verdicts)
                signal.setitimer(signal.ITIMER_REAL, watchdog)  # the watchdog measures time WITHOUT a test
                if k >= max_tests:
                    raise TestLimit()
                if limit is not None and clk.times and clk.times[min(clk.tests, len(clk.times) - 1)] > start + limit:
                    run.late_tests += 1
                shown = dumped(attempt)
                pending[-1]["shown"] = shown
                if run.dump_diff is None and shown != content(fields(attempt)):
                    run.dump_diff = (k, shown, content(fields(attempt)))
                v = bool(decider(k, shown))
                run.verdicts.append(v)
                pending[-1]["resp"] = "a" if v else "r"
                clk.tests += 1
                it.feedback(v)
        except TestLimit:
            run.error = "test-limit"
        except Hang:
            run.error = "hang: the strategy did not finish (no test started for a long time)"
        except Exception as exc:  # pylint: disable=broad-except
            run.error = f"{type(exc).__name__}: {exc}"
        run.best = fields(it.testcase)
        run.clock_reads = clk.reads
    finally:
        S.time = old_time
    return run


def model_line(name, cfg, f, verdicts, clock_times=None, kind="line", cut=None):
    if name == "minimize-collapse-brace":
        name = name + ":" + kind
        if kind == "symbol" and cut is not None:
            name += f":{enc_bytes(cut[0])}:{enc_bytes(cut[1])}"
    v = "".join("1" if x else "0" for x in verdicts) or "0"
    c = "N" if not clock_times else ",".join(str(x) for x in clock_times)
    return f"strategy {name} {enc_cfg(cfg)} {enc_bytes(f[0])} {enc_list(f[1])} {enc_bools(f[2])} {enc_bytes(f[3])} {v} {c}"


def testcase_from_fields(kind, f, cut=None):
    proto = loaders.new_testcase(kind, cut)
    proto.filename = "/nonexistent/verif-in-memory"
    proto.extension = ".txt"
    return mk_like(proto, f)


def layouts_testcase(n, red=None, dup=False):
    parts = [bytes([97 + (0 if dup and i % 3 == 0 else i % 26)]) + b"\n" for i in range(n)]
    return (b"", parts, list(red) if red is not None else [True] * n, b"")


_COLLISION = {}


def find_key_collision(budget=220000):
    """Birthday search for two different file contents to which the real `ReductionIterator.try_testcase`
    gives the same de-duplication key (observed through `get_tried()`), whatever key function it uses.
    With SHA-512 none exists within any budget; a 32-bit key (a checksum, a truncated digest) collides
    within ~10^5 probes.  Returns (line_a, line_b) — two distinct one-line contents — or None."""
    if "r" in _COLLISION:
        return _COLLISION["r"]
    import random

    import lithium.strategies as S
    from lithium.testcases import TestcaseLine

    class _It(S.ReductionIterator):
        def __iter__(self):
            return iter(())

    rng = random.Random(20240917)
    seen = {}
    res = None
    proto = TestcaseLine()
    if not (hasattr(S.ReductionIterator, "get_tried") and hasattr(S.ReductionIterator, "try_testcase")):
        _COLLISION["r"] = None
        return None
    alphabet = b"abcdefghijklmnopqrstuvwxyz0123456789"
    try:
        for _ in range(budget):
            line = bytes(rng.choice(alphabet) for _ in range(7)) + b"\n"
            tc = TestcaseLine()
            tc.parts = [line]
            tc.reducible = [True]
            it = _It(proto)
            for _t in it.try_testcase(tc):
                pass
            keys = it.get_tried()
            if len(keys) != 1:
                break
            (key,) = keys
            other = seen.get(key)
            if other is not None and other != line:
                res = (other, line)
                break
            seen[key] = line
    except Exception:  # pylint: disable=broad-except
        res = None
    _COLLISION["r"] = res
    return res
