"""C07 — deleting an index range deletes exactly those reducible atoms.

Correspondence: real `Testcase.copy()` + `rmslice(a, b)` vs the model's `Testcase.rmslice?`
on every flag layout up to a length bound x every index pair of a window around the valid
range (and None), restricted to pairs with clamp(a) <= clamp(b) (the only ones the property
and the theorems speak about).  Monitor: an independent statement of the property."""
from __future__ import annotations

import itertools

from .. import common, loaders
from ..common import enc_bools, enc_bytes, enc_list, enc_optint

RULE = ("every reducible/non-reducible layout up to length L x every (a,b) in [-L-2, L+2]^2 plus None, "
        "a<=b after clamping, plus random longer layouts with random (also huge) indices; a case is "
        "non-trivial when the layout has both flag values and the deleted range is non-empty; distinct by "
        "(layout, clamped a, clamped b)")


def mk(layout, kind="line"):
    t = loaders.new_testcase(kind)
    t.before, t.after = b"<", b">"
    t.parts = [bytes([65 + (i % 26)]) + (b"%d" % i if i >= 26 else b"") for i in range(len(layout))]
    t.reducible = list(layout)
    return t


def clamp_spec(x, n, default):
    """the property's words: out-of-range clamped, negative counted from the end"""
    if x is None:
        return default
    if x < 0:
        x += n
    return min(max(x, 0), n)


def spec_delete(parts, red, a, b):
    out_p, out_r, rank = [], [], 0
    for p, r in zip(parts, red):
        if r:
            if not (a <= rank < b):
                out_p.append(p)
                out_r.append(r)
            rank += 1
        else:
            out_p.append(p)
            out_r.append(r)
    return out_p, out_r


def one_case(ctx, layout, a, b, do_model=True, kind="line", src=None):
    src = src if src is not None else mk(layout, kind)
    layout = tuple(src.reducible)
    n = sum(1 for r in layout if r)
    a2, b2 = clamp_spec(a, n, 0), clamp_spec(b, n, n)
    if a2 > b2:
        return
    case = dict(layout=enc_bools(layout), a=a, b=b, testcase_class=type(src).__name__)
    snap_p, snap_r = list(src.parts), list(src.reducible)
    ok = True
    try:
        if len(src) != n:
            ctx.fail("len", f"len() = {len(src)} but {n} reducible atoms", case)
        cp = src.copy()
        cp.rmslice(a, b)
        real = f"ok {enc_list(cp.parts)} {enc_bools(cp.reducible)} {len(cp)}"
    except Exception as exc:  # the property promises a deletion, not an exception
        ctx.fail("raises", f"copy()/rmslice({a},{b}) raised {type(exc).__name__}: {exc}", case)
        real = "indexerror" if isinstance(exc, IndexError) else f"raised {type(exc).__name__}"
        ok = False
    if ok:
        exp_p, exp_r = spec_delete(snap_p, snap_r, a2, b2)
        if cp.parts != exp_p or cp.reducible != exp_r:
            ctx.fail("wrong-atoms", f"rmslice({a},{b}) on {enc_bools(layout)} left parts={cp.parts} flags={enc_bools(cp.reducible)}, "
                     f"expected parts={exp_p} flags={enc_bools(exp_r)}", case)
        elif len(cp) != n - (b2 - a2):
            ctx.fail("len-drop", f"len after = {len(cp)}, expected {n} - {b2 - a2}", case)
        if cp.before != src.before or cp.after != src.after:
            ctx.fail("frame", "before/after changed by rmslice", case)
        if src.parts != snap_p or src.reducible != snap_r or cp.parts is src.parts or cp.reducible is src.reducible:
            ctx.fail("alias", "deleting from the copy changed (or shares lists with) the source", case)
        # a second deletion on the copy must not reach the source either
        cp.parts.append(b"!")
        if src.parts != snap_p:
            ctx.fail("alias", "copy shares its parts list with the source", case)
    if do_model:
        ctx.expect("rmslice", f"rmslice {enc_list(snap_p)} {enc_bools(snap_r)} {enc_optint(a)} {enc_optint(b)}", real, case)
    ctx.bump(f"len{len(layout)}")
    if b2 > a2 and 0 < n < len(layout):
        ctx.nontriv(tuple(layout), a2, b2)
        ctx.sample(case)
    if b2 > a2:
        ctx.bump("nonempty-range")
    if a is not None and a < -n or b is not None and b < -n:
        ctx.bump("below-minus-len")
    if (a is not None and a > n) or (b is not None and b > n):
        ctx.bump("above-len")


def all_classes(ctx, L):
    """the same claim for every testcase class (a subclass may override the index translation) and for testcases that come
    out of the real loaders (markers, CR LF before the DDEND line, JS strings, tags): monitors only"""
    for kind in ("char", "symbol", "jsstr", "attrs"):
        for k in range(0, L + 1):
            for layout in itertools.product((True, False), repeat=k):
                vals = [None] + list(range(-k - 2, k + 3))
                for a in vals:
                    for b in vals:
                        one_case(ctx, layout, a, b, do_model=False, kind=kind)
    files = {"char": [b"h\r\n// DDBEGIN\r\nab;cd\r\n// DDEND\r\nt\r\n", b"// DDBEGIN\nxyz\n// DDEND\n", b"abcde",
                      b"a\xc3\xa9\xe2\x82\xacb\xf0\x9f\x98\x80c\n", b"\xc3\xa9\xc3\xa9", b"\x80\xbf\xc3"],
             "line": [b"a\r\nb\r\nc\r\n", b"h\nDDBEGIN\na\nb\nDDEND\nt\n"],
             "symbol": [b"f(a){b;c};g[1]=2;\n"],
             "jsstr": [b"x = 'ab' + \"cd\\x41\";\ny = 'e';\n", b"s = 'a\\uD83D\\uDE00b\\ud83d\\ude00' + \"\\u{1F600}\\uD83D\";\n",
                       b"'\\xF0\\x9F\\x98\\x80\\360\\237'\n"],
             "attrs": [b"<p a=1 b=\"2\" c>t<q d='3'>\n"]}
    for kind, datas in files.items():
        for data, how in [(d_, h_) for d_ in datas for h_ in ("fresh", "loaded-twice", "copy-then-load")]:
            res = loaders.real_load(kind, data) if how == "fresh" else loaders.real_load(kind, data, preload=b"<old a=1 b='2' c>\n'o' + \"p\";\nq;r\n")
            if res[0] != "ok":
                continue
            t = res[1]
            if how == "copy-then-load":        # what minimize-collapse-brace does to re-parse a file
                t2 = t.copy()
                rp = loaders.scratch() / "c07-reload.txt"
                rp.write_bytes(data)
                t2.load(rp)
                t = t2
            if len(t.parts) != len(t.reducible):
                ctx.fail("flags", f"{kind}: the loaded testcase has {len(t.parts)} parts and {len(t.reducible)} flags", dict(splitter=kind, data=common.enc_bytes(data)))
                continue
            n = sum(1 for r in t.reducible if r)
            for a in [None] + list(range(-n - 2, n + 3)):
                for b in [None] + list(range(-n - 2, n + 3)):
                    one_case(ctx, None, a, b, do_model=False, src=t)


def sweep(ctx, L, do_model=True):
    for k in range(0, L + 1):
        for layout in itertools.product((True, False), repeat=k):
            vals = [None] + list(range(-k - 2, k + 3))
            for a in vals:
                for b in vals:
                    one_case(ctx, layout, a, b, do_model)


def chain(ctx, layout, ops, copies, do_model=True):
    """several deletions one after the other on ONE object (optionally through copy() and len() in between): each step
    must be the deletion of the given range from what the object held just before"""
    obj = mk(layout)
    case = dict(layout=enc_bools(layout), ops=[list(o) for o in ops], copies=list(copies), chain=True)
    for i, (a, b) in enumerate(ops):
        snap_p, snap_r = list(obj.parts), list(obj.reducible)
        n = sum(1 for r in snap_r if r)
        a2, b2 = clamp_spec(a, n, 0), clamp_spec(b, n, n)
        if a2 > b2:
            return
        try:
            if copies[i] == 1:
                obj = obj.copy()
            elif copies[i] == 2:
                len(obj)
            obj.rmslice(a, b)
            real = f"ok {enc_list(obj.parts)} {enc_bools(obj.reducible)} {len(obj)}"
        except Exception as exc:  # pylint: disable=broad-except
            ctx.fail("raises", f"step {i}: rmslice({a},{b}) raised {type(exc).__name__}: {exc}", case)
            return
        exp_p, exp_r = spec_delete(snap_p, snap_r, a2, b2)
        if obj.parts != exp_p or obj.reducible != exp_r or len(obj) != n - (b2 - a2):
            ctx.fail("wrong-atoms", f"step {i} of a chain: rmslice({a},{b}) on parts={snap_p} flags={enc_bools(snap_r)} left parts={obj.parts} "
                     f"flags={enc_bools(obj.reducible)} len={len(obj)}, expected parts={exp_p} flags={enc_bools(exp_r)}", case)
            return
        if do_model:
            ctx.expect("rmslice", f"rmslice {enc_list(snap_p)} {enc_bools(snap_r)} {enc_optint(a)} {enc_optint(b)}", real, case)
        else:
            ctx.evaluations += 1
    ctx.bump("chains")
    if not all(layout) and any(layout):
        ctx.nontriv("chain", tuple(layout), tuple(ops), tuple(copies))


def object_histories(ctx, count, do_model=True):
    """'a copy is independent', as a history of OBJECTS: random sequences of copy() / rmslice() / in-place list edits over a
    growing family of objects of every testcase class.  Monitor: an operation on one object leaves the lists of all others
    as they were.  Correspondence with the heap model (`alias`): the contents of every object and WHICH objects share a
    list object (`is`) after the whole sequence"""
    rng = ctx.rng
    for n in range(count):
        kind = loaders.KINDS[n % len(loaders.KINDS)]
        k = rng.randint(1, 6)
        layout = tuple(rng.random() < 0.75 for _ in range(k))
        first = mk(layout, kind)
        first.before = first.after = b""
        p0, r0 = list(first.parts), list(first.reducible)
        objs, ops = [first], []
        for _step in range(rng.randint(1, 9)):
            o = rng.randrange(len(objs))
            what = rng.choice("ccrrrfp")
            snap = [(list(x.parts), list(x.reducible)) for x in objs]
            case = dict(splitter=kind, parts=enc_list(p0), flags=enc_bools(r0), ops=";".join(ops + ["<next>"]), object_history=True)
            try:
                if what == "c":
                    objs.append(objs[o].copy())
                    ops.append(f"c:{o}")
                    untouched = range(len(snap))
                elif what == "r":
                    m = len(objs[o])
                    a = rng.choice([None] + list(range(-m - 1, m + 2)))
                    b = rng.choice([None] + list(range(-m - 1, m + 2)))
                    ops.append(f"r:{o}:{'N' if a is None else a}:{'N' if b is None else b}")
                    try:
                        objs[o].rmslice(a, b)
                    except IndexError:
                        pass
                    untouched = [j for j in range(len(snap)) if j != o]
                elif what == "f" and objs[o].reducible:
                    i = rng.randrange(len(objs[o].reducible))
                    v = rng.random() < 0.5
                    objs[o].reducible[i] = v
                    ops.append(f"f:{o}:{i}:{1 if v else 0}")
                    untouched = [j for j in range(len(snap)) if j != o]
                elif what == "p" and objs[o].parts:
                    i = rng.randrange(len(objs[o].parts))
                    v = bytes([rng.randrange(97, 123)]) * rng.randint(1, 2)
                    objs[o].parts[i] = v
                    ops.append(f"p:{o}:{i}:{enc_bytes(v)}")
                    untouched = [j for j in range(len(snap)) if j != o]
                else:
                    continue
            except Exception as exc:  # pylint: disable=broad-except
                ctx.fail("raises", f"{kind}: history {ops} then {what} on object {o}: {type(exc).__name__}: {exc}", case)
                break
            case["ops"] = ";".join(ops)
            bad = [j for j in untouched if (list(objs[j].parts), list(objs[j].reducible)) != snap[j]]
            if bad:
                ctx.fail("copy-not-independent", f"{kind}: after {ops}, object(s) {bad} changed although the last operation was on object {o}: "
                         f"{[(objs[j].parts, enc_bools(objs[j].reducible)) for j in bad]} (before: {[snap[j] for j in bad]})", case)
                break
        views = "|".join(f"{enc_list(list(x.parts))} {enc_bools(list(x.reducible))}" for x in objs)
        first_p = ",".join(str(next(i for i, y in enumerate(objs) if y.parts is x.parts)) for x in objs)
        first_r = ",".join(str(next(i for i, y in enumerate(objs) if y.reducible is x.reducible)) for x in objs)
        real = f"{views} P={first_p} R={first_r}"
        case = dict(splitter=kind, parts=enc_list(p0), flags=enc_bools(r0), ops=";".join(ops), object_history=True)
        if do_model:
            ctx.expect("alias", f"alias {enc_list(p0)} {enc_bools(r0)} {';'.join(ops) or '.'}", real, case)
        else:
            ctx.evaluations += 1
        ctx.bump("object-histories")
        if len(objs) >= 3 and any(op[0] in "fp" for op in ops):
            ctx.nontriv("history", kind, tuple(ops), tuple(p0), tuple(r0))


def flag_edits(ctx, count):
    """the flags of an object are edited in place after its length was observed (as pinning a line does:
    `tc.reducible[i] = False`), then a range is deleted from the SAME object: the deletion and len() follow the flags as they are now"""
    rng = ctx.rng
    for _ in range(count):
        k = rng.randint(2, 9)
        layout = [rng.random() < 0.8 for _ in range(k)]
        obj = mk(tuple(layout))
        seen = len(obj)
        edits = []
        for _e in range(rng.randint(1, 3)):
            i = rng.randrange(k)
            v = rng.random() < 0.3
            obj.reducible[i] = v
            layout[i] = v
            edits.append((i, v))
        n = sum(layout)
        case = dict(layout_after_edits=enc_bools(layout), edits=edits, len_seen_before=seen, flag_edit=True)
        try:
            if len(obj) != n:
                ctx.fail("len", f"len() = {len(obj)} after flags were edited in place; {n} reducible atoms now", case)
                continue
            a = rng.randint(0, n)
            b = rng.randint(a, n)
            snap_p, snap_r = list(obj.parts), list(obj.reducible)
            obj.rmslice(a, b)
        except Exception as exc:  # pylint: disable=broad-except
            ctx.fail("raises", f"after in-place flag edits: {type(exc).__name__}: {exc}", case)
            continue
        exp_p, exp_r = spec_delete(snap_p, snap_r, a, b)
        ctx.evaluations += 1
        ctx.bump("flag-edits")
        if obj.parts != exp_p or obj.reducible != exp_r or len(obj) != n - (b - a):
            ctx.fail("wrong-atoms", f"flags edited in place to {enc_bools(snap_r)}, then rmslice({a},{b}) left parts={obj.parts} "
                     f"flags={enc_bools(obj.reducible)} len={len(obj)}; expected parts={exp_p} flags={enc_bools(exp_r)}", dict(case, a=a, b=b))


def chains(ctx, L, count, do_model=True):
    for k in range(1, L + 1):
        for layout in itertools.product((True, False), repeat=k):
            n = sum(layout)
            pairs = [(a, b) for a in range(0, n + 1) for b in range(a, n + 1)]
            for (a, b) in pairs:
                n2 = n - (b - a)
                for a2 in range(0, n2 + 1):
                    for b2 in range(a2, n2 + 1):
                        chain(ctx, layout, [(a, b), (a2, b2)], (0, 0), do_model)
    rng = ctx.rng
    for _ in range(count):
        k = rng.randint(3, 14)
        layout = tuple(rng.random() < rng.choice((0.4, 0.7, 0.95)) for _ in range(k))
        n = sum(layout)
        ops, copies = [], []
        for _i in range(rng.randint(2, 5)):
            a = rng.randint(-2, n + 1)
            b = rng.randint(a, n + 2) if a >= 0 else rng.choice([None, rng.randint(-2, n + 1)])
            ops.append((a, b))
            copies.append(rng.choice((0, 0, 1, 2)))
            a2, b2 = clamp_spec(a, n, 0), clamp_spec(b, n, n)
            n -= max(0, b2 - a2)
        chain(ctx, layout, ops, copies, do_model)


def randoms(ctx, count, do_model=True):
    rng = ctx.rng
    for _ in range(count):
        k = rng.randint(9, 40)
        p = rng.choice((0.1, 0.5, 0.9))
        layout = tuple(rng.random() < p for _ in range(k))

        def idx():
            c = rng.random()
            if c < 0.1:
                return None
            if c < 0.2:
                return rng.choice((-1, 1)) * rng.randint(2**31, 2**70)
            return rng.randint(-k - 3, k + 3)

        one_case(ctx, layout, idx(), idx(), do_model)


def search(ctx):
    """failing-input search: monitors only, on an enlarged space"""
    chains(ctx, 5, 20000, do_model=False)
    flag_edits(ctx, 8000)
    object_histories(ctx, 20000, do_model=False)
    sweep(ctx, 9, do_model=False)
    randoms(ctx, 20000, do_model=False)


def run(ctx) -> int:
    proof = common.proof_stage(ctx.pid)
    L = 8 if ctx.thorough else 7
    sweep(ctx, L)
    all_classes(ctx, 4 if ctx.thorough else 3)
    ctx.exhaustive.append(f"all layouts of length <= {L} x all (a,b) in [-len-2, len+2] u {{None}}")
    randoms(ctx, 60000 if ctx.thorough else 20000)
    chains(ctx, 5 if ctx.thorough else 4, 20000 if ctx.thorough else 4000)
    flag_edits(ctx, 8000 if ctx.thorough else 2000)
    object_histories(ctx, 20000 if ctx.thorough else 4000)
    ctx.exhaustive.append("every pair of consecutive deletions on one object for all layouts of length <= 4 (quick) / 5 (thorough)")
    return common.decide(ctx, proof, RULE, search=search,
                         assumptions=["'a copy is independent' is a statement about Python aliasing: C07_copy_independent proves it on a heap model (objects hold references to list objects; copy/rmslice allocate, callers may edit lists in place) whose tie to the code is the sharing structure (`is`) and contents after random object histories, plus the monitor"])


def replay(rec) -> int:
    ctx = common.Ctx("C07", "quick", 0)
    c = rec["case"]
    layout = tuple(ch == "1" for ch in c["layout"]) if c["layout"] != "." else ()
    one_case(ctx, layout, c["a"], c["b"])
    ctx.flush()
    print("monitor failures:", ctx.failures)
    print("disagreements:", ctx.disagreements)
    return 1 if ctx.failures or ctx.disagreements else 0
