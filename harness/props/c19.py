"""C19 — outputs, diff_test and repeat decide exactly what they document.

Real children / real modules in both capture modes vs the model's decision logic; monitor: the
property's words (with Python's `re` as the meaning of 'a match of the pattern')."""
from __future__ import annotations

import contextlib
import io
import itertools
import os
import re
import stat
import sys

from .. import common, loaders
from ..common import enc_bytes, enc_list

RULE = ("outputs: scripted binary/multi-line/empty output on both streams x literal and regex searches (present in stdout only / stderr only / "
        "neither, spanning lines, empty, non-ASCII) x both capture modes; diff_test: pairs of (exit code, stdout, stderr) behaviours from a grid "
        "x both modes; repeat: every inner verdict sequence for N <= 4/6, default and custom cookie; non-trivial = a case exercised in both "
        "capture modes whose verdict depends on one stream only, or a repeat sequence with a success after >= 1 failure")

CHILD = ("#!%s\nimport os,sys\nspec=sys.argv[1].split(':')\n"
         "os.write(1, bytes.fromhex(spec[1])); os.write(2, bytes.fromhex(spec[2]))\n"
         "if spec[0]=='T':\n    import time; time.sleep(30)\n"
         "if spec[0].startswith('S'):\n    os.kill(os.getpid(), int(spec[0][1:]))\n"
         "os._exit(int(spec[0]))\n") % sys.executable

INNER = ("calls=[]\nplan=[]\n"
         "def interesting(args, prefix):\n"
         "    calls.append(list(args))\n"
         "    del args[:]          # a test that consumes its argument list (pops its options): every run gets its own list\n"
         "    return plan[len(calls)-1] if len(calls)-1 < len(plan) else False\n")


def child_path():
    p = loaders.scratch() / "c19child"
    if not p.exists():
        p.write_text(CHILD)
        p.chmod(p.stat().st_mode | stat.S_IXUSR)
    return str(p)


CHILD_FILES = ("#!%s\nimport os,sys\n"
               "for fd, p in ((1, sys.argv[1]), (2, sys.argv[2])):\n"
               "    data = open(p, 'rb').read()\n"
               "    while data:\n        n = os.write(fd, data[:65536]); data = data[n:]\n"
               "os._exit(0)\n") % sys.executable


def big_outputs(ctx):
    """logs larger than any read buffer: a search text — in particular one that contains a line break — is found wherever
    it lies, e.g. across a 64 KiB / 128 KiB boundary of the file, identically in memory and in log files"""
    from lithium.interestingness import outputs
    d = loaders.scratch()
    child = d / "c19child-files"
    if not child.exists():
        child.write_text(CHILD_FILES)
        child.chmod(child.stat().st_mode | stat.S_IXUSR)
    log = b"".join(b"#%05d 0x%08x in function_%d (arg=%d) at file_%d.c:%d\n" % (i, i * 7919, i % 97, i, i % 13, i % 1000) for i in range(2600))
    empty = d / "c19-empty.bin"
    empty.write_bytes(b"")
    big = d / "c19-big.bin"
    big.write_bytes(log)
    searches = []
    for k in (1, 2):
        cut = log.rfind(b"\n", 0, 65536 * k)          # the last line break before the k-th 64 KiB mark
        for a, b in ((20, 20), (1, 1), (0, 5), (30, 0)):
            searches.append(log[max(0, cut - a): cut + 1 + b])
        searches.append(log[65536 * k - 10: 65536 * k + 10])
    searches += [log[100:160], log[-40:], b"function_3 (arg=3)", b"no such text\nat all", log[70000:70030].replace(b"0", b"Z")]
    for where in ("out", "err"):
        for s in searches:
            try:
                txt = s.decode("ascii")
            except UnicodeDecodeError:
                continue
            args = ["-t", "10", "-s", txt, str(child)] + ([str(big), str(empty)] if where == "out" else [str(empty), str(big)])
            want = s in log
            for mode in ("mem", "file"):
                prefix = None if mode == "mem" else str(d / "c19-bigout")
                case = dict(test="outputs", big_log=len(log), stream=where, search=enc_bytes(s), mode=mode)
                try:
                    with contextlib.redirect_stdout(io.StringIO()):
                        v = bool(outputs.interesting(args, prefix))
                except Exception as exc:  # pylint: disable=broad-except
                    ctx.fail("outputs-raises", f"outputs raised {type(exc).__name__}: {exc}", case)
                    continue
                ctx.evaluations += 1
                ctx.bump("outputs-big")
                if v != want:
                    ctx.fail("outputs-verdict", f"outputs ({mode}) = {v}, expected {want}: a {len(log)}-byte log on std{where}, search text "
                             f"{s!r} at offset {log.find(s)}", case)
                    return              # one is enough (each further one may cost a full time limit)


def outputs_cases(ctx, thorough):
    from lithium.interestingness import outputs

    child = child_path()
    streams = [(b"", b""), (b"line A\nline B\nline C\n", b""), (b"", b"line A\nline B\nline C\n"), (b"x\x00\xff\n", b"\xc3\xa9 err"),
               (b"abc", b"abd"), (b"line E", b"\nline E\n")]
    searches = [(False, "line B"), (False, "B\nline C"), (False, "zzz"), (False, ""), (False, "é"), (False, "abd"), (False, "ine A\nl"),
                (True, "^line B$"), (True, "B.line"), (True, "line (A|E)$"), (True, "B\\nline"), (True, "^$"), (True, "ab[d]"), (True, "\\x00\\xff"),
                (True, "e B")]
    for (out, err), (rgx, s) in itertools.product(streams, searches):
        spec = f"0:{out.hex()}:{err.hex()}"
        verdicts = {}
        for mode in ("mem", "file"):
            prefix = None if mode == "mem" else str(loaders.scratch() / "c19-out")
            args = (["--regex"] if rgx else []) + ["-s", s, child, spec]
            case = dict(test="outputs", regex=rgx, search=s, out=enc_bytes(out), err=enc_bytes(err), mode=mode)
            try:
                with contextlib.redirect_stdout(io.StringIO()):
                    verdicts[mode] = bool(outputs.interesting(args, prefix))
            except Exception as exc:  # pylint: disable=broad-except
                ctx.fail("outputs-raises", f"outputs raised {type(exc).__name__}: {exc}", case)
                verdicts[mode] = None
            ctx.evaluations += 1
        if rgx:
            ro, re_ = bool(re.search(s.encode(), out, re.M)), bool(re.search(s.encode(), err, re.M))
            want = ro or re_
        else:
            ro = re_ = False
            want = s.encode() in out or s.encode() in err
        case = dict(test="outputs", regex=rgx, search=s, out=enc_bytes(out), err=enc_bytes(err))
        for mode, v in verdicts.items():
            if v is not None and v != want:
                ctx.fail("outputs-verdict", f"outputs ({mode}) = {v}, expected {want}: search {s!r} regex={rgx} out={out!r} err={err!r}", dict(case, mode=mode))
        if None not in verdicts.values():
            ctx.expect("outputs", f"outputs {1 if rgx else 0} {enc_bytes(s.encode())} {enc_bytes(out)} {enc_bytes(err)} {1 if ro else 0} {1 if re_ else 0}",
                       f"{1 if verdicts['mem'] else 0} {1 if verdicts['file'] else 0}", case)
        if want and ((s.encode() in out) != (s.encode() in err) or ro != re_):
            ctx.nontriv("outputs", rgx, s, out, err)
            ctx.sample(case, limit=3)
        ctx.bump("outputs")


def timeout_cases(ctx, thorough):
    """a child that writes and then hangs past the limit: what it wrote before the kill is searched, identically in both modes"""
    from lithium.interestingness import diff_test, outputs

    child = child_path()
    cases = [(b"line A\nline B\n", b"", False, "line B", True), (b"", b"multi\nline\n", True, "^line$", True),
             (b"abc", b"", False, "abd", False)]
    for out, err, rgx, srch, want in cases if thorough else cases[:2]:
        spec = f"T:{out.hex()}:{err.hex()}"
        for mode in ("mem", "file"):
            prefix = None if mode == "mem" else str(loaders.scratch() / "c19-tmo")
            case = dict(test="outputs", timeout=True, regex=rgx, search=srch, out=enc_bytes(out), err=enc_bytes(err), mode=mode)
            try:
                with contextlib.redirect_stdout(io.StringIO()):
                    v = bool(outputs.interesting(["-t", "1"] + (["--regex"] if rgx else []) + ["-s", srch, child, spec], prefix))
            except Exception as exc:  # pylint: disable=broad-except
                ctx.fail("outputs-raises", f"outputs raised {type(exc).__name__}: {exc}", case)
                continue
            ctx.evaluations += 1
            ctx.bump("outputs-timeout")
            if v != want:
                ctx.fail("outputs-verdict", f"outputs ({mode}) = {v}, expected {want}: the child wrote out={out!r} err={err!r} and then hung past the "
                         f"time limit; search {srch!r} regex={rgx}", case)
    if thorough:
        for mode in ("mem", "file"):
            prefix = None if mode == "mem" else str(loaders.scratch() / "c19-tmo")
            v = bool(diff_test.interesting(["-t", "1", "-a", "T:78:", "-b", "T:79:", child], prefix))
            ctx.evaluations += 1
            if not v:
                ctx.fail("diff-verdict", f"diff_test ({mode}): two timed-out runs with different stdout reported as no difference",
                         dict(test="diff_test", a="T:78:", b="T:79:", mode=mode))


def diff_cases(ctx, thorough):
    from lithium.interestingness import diff_test

    child = child_path()
    behaviours = [(0, b"", b""), (0, b"x", b""), (0, b"y", b""), (0, b"x", b"e"), (1, b"x", b""), (1, b"", b""), (0, b"xy", b""), (2, b"x", b"e"),
                  (2, b"x", b""), (77, b"x", b""), (-9, b"x", b""), (-15, b"x", b"")]
    pairs = list(itertools.product(behaviours, repeat=2))
    if not thorough:
        pairs = [p for i, p in enumerate(pairs) if i % 4 == 0 or p[0] == p[1] or p[0][1:] == p[1][1:]]
    # outputs that differ in nothing but their line terminators are different outputs
    ends = [(0, b"a\n", b""), (0, b"a", b""), (0, b"a\r\n", b""), (0, b"a\rb\n", b""), (0, b"a\nb\n", b""), (0, b"", b"e\n"), (0, b"", b"e"),
            (0, b"a\n\n", b""), (0, b"a\x0c", b"")]
    pairs += [(x, y) for x in ends for y in ends]
    for a, b in pairs:
        sa, sb = (f"{x[0] if x[0] >= 0 else 'S' + str(-x[0])}:{x[1].hex()}:{x[2].hex()}" for x in (a, b))
        want = a != b
        vs = {}
        for mode in ("mem", "file"):
            prefix = None if mode == "mem" else str(loaders.scratch() / "c19-diff")
            case = dict(test="diff_test", a=sa, b=sb, mode=mode)
            try:
                vs[mode] = bool(diff_test.interesting(["-a", sa, "-b", sb, child], prefix))
            except Exception as exc:  # pylint: disable=broad-except
                ctx.fail("diff-raises", f"diff_test raised {type(exc).__name__}: {exc}", case)
                continue
            ctx.evaluations += 1
            if vs[mode] != want:
                ctx.fail("diff-verdict", f"diff_test ({mode}) = {vs[mode]} for runs {a} vs {b}", case)
        if len(vs) == 2:
            ctx.expect("diff", f"diff {a[0]} {enc_bytes(a[1])} {enc_bytes(a[2])} {b[0]} {enc_bytes(b[1])} {enc_bytes(b[2])}",
                       "1" if vs["mem"] else "0", dict(test="diff_test", a=sa, b=sb))
            ctx.nontriv("diff", sa, sb)
        ctx.bump("diff")
    # the SAME arguments for both runs and a program that behaves differently from run to run (a flakiness check): the second
    # run is really made and compared
    flaky = loaders.scratch() / "c19flaky"
    state = loaders.scratch() / "c19flaky.state"
    flaky.write_text("#!%s\nimport os,sys\np=%r\nn=int(open(p).read()) if os.path.exists(p) else 0\nopen(p,'w').write(str(n+1))\n"
                     "os.write(1, b'run %%d\\n' %% (n %% 2) if sys.argv[-1]=='out' else b'same\\n')\nos._exit(n %% 2 if sys.argv[-1]=='code' else 0)\n"
                     % (sys.executable, str(state)))
    flaky.chmod(flaky.stat().st_mode | stat.S_IXUSR)
    for what, want in (("out", True), ("code", True), ("none", False)):
        for a_arg, b_arg in (("", ""), ("x y", "x  y"), ("  ", "")):
            for mode in ("mem", "file"):
                if state.exists():
                    state.unlink()
                prefix = None if mode == "mem" else str(loaders.scratch() / "c19-diff")
                case = dict(test="diff_test", a=a_arg, b=b_arg, child=f"alternates its {what}", mode=mode)
                try:
                    v = bool(diff_test.interesting(["-a", a_arg, "-b", b_arg, str(flaky), what], prefix))
                except (Exception, SystemExit) as exc:  # pylint: disable=broad-except
                    ctx.fail("diff-raises", f"diff_test raised {type(exc).__name__}: {exc}", case)
                    continue
                ctx.evaluations += 1
                ctx.bump("diff-same-args")
                runs = int(state.read_text()) if state.exists() else 0
                if v != want or runs != 2:
                    ctx.fail("diff-verdict", f"diff_test ({mode}) with identical arguments {a_arg!r}/{b_arg!r} and a program that alternates its {what}: "
                             f"verdict {v} (expected {want}), the program was run {runs} times (expected 2)", case)
    if thorough:
        # a timed-out run reports no exit code: differs from a run that exits 0 with the same output
        for mode in ("mem", "file"):
            prefix = None if mode == "mem" else str(loaders.scratch() / "c19-diff")
            v = bool(diff_test.interesting(["-t", "1", "-a", "T::", "-b", "0::", child], prefix))
            ctx.evaluations += 1
            if not v:
                ctx.fail("diff-verdict", f"diff_test ({mode}): a timed-out run vs a normal run reported as no difference", dict(test="diff_test", a="T::", b="0::"))
        ctx.expect("diff", "diff N - - 0 - -", "1", dict(test="diff_test-timeout"))


def repeat_cases(ctx, thorough):
    import importlib

    from lithium.interestingness import repeat

    d = loaders.scratch() / "c19-repeat"
    d.mkdir(exist_ok=True)
    (d / "c19_inner.py").write_text(INNER)
    cwd = os.getcwd()
    os.chdir(d)
    sys.modules.pop("c19_inner", None)
    try:
        nmax = 6 if thorough else 4
        for n in range(1, nmax + 1):
            for seq in itertools.product((False, True), repeat=n):
                for cookie, args in ((None, ["n=REPEATNUM;", "x", "REPEATNUMREPEATNUM"]), ("COOKIE", ["aCOOKIEb", "REPEATNUM", "--COOKIE"]),
                                     ("é#", ["pé#q", "e"]),
                                     # cookies are literal text, whatever characters they contain
                                     ("$RUN", ["a$RUNb", "RUN"]), ("[I]", ["x[I]y", "I"]), ("N+", ["N+N", "NN"]), ("R.N", ["R.N", "RUN"])):
                    cli = (["-n", cookie] if cookie else []) + [str(n), "c19_inner"] + args
                    ck = cookie or "REPEATNUM"
                    case = dict(test="repeat", n=n, verdicts="".join("1" if v else "0" for v in seq), cookie=ck, args=args)
                    try:
                        verdict = bool(repeat.interesting(cli, str(d / "pfx")))
                    except Exception as exc:  # pylint: disable=broad-except
                        ctx.fail("repeat-raises", f"repeat raised {type(exc).__name__}: {exc}", case)
                        continue
                    inner = sys.modules["c19_inner"]
                    inner.plan[:] = list(seq)
                    inner.calls.clear()
                    verdict = bool(repeat.interesting(cli, str(d / "pfx")))
                    calls = [list(c) for c in inner.calls]
                    ctx.evaluations += 1
                    first = next((i + 1 for i, v in enumerate(seq) if v), None)
                    want_runs = first if first is not None else n
                    if verdict != (first is not None):
                        ctx.fail("repeat-verdict", f"repeat {n} with inner verdicts {seq}: {verdict}", case)
                    if len(calls) != want_runs:
                        ctx.fail("repeat-runs", f"repeat {n} with inner verdicts {seq}: {len(calls)} inner runs, expected {want_runs}", case)
                    for i, c in enumerate(calls, 1):
                        want_args = [a.replace(ck, str(i)) for a in args]
                        if c != want_args:
                            ctx.fail("repeat-args", f"run {i} received {c}, expected {want_args}", case)
                            break
                    ctx.expect("repeat", f"repeat {n} {case['verdicts']}", f"{1 if verdict else 0} {len(calls)}", case)
                    if calls:
                        i = len(calls)
                        ctx.expect("repeatargs", f"repeatargs {enc_bytes(ck.encode())} {i} {enc_list([a.encode() for a in args])}",
                                   enc_list([a.encode() for a in calls[-1]]), case)
                    if first is not None and first > 1:
                        ctx.nontriv("repeat", n, seq, ck)
                        ctx.sample(case, limit=2)
                    ctx.bump("repeat")
        ctx.exhaustive.append(f"every inner verdict sequence for N <= {nmax} x 3 cookie settings")
    finally:
        os.chdir(cwd)
        sys.modules.pop("c19_inner", None)


def run(ctx) -> int:
    common.default_signal_dispositions()
    proof = common.proof_stage(ctx.pid)
    outputs_cases(ctx, ctx.thorough)
    timeout_cases(ctx, ctx.thorough)
    big_outputs(ctx)
    diff_cases(ctx, ctx.thorough)
    repeat_cases(ctx, ctx.thorough)
    return common.decide(ctx, proof, RULE,
                         assumptions=["`re` is uninterpreted in the model (a predicate on bytes); filecmp.cmp's default shallow comparison is modelled as content "
                                      "comparison (it differs only when two log files have the same size and the same mtime)"])


def replay(rec) -> int:
    print(rec["case"])
    return 0
