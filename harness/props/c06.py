"""C06 — splitting a file and writing it back is the identity.

Correspondence: real `load()` of every splitter vs the model's `load`, field by field.
Monitor: dump() to a second path equals the input; atoms non-empty; one flag per atom;
also with a long-lived testcase object that is re-used for successive loads."""
from __future__ import annotations

from .. import common, loaders
from ..common import enc_bytes

ALPHABET = [b"'", b'"', b"\\", b"x", b"u", b"{", b"}", b"1", b"a", b"\n", b"\r", b"<", b">", b"=", b" ",
            b";", b"]", b"-", b":", b"\xc2\x85", b"\xe2\x80\xa8", b"\xff", b"DDBEGIN", b"DDEND"]

RULE = ("every concatenation of up to L entries of a 24-entry adversarial alphabet (quotes, backslash, x u { } 1 a, LF, CR, "
        "< > = space ; ] - :, NEL, LS, 0xFF, the words DDBEGIN and DDEND) x 5 splitters, plus random strings up to 40 bytes "
        "(marker lines, tags, JS strings, invalid UTF-8), plus every prefix of grammar-directed tag/JS documents; non-trivial = the load succeeded with >= 2 atoms; distinct by (splitter, bytes)")

_reused = {}


def monitor(ctx, kind, data, res, case):
    if res[0] == "err":
        if res[1].startswith("internal") or res[1] == "lithiumError-other":
            ctx.fail("load-raises", f"{kind}: load raised {res[1]}: {res[2]!r}", case)
        return
    t = res[1]
    out = loaders.scratch() / f"out-{kind}.bin"
    t.dump(out)
    back = out.read_bytes()
    if back != data:
        ctx.fail("roundtrip", f"{kind}: wrote back {back!r} for input {data!r}", case)
    if t.before + b"".join(t.parts) + t.after != data:
        ctx.fail("roundtrip", f"{kind}: before+parts+after != input", case)
    if any(len(p) == 0 for p in t.parts):
        ctx.fail("empty-atom", f"{kind}: empty atom in {t.parts!r}", case)
    if len(t.parts) != len(t.reducible):
        ctx.fail("flags", f"{kind}: {len(t.parts)} parts but {len(t.reducible)} flags", case)
    if any(type(x) is not bool for x in t.reducible):
        ctx.fail("flags", f"{kind}: non-bool flag", case)


def one_case(ctx, kind, data, do_model=True):
    res = loaders.real_load(kind, data)
    case = dict(splitter=kind, data=enc_bytes(data))
    if do_model and kind in loaders.MODELLED:
        ctx.expect("load", loaders.load_cmd(kind, data), loaders.enc_load(res), case)
    else:
        ctx.evaluations += 1
    monitor(ctx, kind, data, res, case)
    # the same through an object that has loaded other files before
    obj = _reused.get(kind)
    if obj is None:
        obj = _reused[kind] = loaders.new_testcase(kind)
    p = loaders.scratch() / "reuse.txt"
    p.write_bytes(data)
    try:
        obj.load(p)
        r2 = ("ok", obj)
    except Exception as exc:  # pylint: disable=broad-except
        r2 = ("err", type(exc).__name__, exc)
        _reused[kind] = None
    if r2[0] == "ok":
        monitor(ctx, kind, data, r2, dict(case, reused_object=True))
        if res[0] == "ok" and (obj.before, obj.parts, obj.reducible, obj.after) != (
                res[1].before, res[1].parts, res[1].reducible, res[1].after):
            ctx.fail("reuse", f"{kind}: a re-used object splits differently from a fresh one", dict(case, reused_object=True))
    elif res[0] == "ok":
        ctx.fail("reuse", f"{kind}: a re-used object raised {r2[1]} where a fresh one loads", dict(case, reused_object=True))
    if res[0] == "ok":
        n = len(res[1].parts)
        ctx.bump(f"{kind}:atoms>=2" if n >= 2 else f"{kind}:atoms<2")
        if n >= 2:
            ctx.nontriv(kind, data)
            if any(res[1].reducible) and not all(res[1].reducible):
                ctx.bump(f"{kind}:mixed-flags")
                ctx.sample(dict(case, parts=len(res[1].parts)), limit=5)
    else:
        ctx.bump(f"{kind}:{res[1]}")


def random_string(rng):
    pieces = ALPHABET + [b"DDBEGIN\n", b"DDEND\n", b"\r\n", b"<a b=\"c\">", b"'\\u1234'", b"\"\\x4", b"\\u{1F}", b"<x y='", b" z=1 ",
                         b"\x80", b"\xe2\x80", b"\xf0\x90", b"\x0b", b"\x0c", b"\x1c", b"\xe2\x80\xa9", b"ab", b"\t"]
    body = b"".join(rng.choice(pieces) for _ in range(rng.randint(0, 14)))[:40]
    # byte-order marks and other encoding signatures are ordinary bytes of the file
    lead = rng.choice([b""] * 6 + [b"\xef\xbb\xbf", b"\xff\xfe", b"\xfe\xff", b"\xef\xbb", b"\x00"])
    return lead + body


def truncated(ctx, n, do_model=True):
    """grammar-directed documents (tags with every attribute form, JS strings with escapes) cut off at EVERY byte position:
    a file that ends in the middle of a construct is where splitters double or drop their pending buffer"""
    from . import c16
    for _ in range(n):
        doc = c16.gen_doc(ctx.rng)
        for k in range(1, len(doc) + 1):
            one_case(ctx, "attrs", doc[:k], do_model=do_model)
        js = c16.gen_js(ctx.rng)
        for k in range(1, len(js) + 1):
            one_case(ctx, "jsstr", js[:k], do_model=do_model)
        for kind in ("line", "char", "symbol"):
            one_case(ctx, kind, doc, do_model=do_model)
            one_case(ctx, kind, js, do_model=do_model)


LOCALE_CHILD = r"""
import sys, os, tempfile
sys.path.insert(0, sys.argv[1])
from lithium import testcases as T
files = [b"caf\xc3\xa9\n\xe2\x82\xac uro\n", b"// DDBEGIN \xc5\x81\nx = '\xc3\xa9';\n// DDEND\n", b"\xff\xfe\n\xe9\n", b"<a b=\"\xc3\xbc\">\n",
         b"plain ascii\n"]
bad = []
d = tempfile.mkdtemp()
try:
    for cls in (T.TestcaseLine, T.TestcaseChar, T.TestcaseSymbol, T.TestcaseJsStr, T.TestcaseAttrs):
        for i, data in enumerate(files):
            p = os.path.join(d, "in.txt"); open(p, "wb").write(data)
            try:
                t = cls(); t.load(p)
                q = os.path.join(d, "out.txt"); t.dump(q)
                back = open(q, "rb").read()
                if back != data or t.before + b"".join(t.parts) + t.after != data:
                    bad.append("%s file %d: wrote back %r" % (cls.__name__, i, back))
            except Exception as exc:
                bad.append("%s file %d: %s: %s" % (cls.__name__, i, type(exc).__name__, exc))
finally:
    import shutil; shutil.rmtree(d, ignore_errors=True)
print(sys.getfilesystemencoding())
for b in bad: print("BAD " + b)
"""


def other_locale(ctx):
    """the bytes of a file do not depend on the locale Lithium is started in: the same loads in a child interpreter whose
    filesystem encoding is ASCII (LC_ALL=C, UTF-8 mode off)"""
    import os
    import subprocess
    import sys
    env = dict(os.environ, LC_ALL="C", LANG="C", PYTHONUTF8="0", PYTHONCOERCECLOCALE="0")
    p = subprocess.run([sys.executable, "-c", LOCALE_CHILD, str(common.REPO / "src")], env=env, capture_output=True, text=True, timeout=120)
    ctx.evaluations += 1
    ctx.bump("other-locale")
    lines = p.stdout.splitlines()
    if p.returncode != 0 or not lines:
        ctx.fail("load-raises", f"the loads under LC_ALL=C did not run: {p.stderr[-300:]}", dict(locale="C"))
        return
    ctx.notes.append(f"child interpreter filesystem encoding: {lines[0]}")
    for l in lines[1:]:
        if l.startswith("BAD "):
            ctx.fail("roundtrip", f"under LC_ALL=C (filesystem encoding {lines[0]}): {l[4:]}", dict(locale="C", what=l[4:120]))
            break


def search(ctx):
    truncated(ctx, 3000, do_model=False)
    for data in loaders.all_strings(ALPHABET, 3):
        for kind in loaders.KINDS:
            one_case(ctx, kind, data, do_model=False)
    for _ in range(50000):
        d = random_string(ctx.rng)
        for kind in loaders.KINDS:
            one_case(ctx, kind, d, do_model=False)


def run(ctx) -> int:
    proof = common.proof_stage(ctx.pid)
    for lead in (b"\xef\xbb\xbf", b"\xff\xfe", b"\xfe\xff\x00"):
        for body in (b"", b"a\n", b"// DDBEGIN\nab\n// DDEND\n", b"x = 'a';\n<a b=c>\n", b"\n" + lead + b"x\n"):
            for kind in loaders.KINDS:
                one_case(ctx, kind, lead + body)
    L = 4 if ctx.thorough else 3
    for data in loaders.all_strings(ALPHABET, L):
        for kind in loaders.KINDS:
            one_case(ctx, kind, data)
    ctx.exhaustive.append(f"all concatenations of <= {L} alphabet entries x 5 splitters")
    for _ in range(200000 if ctx.thorough else 6000):
        d = random_string(ctx.rng)
        for kind in loaders.KINDS:
            one_case(ctx, kind, d)
    truncated(ctx, 6000 if ctx.thorough else 500)
    other_locale(ctx)
    return common.decide(ctx, proof, RULE, search=search)


def replay(rec) -> int:
    ctx = common.Ctx("C06", "quick", 0)
    c = rec["case"]
    data = bytes.fromhex(c["data"]) if c["data"] != "-" else b""
    one_case(ctx, c["splitter"], data)
    ctx.flush()
    print("real:", loaders.enc_load(loaders.real_load(c["splitter"], data)))
    print("monitor failures:", ctx.failures)
    print("disagreements:", ctx.disagreements)
    return 1 if ctx.failures or ctx.disagreements else 0
