"""C11 — an uninteresting original is left untouched; the exit status tells the outcome."""
from .. import common
from . import drv

RULE = ("as C01 (D1 scripts with 1-3 run() calls incl. check-only runs; D2 real strategies x splitters), first verdict both ways, empty inputs; "
        "writes are observed through st_mtime_ns/st_ino with a pinned old mtime; non-trivial = a run whose first verdict is 'reject', a "
        "check-only run, or an accepted original with at least one later test")
NT = lambda acc, rej, ab, obs, runs: (not ab) and (any(r["kind"] == "c" for r in runs) or any(r["first"] == "r" for r in runs) or acc + rej >= 2)
WHICH = ("c11",)


def search(ctx):
    drv.d1(ctx, WHICH, 6000, NT, do_model=False, allow_abort=False)
    drv.d2_random(ctx, WHICH, NT, 600, do_model=False, aborts=False)


def run(ctx) -> int:
    proof = common.proof_stage(ctx.pid)
    drv.d1(ctx, WHICH, 20000 if ctx.thorough else 5000, NT, allow_abort=False)
    drv.d2_random(ctx, WHICH, NT, 3000 if ctx.thorough else 1000, aborts=False)
    return common.decide(ctx, proof, RULE, search=search)


replay = drv.replay_case
