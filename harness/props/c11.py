"""C11 — an uninteresting original is left untouched; the exit status tells the outcome."""
from .. import common
from . import drv

RULE = ("as C01 (D1 scripts with 1-3 run() calls incl. check-only runs; D2 real strategies x splitters), first verdict both ways, empty inputs; "
        "writes are observed through st_mtime_ns/st_ino with a pinned old mtime; non-trivial = a run whose first verdict is 'reject', a "
        "check-only run, or an accepted original with at least one later test")
NT = lambda acc, rej, ab, obs, runs: (not ab) and (any(r["kind"] == "c" for r in runs) or any(r["first"] == "r" for r in runs) or acc + rej >= 2)
WHICH = ("c11",)


def edited_file(ctx):
    """the file was edited after Lithium loaded it (an editor, another tool): a run whose first test rejects — and a
    check-only run that rejects — still must not write to it, for every strategy.  (An ACCEPTING check-only test on an
    edited file is not judged: run() then restores the bytes it loaded, see DESIGN.md §5 "file changed under Lithium".)"""
    from .. import driver, scripts
    for name, opts in drv.STRATS:
        for kind, loaded, now in (("line", b"a\nb\nc\n", b"a\nb\nc\nedited\n"), ("char", b"abc", b"xyz"), ("line", b"a\nb\n", b"")):
            for verdict in ("r",):
                s = driver.Session(None, kind=kind, from_file=loaded)
                try:
                    s.path.write_bytes(now)
                    o = s.run(scripts.make_real_strategy(name, opts), verdict)
                finally:
                    s.close()
                case = dict(strategy=name, splitter=kind, loaded=common.enc_bytes(loaded), on_disk=common.enc_bytes(now), verdict=verdict,
                            stream="edited-file")
                ctx.evaluations += 1
                ctx.bump("edited-file")
                if o.exit == "x":
                    ctx.fail("rejected-original", f"{name}: run() raised {o.exc!r}", case)
                elif o.wrote or o.disk != now or len(o.calls) != 1:
                    key = "check-only" if name == "check-only" else "rejected-original"
                    ctx.fail(key, f"{name}: the file was edited to {now!r} after loading {loaded!r}; the only test answered {verdict!r}; afterwards "
                             f"the file holds {o.disk!r} (written: {o.wrote}), {len(o.calls)} tests ran", case)
                elif (o.exit == "r0") != (verdict == "a"):
                    ctx.fail("status", f"{name}: exit {o.exit} after the only test answered {verdict!r}", case)


def time_limit_status(ctx):
    """--max-run-time: a run that is cut short by the limit still reports what happened — status 0 exactly when a
    candidate was accepted — for minimize, minimize-around and minimize-balanced, the limit expiring after k tests"""
    import lithium.strategies as S

    from .. import driver, scripts, strat
    data = b"a\n{\nb\n}\nc\n(\nd\n)\ne\nf\n"
    for name in ("minimize", "minimize-around", "minimize-balanced"):
        for verdicts in ("aaaaaaaaaaaaaaaaaaaa", "arararararararararar", "arrrrrrrrrrrrrrrrrrr", "arrarrrrrrrrrrrrrrrr"):
            for k in (1, 2, 3, 5, 8):
                s = driver.Session(None, kind="line", from_file=data)
                clk = strat.Clock([0] * k + [1000])
                old = S.time
                S.time = clk
                try:
                    def dec(j, disk, v=verdicts, clk=clk):
                        clk.tests = j + 1
                        return "a" if v[j % len(v)] == "a" else "r"
                    s.test.decider = dec
                    o = s.run(scripts.make_real_strategy(name, {"stop_after_time": 10}), "a")
                finally:
                    S.time = old
                    s.close()
                ctx.evaluations += 1
                ctx.bump("time-limit-status")
                calls = o.calls
                case = dict(strategy=name, verdicts=verdicts, limit_passes_after_test=k, tests=len(calls), stream="time-limit")
                if o.exit == "x":
                    ctx.fail("status", f"{name}: run() raised {o.exc!r} under a time limit", case)
                    continue
                later = any(c["out"] == "a" for c in calls[1:])
                if calls and calls[0]["out"] == "a" and (o.exit == "r0") != later:
                    ctx.fail("status", f"{name}: the time limit passed after test {k}; exit {o.exit} but a later candidate was "
                             f"{'' if later else 'never '}accepted ({len(calls)} tests ran)", case)


def cli_check_only(ctx):
    """`--strategy check-only` as a user types it — separate value, `=` form, and the unambiguous abbreviations argparse
    accepts (`--strat`, `--strateg`): one test, status by its verdict, the file never written, whatever the verdict"""
    import contextlib
    import io
    import os
    from lithium.reducer import Lithium
    from .. import loaders

    d = loaders.scratch() / "c11-cli"
    d.mkdir(exist_ok=True)
    (d / "c11_probe.py").write_text(
        "import os\nCALLS = []\ndef interesting(args, prefix):\n    CALLS.append(open(args[-1], 'rb').read())\n"
        "    return os.environ.get('C11_VERDICT') == 'a'\n")
    cwd = os.getcwd()
    os.chdir(d)
    try:
        for spelling in (["--strategy=check-only"], ["--strategy", "check-only"], ["--strat=check-only"], ["--strat", "check-only"],
                         ["--strateg=check-only"], ["--strategy=check-only", "--char"], ["--symbol", "--strat=check-only"]):
            for verdict in ("a", "r"):
                tc = d / "tc.txt"
                data = b"one\ntwo\nthree\nfour\n"
                tc.write_bytes(data)
                os.utime(tc, ns=(10**18, 10**18))
                ino = os.stat(tc).st_ino
                os.environ["C11_VERDICT"] = verdict
                argv = spelling + ["c11_probe.py", str(tc)]
                case = dict(cli=True, argv=argv[:-1], verdict=verdict)
                lith = Lithium()
                try:
                    with contextlib.redirect_stdout(io.StringIO()), contextlib.redirect_stderr(io.StringIO()):
                        rc = lith.main(argv)
                except (Exception, SystemExit) as exc:  # pylint: disable=broad-except
                    ctx.fail("cli-raises", f"main({argv[:-1]}) raised {type(exc).__name__}: {exc}", case)
                    continue
                finally:
                    os.environ.pop("C11_VERDICT", None)
                ctx.evaluations += 1
                ctx.bump("cli-check-only")
                st = os.stat(tc)
                if tc.read_bytes() != data or st.st_mtime_ns != 10**18 or st.st_ino != ino:
                    ctx.fail("check-only", f"main({argv[:-1]}) with a test that {'accepts' if verdict == 'a' else 'rejects'}: the file was written "
                             f"(now {tc.read_bytes()!r})", case)
                if lith.test_count != 1:
                    ctx.fail("check-only", f"main({argv[:-1]}): {lith.test_count} tests were run, check-only runs exactly one", case)
                if rc != (0 if verdict == "a" else 1):
                    ctx.fail("status", f"main({argv[:-1]}) returned {rc} for verdict {verdict}", case)
                ctx.nontriv("cli-check-only", tuple(spelling), verdict)
    finally:
        os.chdir(cwd)


def second_job_same_object(ctx):
    """one Lithium object, two jobs (`main(argv)` twice — an embedding tool, a test harness): the second job's file is a NEW
    testcase (same name or another one) and its test rejects the original.  'Lithium runs no further test, never writes to
    the testcase file': in particular not what the FIRST job ended with"""
    import contextlib
    import io
    import os
    import sys
    from lithium.reducer import Lithium
    from .. import loaders

    d = loaders.scratch() / "c11-second-job"
    d.mkdir(exist_ok=True)
    (d / "c11_job.py").write_text(
        "import os\nCALLS = []\ndef interesting(args, prefix):\n    data = open(args[-1], 'rb').read()\n    CALLS.append(data)\n"
        "    return os.environ['C11_NEEDLE'].encode() in data\n")
    cwd = os.getcwd()
    os.chdir(d)
    try:
        for strategy in ("minimize", "minimize-around", "minimize-balanced", "minimize-collapse-brace", "check-only"):
            for same_name in (True, False):
                for flag in ("--lines", "--char"):
                    sys.modules.pop("c11_job", None)
                    lith = Lithium()
                    first = d / "job.txt"
                    first.write_bytes(b"a\nneedle\nc\nd\n")
                    os.environ["C11_NEEDLE"] = "needle"
                    case = dict(cli=True, strategy=strategy, same_name=same_name, flag=flag, second_job=True)
                    try:
                        with contextlib.redirect_stdout(io.StringIO()), contextlib.redirect_stderr(io.StringIO()):
                            rc1 = lith.main([flag, "--strategy=" + strategy, "c11_job.py", str(first)])
                            after_first = first.read_bytes()
                            second = first if same_name else d / "job2.txt"
                            data2 = b"q\nr\ns\n"
                            second.write_bytes(data2)
                            os.utime(second, ns=(10**18, 10**18))
                            n_before = lith.test_count
                            rc2 = lith.main([flag, "--strategy=" + strategy, "c11_job.py", str(second)])
                    except (Exception, SystemExit) as exc:  # pylint: disable=broad-except
                        ctx.fail("cli-raises", f"two jobs on one object ({strategy}, {flag}): {type(exc).__name__}: {exc}", case)
                        continue
                    finally:
                        os.environ.pop("C11_NEEDLE", None)
                    ctx.evaluations += 1
                    ctx.bump("second-job-same-object")
                    if second.read_bytes() != data2 or os.stat(second).st_mtime_ns != 10**18:
                        ctx.fail("rejected-original", f"{strategy} {flag}: second job on the same Lithium object, its test rejects the original "
                                 f"{data2!r}: the file now holds {second.read_bytes()!r} (the first job ended with {after_first!r})", case)
                    elif rc2 == 0 or rc1 != (0 if strategy != "check-only" else 0):
                        ctx.fail("status", f"{strategy} {flag}: statuses of the two jobs {rc1}, {rc2}; the second job's original was rejected", case)
                    elif not same_name and first.read_bytes() != after_first:
                        ctx.fail("rejected-original", f"{strategy} {flag}: the second job changed the FIRST job's file to {first.read_bytes()!r}", case)
                    ctx.nontriv("second-job", strategy, same_name, flag)
    finally:
        os.chdir(cwd)
        sys.modules.pop("c11_job", None)


def loose_verdicts(ctx):
    """a test that answers with truthy / falsy values instead of strict booleans (falls off the end = None, `return
    re.search(...)`, 0/1): same statuses, same untouched file on a rejected original"""
    import contextlib
    import io
    import os
    import sys
    from lithium.reducer import Lithium
    from .. import loaders

    d = loaders.scratch() / "c11-loose"
    d.mkdir(exist_ok=True)
    (d / "c11_loose.py").write_text(
        "import os, re\ndef interesting(args, prefix):\n    data = open(args[-1], 'rb').read()\n"
        "    m = re.search(os.environ['C11_RX'].encode(), data)\n    style = os.environ['C11_STYLE']\n"
        "    if style == 'match':\n        return m\n    if style == 'none':\n        if m:\n            return True\n        return None\n"
        "    return 1 if m else 0\n")
    cwd = os.getcwd()
    os.chdir(d)
    try:
        for style in ("match", "none", "int"):
            for strategy in ("minimize", "minimize-around", "minimize-balanced", "check-only"):
                for rx, data, want_rc, want_final in ((r"b\n", b"a\nb\nc\nd\n", 0, b"b\n"), (r"zzz", b"a\nb\nc\n", 1, b"a\nb\nc\n"),
                                                      (r"a\nb\nc\n", b"a\nb\nc\n", 1, b"a\nb\nc\n")):
                    tc = d / "tc.txt"
                    tc.write_bytes(data)
                    sys.modules.pop("c11_loose", None)
                    os.environ["C11_RX"], os.environ["C11_STYLE"] = rx, style
                    argv = ["--strategy=" + strategy, "c11_loose.py", str(tc)]
                    case = dict(cli=True, argv=argv[:-1], verdict_style=style, regex=rx, data=common.enc_bytes(data))
                    try:
                        with contextlib.redirect_stdout(io.StringIO()), contextlib.redirect_stderr(io.StringIO()):
                            rc = Lithium().main(argv)
                    except (Exception, SystemExit) as exc:  # pylint: disable=broad-except
                        ctx.fail("cli-raises", f"main({argv[:-1]}) with a test answering in the {style!r} style raised {type(exc).__name__}: {exc}", case)
                        continue
                    finally:
                        os.environ.pop("C11_RX", None)
                        os.environ.pop("C11_STYLE", None)
                    ctx.evaluations += 1
                    ctx.bump("loose-verdicts")
                    if strategy == "check-only":
                        want_rc2, want_final2 = (1 if rx == "zzz" else 0), data
                    elif strategy == "minimize-around" and want_rc == 0:
                        want_rc2, want_final2 = None, None         # what it can remove differs; only the status/file coupling below
                    else:
                        want_rc2, want_final2 = want_rc, want_final
                    final = tc.read_bytes()
                    if want_rc2 is None:
                        if (rc == 0) != (final != data):
                            ctx.fail("status", f"main({argv[:-1]}) ({style}): status {rc} but the file went from {data!r} to {final!r}", case)
                    elif rc != want_rc2 or final != want_final2:
                        ctx.fail("status", f"main({argv[:-1]}) ({style}): status {rc}, file {final!r}; expected status {want_rc2}, file {want_final2!r}", case)
                    ctx.nontriv("loose", style, strategy, rx)
    finally:
        os.chdir(cwd)


def search(ctx):
    second_job_same_object(ctx)
    loose_verdicts(ctx)
    time_limit_status(ctx)
    edited_file(ctx)
    time_limit_status(ctx)
    drv.d1(ctx, WHICH, 6000, NT, do_model=False, allow_abort=False)
    drv.d2_random(ctx, WHICH, NT, 600, do_model=False, aborts=False)


def run(ctx) -> int:
    proof = common.proof_stage(ctx.pid)
    edited_file(ctx)
    cli_check_only(ctx)
    second_job_same_object(ctx)
    loose_verdicts(ctx)
    time_limit_status(ctx)
    drv.d1(ctx, WHICH, 20000 if ctx.thorough else 5000, NT, allow_abort=False)
    drv.d2_random(ctx, WHICH, NT, 3000 if ctx.thorough else 1000, aborts=False)
    drv.d2_content_oracles(ctx, WHICH, NT)
    return common.decide(ctx, proof, RULE, search=search)


replay = drv.replay_case
