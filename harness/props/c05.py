"""C05 — text outside the DDBEGIN/DDEND region is never modified.

Correspondence: real loaders + real strategies (in memory) vs the models on files with a marker
pair.  Monitor: every file presented to the test and the final file begin with the original bytes
up to and including the DDBEGIN line and end with the original bytes from the DDEND line on; in
char mode also the byte immediately before the DDEND line."""
from __future__ import annotations

from .. import common, loaders, strat
from ..common import enc_bytes

RULE = ("files with one marker pair (also markers inside longer lines, braces and whitespace next to the marker lines, every terminator style "
        "before DDEND: LF, CRLF, CR, NEL, LS, FF) x 5 splitters x 7 strategies (+ experimental move) x repeat modes under random verdicts; "
        "non-trivial = a run with >= 1 accepted candidate on a file whose region is non-empty; distinct by (strategy, options, splitter, file, verdicts)")

STRATS = [("minimize", {}), ("minimize", {"rep": "always"}), ("minimize-around", {}), ("minimize-balanced", {}),
          ("minimize-balanced", {"move": True}), ("minimize-collapse-brace", {}), ("replace-properties-by-globals", {}),
          ("replace-arguments-by-globals", {})]

BODIES = [b"a\n{\n\n}\nb\n", b"{\n", b"x = 'a{ }b';\nfoo(1, 2)\nfunction foo(a, b) {\n  this.q = a.p;\n}\n", b"<a b=\"1\" c='{ }'>\n", b"ab"]
TERMS = [b"\n", b"\r\n", b"\r", b"\xc2\x85", b"\xe2\x80\xa8", b"\x0c"]


def files(rng, thorough):
    out = []
    for body in BODIES:
        for t in TERMS:
            b = body.replace(b"\n", t) if t != b"\n" else body
            if not b.endswith(t):
                b += t
            out.append(b"head {" + t + b"// DDBEGIN {" + t + b + b"} // DDEND" + t + b"} tail" + t)
            out.append(b"DDBEGIN" + t + b + b"DDEND")
    out.append(b"{\nDDBEGIN\n{\n\n}\na\n{\nDDEND\n}\n")
    out.append(b"\xef\xbb\xbf// header with a byte-order mark\n// DDBEGIN\na\n{\n\n}\nb\n// DDEND\n\xef\xbb\xbftail\n")
    out.append(b"\xff\xfeh\r\nDDBEGIN\r\nab\r\nDDEND\x00\r\n")
    out.append(b"h\nDDBEGIN\nab{\n}DDEND\n}\n")
    # the marker words inside longer words: a line that merely CONTAINS them is a marker line (`var ADDEND`, `xDDBEGINx`)
    out.append(b"head\n// DDBEGIN\na;\nb;\nvar ADDEND = 3;\nc;\n// DDEND\ntail\n")
    out.append(b"head\nxDDBEGINy = 1;\na\nb\nDDEND_done();\ntail\n")
    out.append(b"h {\r\n/* DDBEGIN */\r\nf(a){\r\n \r\n}\r\n/* DDEND */ }\r\nt\r\n")
    return out


def frame(data):
    lines = loaders.py_splitlines(data)
    i = next(k for k, l in enumerate(lines) if b"DDBEGIN" in l)
    j = next(k for k in range(i + 1, len(lines)) if b"DDEND" in lines[k])
    return b"".join(lines[: i + 1]), b"".join(lines[i + 1: j]), b"".join(lines[j:])


def one(ctx, name, cfg, kind, data, seq, do_model=True):
    res = loaders.real_load(kind, data)
    case = dict(strategy=name, cfg=cfg, splitter=kind, data=enc_bytes(data), verdicts="".join("1" if v else "0" for v in seq[:60]))
    if res[0] != "ok":
        ctx.fail("load", f"{kind}: load failed on a file with a marker pair: {res[1]}", case)
        return
    tc = res[1]
    f = strat.fields(tc)
    head, region, tail = frame(data)
    need_tail = (region[-1:] + tail) if (kind == "char" and region) else tail
    if strat.content(f) != data or not f[0].startswith(head) or not f[3].endswith(tail):
        ctx.fail("load-frame", f"{kind}: loaded before={f[0]!r} after={f[3]!r} for prefix {head!r} suffix {tail!r}", case)
        return
    if len(tc) == 0:
        return
    if name == "minimize-collapse-brace":
        p = loaders.scratch() / "c05-collapse.js"
        tc.filename = str(p)
    run = strat.run_real(name, cfg, tc, lambda k, c: seq[k % len(seq)], max_tests=3000)
    endless = bool(run.error) and ("test-limit" in run.error or "hang" in run.error)   # the move "can introduce reducing loops"
    if do_model and name in strat.MODELLED and kind in ("line", "char", "symbol") and not (cfg.get("move") and endless):
        ctx.expect(name, strat.model_line(name, cfg, f, run.verdicts, kind=kind), run.encode(), case)
    else:
        ctx.evaluations += 1
    seen = [a.get("shown", strat.content(a["cand"])) for a in run.atts if a["resp"] != "s"] + [strat.dumped(strat.mk_like(tc, run.best))]
    for c in seen:
        if not c.startswith(head) or not c.endswith(need_tail):
            what = "the protected prefix" if not c.startswith(head) else (
                "the byte before the DDEND line" if c.endswith(tail) else "the protected suffix")
            # recorded finding: the re-load after a brace collapse looks for the marker lines again; when the DDEND line starts with
            # UTF-8 continuation bytes and deletions left a lead byte in front of it, the bytes join into a line terminator
            key = "collapse-reload-boundary" if (name == "minimize-collapse-brace" and need_tail[:1] and 0x80 <= need_tail[0] < 0xC0) \
                else "frame-modified"
            ctx.fail(key, f"{name}/{kind}: a file presented to the test (or the final file) changed {what}: {c!r} "
                     f"(prefix {head!r}, suffix {need_tail!r})", case)
            break
    ctx.bump(f"{name}")
    if any(run.verdicts) and region:
        ctx.nontriv(name, repr(sorted(cfg.items())), kind, data, tuple(run.verdicts[:80]))
        ctx.sample(dict(strategy=name, splitter=kind, data=enc_bytes(data[:60]), tests=len(run.verdicts)), limit=5)


def sweep(ctx, reps, thorough, do_model=True):
    rng = ctx.rng
    fl = files(rng, thorough)
    for name, cfg in STRATS:
        for kind in loaders.KINDS:
            for data in fl:
                if not thorough and rng.random() < 0.2:
                    continue
                for _ in range(reps):
                    p = rng.choice([0.2, 0.6, 1.0])
                    seq = [rng.random() < p for _ in range(211)]
                    one(ctx, name, cfg, kind, data, seq, do_model)


def known_finding_cases(ctx):
    data = b"// DDBEGIN\ng{\nZ;\n}x\xe2}y\n\x80\xa8 DDEND\ntail\n"
    seq = [c == "1" for c in "000001010010111"] + [False] * 40
    one(ctx, "minimize-collapse-brace", {}, "symbol", data, seq, do_model=True)


def touching_test(ctx, reps):
    """whole runs (`Lithium.run`, files on disk) with a test whose tool REWRITES the file it is given — header, region and
    trailer — during some tests (an in-place formatter): every file Lithium presents afterwards, and the final file, have
    the original bytes outside the markers again (each candidate is written in full)"""
    from .. import scripts
    from . import drv
    rng = ctx.rng
    fl = [(kind, d) for kind, ds in drv.INPUTS.items() for d in ds if b"DDBEGIN" in d]
    fl += [("line", b"\thead // x\n// DDBEGIN\na\nb\n{\n}\nc\n// DDEND\n\ttail\n"), ("char", b"\th\nDDBEGIN\nabcd\nDDEND\n\tt\n"),
           ("symbol", b"h;\n/* DDBEGIN */\na;b{c};d;\n/* DDEND */\nt;\n")]
    for name, opts in drv.STRATS:
        if name == "check-only":
            continue
        for kind, data in fl:
            for _ in range(reps):
                p = rng.choice([0.3, 0.6, 1.0])
                seq = [rng.random() < p for _ in range(400)]
                tseq = [rng.random() < 0.6 for _ in range(400)]
                shown = []

                def dec(k, disk, seq=seq, shown=shown):
                    shown.append(disk)
                    return "a" if k == 0 or seq[k % len(seq)] else "r"

                try:
                    o, _f, _run = scripts.play_real(name, opts, kind, data, dec, touch=lambda k, tseq=tseq: tseq[k % 400], touch_head=True)
                except Exception as exc:  # pylint: disable=broad-except
                    ctx.fail("internal-error", f"{name}/{kind}: {type(exc).__name__}: {exc}", dict(strategy=name, splitter=kind, data=enc_bytes(data)))
                    continue
                head, region, tail = frame(data)
                need_tail = (region[-1:] + tail) if (kind == "char" and region) else tail
                case = dict(strategy=name, opts={k: str(v) for k, v in opts.items()}, splitter=kind, data=enc_bytes(data), touching_test=True)
                ctx.evaluations += 1
                ctx.bump("touching-test")
                for k, c in enumerate(shown + [o.disk]):
                    if not c.startswith(head) or not c.endswith(need_tail):
                        ctx.fail("frame-modified", f"{name}/{kind}, the tool under test rewrites its input in place: "
                                 f"{'the final file' if k == len(shown) else f'the file presented to test {k}'} is {c!r} "
                                 f"(prefix {head!r}, suffix {need_tail!r})", case)
                        break
                if len(shown) > 2:
                    ctx.nontriv("touching", name, repr(sorted(opts.items())), kind, data, tuple(seq[:20]))


def big_marker_files(ctx):
    """files larger than any read block whose marker lines sit right at 64 KiB / 128 KiB / 1 MiB offsets, CR LF ended: the
    frame is what the line structure of the WHOLE file says"""
    for boundary in (1 << 16, 1 << 17, 1 << 20):
        for where in ("ddbegin-cr-last", "ddbegin-cr-first", "ddend-cr-last"):
            begin = b"// DDBEGIN\r\n"
            region = b"crash(a);\r\nb();\r\n"
            end = b"// DDEND\r\n"
            if where == "ddbegin-cr-last":        # the CR of the DDBEGIN line is the last byte of a block
                pad = boundary - len(begin) + 1
            elif where == "ddbegin-cr-first":     # ... the first byte of the next one
                pad = boundary - len(begin) + 2
            else:                                 # the CR of the DDEND line is the last byte of a block
                pad = boundary - len(begin) - len(region) - len(end) + 1
            line = b"// " + b"h" * 61 + b"\r\n"
            head = line * (pad // len(line) - 1)
            head += b"/" * (pad - len(head) - 2) + b"\r\n"
            assert len(head) == pad
            data = head + begin + region + end + b"tail();\r\n"
            for kind in ("line", "char", "symbol"):
                res = loaders.real_load(kind, data)
                case = dict(splitter=kind, big_file=len(data), marker_at=where, boundary=boundary)
                ctx.evaluations += 1
                ctx.bump("big-marker-files")
                if res[0] != "ok":
                    ctx.fail("load", f"{kind}: load failed on a {len(data)}-byte marker file: {res[1]}", case)
                    continue
                f = strat.fields(res[1])
                want_before, want_after = head + begin, (b"\n" if kind == "char" else b"") + end + b"tail();\r\n"
                if f[0] != want_before or f[3] != want_after:
                    ctx.fail("load-frame", f"{kind}: {len(data)}-byte file, {where} at {boundary}: protected prefix ends {f[0][-14:]!r} (expected "
                             f"{want_before[-14:]!r}), suffix starts {f[3][:12]!r} (expected {want_after[:12]!r})", case)
                ctx.nontriv("big-marker", kind, where, boundary)


def search(ctx):
    sweep(ctx, 3, True, do_model=False)


def run(ctx) -> int:
    proof = common.proof_stage(ctx.pid)
    known_finding_cases(ctx)
    sweep(ctx, 3 if ctx.thorough else 2, ctx.thorough)
    touching_test(ctx, 3 if ctx.thorough else 1)
    big_marker_files(ctx)
    return common.decide(ctx, proof, RULE, search=search,
                         assumptions=["the two rewriting strategies and the experimental move touch only parts/reducible: monitored on the real code, not proved"])


def replay(rec) -> int:
    print(rec["case"])
    return 0
