"""C13 — pair strategies stop only at their own fixpoint.

Correspondence: real minimize-around / minimize-balanced (in memory) vs the model under
deterministic tests.  Monitor: the final file and the verdict table; partners recomputed
independently from the final atoms."""
from __future__ import annotations

import hashlib
import itertools

from .. import common, loaders, scripts, strat
from ..common import enc_bools, enc_list

RULE = ("minimize-around and minimize-balanced, min=1, repeat in {last, always}: every deterministic test (complete verdict trees) for n <= 4/5 "
        "atoms over bracket-bearing atoms {'{','}','(',')','[','x','{}','}{'} incl. repeated atoms; hash/parity/balance oracle families for n up to 24 on line, "
        "char and symbol atoms; files of repeated lines over 2-3 letter alphabets (de-duplicated candidates) with prefix/suffix/count/hash tests; non-trivial = a run with >= 1 accepted and >= 1 rejected proposal whose result has >= 3 atoms; distinct by "
        "(strategy, options, atoms, verdict table)")

ATOMS = [b"{\n", b"}\n", b"(\n", b")\n", b"[\n", b"x\n", b"{}\n", b"}{\n"]
CFGS = [dict(), dict(rep="always"), dict(max=2), dict(max=1, rep="always")]


def del_set(f, idxs):
    out_p, out_r, rank = [], [], 0
    for p, r in zip(f[1], f[2]):
        if r:
            if rank in idxs:
                rank += 1
                continue
            rank += 1
        out_p.append(p)
        out_r.append(r)
    return (f[0], out_p, out_r, f[3])


def bal(p):
    return (p.count(b"{") - p.count(b"}"), p.count(b"[") - p.count(b"]"), p.count(b"(") - p.count(b")"))


def partner(atoms, k):
    """first later atom at which the running balance of all three kinds is back to zero, none having gone negative"""
    c = list(bal(atoms[k]))
    for j in range(k + 1, len(atoms)):
        d = bal(atoms[j])
        c = [a + b for a, b in zip(c, d)]
        if any(x < 0 for x in c):
            return None
        if not any(c):
            return j
    return None


def partner_literal(atoms, k):
    """the property's words read literally: the first later atom at which the running balance (of all three kinds) is
    back to zero — whether or not it went negative on the way"""
    c = list(bal(atoms[k]))
    for j in range(k + 1, len(atoms)):
        c = [a + b for a, b in zip(c, bal(atoms[j]))]
        if not any(c):
            return j
    return None


def required_rejections(name, best):
    atoms = [p for p, r in zip(best[1], best[2]) if r]
    n = len(atoms)
    req = []
    if name == "minimize-around":
        for k in range(1, n - 1):
            req.append(({k - 1, k + 1}, f"neighbours {k - 1} and {k + 1} of atom {k}"))
    else:
        if n >= 2:
            for k in range(n):
                if not any(bal(atoms[k])):
                    req.append(({k}, f"balanced atom {k}"))
                else:
                    j = partner(atoms, k)
                    if j is not None:
                        req.append(({k, j}, f"unbalanced atom {k} with its partner {j}"))
                    else:
                        jl = partner_literal(atoms, k)
                        if jl is not None:
                            # recorded finding: the search is abandoned once a balance is negative
                            req.append(({k, jl}, f"unbalanced atom {k} with atom {jl}, where the running balance first returns to zero "
                                        "after having been negative", "partner-after-negative"))
    return req


def check_fixpoint(ctx, name, run, table, case, total_fn=None):
    for idxs, what, *kf in required_rejections(name, run.best):
        c = strat.content(del_set(run.best, idxs))
        if c in table:
            if table[c]:
                ctx.fail(kf[0] if kf else "not-a-fixpoint", f"{name}: deleting {what} gives {c!r}, which the test accepted", case)
                return
        elif total_fn is not None:
            if total_fn(c):
                ctx.fail(kf[0] if kf else "not-a-fixpoint", f"{name}: deleting {what} gives {c!r}: never tested, and the test accepts it", case)
                return
        elif not kf:
            ctx.fail("deletion-never-tested", f"{name}: deleting {what} gives {c!r}, which was never tested", case)
            return


def one(ctx, name, cfg, f, decider, do_model=True, total_fn=None, label="", strategy=None):
    tc = strat.testcase_from_fields("line", f)
    table = {}

    def dec(k, c):
        v = bool(decider(k, c))
        if c in table and table[c] != v:
            table["__dup__"] = True
        table[c] = v
        return v

    run = strat.run_real(name, cfg, tc, dec, max_tests=20000, strategy=strategy)
    case = dict(strategy=name, cfg=cfg, parts=enc_list(f[1]), reducible=enc_bools(f[2]),
                verdicts="".join("1" if v else "0" for v in run.verdicts[:200]), label=label)
    if do_model:
        ctx.expect(name, strat.model_line(name, cfg, f, run.verdicts), run.encode(), case)
    else:
        ctx.evaluations += 1
    if run.error:
        ctx.fail("internal-error", f"{name}: {run.error}", case)
        return run
    if "__dup__" in table:
        ctx.fail("content-tested-twice", "a content was presented to the test twice", case)
        return run
    check_fixpoint(ctx, name, run, table, case, total_fn)
    nb = sum(1 for r in run.best[2] if r)
    if any(run.verdicts) and not all(run.verdicts) and nb >= 3:
        ctx.nontriv(name, repr(sorted(cfg.items())), case["parts"], case["verdicts"])
        ctx.sample(dict(strategy=name, cfg=cfg, atoms=len(f[1]), left=nb, tests=len(run.verdicts)), limit=5)
    ctx.bump("runs:" + name)
    return run


def trees(ctx, nmax, limit, per_n, do_model=True):
    complete = True
    rng = ctx.rng
    for name in ("minimize-around", "minimize-balanced"):
        for n in range(2, nmax + 1):
            arrangements = list(itertools.product(range(len(ATOMS)), repeat=n))
            rng.shuffle(arrangements)
            fixed = [tuple([0, 5, 1] + [5] * n)[:n], tuple([5] * n), tuple([0, 1] * n)[:n], tuple([6, 7, 5, 0, 1])[:n], tuple([2, 0, 1, 3, 5])[:n]]
            for arr in fixed + arrangements[:per_n]:
                f = (b"", [ATOMS[i] for i in arr], [True] * n, b"")
                for cfg in CFGS[:2] if n > 3 else CFGS:
                    def run_with(prefix):
                        r = one(ctx, name, cfg, f, lambda k, c: k < len(prefix) and prefix[k], do_model, label="tree")
                        return len(r.verdicts)
                    cnt, done = scripts.verdict_tree(run_with, limit)
                    ctx.bump("tree-leaves", cnt)
                    complete = complete and done
    return complete


def families(ctx, reps, do_model=True):
    rng = ctx.rng
    for name in ("minimize-around", "minimize-balanced"):
        for _ in range(reps):
            n = rng.choice([3, 4, 5, 6, 8, 11, 16, 24])
            pool = rng.choice([ATOMS, [b"{", b"}", b"(", b")", b"x", b"y"], [b"f(a){", b"b;", b"};", b"x;", b"[1]=", b"2;"],
                               # atoms that are not valid UTF-8 on their own (latin-1 text, a multi-byte character cut by --char)
                               [b"{\n", b"}\n", b"\xe9\n", b"K\xff\n", b"\xc3", b"\xa9", b"x\n"],
                               # brackets inside quotes and comments are brackets (the strategy counts bytes, it does not parse)
                               [b'log("{");\n', b'log("}");\n', b"o\n", b"use(o);\n", b"'('\n", b"// )\n"]])
            parts = [rng.choice(pool) for _ in range(n)]
            # minimize-around also on testcases with non-reducible parts between the atoms (as --js / --attrs produce)
            red = [rng.random() < 0.75 for _ in range(n)] if (name == "minimize-around" and rng.random() < 0.4) else [True] * n
            if name == "minimize-around" and not all(red):
                parts = [rng.choice([b"A", b"A", b"B"]) if r else rng.choice([b'" + "', b'";\nx = "']) for r in red]
            f = (b"", parts, red, b"")
            salt = bytes([rng.randrange(256) for _ in range(3)])
            thr = rng.randrange(30, 220)
            fns = [lambda c: hashlib.blake2b(c + salt, digest_size=1).digest()[0] < thr,
                   lambda c: len(c) % 2 == 0,
                   lambda c: c.count(b"{") == c.count(b"}") and c.count(b"(") == c.count(b")"),
                   lambda c: b"x" in c or len(c) < 5]
            for cfg in CFGS:
                for fn in fns:
                    one(ctx, name, cfg, f, lambda k, c, fn=fn: fn(c), do_model, total_fn=fn, label="family")


def repeats(ctx, reps, do_model_every=10):
    """files with REPEATED atom contents (3-letter alphabets), so that different deletions give the same bytes and the
    de-duplication of candidates takes part in the passes (a skipped candidate directly after an accepted one)"""
    rng = ctx.rng
    for i in range(reps):
        name = ("minimize-around", "minimize-balanced")[i % 2]
        pool = rng.choice([[b"x\n", b"o\n", b"y\n"], [b"x\n", b"o\n"], [b"{\n", b"}\n", b"o\n"], [b"(\n", b"o\n", b")\n", b"o\n"]])
        n = rng.randrange(4, 9)
        parts = [rng.choice(pool) for _ in range(n)]
        f = (b"", parts, [True] * n, b"")
        whole = b"".join(parts)
        k = rng.randrange(1, 4)
        head = b"".join(parts[:k])
        salt = bytes([rng.randrange(256) for _ in range(3)])
        thr = rng.randrange(60, 200)
        fns = [lambda c: c.startswith(head),
               lambda c: c.endswith(b"".join(parts[-k:])),
               lambda c: hashlib.blake2b(c + salt, digest_size=1).digest()[0] < thr or c == whole,
               lambda c: c.count(pool[0]) >= k]
        cfg = CFGS[i % len(CFGS)]
        for fn in fns:
            one(ctx, name, cfg, f, lambda k_, c, fn=fn: fn(c), do_model=(i % do_model_every == 0), total_fn=fn, label="repeats")


def scoped_oracle(content):
    """a call `crash();` and a well-formed block must exist; `crash();` inside a block needs `setup();` before that block"""
    depth, block, setup, crashed = 0, False, False, False
    for line in content.splitlines():
        if line == b"{":
            depth, block = depth + 1, True
        elif line == b"}":
            depth -= 1
            if depth < 0:
                return False
        elif line == b"setup();":
            setup = setup or depth == 0
        elif line == b"crash();":
            if depth > 0 and not setup:
                return False
            crashed = True
    return depth == 0 and block and crashed


def move_runs(ctx, reps):
    """minimize-balanced WITH the experimental move (not modelled; monitor only): an accepted move does not shorten the
    file but must still cause another pass, so a run that ends normally still ends at the fixpoint.  The move code of the
    unchanged tree can fail its own assertions or loop (it is 'experimental'); such runs are counted, not judged."""
    rng = ctx.rng
    fixed = [[b"setup();\n", b"{\n", b"crash();\n", b"}\n"], [b"{\n", b"a\n", b"o\n", b"}\n"], [b"x\n", b"(\n", b"y\n", b"z\n", b")\n", b"w\n"]]
    for i in range(reps):
        if i < len(fixed):
            parts = fixed[i]
        else:
            n = rng.choice([3, 4, 5, 6, 8])
            pool = rng.choice([ATOMS, [b"{\n", b"}\n", b"a\n", b"b\n", b"c\n"], [b"(\n", b")\n", b"x\n", b"y\n", b"{\n", b"}\n"],
                               [b"setup();\n", b"{\n", b"crash();\n", b"}\n", b"x\n"]])
            parts = [rng.choice(pool) for _ in range(n)]
        f = (b"", parts, [True] * len(parts), b"")
        salt = bytes([rng.randrange(256) for _ in range(3)])
        thr = rng.randrange(30, 220)
        need = rng.choice(parts)
        fns = [lambda c: hashlib.blake2b(c + salt, digest_size=1).digest()[0] < thr,
               lambda c: c.count(b"{") == c.count(b"}") and c.count(b"(") == c.count(b")") and need in c,
               # order-sensitive: `need` must come after an opening brace that is still open
               lambda c: (lambda i: i >= 0 and c[:i].count(b"{") > c[:i].count(b"}"))(c.find(need)),
               # well-formed nesting, the atom inside a block, and a line that is only needed when the atom is inside
               scoped_oracle]
        # the third setting adds a time limit that never expires (one hour on a clock that stands still): same fixpoint
        for cfg in (dict(move=True), dict(move=True, rep="always"), dict(move=True, stop_after=3600)):
            for fn in fns:
                tc = strat.testcase_from_fields("line", f)
                table = {}

                def dec(k, c, fn=fn, table=table):
                    table[c] = fn(c)
                    return table[c]

                run = strat.run_real("minimize-balanced", cfg, tc, dec, max_tests=3000, watchdog=5.0,
                                     clock_times=[1000.0] if "stop_after" in cfg else None)
                case = dict(strategy="minimize-balanced", cfg=cfg, parts=enc_list(parts), label="move",
                            verdicts="".join("1" if v else "0" for v in run.verdicts[:200]))
                if run.error and ("test-limit" in run.error or "hang" in run.error):
                    ctx.evaluations += 1
                else:
                    # the move is modelled (PairsMove.lean), including the failing `assert` of the unchanged move loop
                    ctx.expect("minimize-balanced", strat.model_line("minimize-balanced", cfg, f, run.verdicts), run.encode(), case)
                if run.error:
                    ctx.bump("move-run-not-judged:" + run.error.split(":")[0])
                    continue
                ctx.bump("runs:minimize-balanced+move")
                check_fixpoint(ctx, "minimize-balanced", run, table, case, fn)


def known_finding_cases(ctx):
    f = (b"", [b"}\n", b"x\n", b"{\n"], [True] * 3, b"")
    ok = {b"}\nx\n{\n", b"x\n"}
    one(ctx, "minimize-balanced", dict(), f, lambda k, c: c in ok, total_fn=lambda c: c in ok, label="known-finding")


CLI_CASES = {
    # a declaration may only go once its later use is gone: removals depend on each other against the scan order
    "decl-after-use": (b"var v = 1;\nvar unused;\nv += 1;\ncrash();\n",
                       "lambda d: b'crash();' in d and ((b'v += 1' in d) <= (b'var v = 1' in d))"),
    "chain": (b"c\nb\na\nd\n", "lambda d: b'a\\n' in d and (b'b\\n' in d or b'c\\n' not in d)"),
    "bracketed": (b"f(\nx\n)\ny\nx\n", "lambda d: d.count(b'(') == d.count(b')') and (b'y' in d) >= (b'x' in d)"),
}


def cli_runs(ctx):
    """the same fixpoint through the command line: `Lithium.main(argv)` with the repeat modes the property allows, with and
    without the experimental move (option handling must not switch the repetition of the last round off)"""
    import contextlib
    import io
    import os
    import sys
    from lithium.reducer import Lithium

    d = loaders.scratch() / "c13-cli"
    d.mkdir(exist_ok=True)
    cwd = os.getcwd()
    os.chdir(d)
    try:
        for tname, (data, src) in CLI_CASES.items():
            mod = f"c13_{tname.replace('-', '_')}"
            (d / f"{mod}.py").write_text("FN = " + src + "\ndef interesting(args, prefix):\n    return bool(FN(open(args[-1], 'rb').read()))\n")
            fn = eval(src)  # pylint: disable=eval-used
            for name in ("minimize-balanced",):
                for move in ([], ["--with-experimental-move"]):
                    for rep in ("last", "always"):
                        for mx in (None, 1, 2):
                            tc = d / "tc.txt"
                            tc.write_bytes(data)
                            sys.modules.pop(mod, None)
                            argv = [f"--strategy={name}"] + move + [f"--repeat={rep}"] + ([f"--max={mx}"] if mx else []) + [f"{mod}.py", str(tc)]
                            case = dict(cli=True, argv=argv[:-1], test=tname, data=common.enc_bytes(data))
                            try:
                                with contextlib.redirect_stdout(io.StringIO()), contextlib.redirect_stderr(io.StringIO()):
                                    rc = Lithium().main(argv)
                            except (Exception, SystemExit) as exc:  # pylint: disable=broad-except
                                ctx.fail("cli-raises", f"main({argv[:-1]}) raised {type(exc).__name__}: {exc}", case)
                                continue
                            ctx.evaluations += 1
                            ctx.bump("cli-runs")
                            final = tc.read_bytes()
                            lines = final.splitlines(keepends=True)
                            if rc != 0 or not fn(final):
                                ctx.fail("cli-result", f"main({argv[:-1]}) returned {rc} and left {final!r}", case)
                                continue
                            for i, l in enumerate(lines if len(lines) >= 2 else []):    # the property speaks of >= 2 remaining atoms
                                if bal(l) != (0, 0, 0):
                                    continue
                                less = b"".join(lines[:i] + lines[i + 1:])
                                if fn(less):
                                    ctx.fail("not-a-fixpoint", f"main({argv[:-1]}) ended with {final!r}: deleting the balanced line {i} gives {less!r}, "
                                             "which the test accepts", case)
                                    break
                            if final != data:
                                ctx.nontriv("cli", tname, tuple(argv[:-2]))
    finally:
        os.chdir(cwd)


def reused_strategy(ctx, reps):
    """ONE strategy object used for several reductions in a row (a driver that keeps its strategy; the same file again, as
    in a re-run after the test was fixed): every one of them ends at the fixpoint"""
    rng = ctx.rng
    for name in ("minimize-around", "minimize-balanced"):
        for cfg in CFGS:
            for _ in range(reps):
                st = strat.make_strategy(name, cfg)
                pool = rng.choice([[b"{\n", b"}\n", b"o\n"], [b"x\n", b"o\n", b"y\n"], [b"(\n", b"o\n", b")\n", b"o\n"]])
                n = rng.randrange(4, 9)
                parts = [rng.choice(pool) for _ in range(n)]
                f = (b"", parts, [True] * n, b"")
                fn = rng.choice([lambda c: c.count(b"{") == c.count(b"}") and c.count(b"(") == c.count(b")"), lambda c: b"o" in c,
                                 lambda c: len(c) % 4 == 0])
                for turn in range(3):
                    one(ctx, name, cfg, f, lambda k_, c, fn=fn: fn(c), do_model=False, total_fn=fn, label=f"reused-strategy:{turn}", strategy=st)


def search(ctx):
    cli_runs(ctx)
    move_runs(ctx, 60)
    trees(ctx, 4, 600, 30, do_model=False)
    families(ctx, 40, do_model=False)
    repeats(ctx, 6000, do_model_every=10**9)


def run(ctx) -> int:
    proof = common.proof_stage(ctx.pid)
    known_finding_cases(ctx)
    complete = trees(ctx, 5 if ctx.thorough else 4, 3000 if ctx.thorough else 600, 40 if ctx.thorough else 12)
    if complete:
        ctx.exhaustive.append("every deterministic test (complete verdict tree) for the listed arrangements of n <= 4 (quick) / 5 (thorough) bracket-bearing atoms")
    families(ctx, 60 if ctx.thorough else 20)
    repeats(ctx, 12000 if ctx.thorough else 1500)
    move_runs(ctx, 120 if ctx.thorough else 30)
    cli_runs(ctx)
    reused_strategy(ctx, 12 if ctx.thorough else 4)
    return common.decide(ctx, proof, RULE, search=search,
                         assumptions=["the fixpoint clauses are checked by the monitor on the real code and tied to the Lean models of the two passes by "
                                      "proposal-by-proposal correspondence; the Lean theorems cover the passes' bookkeeping (see DESIGN.md §4 C13)"])


def replay(rec) -> int:
    print(rec["case"])
    return 0
