"""C08 — DDBEGIN/DDEND select exactly the lines between the marker lines.

Correspondence: real `load()` of every splitter vs the model's `load` on marker arrangements.
Monitor: the property restated on `str.splitlines` (first line mentioning DDBEGIN, first later
line mentioning DDEND, both-words rule, the two errors, nothing tested/written on error)."""
from __future__ import annotations

import itertools
import os

from .. import common, loaders
from ..common import enc_bytes

RULE = ("every arrangement of up to K lines, each one of {plain, DDBEGIN, DDEND, both (B first), both (E first), "
        "x-DDBEGIN-x, x-DDEND-x} with each of LF/CRLF/CR/VT/FF/FS/NEL/LS (and an unterminated last line), x 5 splitters; longer "
        "arrangements with kinds only; a case is non-trivial when at least one marker word occurs; distinct by (splitter, bytes)")

KIND_TEXT = {
    "p": b"ab", "B": b"DDBEGIN", "E": b"DDEND", "BE": b"// DDBEGIN DDEND", "EB": b"DDEND-DDBEGIN",
    "xBx": b"\"a DDBEGIN';", "xEx": b"<DDEND a=1>",
    # marker lines that are not valid UTF-8 (latin-1 comments, stray bytes): bytes are bytes, also in an error message
    "Bx": b"// d\xe9but DDBEGIN", "Ex": b"\xffDDEND\x80", "wEw": b"var ADDEND_1 = 3;",
}
TERMS = (b"\n", b"\r\n", b"\r")
XTERMS = TERMS + (b"\x0b", b"\x0c", b"\x1c", b"\xc2\x85", b"\xe2\x80\xa8")


def spec(data: bytes):
    """('ok', before, region, after) | ('err', tag) per the property's words"""
    lines = loaders.py_splitlines(data)
    first = next((i for i, l in enumerate(lines) if b"DDBEGIN" in l or b"DDEND" in l), None)
    if first is None:
        return ("ok", b"", data, b"")
    if b"DDBEGIN" not in lines[first]:
        return ("err", "endWithoutBegin")
    end = next((j for j in range(first + 1, len(lines)) if b"DDEND" in lines[j]), None)
    if end is None:
        return ("err", "beginWithoutEnd")
    return ("ok", b"".join(lines[: first + 1]), b"".join(lines[first + 1: end]), b"".join(lines[end:]))


PRELOAD = b"old header 'x'\n// DDBEGIN\n<a old=1> 'o'\n// DDEND\nold footer \"y\"\n"


def one_case(ctx, kind, data, do_model=True, reused=False):
    # `reused`: the loader object has loaded another file (with markers) before — what is protected depends on THIS file only
    res = loaders.real_load(kind, data, preload=PRELOAD if reused else None)
    sp = spec(data)
    case = dict(splitter=kind, data=enc_bytes(data), reused_object=reused)
    if do_model and kind in loaders.MODELLED:
        ctx.expect("load", loaders.load_cmd(kind, data), loaders.enc_load(res), case)
    else:
        ctx.evaluations += 1
    ctx.bump("real:" + (res[1] if res[0] == "err" else "ok"))
    if sp[0] == "err":
        if res[0] != "err" or res[1] != sp[1]:
            ctx.fail("error-expected", f"{kind}: expected LithiumError {sp[1]}, got {loaders.enc_load(res)[:80]}", case)
    else:
        if res[0] == "err":
            ctx.fail("spurious-error", f"{kind}: load raised {res[1]} ({res[2]}) on a well-formed file", case)
        else:
            t = res[1]
            _, before, region, after = sp
            body = b"".join(t.parts)
            okb = t.before.startswith(before)
            oka = t.after.endswith(after)
            whole = t.before + body + t.after == data
            extra_b = t.before[len(before):] if okb else b""
            extra_a = t.after[: len(t.after) - len(after)] if oka else b""
            if not (okb and oka and whole and extra_b + body + extra_a == region):
                ctx.fail("wrong-region", f"{kind}: before={t.before!r} parts={t.parts!r} after={t.after!r}; "
                         f"expected protected prefix {before!r}, region {region!r}, suffix {after!r}", case)
            elif kind in ("line", "symbol", "attrs") and (extra_b or extra_a):
                ctx.fail("wrong-region", f"{kind}: part of the region was moved into before/after: {extra_b!r} {extra_a!r}", case)
            elif kind == "char" and (extra_b or len(extra_a) > 1):
                ctx.fail("wrong-region", f"char: more than the last byte of the region protected: {extra_b!r} {extra_a!r}", case)
    if b"DDBEGIN" in data or b"DDEND" in data:
        ctx.nontriv(kind, data)
        if res[0] == "ok":
            ctx.sample(dict(case, result="ok"), limit=3)
        else:
            ctx.sample(dict(case, result=res[1]), limit=6)


def arrangements(K_full, K_kinds, rng, thorough=False):
    kinds = list(KIND_TEXT)
    for n in range(0, K_full + 1):
        terms = XTERMS if (n <= 2 or thorough) else TERMS
        for ks in itertools.product(kinds, repeat=n):
            for ts in itertools.product(terms, repeat=n):
                if n >= 3 and len(terms) > 3 and rng.random() > 0.25:
                    continue
                body = [KIND_TEXT[k] + t for k, t in zip(ks, ts)]
                yield b"".join(body)
                if n:
                    yield b"".join(body[:-1]) + KIND_TEXT[ks[-1]]
    for n in range(K_full + 1, K_kinds + 1):
        for ks in itertools.product(kinds, repeat=n):
            ts = [rng.choice(XTERMS) for _ in ks]
            yield b"".join(KIND_TEXT[k] + t for k, t in zip(ks[:-1], ts)) + KIND_TEXT[ks[-1]] + rng.choice((ts[-1], b""))


def error_path(ctx, count):
    """on a marker error nothing is tested or written (driver level, real Lithium object)"""
    from lithium.reducer import Lithium
    from lithium.util import LithiumError

    d = loaders.scratch() / "c08-main"
    d.mkdir(exist_ok=True)
    (d / "c08_probe_test.py").write_text(
        "import pathlib\n"
        "def init(a): pathlib.Path(__file__).with_name('CALLED').write_text('init')\n"
        "def interesting(a, p):\n    pathlib.Path(__file__).with_name('CALLED').write_text('x'); return True\n")
    files = [b"DDEND\nx\n", b"a\nDDBEGIN\nb\n", b"x DDEND\nDDBEGIN\ny\nDDEND\n", b"DDBEGIN DDEND\nq\n",
             b"\xffDDEND\nx\n", b"a\n// d\xe9but DDBEGIN\nb\n"]
    cwd = os.getcwd()
    os.chdir(d)
    try:
        for i in range(max(count, 8 * len(files))):
            data = files[(i // 8) % len(files)]
            for kind_flag in ("--lines", "--char", "--symbol", "--js", "--attrs"):
                f = d / "tc.js"
                f.write_bytes(data)
                os.utime(f, ns=(10**18, 10**18))
                called = d / "CALLED"
                if called.exists():
                    called.unlink()
                before_listing = sorted(os.listdir(d))
                raised = None
                # also with --tempdir naming a directory that does not exist yet: nothing is created before the rejection
                extra = ["--tempdir=" + str(d / "not-yet-there")] if i % 2 else []
                # every strategy refuses mismatched markers, also the one that never removes anything
                extra += [[], ["--strategy=check-only"], ["--strategy=minimize-collapse-brace"], ["--strategy=replace-properties-by-globals"]][(i // 2) % 4]
                try:
                    Lithium().main(extra + [kind_flag, str(d / "c08_probe_test.py"), str(f)])
                except LithiumError as exc:
                    raised = exc
                except SystemExit as exc:
                    raised = exc
                except Exception as exc:  # anything else (e.g. the run went on to write) is reported below
                    raised = exc
                if (d / "not-yet-there").exists():
                    import shutil
                    shutil.rmtree(d / "not-yet-there")
                    before_listing = None
                ctx.evaluations += 1
                case = dict(flag=kind_flag, data=enc_bytes(data), via="Lithium.main")
                if not isinstance(raised, LithiumError):
                    ctx.fail("error-expected", f"Lithium.main did not raise LithiumError ({raised!r})", case)
                if called.exists() or f.read_bytes() != data or os.stat(f).st_mtime_ns != 10**18 \
                        or sorted(os.listdir(d)) != before_listing:
                    ctx.fail("io-before-error", "a test ran, the file was written or a temp dir was created before the marker error", case)
                ctx.bump("main-error-path")
    finally:
        os.chdir(cwd)


def search(ctx):
    protected_through_runs(ctx)
    for data in arrangements(3, 5, ctx.rng):
        for kind in loaders.KINDS:
            one_case(ctx, kind, data, do_model=False)


def protected_through_runs(ctx):
    """'both marker lines and everything outside them are protected': also while a strategy works on the region
    (every strategy, brace pairs and whitespace inside the protected text and on the marker lines themselves)"""
    from . import c05
    rng = ctx.rng
    fl = [b"function setup() {\n}\n// DDBEGIN {\nif (x) {\n  \n}\na\n// DDEND }\nif (done) {\n\n}\n",
          b"with (scope) { // DDBEGIN\nb\n{\n\n}\nc {\n} /* DDEND */\n{ \n }\n",
          b"h {\r\nDDBEGIN\r\n{\r\n\r\n}\r\nDDEND }\r\n",
          # the protected text uses the same names as the region: property accesses and calls before and after the markers
          b"var f = []; f.push(0); g(1, 2);\n// DDBEGIN f.push(9)\nf.push(1);\nfunction g(a, b) { return a.c + b.d; }\ng(f.x, f.y);\n// DDEND g(3)\nf.push(2); g(f.push, 4);\n"]
    for name, cfg in c05.STRATS:
        for kind in ("line", "char", "symbol"):
            for data in fl:
                for p in (0.3, 1.0):
                    seq = [rng.random() < p for _ in range(211)]
                    c05.one(ctx, name, cfg, kind, data, seq, do_model=False)


def run(ctx) -> int:
    proof = common.proof_stage(ctx.pid)
    protected_through_runs(ctx)
    kf, kk = (3, 5) if ctx.thorough else (3, 4)
    for i, data in enumerate(arrangements(kf, kk, ctx.rng, ctx.thorough)):
        for kind in loaders.KINDS:
            one_case(ctx, kind, data)
            if i % 7 == 0:
                one_case(ctx, kind, data, reused=True)
    ctx.exhaustive.append(f"all arrangements of <= {kf} lines x 7 kinds x 8 terminators for <= 2 lines, 3 (quick) or a 25% sample of 8 (thorough) for 3 lines (+unterminated last line) x 5 splitters; "
                          f"all kind sequences of <= {kk} lines")
    error_path(ctx, 8 if ctx.thorough else 4)
    return common.decide(ctx, proof, RULE, search=search)


def replay(rec) -> int:
    ctx = common.Ctx("C08", "quick", 0)
    c = rec["case"]
    if c.get("via"):
        print("driver-level case; re-run ./check C08")
        return 0
    data = bytes.fromhex(c["data"]) if c["data"] != "-" else b""
    one_case(ctx, c["splitter"], data)
    ctx.flush()
    print("spec:", spec(data))
    print("real:", loaders.enc_load(loaders.real_load(c["splitter"], data)))
    print("monitor failures:", ctx.failures)
    print("disagreements:", ctx.disagreements)
    return 1 if ctx.failures or ctx.disagreements else 0
