"""C12 — the temp directory is a faithful, duplicate-free log of all tests."""
from .. import common
from . import drv

RULE = ("as C01; inputs with repeated atoms so that different deletions give identical files, duplicate proposals, the original proposed "
        "again; the scripted test records (args, prefix, file bytes, temp-dir listing) at each call; non-trivial = a run in which the "
        "de-duplication skipped at least one proposal or >= 3 tests ran")
NT = lambda acc, rej, ab, obs, runs: len(obs[-1].calls) >= 3
WHICH = ("c12",)


def search(ctx):
    drv.d1(ctx, WHICH, 6000, NT, do_model=False)
    drv.d2_random(ctx, WHICH, NT, 600, do_model=False)


def run(ctx) -> int:
    proof = common.proof_stage(ctx.pid)
    drv.d1(ctx, WHICH, 20000 if ctx.thorough else 5000, NT)
    done = drv.d2_trees(ctx, WHICH, NT, 4000 if ctx.thorough else 300)
    if done:
        ctx.exhaustive.append("every verdict sequence of the removal strategies on the SMALL inputs")
    drv.d2_random(ctx, WHICH, NT, 3000 if ctx.thorough else 900)
    return common.decide(ctx, proof, RULE, search=search, assumptions=["SHA-512 is modelled as the identity (collision freedom)"])


replay = drv.replay_case
