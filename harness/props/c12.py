"""C12 — the temp directory is a faithful, duplicate-free log of all tests."""
from .. import common
from . import drv

RULE = ("as C01; inputs with repeated atoms so that different deletions give identical files, duplicate proposals, the original proposed "
        "again; the scripted test records (args, prefix, file bytes, temp-dir listing) at each call; non-trivial = a run in which the "
        "de-duplication skipped at least one proposal or >= 3 tests ran")
NT = lambda acc, rej, ab, obs, runs: len(obs[-1].calls) >= 3
WHICH = ("c12",)


def overlapping_runs(ctx):
    """two runs in the same working directory without --tempdir, the second one started (and finished) while the first
    is (a) writing its 'original' copy, (b) inside its first test, (c) inside a later test: each temp directory must
    still be the faithful log of its own run and hold nothing else"""
    import os
    import shutil

    from lithium.reducer import Lithium
    from lithium.strategies import Minimize
    from lithium.testcases import TestcaseLine

    from .. import driver, loaders

    for point in ("original", "test1", "test3"):
        base = loaders.scratch() / f"c12-overlap-{os.getpid()}"
        shutil.rmtree(base, ignore_errors=True)
        base.mkdir()
        cwd = os.getcwd()
        os.chdir(base)
        try:
            data = {"A": b"a\nb\nc\nd\n", "B": b"x\ny\n"}
            ran_b = []
            runs = {}

            def start(name, tc_cls=TestcaseLine):
                path = base / f"{name}.txt"
                path.write_bytes(data[name])
                tc = tc_cls()
                tc.load(path)
                test = driver.ScriptedTest(path, RuntimeError)
                lith = Lithium()
                lith.testcase, lith.condition_script, lith.condition_args, lith.strategy = tc, test, ["x"], Minimize()
                runs[name] = (lith, test)
                return lith, test

            def run_b():
                if not ran_b:
                    ran_b.append(True)
                    lith, test = start("B")
                    test.decider = lambda k, disk: "a" if k == 0 or b"x" in disk else "r"
                    lith.run()

            class Slow(TestcaseLine):
                def dump(self, filename=None):
                    if point == "original" and filename is not None and os.path.basename(str(filename)).startswith("original"):
                        run_b()
                    return super().dump(filename)

            lith_a, test_a = start("A", Slow)

            def dec_a(k, disk):
                if (point == "test1" and k == 0) or (point == "test3" and k == 2):
                    run_b()
                return "a" if k == 0 or b"c" in disk else "r"

            test_a.decider = dec_a
            lith_a.run()
            case = dict(stream="overlapping-runs", second_run_started_during=point)
            ctx.evaluations += 1
            ctx.bump("overlapping-runs")
            if not ran_b:
                raise common.HarnessError("the nested run did not start")
            dirs = {}
            for name, (lith, test) in runs.items():
                o = driver.Observed()
                o.calls, o.count = test.calls, lith.test_count
                td = lith.temp_dir if os.path.isabs(str(lith.temp_dir)) else base / lith.temp_dir
                dirs[name] = os.path.realpath(td)
                o.tmp = driver.list_tmp(td)
                driver.mon_c12(ctx, [o], data[name], dict(case, run=name))
                want = {"original"} | {f"{k + 1}-" + ("interesting" if c["out"] == "a" else "boring") for k, c in enumerate(test.calls)}
                got = {n for n, _ in o.tmp}
                if got != want:
                    ctx.fail("foreign-files", f"run {name} (temp dir {td}): files {sorted(got)} but its own log is {sorted(want)}", dict(case, run=name))
            if dirs["A"] == dirs["B"]:
                ctx.fail("shared-tempdir", f"both runs used {dirs['A']}", case)
        finally:
            os.chdir(cwd)
            shutil.rmtree(base, ignore_errors=True)


def links_and_second_pass(ctx):
    """(1) the testcase named on the command line is a symbolic link to the file the program under test reads by its real
    name; (2) a second pass with a NEW Lithium object into the SAME --tempdir: in both, `<tempdir>/i-<tag>` holds what
    test i saw, and test i was handed the prefix `<tempdir>/i`"""
    import contextlib
    import io
    import os
    import shutil
    import sys
    from lithium.reducer import Lithium
    from .. import loaders

    d = loaders.scratch() / "c12-links"
    if d.exists():
        shutil.rmtree(d)
    d.mkdir()
    (d / "c12_seen.py").write_text(
        "import os\nSEEN = []\ndef interesting(args, prefix):\n    data = open(os.environ['C12_READS'], 'rb').read()\n"
        "    v = b'keep' in data and len(SEEN) % 3 != 2\n    SEEN.append((prefix, data, v))\n    return v\n")
    cwd = os.getcwd()
    os.chdir(d)
    try:
        for scenario in ("symlink", "second-pass"):
            for flag in ("--lines", "--char"):
                real = d / "real.txt"
                real.write_bytes(b"a\nkeep\nb\nc\nd\n")
                link = d / "link.txt"
                if link.is_symlink() or link.exists():
                    link.unlink()
                os.symlink("real.txt", link)
                td = d / f"td-{scenario}-{flag.strip('-')}"
                os.environ["C12_READS"] = str(real)
                passes = []
                try:
                    for nth in range(2 if scenario == "second-pass" else 1):
                        sys.modules.pop("c12_seen", None)
                        td.mkdir(exist_ok=True)
                        name = "link.txt" if scenario == "symlink" else "real.txt"
                        argv = [flag, "--tempdir=" + str(td), "--testcase=" + name, "c12_seen.py", "unused-arg"]
                        with contextlib.redirect_stdout(io.StringIO()), contextlib.redirect_stderr(io.StringIO()):
                            Lithium().main(argv)
                        passes.append(list(sys.modules["c12_seen"].SEEN))
                        if nth == 0 and scenario == "second-pass":
                            real.write_bytes(b"x\nkeep\ny\nz\n")
                except (Exception, SystemExit) as exc:  # pylint: disable=broad-except
                    ctx.fail("internal-error", f"{scenario} {flag}: {type(exc).__name__}: {exc}", dict(scenario=scenario, flag=flag))
                    continue
                finally:
                    os.environ.pop("C12_READS", None)
                ctx.evaluations += 1
                ctx.bump("links-and-second-pass")
                case = dict(scenario=scenario, flag=flag, via="Lithium.main")
                seen = passes[-1]
                for i, (prefix, data, v) in enumerate(seen, 1):
                    if os.path.normpath(prefix) != str(td / str(i)):
                        ctx.fail("prefix", f"{scenario} {flag}: test {i} was handed the prefix {prefix}, expected {td / str(i)}", case)
                        break
                    logged = td / f"{i}-{'interesting' if v else 'boring'}.txt"
                    if not logged.is_file() or logged.read_bytes() != data:
                        ctx.fail("tagged-copy", f"{scenario} {flag}: test {i} saw {data!r}; {logged.name} holds "
                                 f"{logged.read_bytes() if logged.is_file() else None!r}", case)
                        break
                if len({x[1] for x in seen[1:]}) != len(seen[1:]):
                    ctx.fail("duplicate-test", f"{scenario} {flag}: two tests saw identical bytes: {[x[1] for x in seen]}", case)
                if len(seen) >= 4:
                    ctx.nontriv("links", scenario, flag)
    finally:
        os.chdir(cwd)
        sys.modules.pop("c12_seen", None)


def search(ctx):
    overlapping_runs(ctx)
    drv.d1(ctx, WHICH, 6000, NT, do_model=False)
    drv.d2_random(ctx, WHICH, NT, 600, do_model=False)


def run(ctx) -> int:
    proof = common.proof_stage(ctx.pid)
    overlapping_runs(ctx)
    drv.d1(ctx, WHICH, 20000 if ctx.thorough else 5000, NT)
    done = drv.d2_trees(ctx, WHICH, NT, 4000 if ctx.thorough else 300)
    if done:
        ctx.exhaustive.append("every verdict sequence of the removal strategies on the SMALL inputs")
    drv.d2_random(ctx, WHICH, NT, 3000 if ctx.thorough else 900)
    drv.d2_content_oracles(ctx, WHICH, NT)
    links_and_second_pass(ctx)
    drv.d2_touching_test(ctx, WHICH, 600 if ctx.thorough else 150)
    return common.decide(ctx, proof, RULE, search=search, assumptions=["SHA-512 is modelled as the identity (collision freedom)"])


replay = drv.replay_case
