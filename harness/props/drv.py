"""shared body of the driver-level checks C01, C02, C11, C12:
D1 = scripted strategy x scripted test on a real Lithium object (1-3 run() calls),
D2 = the seven real strategies (+move) x five splitters under verdict trees / random verdicts / aborts,
both compared with the model's `world` command and fed to the property's monitor."""
from __future__ import annotations

from .. import common, driver, scripts

STRATS = [
    ("minimize", {}), ("minimize", {"minimize_repeat": "always"}), ("minimize", {"minimize_repeat": "never", "minimize_min": 2, "minimize_max": 2}),
    ("minimize-around", {}), ("minimize-balanced", {}), ("minimize-balanced", {"use_experimental_move": True}),
    ("minimize-collapse-brace", {}), ("replace-properties-by-globals", {}), ("replace-arguments-by-globals", {}),
    ("check-only", {}),
]

INPUTS = {
    "line": [b"a\nb\n{\n}\nc\n", b"x\n{\nx\n}\na\na\na\na\n", b"{\n}\na\n", b"{\na\nb\n}\n", b"x\n(\na\nb\nc\n)\n", b"x\nDDBEGIN\na\na\n{\n\n}\nDDEND\ny\n", b"function foo(a,b) {\n  list = a + b;\n}\nfoo(2, 3)\n",
             b"function Foo() {\n  this.list = [];\n}\nFoo.prototype.push = function(a) {\n  this.list.push(a);\n}\n",
             b"(function (a, b) {\n  return a + b;\n})(1, 2);\nvar z = (function (c) { return c; })(3);\n"],
    "char": [b"ab{}c", b"q\nDDBEGIN\nabab\r\nDDEND\n"],
    "symbol": [b"a;b{c}d;", b"f(a){\n \n};g[1]=2;\n"],
    "jsstr": [b"x = 'ab\\x41' + \"c\";\n", b"'a' + 'a' + \"a\"\n"],
    "attrs": [b"<a b=\"c\" d=e f><g h='i'>\n", b"<p a=1 a=1>\n", b"<img src=\"x\" alt='y' /><br/>\n<a b=cd"],
}
SMALL = {"line": [b"a\nb\n", b"a\na\nb\n", b"{\n\n}\n", b"{\na\nb\n}\n"], "char": [b"aba"], "symbol": [b"a;b;"], "jsstr": [b"'ab'"],
         "attrs": [b"<a b c>"]}


def case_of(f, runs, **kw):
    d = dict(orig=driver.enc_fields(f), runs=[[r["kind"], r["first"], [driver.enc_event(e) for e in r["events"]]] +
                                              ([driver.enc_fields(r["reload"], sep="/")] if r.get("reload") else []) for r in runs])
    d.update(kw)
    return d


def apply_monitors(ctx, which, obs, runs, f, orig, case):
    # the monitors speak about ONE testcase followed through the runs; from the first re-load on (a new job on the same
    # object) the runs are judged by the correspondence with the model and by the whole-run stages (second_job_*)
    cut = next((i for i, r in enumerate(runs) if r.get("reload")), len(runs))
    if cut < len(runs):
        obs, runs = obs[:cut], runs[:cut]
        if not runs:
            return
    if "c01" in which:
        driver.mon_c01(ctx, obs, orig, case)
    if "c02" in which:
        driver.mon_c02(ctx, obs, orig, case)
    if "c11" in which:
        driver.mon_c11(ctx, obs, runs, sum(1 for r in f[2] if r), case)
    if "c12" in which and len(runs) == 1:
        driver.mon_c12(ctx, obs, orig, case)
    if "c12" in which and len(runs) > 1:
        # several runs on one object share the temp directory: after each reducing run 'original' is what that run started from
        start = orig
        for i, (o, r) in enumerate(zip(obs, runs)):
            if r["kind"] == "m" and o.tmp and o.tmp[0][0] == "original" and o.tmp[0][1] != start:
                ctx.fail("original-copy", f"run {i}: 'original' holds {o.tmp[0][1]!r}, the run started from {start!r}", case)
                break
            start = o.disk


def classify(ctx, obs, runs):
    calls = obs[-1].calls
    acc = sum(1 for c in calls if c["out"] == "a")
    rej = sum(1 for c in calls if c["out"] == "r")
    ab = any(o.exit == "x" for o in obs)
    ctx.bump("runs:%d" % len(runs))
    if ab:
        ctx.bump("aborted")
    if acc >= 2 and rej >= 1:
        ctx.bump("accept+reject")
    return acc, rej, ab


def d1(ctx, which, n, nontrivial, do_model=True, allow_abort=True):
    rng = ctx.rng
    for _ in range(n):
        f, runs = scripts.rand_script(rng, allow_abort)
        cls = rng.choice(driver.ABORT_CLASSES)
        obs, info = driver.play(f, runs, abort_cls=cls, given_tempdir=rng.random() < 0.3)
        case = case_of(f, runs, abort_class=cls.__name__, stream="D1")
        if do_model:
            ctx.expect("world", driver.model_line(f, runs), " | ".join(o.encode() for o in obs), case)
        else:
            ctx.evaluations += 1
        apply_monitors(ctx, which, obs, runs, f, info["orig"], case)
        acc, rej, ab = classify(ctx, obs, runs)
        if nontrivial(acc, rej, ab, obs, runs):
            ctx.nontriv(case["orig"], repr(case["runs"]))
            ctx.sample(case, limit=3)


def d2_one(ctx, which, name, opts, kind, data, decider, nontrivial, do_model=True, abort_cls=RuntimeError, fail_at=None,
           label="D2"):
    o, f, run = scripts.play_real(name, opts, kind, data, decider, abort_cls=abort_cls, fail_at=fail_at)
    runs = [run]
    case = case_of(f, runs, strategy=name, opts={k: str(v) for k, v in opts.items()}, splitter=kind,
                   data=common.enc_bytes(data), stream=label, fail_at=fail_at, abort_class=abort_cls.__name__)
    if do_model:
        ctx.expect("world", driver.model_line(f, runs), o.encode(), case)
    else:
        ctx.evaluations += 1
    apply_monitors(ctx, which, [o], runs, f, data, case)
    acc, rej, ab = classify(ctx, [o], runs)
    ctx.bump("D2:" + name)
    if nontrivial(acc, rej, ab, [o], runs):
        ctx.nontriv(name, repr(sorted(opts.items())), kind, data, tuple(c["out"] for c in o.calls))
        ctx.sample(dict(strategy=name, splitter=kind, data=common.enc_bytes(data), verdicts="".join(c["out"] for c in o.calls)), limit=6)
    return o


def d2_trees(ctx, which, nontrivial, limit, do_model=True):
    """every verdict sequence for small inputs (complete DFS of the verdict tree)"""
    complete = True
    for name, opts in STRATS:
        if name.startswith("replace"):
            continue
        for kind, datas in SMALL.items():
            for data in datas:
                def run_with(prefix):
                    def dec(k, disk):
                        return "a" if k == 0 or (k - 1 < len(prefix) and prefix[k - 1]) else "r"
                    o = d2_one(ctx, which, name, opts, kind, data, dec, nontrivial, do_model, label="D2-tree")
                    return max(len(o.calls) - 1, 0)
                n, done = scripts.verdict_tree(run_with, limit)
                complete = complete and done
                ctx.bump("tree-leaves", n)
    return complete


def d2_content_oracles(ctx, which, nontrivial, do_model=True):
    """every strategy x every input under DETERMINISTIC tests that look at the content (the usual shape of a real test:
    'the file still contains this line'), not at the position in the run: keep the first / the last / a repeated atom,
    an even length, matching braces"""
    for (name, opts) in STRATS:
        for kind, datas in INPUTS.items():
            for data in datas:
                lines = data.splitlines(keepends=True)
                tokens = {lines[0].strip() or lines[0], lines[-1].strip() or lines[-1]}
                for cand in (b"x", b"a", b"{", b"b"):
                    if cand in data:
                        tokens.add(cand)
                oracles = [("has:" + common.enc_bytes(t), (lambda d, t=t: t in d)) for t in sorted(tokens)]
                oracles.append(("even", lambda d: len(d) % 2 == 0))
                oracles.append(("braces", lambda d: d.count(b"{") == d.count(b"}") and d.count(b"(") == d.count(b")")))
                for oname, fn in oracles:
                    def dec(k, disk, fn=fn):
                        return "a" if k == 0 or fn(disk) else "r"
                    d2_one(ctx, which, name, opts, kind, data, dec, nontrivial, do_model, label="D2-oracle:" + oname)


def d2_random(ctx, which, nontrivial, n, do_model=True, aborts=True):
    rng = ctx.rng
    combos = [(s, k, d) for s in STRATS for k, ds in INPUTS.items() for d in ds]
    for i in range(n):
        (name, opts), kind, data = combos[i % len(combos)] if i < len(combos) else rng.choice(combos)
        p = rng.choice([0.0, 0.2, 0.5, 0.8, 1.0])
        seq = [rng.random() < p for _ in range(400)]
        first = "r" if rng.random() < 0.08 else "a"
        abort_at = rng.randint(0, 12) if (aborts and rng.random() < 0.35) else None
        fail_at = rng.randint(1, 10) if (aborts and rng.random() < 0.15) else None
        cls = rng.choice(driver.ABORT_CLASSES)

        def dec(k, disk, seq=seq, first=first, abort_at=abort_at):
            if abort_at is not None and k == abort_at:
                return "x"
            if k == 0:
                return first
            return "a" if seq[k % len(seq)] else "r"

        d2_one(ctx, which, name, opts, kind, data, dec, nontrivial, do_model, abort_cls=cls, fail_at=fail_at, label="D2-random")


def d2_touching_test(ctx, which, n):
    """the interestingness test's tool rewrites the testcase file in place during some tests (monitors only: the model's
    world has no such writes).  'What the file contained during the test' / 'the accepted version' is what Lithium wrote,
    i.e. what the test found when it started."""
    rng = ctx.rng
    combos = [(s, k, d) for s in STRATS if s[0] != "check-only" for k, ds in INPUTS.items() for d in ds[:2]]
    for i in range(n):
        (name, opts), kind, data = combos[i % len(combos)]
        p = rng.choice([0.2, 0.5, 0.8])
        seq = [rng.random() < p for _ in range(400)]
        tseq = [rng.random() < 0.5 for _ in range(400)]
        abort_at = rng.randint(1, 10) if rng.random() < 0.3 else None

        def dec(k, disk, seq=seq, abort_at=abort_at):
            if abort_at is not None and k == abort_at:
                return "x"
            return "a" if k == 0 or seq[k % len(seq)] else "r"

        o, f, run = scripts.play_real(name, opts, kind, data, dec, touch=lambda k, tseq=tseq: tseq[k % 400])
        case = case_of(f, [run], strategy=name, splitter=kind, data=common.enc_bytes(data), stream="D2-touching-test")
        ctx.evaluations += 1
        ctx.bump("D2-touching-test")
        apply_monitors(ctx, which, [o], [run], f, data, case)


def d2_abort_everywhere(ctx, which, nontrivial, do_model=True):
    """abort (and inject an internal failure) at every test index of a fixed run"""
    rng = ctx.rng
    for name, opts in STRATS:
        for kind, data in (("line", INPUTS["line"][0]), ("char", INPUTS["char"][0]), ("line", b"{\n}\na\n")):
            seq = [rng.random() < 0.5 for _ in range(400)]
            base = d2_one(ctx, which, name, opts, kind, data, lambda k, d: "a" if k == 0 or seq[k] else "r", nontrivial, do_model,
                          label="D2-abort-base")
            for k in range(0, min(len(base.calls), 14)):
                cls = driver.ABORT_CLASSES[k % len(driver.ABORT_CLASSES)]
                d2_one(ctx, which, name, opts, kind, data,
                       lambda j, d, k=k: "x" if j == k else ("a" if j == 0 or seq[j] else "r"),
                       nontrivial, do_model, abort_cls=cls, label="D2-abort")
            for j in range(1, 8):
                d2_one(ctx, which, name, opts, kind, data, lambda k, d: "a" if k == 0 or seq[k] else "r", nontrivial, do_model,
                       fail_at=j, label="D2-internal-failure")


def d2_vanishing_file(ctx, which, n):
    """the interrupted test had moved the testcase file away: when run() is left, the file is back and holds the last
    accepted version (monitors only)"""
    rng = ctx.rng
    combos = [(s, k, d) for s in STRATS if s[0] != "check-only" for k, ds in INPUTS.items() for d in ds[:1]]
    for i in range(n):
        (name, opts), kind, data = combos[i % len(combos)]
        seq = [rng.random() < 0.5 for _ in range(400)]
        abort_at = rng.randint(1, 8)
        cls = driver.ABORT_CLASSES[i % len(driver.ABORT_CLASSES)]

        def dec(k, disk, seq=seq, abort_at=abort_at):
            if k == abort_at:
                return "x"
            return "a" if k == 0 or seq[k % len(seq)] else "r"

        o, f, run = scripts.play_real(name, opts, kind, data, dec, abort_cls=cls, vanish=True)
        case = case_of(f, [run], strategy=name, splitter=kind, data=common.enc_bytes(data), stream="D2-vanishing-file", abort_class=cls.__name__)
        ctx.evaluations += 1
        ctx.bump("D2-vanishing-file")
        if o.exit == "x" and o.exc is not None and not isinstance(o.exc, cls):
            ctx.fail("abort-masked", f"the run was aborted by {cls.__name__} but run() raised {type(o.exc).__name__}: {o.exc}", case)
        apply_monitors(ctx, which, [o], [run], f, data, case)


def d2_move_aborts(ctx, which, nontrivial, maxlen, do_model=True):
    """minimize-balanced with the experimental move: EVERY verdict sequence of up to `maxlen` tests on two small bracketed
    files, followed by an abort in the next test (an accepted move directly before the abort included)"""
    import itertools
    move = ("minimize-balanced", {"use_experimental_move": True})
    for data in (b"{\na\nb\n}\n", b"x\n(\na\n)\ny\n"):
        for L in range(1, maxlen + 1):
            for i, bits in enumerate(itertools.product("ar", repeat=L)):
                cls = driver.ABORT_CLASSES[(i + L) % len(driver.ABORT_CLASSES)]

                def dec(k, disk, bits=bits, L=L):
                    if k == 0:
                        return "a"
                    if k <= L:
                        return bits[k - 1]
                    return "x" if k == L + 1 else "r"

                d2_one(ctx, which, move[0], move[1], "line", data, dec, nontrivial, do_model, abort_cls=cls, label="D2-move-abort")


def replay_case(rec):
    """re-run a recorded D1 case on the real code and the model"""
    c = rec["case"]
    print("recorded case:", c)
    print("re-run the owning check to reproduce (cases are derived from VERIF_SEED=%s)" % rec.get("seed"))
    return 0
