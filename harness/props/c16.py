"""C16 — JS-string and attribute atoms are exactly string characters / attributes.

Correspondence: real `TestcaseJsStr` / `TestcaseAttrs` loaders vs the Lean models, field by field.
Monitor: an independent reference tokenizer for JS strings (exact set of reducible spans) and a
structural specification for attributes (every reducible atom is one complete attribute inside a tag)."""
from __future__ import annotations

import re

from .. import common, loaders
from ..common import enc_bytes

RULE = ("jsstr: every string up to L over {' \" \\\\ x u { } 0 a G LF}; attrs: every string up to L over {< > = ' \" space LF a - : / 1} plus a "
        "grammar-directed stream (tags, attributes with/without value, three quoting styles with the other quote / '>' / spaces inside, junk, "
        "EOF inside a quote) with byte-level mutations; random strings up to 60 bytes; files with DDBEGIN/DDEND; non-trivial = an input with "
        ">= 1 reducible atom and >= 2 atoms; distinct by (splitter, bytes)")

JS = [b"'", b'"', b"\\", b"x", b"u", b"{", b"}", b"0", b"a", b"G", b"\n"]
# upper-case look-alikes of the escape prefixes and hex digits of either case (`\\X41`, `\\U0041` are NOT escapes)
JS2 = [b"'", b"\\", b"X", b"U", b"x", b"A", b"f", b"{", b"}"]
AT = [b"<", b">", b"=", b"'", b'"', b" ", b"\n", b"a", b"-", b":", b"/", b"1"]
# a second, coarser alphabet with a backslash (HTML has no backslash escapes: a quote after one still closes the value)
AT2 = [b"<a", b">", b" b=", b'"', b"'", b"\\", b" ", b"c"]

HEX = b"0123456789abcdefABCDEF"


def js_token_end(data, k):
    """end of the token starting at k: \\uHHHH | \\xHH | \\u{H+} | \\. | . (hand-written, no `re`)"""
    if data[k] != 0x5C:
        return k + 1
    r = data[k + 1:]
    if r[:1] == b"u" and len(r) >= 5 and all(c in HEX for c in r[1:5]):
        return k + 6
    if r[:1] == b"x" and len(r) >= 3 and all(c in HEX for c in r[1:3]):
        return k + 4
    if r[:2] == b"u{":
        j = 2
        while j < len(r) and r[j] in HEX:
            j += 1
        if j > 2 and r[j:j + 1] == b"}":
            return k + 1 + j + 1
    if len(r) >= 1:
        return k + 2
    return k + 1


def spec_js(data):
    """spans of the characters / complete escapes inside properly terminated strings"""
    spans, i, n = [], 0, len(data)
    while True:
        j = next((k for k in range(i, n) if data[k] in (0x27, 0x22)), None)
        if j is None:
            break
        q = data[j]
        k, toks, closed = j + 1, [], False
        while k < n:
            e = js_token_end(data, k)
            if e == k + 1 and data[k] == q:
                closed, k = True, e
                break
            toks.append((k, e))
            k = e
        if closed:
            spans += toks
            i = k
        else:
            i = j + 1      # an opening quote that is never closed is ordinary text
    return spans


def reducible_spans(t):
    pos, out = len(t.before), []
    for p, r in zip(t.parts, t.reducible):
        if r:
            out.append((pos, pos + len(p)))
        pos += len(p)
    return out


IS_ATTR = re.compile(rb"[ \t\n\r\f\v]*[A-Za-z][A-Za-z0-9:-]*(?:=(?:\"[^\"]*\"|'[^']*'|(?!['\"])[^ \t\n\r\f\v>]*))?\Z")
TAG_OPEN_END = re.compile(rb"<[ \t\n\r\f\v]*[A-Za-z][A-Za-z-]*\Z")


def check_attrs(ctx, data, t, case):
    in_tag = False
    for k, (p, r) in enumerate(zip(t.parts, t.reducible)):
        if r:
            # complete also means: not continued — an unquoted value runs up to white space or '>'
            nxt = b"".join(t.parts[k + 1:])[:1]
            if b"=" in p and p[-1:] not in b"\"'" and p[-1:] != b"=" and nxt and nxt not in b" \t\r\n\f\v>":
                ctx.fail("attr-not-an-attribute", f"reducible atom {p!r} is a fragment: its unquoted value continues with {nxt!r} (parts={t.parts!r})", case)
                return
            if not IS_ATTR.match(p):
                ctx.fail("attr-not-an-attribute", f"reducible atom {p!r} is not one complete attribute (parts={t.parts!r})", case)
                return
            if not in_tag:
                ctx.fail("attr-outside-tag", f"reducible atom {p!r} does not lie inside a tag (parts={t.parts!r})", case)
                return
        else:
            if TAG_OPEN_END.search(p):
                in_tag = True
            elif p.endswith(b">"):
                in_tag = False


def one(ctx, kind, data, do_model=True, region_only=None):
    res = loaders.real_load(kind, data)
    case = dict(splitter=kind, data=enc_bytes(data))
    if do_model:
        ctx.expect("load", loaders.load_cmd(kind, data), loaders.enc_load(res), case)
    else:
        ctx.evaluations += 1
    if res[0] != "ok":
        if res[1].startswith("internal"):
            ctx.fail("load-raises", f"{kind}: {res[1]}: {res[2]!r}", case)
        return
    t = res[1]
    if t.before + b"".join(t.parts) + t.after != data or len(t.parts) != len(t.reducible):
        ctx.fail("roundtrip", f"{kind}: before+parts+after != data", case)
        return
    if kind == "jsstr":
        if b"DDBEGIN" in data or b"DDEND" in data:
            from . import c08
            sp = c08.spec(data)
            off, region = len(sp[1]), sp[2]
            want = [(a + off, b + off) for a, b in spec_js(region)]
        else:
            want = spec_js(data)
            if do_model:
                # the Lean reference segmentation (the `strChars` of theorem C16_js_exact) against this independent tokenizer
                ctx.expect("jsspec", "jsspec " + enc_bytes(data), ",".join(f"{a}:{b - a}" for a, b in want) + ".", dict(case, what="reference segmentation"))
        got = reducible_spans(t)
        if got != want:
            ctx.fail("js-atoms", f"reducible spans {got} of {data!r}; the reference tokenizer gives {want} "
                     f"({[data[a:b] for a, b in want]})", case)
    else:
        check_attrs(ctx, data, t, case)
    # the same bytes through an object that has loaded other files before: the atoms and their flags belong to THIS file
    _count[0] += 1
    if not ctx.thorough and _count[0] % (32 if len(data) < 6 else 3):
        obj = None      # quick tier: one in 32 of the short exhaustive strings, one in 3 of the longer documents
    else:
        obj = _reused.get(kind)
        if obj is None:
            obj = _reused[kind] = loaders.new_testcase(kind)
    rp = loaders.scratch() / "c16-reuse.txt"
    try:
        if obj is None:
            raise StopIteration
        rp.write_bytes(data)
        obj.load(rp)
        if (obj.before, obj.parts, obj.reducible, obj.after) != (t.before, t.parts, t.reducible, t.after):
            ctx.fail("reuse", f"{kind}: an object that loaded other files before gives atoms/flags {list(zip(obj.parts, obj.reducible))!r}, "
                     f"a fresh one {list(zip(t.parts, t.reducible))!r}", dict(case, reused_object=True))
    except StopIteration:
        pass
    except Exception as exc:  # pylint: disable=broad-except
        _reused[kind] = None
        ctx.fail("reuse", f"{kind}: a re-used object raised {type(exc).__name__} where a fresh one loads", dict(case, reused_object=True))
    nred = sum(1 for r in t.reducible if r)
    ctx.bump(f"{kind}:reducible-atoms", nred)
    if nred >= 1 and len(t.parts) >= 2:
        ctx.nontriv(kind, data)
        ctx.bump(f"{kind}:nontrivial")
        ctx.sample(dict(case, parts=[p.decode('latin1') for p in t.parts][:12], flags=common.enc_bools(t.reducible)), limit=6)


def gen_tag(rng):
    def name():
        return bytes(rng.choice(b"abXY") for _ in range(rng.randint(1, 3))) + rng.choice([b"", b"", b"-x", b":y", b"1"])

    def value():
        c = rng.random()
        inner = b"".join(rng.choice([b"a", b" ", b">", b"=", b"<", b"b c", b"/", b"\\", b"C:\\t\\"]) for _ in range(rng.randint(0, 4)))
        if c < 0.3:
            return b'"' + inner.replace(b'"', b"") + rng.choice([b"", b"'", b"it's"]) + b'"'
        if c < 0.6:
            return b"'" + inner.replace(b"'", b"") + rng.choice([b"", b'"', b'say "x"']) + b"'"
        if c < 0.8:
            return rng.choice([b"v", b"1", b"a/b", b"x'y", b'q"r', b"a=b"])
        if c < 0.9:
            return b""
        return rng.choice([b'"unterminated', b"'open"])

    out = [b"<", rng.choice([b"", b" ", b"\n"]), rng.choice([b"a", b"div", b"my-tag", b"svg:g", b"1a", b""])]
    for _ in range(rng.randint(0, 4)):
        c = rng.random()
        if c < 0.15:
            out.append(rng.choice([b" /garbage", b" =", b' "x"', b"/", b" 1a=2", b"\n-", b" \n"]))
        else:
            out.append(rng.choice([b" ", b"\n", b"  ", b"\t", b""]) + name())
            if rng.random() < 0.75:
                out.append(b"=" + value())
    out.append(rng.choice([b">", b" >", b"/>", b"", b"\n>"]))
    return b"".join(out)


def gen_doc(rng):
    pieces = []
    for _ in range(rng.randint(1, 3)):
        pieces.append(rng.choice([b"", b"text ", b"a > b ", b"x=1 ", b"\n"]))
        pieces.append(gen_tag(rng))
    pieces.append(rng.choice([b"", b"tail", b"</a>", b"<"]))
    d = bytearray(b"".join(pieces))
    if d and rng.random() < 0.3:
        for _ in range(rng.randint(1, 2)):
            if not d:
                break
            i = rng.randrange(len(d))
            c = rng.random()
            if c < 0.4:
                del d[i]
            elif c < 0.8:
                d[i] = rng.choice(b"<>='\" \na-:/1")
            else:
                d.insert(i, rng.choice(b"<>='\" \na"))
    return bytes(d)


def gen_js(rng):
    pieces = [b"'", b'"', b"\\", b"\\u1234", b"\\x4", b"\\x41", b"\\u{1F}", b"\\u{", b"\\u12", b"\\'", b'\\"', b"\\\\", b"a", b"b ", b"\n", b"x=", b";",
              b"\\X41", b"\\U0041", b"\\U{1F}", b"\\xAf", b"\\uABcd", b"\\xg1", b"\\u{1G}",
              b"\\u{0000041}", b"\\u{00000000000000041}", b"\\u{10FFFF}", b"\\u{0000041",
              b"{", b"}", b"G", b"\xff", b"\xc3\xa9"]
    return b"".join(rng.choice(pieces) for _ in range(rng.randint(0, 14)))


_reused = {}
_count = [0]


def through_rewriting(ctx):
    """the two rewriting strategies edit reducible atoms in place: in every candidate the flag layout is the original's and
    every part that is NOT reducible (quotes and text between strings; tag names, '>' and text between tags) has its bytes"""
    from .. import strat
    datas = {"jsstr": [b'a.b = "x.y"; size = \'w.h\' + c.d.e;\nfunction f(p, q) { return p.r + "q.s"; }\nf(t.u, "v");\n',
                       b'o.p("k.l", \'m\');\nfunction g(a){ return a.z; }\ng(o.p);\n'],
             "attrs": [b'<p onclick="a.b = c.d" id=x.y>\nsee help.txt or w.z\n<q r="e.f(g.h)" s>t.u</q>\n',
                       b"<a href='x.y.z' b=c.d>\nfunction f(p){}\nf(k.l)\n<e f=g.h>\n"]}
    for kind, ds in datas.items():
        for data in ds:
            res = loaders.real_load(kind, data)
            if res[0] != "ok":
                continue
            f = strat.fields(res[1])
            for name in ("replace-properties-by-globals", "replace-arguments-by-globals"):
                for label, dec in (("yes", lambda k, c: True), ("no", lambda k, c: False), ("alt", lambda k, c: k % 2 == 0), ("alt'", lambda k, c: k % 2 == 1)):
                    tc = strat.testcase_from_fields(kind, f)
                    run = strat.run_real(name, {}, tc, dec, max_tests=400, watchdog=10.0)
                    ctx.evaluations += 1
                    ctx.bump("through-rewriting:" + kind)
                    case = dict(splitter=kind, data=common.enc_bytes(data), via=name, verdicts=label)
                    for a in run.atts + [dict(cand=run.best)]:
                        c = a["cand"]
                        if list(c[2]) != list(f[2]):
                            ctx.fail("rewriting-changes-flags", f"{name} on a {kind} file: a candidate has flags {common.enc_bools(c[2])}, the file was "
                                     f"split with flags {common.enc_bools(f[2])} (parts {c[1]!r})", case)
                            break
                        bad = [(x, y) for x, y, r in zip(f[1], c[1], f[2]) if not r and x != y]
                        if bad or c[0] != f[0] or c[3] != f[3]:
                            ctx.fail("rewriting-touches-protected", f"{name} on a {kind} file rewrote text that is not an atom: {bad[:2]!r}", case)
                            break


def through_minimize(ctx):
    """the chunk-removal strategies on --js / --attrs files with SEVERAL strings / tags: every candidate is the file with
    string characters / attributes deleted — the quotes, the text between strings, tag names and '>' stay where they are"""
    from .. import strat
    rng = ctx.rng
    datas = {"jsstr": [b"f('abc', \"de\" + 'f\\x41j');\ng(\"hi\", 'k');\n", b"a = 'xy';\nb = \"z\" + 'w' + \"v\";\nc = 'u';\n"],
             "attrs": [b"<div id=\"a\" class='b'><p y='2' hidden z=3>t</p><q w=\"1\">\n", b"<a b=1 c=2><d e=3 f=4><g h=5>\n"]}
    for kind, ds in datas.items():
        for data in ds:
            res = loaders.real_load(kind, data)
            if res[0] != "ok":
                continue
            f = strat.fields(res[1])
            fixed = [p for p, r in zip(f[1], f[2]) if not r]
            for name in ("minimize", "minimize-around", "minimize-balanced"):
                for cfg in ({}, {"max": 2}, {"min": 2, "max": 4}):
                    for p in (0.0, 0.4, 1.0):
                        seq = [rng.random() < p for _ in range(97)]
                        tc = strat.testcase_from_fields(kind, f)
                        run = strat.run_real(name, cfg, tc, lambda k, c, seq=seq: seq[k % 97], max_tests=3000)
                        ctx.evaluations += 1
                        ctx.bump("through-minimize:" + kind)
                        case = dict(splitter=kind, data=common.enc_bytes(data), via=name, cfg=cfg)
                        for a in run.atts + [dict(cand=run.best)]:
                            c = a["cand"]
                            if [p_ for p_, r in zip(c[1], c[2]) if not r] != fixed or c[0] != f[0] or c[3] != f[3]:
                                ctx.fail("protected-part-lost", f"{name} on a {kind} file: a candidate has the non-reducible parts "
                                         f"{[p_ for p_, r in zip(c[1], c[2]) if not r]!r}, the file was split with {fixed!r}", case)
                                break
                            atoms_left = [p_ for p_, r in zip(c[1], c[2]) if r]
                            orig_atoms = [p_ for p_, r in zip(f[1], f[2]) if r]
                            it = iter(orig_atoms)
                            if not all(any(x == y for y in it) for x in atoms_left):
                                ctx.fail("protected-part-lost", f"{name} on a {kind} file: the reducible atoms {atoms_left!r} of a candidate are not a "
                                         f"subsequence of the original's", case)
                                break


def through_collapse(ctx):
    """the atoms stay exactly string characters / attributes while minimize-collapse-brace works on the file: what is
    reducible in every candidate (in particular in the testcase re-split after a brace collapse) is what the reference
    tokenizer finds in that candidate's own bytes"""
    from .. import strat
    rng = ctx.rng
    datas = {"jsstr": [b'var a = "abXd"; function f() {\n}\nvar b = "efYh";\n', b"s = 'a{ }b' + \"c\"; if (x) {\n \n}\nt = 'd';\n",
                       b'// DDBEGIN\nu = "p"; g{\n\n}; v = \'qr\';\n// DDEND\n'],
             "attrs": [b'<a b="1" c=\'{ }\'>{\n}<d e=f g>\n', b"<p q=r>\n{\n \n}\n<s t='u' v>\n"]}
    for kind, ds in datas.items():
        for data in ds:
            res = loaders.real_load(kind, data)
            if res[0] != "ok":
                continue
            f = strat.fields(res[1])
            for p in (0.3, 0.6, 0.9):
                for _rep in range(3):
                    seq = [rng.random() < p for _ in range(97)]
                    tc = strat.testcase_from_fields(kind, f)
                    tc.filename = str(loaders.scratch() / ("c16-collapse" + (".js" if kind == "jsstr" else ".html")))
                    run = strat.run_real("minimize-collapse-brace", {}, tc, lambda k, c, seq=seq: seq[k % 97] or (b"{ }" in c and k < 30),
                                         max_tests=2000)
                    ctx.evaluations += 1
                    ctx.bump("through-collapse:" + kind)
                    if run.error:
                        continue
                    for a in run.atts:
                        if a["tag"] != 3:
                            continue    # only the re-split testcase is a fresh tokenisation of its own bytes
                        c = a["cand"]
                        whole = c[0] + b"".join(c[1]) + c[3]
                        case = dict(splitter=kind, data=common.enc_bytes(whole), via="minimize-collapse-brace re-split", original=common.enc_bytes(data))
                        t = strat.mk_like(tc, c)
                        if kind == "jsstr":
                            body = whole
                            if b"DDBEGIN" in whole:
                                lines = loaders.py_splitlines(whole)
                                i = next(k for k, l in enumerate(lines) if b"DDBEGIN" in l)
                                j = next(k for k in range(i + 1, len(lines)) if b"DDEND" in lines[k])
                                off = len(b"".join(lines[: i + 1]))
                                want = [(x + off, y + off) for x, y in spec_js(b"".join(lines[i + 1: j]))]
                            else:
                                want = spec_js(body)
                            got = reducible_spans(t)
                            ctx.bump("through-collapse:resplit-checked")
                            if got != want:
                                ctx.fail("js-atoms", f"after a brace collapse the re-split testcase has reducible spans {got} of {whole!r}; "
                                         f"the reference tokenizer gives {want}", case)
                        else:
                            check_attrs(ctx, whole, t, case)
                            ctx.bump("through-collapse:resplit-checked")


def search(ctx):
    for d in loaders.all_strings(JS, 5):
        one(ctx, "jsstr", d, do_model=False)
    for d in loaders.all_strings(AT, 5):
        one(ctx, "attrs", d, do_model=False)
    for d in loaders.all_strings(AT2, 5):
        one(ctx, "attrs", d, do_model=False)
    for _ in range(60000):
        one(ctx, "attrs", gen_doc(ctx.rng), do_model=False)
        one(ctx, "jsstr", gen_js(ctx.rng), do_model=False)


def run(ctx) -> int:
    proof = common.proof_stage(ctx.pid)
    L = 6 if ctx.thorough else 5
    for d in loaders.all_strings(JS, L):
        one(ctx, "jsstr", d)
    for d in loaders.all_strings(JS2, L - 1):
        one(ctx, "jsstr", b"'" + d + b"'")
    for d in loaders.all_strings(AT, L):
        one(ctx, "attrs", d)
    for d in loaders.all_strings(AT2, 6 if ctx.thorough else 4):
        one(ctx, "attrs", d)
    ctx.exhaustive.append(f"every string up to length {L} over the 11-symbol JS alphabet and the 12-symbol attribute alphabet")
    rng = ctx.rng
    for _ in range(120000 if ctx.thorough else 15000):
        one(ctx, "attrs", gen_doc(rng))
        one(ctx, "jsstr", gen_js(rng))
    through_collapse(ctx)
    through_rewriting(ctx)
    through_minimize(ctx)
    for _ in range(3000 if ctx.thorough else 600):
        body = gen_js(rng).replace(b"DDBEGIN", b"").replace(b"DDEND", b"")
        one(ctx, "jsstr", b"pre 'x'\n// DDBEGIN\n" + body + b"\n// DDEND '\npost\"\n")
        one(ctx, "attrs", b"<p a=1>\nDDBEGIN\n" + gen_doc(rng).replace(b"DD", b"") + b"\nDDEND <q r=s>\n")
    return common.decide(ctx, proof, RULE, search=search,
                         assumptions=["C16_js_spec-style equality with the reference tokenizer is checked by the monitor (exhaustively up to the "
                                      "stated length); the Lean theorems cover the model's round trip and flag discipline"])


def replay(rec) -> int:
    ctx = common.Ctx("C16", "quick", 0)
    c = rec["case"]
    data = bytes.fromhex(c["data"]) if c["data"] != "-" else b""
    one(ctx, c["splitter"], data)
    ctx.flush()
    print("real:", loaders.enc_load(loaders.real_load(c["splitter"], data)))
    if c["splitter"] == "jsstr":
        print("reference spans:", spec_js(data))
    print("monitor failures:", ctx.failures)
    print("disagreements:", ctx.disagreements)
    return 1 if ctx.failures or ctx.disagreements else 0
