"""C01 — the final file is exactly the last version the test accepted."""
from .. import common
from . import drv

RULE = ("D1: random scripts of 1-3 run() calls on one Lithium object (proposals unrelated to best, duplicates, direct file writes, "
        "strategy failures, aborts) ; D2: 7 real strategies (+move, option variants) x 5 splitters under complete verdict trees for "
        "small inputs and random verdict sequences; non-trivial = a run with >= 2 accepted and >= 1 rejected candidates; distinct by (script) / "
        "(strategy, options, input, verdict sequence)")
NT = lambda acc, rej, ab, obs, runs: acc >= 2 and rej >= 1
WHICH = ("c01",)


def search(ctx):
    drv.d1(ctx, WHICH, 6000, NT, do_model=False)
    drv.d2_random(ctx, WHICH, NT, 600, do_model=False)


def run(ctx) -> int:
    proof = common.proof_stage(ctx.pid)
    drv.d1(ctx, WHICH, 20000 if ctx.thorough else 5000, NT)
    done = drv.d2_trees(ctx, WHICH, NT, 4000 if ctx.thorough else 300)
    if done:
        ctx.exhaustive.append("every verdict sequence of the removal strategies on the SMALL inputs (complete verdict trees)")
    drv.d2_random(ctx, WHICH, NT, 3000 if ctx.thorough else 900, aborts=False)
    drv.d2_content_oracles(ctx, WHICH, NT)
    drv.d2_touching_test(ctx, WHICH, 600 if ctx.thorough else 150)
    return common.decide(ctx, proof, RULE, search=search,
                         assumptions=["candidate construction of the two rewriting strategies is not modelled: for them 'a rejected candidate never becomes the basis of later candidates' is the iterator-level theorem C01_best_is_last_accepted plus the monitor"])


replay = drv.replay_case
