"""C01 — the final file is exactly the last version the test accepted."""
from .. import common
from . import drv

RULE = ("D1: random scripts of 1-3 run() calls on one Lithium object (proposals unrelated to best, duplicates, direct file writes, "
        "strategy failures, aborts) ; D2: 7 real strategies (+move, option variants) x 5 splitters under complete verdict trees for "
        "small inputs and random verdict sequences; non-trivial = a run with >= 2 accepted and >= 1 rejected candidates; distinct by (script) / "
        "(strategy, options, input, verdict sequence)")
NT = lambda acc, rej, ab, obs, runs: acc >= 2 and rej >= 1
WHICH = ("c01",)


def odd_places_and_hooks(ctx):
    """whole `Lithium.main` runs in two set-ups a harness can produce: (1) the testcase lives INSIDE the --tempdir under a
    name Lithium itself uses there (re-reducing `tmp1/2-interesting.txt` with `--tempdir tmp1`); (2) the condition script
    has init()/cleanup() hooks that save the file and put the saved bytes back.  The file ends as the last accepted version"""
    import contextlib
    import io
    import os
    import shutil
    import sys
    from lithium.reducer import Lithium
    from .. import loaders

    d = loaders.scratch() / "c01-odd"
    if d.exists():
        shutil.rmtree(d)
    d.mkdir()
    (d / "c01_odd.py").write_text(
        "import os\nSAVED = {}\nACCEPTED = []\n"
        "def init(args):\n    if os.environ.get('C01_HOOKS'):\n        SAVED['orig'] = open(args[-1], 'rb').read()\n"
        "def interesting(args, prefix):\n    data = open(args[-1], 'rb').read()\n    v = b'keep' in data and b'x' not in data[:1]\n"
        "    if v:\n        ACCEPTED.append(data)\n    return v\n"
        "def cleanup(args):\n    if os.environ.get('C01_HOOKS'):\n        open(args[-1], 'wb').write(SAVED['orig'])\n")
    cwd = os.getcwd()
    os.chdir(d)
    try:
        for scenario in ("inside-tempdir", "hooks-restore-file", "second-job", "second-job-rejected"):
            for flag in ("--lines", "--char"):
                for strategy in ("minimize", "minimize-around", "minimize-balanced"):
                    td = d / "tmp1"
                    if td.exists():
                        shutil.rmtree(td)
                    td.mkdir()
                    tc = (td / "2-interesting.txt") if scenario == "inside-tempdir" else (d / "tc.txt")
                    data = b"a\nb\nkeep\nc\nd\ne\n"
                    tc.write_bytes(data)
                    sys.modules.pop("c01_odd", None)
                    if scenario == "hooks-restore-file":
                        os.environ["C01_HOOKS"] = "1"
                    argv = [flag, "--strategy=" + strategy, "--tempdir=" + str(td), "c01_odd.py", str(tc)]
                    case = dict(cli=True, argv=argv[:-1], scenario=scenario, data=common.enc_bytes(data))
                    res = None
                    try:
                        with contextlib.redirect_stdout(io.StringIO()), contextlib.redirect_stderr(io.StringIO()):
                            lith = Lithium()
                            if scenario.startswith("second-job"):
                                # the same object has done another job before; the file now holds a new testcase
                                lith.main(argv)
                                data = b"x\nq\nr\n" if scenario.endswith("rejected") else b"p\nkeep\nq\nr\ns\n"
                                tc.write_bytes(data)
                                sys.modules["c01_odd"].ACCEPTED.clear()
                            res = lith.main(argv)
                    except (Exception, SystemExit) as exc:  # pylint: disable=broad-except
                        res = f"{type(exc).__name__}: {exc}"
                    finally:
                        os.environ.pop("C01_HOOKS", None)
                    ctx.evaluations += 1
                    ctx.bump("odd-places-and-hooks")
                    accepted = sys.modules["c01_odd"].ACCEPTED if "c01_odd" in sys.modules else []
                    final = tc.read_bytes() if tc.exists() else None
                    if scenario == "second-job-rejected":
                        accepted = [data]          # nothing accepted in this run: the file as loaded
                    if not accepted or final != accepted[-1]:
                        ctx.fail("final-not-last-accepted", f"{scenario}: main({argv[:-1]}) -> {res}: the file holds {final!r}, the last version the test "
                                 f"accepted is {accepted[-1] if accepted else None!r}", case)
                    if len(accepted) >= 2:
                        ctx.nontriv("odd", scenario, flag, strategy)
    finally:
        os.chdir(cwd)
        sys.modules.pop("c01_odd", None)


def search(ctx):
    drv.d1(ctx, WHICH, 6000, NT, do_model=False)
    drv.d2_random(ctx, WHICH, NT, 600, do_model=False)


def run(ctx) -> int:
    proof = common.proof_stage(ctx.pid)
    drv.d1(ctx, WHICH, 20000 if ctx.thorough else 5000, NT)
    done = drv.d2_trees(ctx, WHICH, NT, 4000 if ctx.thorough else 300)
    if done:
        ctx.exhaustive.append("every verdict sequence of the removal strategies on the SMALL inputs (complete verdict trees)")
    drv.d2_random(ctx, WHICH, NT, 3000 if ctx.thorough else 900, aborts=False)
    drv.d2_content_oracles(ctx, WHICH, NT)
    drv.d2_touching_test(ctx, WHICH, 600 if ctx.thorough else 150)
    odd_places_and_hooks(ctx)
    return common.decide(ctx, proof, RULE, search=search,
                         assumptions=["candidate construction of the two rewriting strategies is not modelled: for them 'a rejected candidate never becomes the basis of later candidates' is the iterator-level theorem C01_best_is_last_accepted plus the monitor"])


replay = drv.replay_case
